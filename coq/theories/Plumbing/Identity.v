(* Executable model of internal/plumbing/identity/identity.go:
     Detector.GeneratePeopleDict (both modes, repository WITHOUT a .mailmap file) and Detector.Consume.
   Definitions only; the proofs are in IdentityProofs.v.

   A commit is the pair (Author.Name, Author.Email) of byte strings.  [lower] stands for
   strings.ToLower; every theorem holds for an arbitrary function, the replay instantiates it with
   ASCII lower-casing (IdStr.lower_ascii), which is what strings.ToLower does on the generated
   strings (ASCII plus valid UTF-8 of characters without an upper-case/lower-case distinction).

   Go state                         model
   dict   map[string]int            list (str * nat)  in first-insertion order (iteration order is a choice)
   names, emails  map[int][]string  devs : list (list str * list str), position = developer id
                                    (the maps' keys are exactly 0 .. size-1: an entry is created in the
                                     branch that increments size and in no other place)
   size                             length devs  (non-exact mode) / an explicit counter (exact mode)  *)
From Coq Require Import List ZArith Bool.
From Herc Require Import Plumbing.IdStr.
Import ListNotations.

Notation commit := (list Z * list Z)%type (only parsing).   (* Author.Name, Author.Email *)

Definition c_name (c : commit) : str := fst c.
Definition c_email (c : commit) : str := snd c.

Section Lower.
  Variable lower : str -> str.

  (* ---------- non-exact mode ---------- *)
  Record gst := mkG { g_dict : list (str * nat); g_devs : list (list str * list str) }.

  Definition g_init : gst := mkG [] [].

  Fixpoint add_name (devs : list (list str * list str)) (id : nat) (n : str) :=
    match devs, id with
    | [], _ => []
    | (ns, es) :: r, O => (ns ++ [n], es) :: r
    | d :: r, S j => d :: add_name r j n
    end.
  Fixpoint add_email (devs : list (list str * list str)) (id : nat) (e : str) :=
    match devs, id with
    | [], _ => []
    | (ns, es) :: r, O => (ns, es ++ [e]) :: r
    | d :: r, S j => d :: add_email r j e
    end.

  (* the body of "for _, commit := range commits" when !ExactSignatures *)
  Definition g_step (s : gst) (c : commit) : gst :=
    let email := lower (c_email c) in
    let name := lower (c_name c) in
    match sget (g_dict s) email with
    | Some id =>
        match sget (g_dict s) name with
        | Some _ => s
        | None => mkG (sset (g_dict s) name id) (add_name (g_devs s) id name)
        end
    | None =>
        match sget (g_dict s) name with
        | Some id => mkG (sset (g_dict s) email id) (add_email (g_devs s) id email)
        | None =>
            let size := length (g_devs s) in
            mkG (sset (sset (g_dict s) email size) name size) (g_devs s ++ [([name], [email])])
        end
    end.

  Definition g_run (cs : list commit) : gst := fold_left g_step cs g_init.

  (* strings.Join(names[val], "|") + "|" + strings.Join(emails[val], "|") after sort.Strings on both *)
  Definition describe (d : list str * list str) : str :=
    join (sort_str (fst d)) ++ bar :: join (sort_str (snd d)).

  (* reverseDict := make([]string, size); for _, val := range dict { reverseDict[val] = describe val }
     [order] is Go's iteration order over the map *)
  Definition g_reverse (order : list (str * nat) -> list (str * nat)) (s : gst) : list str :=
    fold_left (fun rd kv => upd rd (snd kv) (describe (nth (snd kv) (g_devs s) ([], []))))
              (order (g_dict s)) (repeat [] (length (g_devs s))).

  (* ---------- exact mode ---------- *)
  (* object.Signature.String() = fmt.Sprintf("%s <%s>", Name, Email) *)
  Definition sig_string (c : commit) : str := c_name c ++ [32%Z; 60%Z] ++ c_email c ++ [62%Z].

  Record xst := mkX { x_dict : list (str * nat); x_size : nat }.

  Definition x_step (s : xst) (c : commit) : xst :=
    let sig := lower (sig_string c) in
    match sget (x_dict s) sig with
    | Some _ => s
    | None => mkX (sset (x_dict s) sig (x_size s)) (S (x_size s))
    end.

  Definition x_run (cs : list commit) : xst := fold_left x_step cs (mkX [] 0).

  (* for key, val := range dict { reverseDict[val] = key } *)
  Definition x_reverse (order : list (str * nat) -> list (str * nat)) (s : xst) : list str :=
    fold_left (fun rd kv => upd rd (snd kv) (fst kv)) (order (x_dict s)) (repeat [] (x_size s)).

  (* ---------- GeneratePeopleDict: (PeopleDict, ReversedPeopleDict) ----------
     None = Go panics: "commits[len(commits)-1]" (where the .mailmap is looked for) is out of range
     for an empty commit list.  The .mailmap lookup itself fails on the modelled repositories. *)
  Definition generate_people_dict (exact : bool) (order : list (str * nat) -> list (str * nat))
             (cs : list commit) : option (list (str * nat) * list str) :=
    match cs with
    | [] => None
    | _ :: _ =>
        if exact then let s := x_run cs in Some (x_dict s, x_reverse order s)
        else let s := g_run cs in Some (g_dict s, g_reverse order s)
    end.

  (* ---------- Consume ---------- *)
  Definition author_missing : Z := 262142%Z.      (* (1 << 18) - 2 *)

  Definition lookup_author (exact : bool) (dict : list (str * nat)) (c : commit) : option nat :=
    if exact then sget dict (lower (sig_string c))
    else match sget dict (lower (c_email c)) with
         | Some id => Some id
         | None => sget dict (lower (c_name c))
         end.

  Definition consume (exact : bool) (dict : list (str * nat)) (c : commit) : Z :=
    match lookup_author exact dict c with
    | Some id => Z.of_nat id
    | None => author_missing
    end.

  (* ---------- executable statement of the property on arbitrary outputs (the replay oracle) ----------
     dict / rev / authors are what an implementation returned for the commit list cs. *)

  (* role of a key: was it first seen as a name, as an e-mail (or both, in one commit)? *)
  Fixpoint first_role (cs : list commit) (k : str) : bool * bool :=
    match cs with
    | [] => (false, false)
    | c :: r =>
        let n := str_eqb (lower (c_name c)) k in
        let e := str_eqb (lower (c_email c)) k in
        if n || e then (n, e) else first_role r k
    end.

  Definition keys_of (dict : list (str * nat)) (d : nat) : list str :=
    map fst (filter (fun kv => Nat.eqb (snd kv) d) dict).

  Definition spec_description (exact : bool) (cs : list commit) (dict : list (str * nat)) (d : nat) : str :=
    if exact then match keys_of dict d with [k] => k | _ => [] end
    else describe (filter (fun k => fst (first_role cs k)) (keys_of dict d),
                   filter (fun k => snd (first_role cs k)) (keys_of dict d)).

  Definition key_used (exact : bool) (cs : list commit) (k : str) : bool :=
    if exact then existsb (fun c => str_eqb (lower (sig_string c)) k) cs
    else existsb (fun c => str_eqb (lower (c_name c)) k || str_eqb (lower (c_email c)) k) cs.

  Fixpoint all_pairs {A} (f : A -> A -> bool) (l : list A) : bool :=
    match l with
    | [] => true
    | x :: r => forallb (f x) r && all_pairs f r
    end.

  Fixpoint str_list_eqb (a b : list str) : bool :=
    match a, b with
    | [], [] => true
    | x :: a', y :: b' => str_eqb x y && str_list_eqb a' b'
    | _, _ => false
    end.

  (* total: every author resolves to an index below the number of developers *)
  Definition total_okb (rev : list str) (authors : list Z) : bool :=
    forallb (fun a => (0 <=? a)%Z && (a <? Z.of_nat (length rev))%Z) authors.

  (* same e-mail (same signature in exact mode) -> same developer *)
  Definition same_key (exact : bool) (c1 c2 : commit) : bool :=
    if exact then str_eqb (lower (sig_string c1)) (lower (sig_string c2))
    else str_eqb (lower (c_email c1)) (lower (c_email c2)).

  Definition same_email_okb (exact : bool) (cs : list commit) (authors : list Z) : bool :=
    all_pairs (fun x y => negb (same_key exact (fst x) (fst y)) || (snd x =? snd y)%Z) (combine cs authors).

  (* the dictionary holds exactly the keys in use, with values in range, and every description is the
     one determined by the keys that point to it *)
  Definition description_okb (exact : bool) (cs : list commit) (dict : list (str * nat)) (rev : list str) : bool :=
    all_pairs (fun x y => negb (str_eqb (fst x) (fst y))) dict
    && forallb (fun kv => key_used exact cs (fst kv) && Nat.ltb (snd kv) (length rev)) dict
    && str_list_eqb rev (map (spec_description exact cs dict) (seq 0 (length rev))).

  (* the authors are the ones Consume computes from the dictionary *)
  Definition consume_okb (exact : bool) (cs : list commit) (dict : list (str * nat)) (authors : list Z) : bool :=
    forallb (fun ca => (consume exact dict (fst ca) =? snd ca)%Z) (combine cs authors)
    && Nat.eqb (length cs) (length authors).
End Lower.

(* ---------- instances used by the replay driver ---------- *)
Definition id_order (l : list (str * nat)) : list (str * nat) := l.

Definition gen_ascii (exact : bool) (cs : list commit) : option (list (str * nat) * list str) :=
  generate_people_dict lower_ascii exact id_order cs.
Definition consume_ascii (exact : bool) (dict : list (str * nat)) (c : commit) : Z :=
  consume lower_ascii exact dict c.
Definition total_ok_ascii := total_okb.
Definition same_email_ok_ascii := same_email_okb lower_ascii.
Definition description_ok_ascii := description_okb lower_ascii.
Definition consume_ok_ascii := consume_okb lower_ascii.
