(* C07 - Gallina model of  internal/burndown/file.go  File.Merge / flatten / updateTime  and of
   leaves/burndown.go  BurndownAnalysis.Merge / Fork / packPersonWithTick.

   Definitions only (no proofs): the extracted model must run even when a proof breaks.
   Values are Z; a tracked file is the in-order node list of its red-black tree (key, value)
   ("tree = node list" is the business of C05/C03, this development does not depend on them). *)
From Coq Require Import List ZArith Bool.
Import ListNotations.
Open Scope Z_scope.

Notation node := (Z * Z)%type (only parsing).
Notation nodes := (list (Z * Z)) (only parsing).
Notation report := (Z * Z * Z)%type (only parsing).      (* (currentTime, previousTime, delta) *)

Definition TreeMergeMark : Z := 16383.                    (* (1 << 14) - 1 *)
Definition TreeEnd : Z := 4294967295.                     (* math.MaxUint32 *)
Definition u32 (x : Z) : Z := x mod 4294967296.           (* uint32(x) *)

(* v & TreeMergeMark  and  v & TreeMergeMark == TreeMergeMark   (Go ints: two's complement, as Z.land) *)
Definition tick (v : Z) : Z := Z.land v TreeMergeMark.
Definition mark (v : Z) : bool := tick v =? TreeMergeMark.

Inductive panic_class := PanicNil | PanicLength | PanicPrevMark.
Inductive result (A : Type) := Ok (a : A) | Panic (c : panic_class).
Arguments Ok {A} a.
Arguments Panic {A} c.

(* ---------------------------------------------------------------- flatten *)
(* lines := []; val := MaxUint32
   for every node: for i := uint32(len(lines)); i < node.Key; i++ { lines = append(lines, int(val)) }; val = node.Value *)
Fixpoint flatten_go (ns : nodes) (lines : list Z) (val : Z) : list Z :=
  match ns with
  | [] => lines
  | (k, v) :: r =>
      flatten_go r (lines ++ repeat val (Z.to_nat (k - u32 (Z.of_nat (length lines))))) v
  end.
Definition flatten (ns : nodes) : list Z := flatten_go ns [] TreeEnd.

(* ---------------------------------------------------------------- updateTime *)
Definition update_time (cur prev delta : Z) : result (list report) :=
  if mark prev then
    (if cur =? prev then Ok [] else Panic PanicPrevMark)
  else if mark cur then Ok []                              (* merge mode *)
  else Ok [(cur, prev, delta)].                            (* every attached updater is called with this triple *)

(* ---------------------------------------------------------------- File.Merge, first loop *)
(* the body of  for i, l := range myself  for one line: l is mine, ol the other copy's value *)
Definition step (l ol : Z) : Z :=
  if mark ol then l                                        (* continue *)
  else if mark l || (tick l >? tick ol) then ol            (* myself[i] = ol *)
  else l.

(* one other copy, lengths already checked equal *)
Fixpoint merge_one (myself lines : list Z) : list Z :=
  match myself, lines with
  | l :: ms, ol :: os => step l ol :: merge_one ms os
  | _, _ => myself
  end.

(* for _, other := range others: nil check, flatten, length check, per-line loop *)
Fixpoint merge_others (myself : list Z) (others : list (option (list Z))) : result (list Z) :=
  match others with
  | [] => Ok myself
  | None :: _ => Panic PanicNil
  | Some lines :: r =>
      if Nat.eqb (length myself) (length lines)
      then merge_others (merge_one myself lines) r
      else Panic PanicLength
  end.

(* ---------------------------------------------------------------- File.Merge, second loop *)
(* for i, l := range myself { if l&mark == mark { myself[i] = day; file.updateTime(day, day, 1) } } *)
Fixpoint stamp_pass (day : Z) (myself : list Z) : result (list Z * list report) :=
  match myself with
  | [] => Ok ([], [])
  | l :: r =>
      if mark l then
        match update_time day day 1 with
        | Panic c => Panic c
        | Ok rp =>
            match stamp_pass day r with
            | Panic c => Panic c
            | Ok (r', rps) => Ok (day :: r', rp ++ rps)
            end
        end
      else
        match stamp_pass day r with
        | Panic c => Panic c
        | Ok (r', rps) => Ok (l :: r', rps)
        end
  end.

(* both loops on flattened copies *)
Definition lines_merge (day : Z) (self : list Z) (others : list (option (list Z)))
  : result (list Z * list report) :=
  match merge_others self others with
  | Panic c => Panic c
  | Ok m => stamp_pass day m
  end.

(* ---------------------------------------------------------------- File.Merge, rebuild *)
(* RBTree.Insert on the in-order node list: a no-op when the key exists *)
Fixpoint tree_insert (k v : Z) (ns : nodes) : nodes :=
  match ns with
  | [] => [(k, v)]
  | (k', v') :: r =>
      if k <? k' then (k, v) :: ns
      else if k =? k' then ns
      else (k', v') :: tree_insert k v r
  end.

(* for i, v := range myself { if i == 0 || v != myself[i-1] { tree.Insert(Item{uint32(i), uint32(v)}) } } *)
Fixpoint rebuild_go (i : Z) (prev : option Z) (l : list Z) (t : nodes) : nodes * Z :=
  match l with
  | [] => (t, i)
  | v :: r =>
      let fresh := match prev with None => true | Some p => negb (v =? p) end in
      rebuild_go (i + 1) (Some v) r (if fresh then tree_insert (u32 i) (u32 v) t else t)
  end.
(* ...; tree.Insert(Item{uint32(len(myself)), TreeEnd}) *)
Definition rebuild (l : list Z) : nodes :=
  let '(t, n) := rebuild_go 0 None l [] in tree_insert (u32 n) TreeEnd t.

(* File.Merge on node lists: a nil *File is None *)
Definition file_merge (day : Z) (self : nodes) (others : list (option nodes))
  : result (nodes * list report) :=
  match lines_merge day (flatten self) (map (option_map flatten) others) with
  | Panic c => Panic c
  | Ok (m, reps) => Ok (rebuild m, reps)
  end.

(* ================================================================ analysis level *)
(* A branch (one BurndownAnalysis) as far as Merge is concerned: files = path -> flattened *File
   (absent = nil), merged = its mergedFiles map.  Paths are numbers. *)
Record branch := { files : list (Z * list Z); merged : list (Z * bool) }.

Fixpoint lookup {A} (k : Z) (m : list (Z * A)) : option A :=
  match m with
  | [] => None
  | (k', a) :: r => if k =? k' then Some a else lookup k r
  end.
Fixpoint remove {A} (k : Z) (m : list (Z * A)) : list (Z * A) :=
  match m with
  | [] => []
  | (k', a) :: r => if k =? k' then remove k r else (k', a) :: remove k r
  end.
Definition set {A} (k : Z) (a : A) (m : list (Z * A)) : list (Z * A) := (k, a) :: remove k m.

(* packPersonWithTick *)
Definition pack (people person tk : Z) : Z :=
  if people =? 0 then tk
  else Z.lor (Z.land tk TreeMergeMark) (Z.shiftl person 14).

(* keys[key] = keys[key] || val  over all branches (the absent key reads false) *)
Definition keys_or (ks : list (Z * bool)) (kv : Z * bool) : list (Z * bool) :=
  let '(k, v) := kv in
  match lookup k ks with
  | None => ks ++ [(k, v)]
  | Some old => map (fun e : Z * bool => if fst e =? k then (k, old || v) else e) ks
  end.
Definition collect_keys (all : list branch) : list (Z * bool) :=
  fold_left (fun ks b => fold_left keys_or (merged b) ks) all [].

Definition set_file (k : Z) (f : list Z) (b : branch) : branch :=
  {| files := set k f (files b); merged := merged b |}.
Definition remove_file (k : Z) (b : branch) : branch :=
  {| files := remove k (files b); merged := merged b |}.

(* the body of  for key, val := range keys *)
Definition merge_key (day : Z) (all : list branch) (kv : Z * bool) : result (list branch * list report) :=
  let '(key, val) := kv in
  if negb val then Ok (map (remove_file key) all, [])       (* deleted in every branch *)
  else
    (* the non-nil files in branch order *)
    let fs := flat_map (fun b => match lookup key (files b) with Some f => [f] | None => [] end) all in
    match fs with
    | [] => Ok (all, [])
    | f0 :: rest =>
        match lines_merge day f0 (map Some rest) with
        | Panic c => Panic c
        | Ok (m, reps) =>
            (* files[0] now holds the rebuilt tree; every other branch gets a deep clone of it *)
            Ok (map (set_file key (flatten (rebuild m))) all, reps)
        end
    end.

(* the loop over the keys, in the order [ks] (Go: map iteration order - a choice) *)
Fixpoint merge_keys (day : Z) (ks : list (Z * bool)) (all : list branch) : result (list branch * list report) :=
  match ks with
  | [] => Ok (all, [])
  | kv :: r =>
      match merge_key day all kv with
      | Panic c => Panic c
      | Ok (all', reps) =>
          match merge_keys day r all' with
          | Panic c => Panic c
          | Ok (all'', reps') => Ok (all'', reps ++ reps')
          end
      end
  end.

(* BurndownAnalysis.Merge: all = the receiver followed by the branches; the merge tick is packed from the
   receiver's mergedAuthor and tick *)
Definition analysis_merge (people author tk : Z) (all : list branch) : result (list branch * list report) :=
  merge_keys (pack people author tk) (collect_keys all) all.

(* BurndownAnalysis.Fork: n copies (files by value) *)
Definition fork (n : nat) (b : branch) : list branch := repeat b n.

(* ================================================================ executable specification *)
(* The per-line rule, written independently of the loop: among the copies without the mark take the
   first one whose tick is minimal; if every copy carries the mark the line gets [day]. *)
Definition real (vs : list Z) : list Z := filter (fun v => negb (mark v)) vs.
Definition first_min_val (vs : list Z) : option Z :=
  match real vs with
  | [] => None
  | v :: r =>
      let m := fold_left Z.min (map tick r) (tick v) in
      find (fun w => tick w =? m) (v :: r)
  end.
Definition spec_line (day : Z) (col : list Z) : Z :=
  match first_min_val col with Some w => w | None => day end.

(* the i-th values of all copies, for i < n *)
Fixpoint zipcons (c : list Z) (cols : list (list Z)) : list (list Z) :=
  match c, cols with
  | x :: c', col :: cols' => (x :: col) :: zipcons c' cols'
  | _, _ => []
  end.
Fixpoint columns (n : nat) (copies : list (list Z)) : list (list Z) :=
  match copies with
  | [] => repeat [] n
  | c :: r => zipcons c (columns n r)
  end.

Definition all_marked (col : list Z) : bool := forallb mark col.
Definition spec_lines (day : Z) (self : list Z) (others : list (list Z)) : list Z :=
  map (spec_line day) (columns (length self) (self :: others)).
Definition spec_report_count (self : list Z) (others : list (list Z)) : nat :=
  length (filter all_marked (columns (length self) (self :: others))).

(* well-formedness of a node list, as a checker for the implementation's output *)
Fixpoint keys_inc_b (ns : nodes) : bool :=
  match ns with
  | (k, _) :: (((k', _) :: _) as r) => (k <? k') && keys_inc_b r
  | _ => true
  end.
Fixpoint vals_differ_b (ns : nodes) : bool :=
  match ns with
  | (_, v) :: (((_, v') :: _) as r) => negb (v =? v') && vals_differ_b r
  | _ => true
  end.
Definition wf_nodes_b (ns : nodes) : bool :=
  match ns with
  | [] => false
  | (k0, _) :: _ => (k0 =? 0) && (snd (last ns (0, 0)) =? TreeEnd) && keys_inc_b ns && vals_differ_b ns
  end.
Definition no_mark_b (l : list Z) : bool := forallb (fun v => negb (mark v)) l.
