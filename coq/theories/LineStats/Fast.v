(* Fast (n log n) versions of the executable judgements of Model.v, for replay sequences of 10^4 .. 10^5
   steps, each proved EQUAL to the specification-level function it replaces:

     replay_ok_fast  = replay_ok          single_fast (steps_map l) c = single_branch l c
     once_ok_fast    = once_ok            (when the key list handed in has the same elements as the keys
                                           once_ok walks over; checked by the extracted same_keys)
     commits_run_fast = commits_run       devs_result_fast = devs_result

   The slow versions walk the whole sequence once per step (count_commit, steps_of: quadratic, once_ok cubic);
   the fast ones group the sequence by commit once, in a binary trie keyed by the commit number
   (FMapPositive of the standard library), and count with N instead of list lengths. *)
From Coq Require Import List NArith PArith Bool Lia FMapPositive.
From Herc Require Import LineStats.Model.
Import ListNotations.
Open Scope N_scope.

Module PM := PositiveMap.

Definition pkey (c : N) : positive := N.succ_pos c.

Lemma pkey_inj : forall a b, pkey a = pkey b -> a = b.
Proof.
  intros a b H. unfold pkey in H.
  assert (E : N.pos (N.succ_pos a) = N.pos (N.succ_pos b)) by (rewrite H; reflexivity).
  rewrite !N.succ_pos_spec in E. lia.
Qed.

(* ---------- the replay sequence grouped by commit ---------- *)
Definition pm_get (m : PM.t (list step)) (c : N) : list step :=
  match PM.find (pkey c) m with Some l => l | None => [] end.
Definition pm_push (s : step) (m : PM.t (list step)) : PM.t (list step) :=
  PM.add (pkey (s_commit s)) (s :: pm_get m (s_commit s)) m.
Definition steps_map (l : list step) : PM.t (list step) := fold_right pm_push (PM.empty _) l.

Lemma steps_map_get : forall l c, pm_get (steps_map l) c = steps_of c l.
Proof.
  induction l as [|s r IH]; intro c.
  - unfold pm_get, steps_map. cbn [fold_right]. rewrite PM.gempty. reflexivity.
  - cbn [steps_map fold_right]. fold (steps_map r). unfold pm_push, steps_of. cbn [filter].
    fold (steps_of c r). unfold pm_get at 1.
    destruct (N.eqb_spec (s_commit s) c) as [E|E].
    + subst c. rewrite PM.gss. rewrite IH. reflexivity.
    + rewrite PM.gso.
      * fold (pm_get (steps_map r) c). apply IH.
      * intro H. apply pkey_inj in H. congruence.
Qed.

Lemma count_commit_steps : forall c l, count_commit c l = N.of_nat (length (steps_of c l)).
Proof.
  intros c. induction l as [|s r IH]; [reflexivity|].
  cbn [count_commit]. unfold steps_of. cbn [filter]. fold (steps_of c r).
  destruct (s_commit s =? c); cbn [length]; rewrite IH; lia.
Qed.

(* counting without list lengths *)
Fixpoint count_if {A} (p : A -> bool) (l : list A) : N :=
  match l with
  | [] => 0
  | x :: r => (if p x then 1 else 0) + count_if p r
  end.

Lemma count_if_filter : forall {A} (p : A -> bool) l, count_if p l = N.of_nat (length (filter p l)).
Proof.
  intros A p. induction l as [|x r IH]; [reflexivity|].
  cbn [count_if filter]. destruct (p x); cbn [length]; rewrite IH; lia.
Qed.

Lemma count_if_ext : forall {A} (p q : A -> bool) l, (forall x, p x = q x) -> count_if p l = count_if q l.
Proof.
  intros A p q l H. induction l as [|x r IH]; [reflexivity|]. cbn [count_if]. rewrite H, IH. reflexivity.
Qed.

Lemma forallb_ext' : forall {A} (p q : A -> bool) l, (forall x, p x = q x) -> forallb p l = forallb q l.
Proof.
  intros A p q l H. induction l as [|x r IH]; [reflexivity|]. cbn [forallb]. rewrite H, IH. reflexivity.
Qed.

Definition count_fast (m : PM.t (list step)) (c : N) : N := count_if (fun _ => true) (pm_get m c).

Lemma count_fast_eq : forall l c, count_fast (steps_map l) c = count_commit c l.
Proof.
  intros l c. unfold count_fast. rewrite steps_map_get, count_commit_steps, count_if_filter.
  f_equal. f_equal. induction (steps_of c l) as [|x r IH]; [reflexivity|]. cbn [filter]. rewrite IH. reflexivity.
Qed.

(* ---------- replay_ok ---------- *)
Definition replay_ok_fast (l : list step) : bool :=
  let m := steps_map l in
  forallb (fun s =>
    let k := count_fast m (s_commit s) in
    Bool.eqb (s_ismerge s) (1 <? k) && (k <=? N.max 1 (s_nparents s))) l.

Theorem replay_ok_fast_eq : forall l, replay_ok_fast l = replay_ok l.
Proof.
  intro l. unfold replay_ok_fast, replay_ok. apply forallb_ext'. intro s.
  cbv zeta. rewrite count_fast_eq. reflexivity.
Qed.

(* ---------- the listing oracle ---------- *)
Definition single_fast (m : PM.t (list step)) (c : N) : bool := count_fast m c =? 1.

Theorem single_fast_eq : forall l c, single_fast (steps_map l) c = single_branch l c.
Proof. intros l c. unfold single_fast, single_branch. rewrite count_fast_eq. reflexivity. Qed.

(* ---------- the distinct commits in the order of their first replay ---------- *)
Definition seen_b (m : PM.t unit) (c : N) : bool :=
  match PM.find (pkey c) m with Some _ => true | None => false end.

Fixpoint commits_of_f (l : list step) (seen : PM.t unit) : list N :=
  match l with
  | [] => []
  | s :: r =>
      if seen_b seen (s_commit s) then commits_of_f r seen
      else s_commit s :: commits_of_f r (PM.add (pkey (s_commit s)) tt seen)
  end.

Lemma commits_of_f_eq : forall l seen sm,
  (forall c, seen_b sm c = mem_n c seen) -> commits_of_f l sm = commits_of l seen.
Proof.
  induction l as [|s r IH]; intros seen sm H; [reflexivity|].
  cbn [commits_of_f commits_of]. rewrite H.
  destruct (mem_n (s_commit s) seen) eqn:M; [apply IH; exact H|].
  f_equal. apply IH. intro c. unfold seen_b. cbn [mem_n].
  destruct (N.eqb_spec (s_commit s) c) as [E|E].
  - subst c. rewrite PM.gss. reflexivity.
  - rewrite PM.gso.
    + cbn [orb]. apply H.
    + intro K. apply pkey_inj in K. congruence.
Qed.

Lemma commits_of_f_empty : forall l, commits_of_f l (PM.empty unit) = commits_of l [].
Proof.
  intro l. apply commits_of_f_eq. intro c. unfold seen_b. rewrite PM.gempty. reflexivity.
Qed.

(* ---------- once_ok ---------- *)
Definition must_f (cec : bool) (m : PM.t (list step)) (c : N) : bool := cec || forallb step_nonempty (pm_get m c).
Definition may_f (cec : bool) (m : PM.t (list step)) (c : N) : bool := cec || existsb step_nonempty (pm_get m c).
Definition upper_f (cec : bool) (m : PM.t (list step)) (cs : list N) (k : N * N) : N :=
  count_if (fun c => may_f cec m c && existsb (fun s => tkey_eqb (key_of s) k) (pm_get m c)) cs.
Definition lower_f (cec : bool) (m : PM.t (list step)) (cs : list N) (k : N * N) : N :=
  count_if (fun c => must_f cec m c && forallb (fun s => tkey_eqb (key_of s) k) (pm_get m c)) cs.

(* [keys]: the (tick, developer) keys to judge, without repetitions (computed by the caller) *)
Definition once_ok_fast (cec : bool) (l : list step) (table : list ((N * N) * N)) (keys : list (N * N)) : bool :=
  let m := steps_map l in
  let cs := commits_of_f l (PM.empty unit) in
  forallb (fun k => (lower_f cec m cs k <=? table_get table k) && (table_get table k <=? upper_f cec m cs k)) keys &&
  (count_if (must_f cec m) cs <=? table_total table) &&
  (table_total table <=? count_if (may_f cec m) cs).

Definition inclb (a b : list (N * N)) : bool := forallb (fun k => existsb (tkey_eqb k) b) a.
(* the caller's key list has exactly the elements of the keys once_ok walks over *)
Definition same_keys (keys : list (N * N)) (l : list step) (table : list ((N * N) * N)) : bool :=
  inclb keys (map fst table ++ map key_of l) && inclb (map fst table ++ map key_of l) keys.

Lemma tkey_eqb_eq : forall a b, tkey_eqb a b = true <-> a = b.
Proof.
  intros [a1 a2] [b1 b2]. unfold tkey_eqb. cbn [fst snd]. rewrite andb_true_iff, !N.eqb_eq.
  split; [intros [H1 H2]; subst; reflexivity | intro H; inversion H; auto].
Qed.

Lemma inclb_incl : forall a b, inclb a b = true -> incl a b.
Proof.
  intros a b H k Hk. unfold inclb in H. rewrite forallb_forall in H. specialize (H k Hk).
  apply existsb_exists in H. destruct H as [k' [Hk' E]]. apply tkey_eqb_eq in E. subst k'. exact Hk'.
Qed.

Lemma forallb_same : forall {A} (p : A -> bool) a b, incl a b -> incl b a -> forallb p a = forallb p b.
Proof.
  intros A p a b Hab Hba. apply eq_true_iff_eq. rewrite !forallb_forall. split; intros H x Hx; apply H; auto.
Qed.

Theorem once_ok_fast_eq : forall cec l table keys,
  same_keys keys l table = true -> once_ok_fast cec l table keys = once_ok cec l table.
Proof.
  intros cec l table keys HK. unfold same_keys in HK. apply andb_true_iff in HK. destruct HK as [H1 H2].
  apply inclb_incl in H1. apply inclb_incl in H2.
  unfold once_ok_fast, once_ok. cbv zeta. rewrite commits_of_f_empty.
  assert (Hmust : forall c, must_f cec (steps_map l) c = must_count cec l c).
  { intro c. unfold must_f, must_count. rewrite steps_map_get. reflexivity. }
  assert (Hmay : forall c, may_f cec (steps_map l) c = may_count cec l c).
  { intro c. unfold may_f, may_count. rewrite steps_map_get. reflexivity. }
  assert (Hup : forall k, upper_f cec (steps_map l) (commits_of l []) k = upper_at cec l k).
  { intro k. unfold upper_f, upper_at. rewrite <- count_if_filter. apply count_if_ext. intro c.
    rewrite Hmay, steps_map_get. reflexivity. }
  assert (Hlo : forall k, lower_f cec (steps_map l) (commits_of l []) k = lower_at cec l k).
  { intro k. unfold lower_f, lower_at. rewrite <- count_if_filter. apply count_if_ext. intro c.
    rewrite Hmust, steps_map_get. reflexivity. }
  rewrite (count_if_ext _ _ _ Hmust), (count_if_ext _ _ _ Hmay), !count_if_filter.
  f_equal. f_equal.
  rewrite (forallb_same _ keys (map fst table ++ map key_of l) H1 H2).
  apply forallb_ext'. intro k. rewrite Hup, Hlo. reflexivity.
Qed.

(* ---------- CommitsAnalysis without the quadratic append ---------- *)
Definition commits_run_fast (l : list step) : list commit_stat := flat_map (commits_consume []) l.

Lemma commits_fold_flat : forall l acc, fold_left commits_consume l acc = acc ++ flat_map (commits_consume []) l.
Proof.
  induction l as [|s r IH]; intro acc; cbn [fold_left flat_map]; [rewrite app_nil_r; reflexivity|].
  rewrite IH. unfold commits_consume. destruct (s_ismerge s); cbn [app]; [reflexivity|].
  rewrite <- app_assoc. reflexivity.
Qed.

Theorem commits_run_fast_eq : forall l, commits_run_fast l = commits_run l.
Proof. intro l. unfold commits_run, commits_run_fast. rewrite commits_fold_flat. reflexivity. Qed.

(* ---------- DevsAnalysis as a left fold (constant stack) ---------- *)
Definition devs_result_fast (cec : bool) (l : list step) : list ((N * N) * devtick) :=
  ds_ticks (fold_left (fun st s => fst (devs_consume cec st s)) l devs0).

Lemma devs_run_from_fold : forall cec l st,
  fst (devs_run_from cec st l) = fold_left (fun st s => fst (devs_consume cec st s)) l st.
Proof.
  intros cec. induction l as [|s r IH]; intro st; [reflexivity|].
  cbn [devs_run_from fold_left]. destruct (devs_consume cec st s) as [st1 b]. cbn [fst].
  rewrite <- IH. destruct (devs_run_from cec st1 r). reflexivity.
Qed.

Theorem devs_result_fast_eq : forall cec l, devs_result_fast cec l = devs_result cec l.
Proof. intros. unfold devs_result_fast, devs_result, devs_run. rewrite devs_run_from_fold. reflexivity. Qed.
