(* C19 - proofs about the model of TicksSinceStart (Ticks.v): one Consume, the registry, and every
   sequence of Consume / Fork / Merge on any number of branches. *)
From Coq Require Import ZArith List Bool Lia Sorted PeanoNat.
From Herc Require Import Plumbing.Ticks Plumbing.TicksArith.
Import ListNotations.
Open Scope Z_scope.

(* ------------------------------------------------------------------ lists *)

Lemma nth_error_set_nth_same : forall A (l : list A) n x y,
  nth_error l n = Some y -> nth_error (set_nth l n x) n = Some x.
Proof.
  induction l as [|a l IH]; intros [|n] x y H; cbn in *; try discriminate; eauto.
Qed.

Lemma nth_error_set_nth_other : forall A (l : list A) n m x,
  n <> m -> nth_error (set_nth l n x) m = nth_error l m.
Proof.
  induction l as [|a l IH]; intros [|n] [|m] x H; cbn; try reflexivity; try congruence.
  apply IH. congruence.
Qed.

Lemma length_set_nth : forall A (l : list A) n x, length (set_nth l n x) = length l.
Proof.
  induction l as [|a l IH]; intros [|n] x; cbn; try reflexivity. f_equal. apply IH.
Qed.

Lemma Forall2_set_nth : forall A B (R : A -> B -> Prop) l1 l2 n x y,
  Forall2 R l1 l2 -> R x y -> Forall2 R (set_nth l1 n x) (set_nth l2 n y).
Proof.
  intros A B R l1 l2 n x y H. revert n. induction H as [|a b l1 l2 Hab H IH]; intros [|n] Hxy; cbn;
    constructor; auto.
Qed.

Lemma Forall2_nth_error : forall A B (R : A -> B -> Prop) l1 l2 n x,
  Forall2 R l1 l2 -> nth_error l1 n = Some x -> exists y, nth_error l2 n = Some y /\ R x y.
Proof.
  intros A B R l1 l2 n x H. revert n. induction H as [|a b l1 l2 Hab H IH]; intros [|n] Hn; cbn in *;
    try discriminate.
  - injection Hn as <-. eauto.
  - eauto.
Qed.

Lemma Forall2_nth_error_none : forall A B (R : A -> B -> Prop) l1 l2 n,
  Forall2 R l1 l2 -> nth_error l1 n = None -> nth_error l2 n = None.
Proof.
  intros A B R l1 l2 n H. revert n. induction H; intros [|n] Hn; cbn in *; try discriminate; auto.
Qed.

Lemma Forall2_weaken : forall A B (R R' : A -> B -> Prop) l1 l2,
  (forall x y, R x y -> R' x y) -> Forall2 R l1 l2 -> Forall2 R' l1 l2.
Proof.
  intros A B R R' l1 l2 HR H. induction H; constructor; auto.
Qed.

Lemma Forall2_repeat : forall A B (R : A -> B -> Prop) x y n, R x y -> Forall2 R (repeat x n) (repeat y n).
Proof.
  induction n; cbn; intros; constructor; auto.
Qed.

Lemma Forall_set_nth : forall A (P : A -> Prop) l n x, Forall P l -> P x -> Forall P (set_nth l n x).
Proof.
  intros A P l n x H. revert n. induction H; intros [|n] Hx; cbn; constructor; auto.
Qed.

Lemma Forall_set_nth_inv : forall A (P : A -> Prop) l n x y,
  nth_error l n = Some y -> Forall P (set_nth l n x) -> P y -> Forall P l.
Proof.
  induction l as [|a l IH]; intros [|n] x y Hn H Hy; cbn in *; try discriminate.
  - injection Hn as ->. inversion H; subst. constructor; assumption.
  - inversion H; subst. constructor; eauto.
Qed.

Lemma Forall_set_nth_at : forall A (P : A -> Prop) l n x y,
  nth_error l n = Some y -> Forall P (set_nth l n x) -> P x.
Proof.
  induction l as [|a l IH]; intros [|n] x y Hn H; cbn in *; try discriminate.
  - inversion H; assumption.
  - inversion H; subst. eauto.
Qed.

Lemma last_snoc : forall A (l : list A) x d, last (l ++ [x]) d = x.
Proof.
  induction l as [|a l IH]; intros x d; [reflexivity|].
  cbn [app]. destruct (l ++ [x]) eqn:E.
  - destruct l; discriminate.
  - rewrite <- E. cbn [last]. rewrite E. rewrite <- E. apply IH.
Qed.

(* ------------------------------------------------------------------ nondecreasing lists *)

Lemma last_cons_default : forall A (l : list A) a d, last (a :: l) d = last l a.
Proof.
  induction l as [|b l IH]; intros a d; [reflexivity|].
  change (last (a :: b :: l) d) with (last (b :: l) d). rewrite (IH b d), (IH b a). reflexivity.
Qed.

Lemma nondecreasing_snoc : forall l p k,
  nondecreasing p (l ++ [k]) = nondecreasing p l && (last l p <=? k).
Proof.
  induction l as [|a l IH]; intros p k; cbn [app nondecreasing].
  - cbn. rewrite andb_true_r. reflexivity.
  - rewrite IH, last_cons_default, andb_assoc. reflexivity.
Qed.

Lemma nondecreasing_last : forall l p, nondecreasing p l = true -> p <= last l p.
Proof.
  induction l as [|a l IH]; intros p H; [cbn; lia|].
  cbn [nondecreasing] in H. apply andb_true_iff in H as [H1 H2]. apply Z.leb_le in H1.
  specialize (IH a H2). rewrite last_cons_default. lia.
Qed.

Lemma nondecreasing_Sorted : forall l p, nondecreasing p l = true <-> Sorted Z.le (p :: l).
Proof.
  induction l as [|a l IH]; intros p; cbn [nondecreasing].
  - split; [intros _; repeat constructor|reflexivity].
  - rewrite andb_true_iff, Z.leb_le, IH. split.
    + intros [H1 H2]. constructor; [assumption|constructor; assumption].
    + intros H. inversion H as [|? ? HS HR]; subst. inversion HR; subst. split; assumption.
Qed.

(* ------------------------------------------------------------------ the registry *)

Lemma reg_get_set_same : forall r k l, reg_get (reg_set r k l) k = l.
Proof.
  induction r as [|[k' l'] r IH]; intros k l; cbn.
  - rewrite Z.eqb_refl. reflexivity.
  - destruct (Z.eqb_spec k' k) as [->|N]; cbn.
    + rewrite Z.eqb_refl. reflexivity.
    + destruct (Z.eqb_spec k' k); [contradiction|]. apply IH.
Qed.

Lemma reg_get_set_other : forall r k l k', k' <> k -> reg_get (reg_set r k l) k' = reg_get r k'.
Proof.
  induction r as [|[k1 l1] r IH]; intros k l k' N; cbn.
  - destruct (Z.eqb_spec k k'); [congruence|reflexivity].
  - destruct (Z.eqb_spec k1 k) as [->|N1]; cbn.
    + destruct (Z.eqb_spec k k'); [congruence|reflexivity].
    + destruct (Z.eqb_spec k1 k'); [reflexivity|]. apply IH; assumption.
Qed.

(* appending to the list of one tick lists the hash once more and changes nothing else *)
Lemma reg_count_set_snoc : forall r k h h',
  reg_count (reg_set r k (reg_get r k ++ [h])) h' =
  (reg_count r h' + (if Z.eq_dec h h' then 1 else 0))%nat.
Proof.
  unfold reg_count. induction r as [|[k1 l1] r IH]; intros k h h'.
  - cbn. destruct (Z.eq_dec h h'); reflexivity.
  - cbn [reg_get reg_set]. destruct (Z.eqb_spec k1 k) as [->|N]; cbn [map snd concat].
    + rewrite !count_occ_app. cbn [count_occ]. destruct (Z.eq_dec h h'); lia.
    + rewrite !count_occ_app. rewrite IH. lia.
Qed.

Lemma reg_count_get : forall r k h, In h (reg_get r k) -> (1 <= reg_count r h)%nat.
Proof.
  unfold reg_count. induction r as [|[k1 l1] r IH]; intros k h H; cbn in *; [contradiction|].
  rewrite count_occ_app. destruct (Z.eqb_spec k1 k).
  - apply (count_occ_In Z.eq_dec) in H. lia.
  - specialize (IH _ _ H). lia.
Qed.

Lemma existsb_eqb_In : forall h l, existsb (Z.eqb h) l = true <-> In h l.
Proof.
  intros h l. rewrite existsb_exists. split.
  - intros [x [Hx E]]. apply Z.eqb_eq in E. subst. assumption.
  - intros H. exists h. split; [assumption|apply Z.eqb_refl].
Qed.

Lemma listed_In : forall r e, listed r e = true <-> In (c_hash (fst e)) (reg_get r (snd e)).
Proof.
  intros r e. unfold listed. apply existsb_eqb_In.
Qed.

(* ------------------------------------------------------------------ one Consume *)

Definition new_t0 (s : shared) (d index : Z) (c : commit) : Z :=
  if index =? 0 then floor_time (c_when c) d else tick0 s.

Lemma consume_branch_tick : forall s b index c s' b' k,
  consume_branch s b index c = (s', b', k) ->
  k = Z.max (previous_tick b) (raw_tick (new_t0 s (tick_size b) index c) (tick_size b) (c_when c)) /\
  previous_tick b' = k /\ tick_size b' = tick_size b /\
  tick0 s' = new_t0 s (tick_size b) index c.
Proof.
  intros s b index c s' b' k H. unfold consume_branch in H. fold (new_t0 s (tick_size b) index c) in H.
  injection H as <- <- <-. cbn. repeat split.
  destruct (Z.ltb_spec (raw_tick (new_t0 s (tick_size b) index c) (tick_size b) (c_when c)) (previous_tick b)); lia.
Qed.

(* the registry after a Consume: the commit is listed under its tick, nothing is removed, and the
   only possible change is one more entry of this commit under this tick *)
Lemma consume_branch_registry : forall s b index c s' b' k,
  consume_branch s b index c = (s', b', k) ->
  In (c_hash c) (reg_get (commits s') k) /\
  (forall k' h, In h (reg_get (commits s) k') -> In h (reg_get (commits s') k')) /\
  (commits s' = commits s /\ (0 < c_parents c)%nat /\ In (c_hash c) (reg_get (commits s) k)
   \/ commits s' = reg_set (commits s) k (reg_get (commits s) k ++ [c_hash c]) /\
      ((0 < c_parents c)%nat -> ~ In (c_hash c) (reg_get (commits s) k))).
Proof.
  intros s b index c s' b' k H.
  destruct (consume_branch_tick _ _ _ _ _ _ _ H) as [Hk _].
  unfold consume_branch in H. fold (new_t0 s (tick_size b) index c) in H.
  set (raw := raw_tick (new_t0 s (tick_size b) index c) (tick_size b) (c_when c)) in *.
  set (tick := if raw <? previous_tick b then previous_tick b else raw) in *.
  injection H as <- <- Htick. cbn [commits]. rewrite <- Htick in *. clear Htick Hk.
  destruct ((0 <? c_parents c)%nat && existsb (Z.eqb (c_hash c)) (rev (reg_get (commits s) tick))) eqn:E.
  - apply andb_true_iff in E as [E1 E2]. apply Nat.ltb_lt in E1.
    apply existsb_eqb_In in E2. apply in_rev in E2.
    split; [assumption|]. split; [auto|]. left. auto.
  - split; [rewrite reg_get_set_same; apply in_or_app; right; left; reflexivity|]. split.
    + intros k' h Hin. destruct (Z.eq_dec k' tick) as [->|N].
      * rewrite reg_get_set_same. apply in_or_app. left. assumption.
      * rewrite reg_get_set_other by assumption. assumption.
    + right. split; [reflexivity|]. intros Hp Hin.
      apply andb_false_iff in E as [E|E].
      * apply Nat.ltb_ge in E. lia.
      * apply in_rev in Hin. apply existsb_eqb_In in Hin. congruence.
Qed.

(* C19_tick: the tick of one Consume, for a positive tick size *)
Lemma consume_tick_formula : forall s b index c s' b' k,
  consume_branch s b index c = (s', b', k) ->
  let d := tick_size b in
  let t := c_when c in
  let t0 := tick0 s' in
  0 < d ->
  t0 = (if index =? 0 then floor_time t d else tick0 s) /\
  k = Z.max (previous_tick b) (Z.quot (time_sub t t0) d) /\
  (in_range t0 t = true -> k = Z.max (previous_tick b) (Z.quot (t - t0) d)) /\
  (in_range t0 t = true -> 0 <= previous_tick b -> k = Z.max (previous_tick b) ((t - t0) / d)) /\
  (max_duration < t - t0 -> k = Z.max (previous_tick b) (Z.quot max_duration d)) /\
  (t <= t0 -> 0 <= previous_tick b -> k = previous_tick b).
Proof.
  intros s b index c s' b' k H d t t0 Hd.
  destruct (consume_branch_tick _ _ _ _ _ _ _ H) as [Hk [_ [_ Ht0]]].
  fold d t in Hk, Ht0. subst t0. rewrite Ht0. rewrite raw_tick_pos in Hk by assumption.
  unfold elapsed_ticks in Hk. split; [reflexivity|]. split; [assumption|]. split; [|split; [|split]].
  - intros R. rewrite (time_sub_in_range _ _ R) in Hk. assumption.
  - intros R Hp. rewrite (time_sub_in_range _ _ R) in Hk. rewrite Hk. apply max_quot_div; assumption.
  - intros A. rewrite (time_sub_above _ _ A) in Hk. assumption.
  - intros A Hp. pose proof (elapsed_nonpos (new_t0 s d index c) d t Hd A) as E.
    unfold elapsed_ticks in E. lia.
Qed.

(* ------------------------------------------------------------------ runs *)

Definition ev_of (o : op) (r : out) : list event :=
  match o, r with OConsume _ _ c, RTick k => [(c, k)] | _, _ => [] end.

Lemma run_cons : forall s o ops s' outs,
  run s (o :: ops) = (s', outs) ->
  exists s1 r outs', step s o = (s1, r) /\ run s1 ops = (s', outs') /\ outs = r :: outs'.
Proof.
  intros s o ops s' outs H. cbn [run] in H.
  destruct (step s o) as [s1 r]. destruct (run s1 ops) as [s2 rs] eqn:E.
  injection H as <- <-. exists s1, r, rs. auto.
Qed.

Lemma run_app : forall ops1 ops2 s s' outs,
  run s (ops1 ++ ops2) = (s', outs) ->
  exists s1 outs1 outs2, run s ops1 = (s1, outs1) /\ run s1 ops2 = (s', outs2) /\ outs = outs1 ++ outs2
    /\ length outs1 = length ops1.
Proof.
  induction ops1 as [|o ops1 IH]; intros ops2 s s' outs H.
  - exists s, [], outs. cbn. auto.
  - cbn [app] in H. apply run_cons in H as [s1 [r [outs' [Hs [Hr ->]]]]].
    apply IH in Hr as [s2 [o1 [o2 [H1 [H2 [-> Hl]]]]]].
    exists s2, (r :: o1), o2. cbn [run]. rewrite Hs, H1. cbn. auto.
Qed.

Lemma consumed_cons : forall o r ops outs, consumed (o :: ops) (r :: outs) = ev_of o r ++ consumed ops outs.
Proof.
  intros o r ops outs. destruct o; cbn; try reflexivity. destruct r; reflexivity.
Qed.

Lemma lineages_app : forall ops1 outs1 ops2 outs2 ls, length outs1 = length ops1 ->
  lineages (ops1 ++ ops2) (outs1 ++ outs2) ls = lineages ops2 outs2 (lineages ops1 outs1 ls).
Proof.
  induction ops1 as [|o ops1 IH]; intros [|r outs1] ops2 outs2 ls H; cbn in H; try discriminate.
  - reflexivity.
  - cbn [app lineages]. apply IH. lia.
Qed.

Lemma consumed_app : forall ops1 outs1 ops2 outs2, length outs1 = length ops1 ->
  consumed (ops1 ++ ops2) (outs1 ++ outs2) = consumed ops1 outs1 ++ consumed ops2 outs2.
Proof.
  induction ops1 as [|o ops1 IH]; intros [|r outs1] ops2 outs2 H; cbn in H; try discriminate.
  - reflexivity.
  - cbn [app]. rewrite !consumed_cons, IH by lia. apply app_assoc.
Qed.

(* An invariant of the system state together with the branch histories and the list of consumed
   commits that is preserved by every step (of the operations satisfying P) holds after every run. *)
Lemma run_invariant (P : op -> Prop) (Inv : sys -> list (list event) -> list event -> Prop) :
  (forall s ls seen o s' r, P o -> Inv s ls seen -> step s o = (s', r) ->
     Inv s' (lin_step ls o r) (seen ++ ev_of o r)) ->
  forall ops s ls seen s' outs, Forall P ops -> Inv s ls seen -> run s ops = (s', outs) ->
    Inv s' (lineages ops outs ls) (seen ++ consumed ops outs).
Proof.
  intros Hstep. induction ops as [|o ops IH]; intros s ls seen s' outs HP HI H.
  - cbn in H. injection H as <- <-. cbn. rewrite app_nil_r. assumption.
  - apply run_cons in H as [s1 [r [outs' [Hs [Hr ->]]]]]. inversion HP; subst.
    cbn [lineages]. rewrite consumed_cons, app_assoc.
    eapply IH; eauto.
Qed.

(* ------------------------------------------------------------------ all inputs: monotone ticks, listing *)

(* per branch: the branch-local previousTick is the last tick of the history (0 at the start) and
   the ticks of the history never decrease *)
Definition R_mono (br : branch) (l : list event) : Prop :=
  nondecreasing 0 (ticks l) = true /\ previous_tick br = last (ticks l) 0.

Definition Inv_all (s : sys) (ls : list (list event)) (seen : list event) : Prop :=
  Forall2 R_mono (brs s) ls /\ Forall (fun e => listed (commits (sh s)) e = true) seen.

Lemma ticks_snoc : forall l c k, ticks (l ++ [(c, k)]) = ticks l ++ [k].
Proof. intros. unfold ticks. rewrite map_app. reflexivity. Qed.

Lemma times_snoc : forall l c k, times (l ++ [(c, k)]) = times l ++ [c_when c].
Proof. intros. unfold times. rewrite map_app. reflexivity. Qed.

Lemma Inv_all_step : forall s ls seen o s' r, True -> Inv_all s ls seen -> step s o = (s', r) ->
  Inv_all s' (lin_step ls o r) (seen ++ ev_of o r).
Proof.
  intros s ls seen o s' r _ [HR HL] H. destruct o as [b index c|b n|bs|t d]; cbn [step] in H.
  - destruct (nth_error (brs s) b) as [br|] eqn:Eb.
    + destruct (consume_branch (sh s) br index c) as [[sh' br'] k] eqn:Ec.
      injection H as <- <-. cbn [ev_of lin_step sh brs].
      destruct (Forall2_nth_error _ _ _ _ _ _ _ HR Eb) as [l [El [Hn Hp]]]. rewrite El.
      destruct (consume_branch_tick _ _ _ _ _ _ _ Ec) as [Hk [Hp' _]].
      destruct (consume_branch_registry _ _ _ _ _ _ _ Ec) as [Hin [Hkeep _]].
      split.
      * apply Forall2_set_nth; [assumption|]. split.
        -- rewrite ticks_snoc, nondecreasing_snoc, Hn. cbn [andb]. apply Z.leb_le. lia.
        -- rewrite ticks_snoc, last_snoc. assumption.
      * apply Forall_app. split.
        -- eapply Forall_impl; [|exact HL]. intros e He. apply listed_In. apply Hkeep. apply listed_In. exact He.
        -- constructor; [|constructor]. apply listed_In. exact Hin.
    + injection H as <- <-. cbn. rewrite app_nil_r. split; assumption.
  - destruct (nth_error (brs s) b) as [br|] eqn:Eb.
    + injection H as <- <-. cbn [ev_of lin_step sh brs]. rewrite app_nil_r.
      destruct (Forall2_nth_error _ _ _ _ _ _ _ HR Eb) as [l [El Hl]]. rewrite El.
      split; [|assumption]. apply Forall2_app; [assumption|]. apply Forall2_repeat. assumption.
    + injection H as <- <-. cbn. rewrite app_nil_r. split; assumption.
  - injection H as <- <-. cbn. rewrite app_nil_r. split; assumption.
  - injection H as <- <-. cbn. rewrite app_nil_r. split; assumption.
Qed.

Lemma Inv_all_init : forall cfg, Inv_all (init_sys cfg) [[]] [].
Proof.
  intros cfg. split; [|constructor]. cbn. constructor; [|constructor]. split; reflexivity.
Qed.

Lemma Inv_all_run : forall cfg ops s' outs, run (init_sys cfg) ops = (s', outs) ->
  Inv_all s' (lineages ops outs [[]]) (consumed ops outs).
Proof.
  intros cfg ops s' outs H.
  change (consumed ops outs) with ([] ++ consumed ops outs).
  eapply (run_invariant (fun _ => True) Inv_all Inv_all_step); eauto using Inv_all_init.
  apply Forall_forall. auto.
Qed.

(* C19_monotone *)
Theorem ticks_monotone : forall cfg ops s' outs, run (init_sys cfg) ops = (s', outs) ->
  forall l, In l (lineages ops outs [[]]) -> Sorted Z.le (0 :: ticks l).
Proof.
  intros cfg ops s' outs H l Hl. destruct (Inv_all_run _ _ _ _ H) as [HR _].
  apply nondecreasing_Sorted.
  apply In_nth_error in Hl as [n Hn].
  clear H. revert n Hn. induction HR as [|br l' brs ls [Hn' _] _ IH]; intros [|n] Hn; cbn in Hn; try discriminate.
  - injection Hn as <-. assumption.
  - eauto.
Qed.

(* the branch-local previousTick is never negative and equals the last tick given on the branch *)
Theorem previous_tick_last : forall cfg ops s' outs, run (init_sys cfg) ops = (s', outs) ->
  Forall2 (fun br l => previous_tick br = last (ticks l) 0 /\ 0 <= previous_tick br) (brs s') (lineages ops outs [[]]).
Proof.
  intros cfg ops s' outs H. destruct (Inv_all_run _ _ _ _ H) as [HR _].
  eapply Forall2_weaken; [|exact HR]. intros br l [Hn Hp]. split; [assumption|].
  rewrite Hp. apply nondecreasing_last. assumption.
Qed.

(* C19_registry, first half: every consumed commit is listed under the tick it was given *)
Theorem registry_lists_all : forall cfg ops s' outs, run (init_sys cfg) ops = (s', outs) ->
  forall c k, In (c, k) (consumed ops outs) -> In (c_hash c) (reg_get (commits (sh s')) k).
Proof.
  intros cfg ops s' outs H c k Hin. destruct (Inv_all_run _ _ _ _ H) as [_ HL].
  rewrite Forall_forall in HL. specialize (HL _ Hin). apply listed_In in HL. exact HL.
Qed.

(* ------------------------------------------------------------------ the way the pipeline calls Consume:
   the first consumed commit has index 0, no other has.  d is the tick size, [first] the committer
   time of the first analysed commit. *)

Lemma tick_chain_snoc : forall t0 d l p c k,
  tick_chain t0 d p (l ++ [(c, k)]) =
  tick_chain t0 d p l &&
  (k =? (if in_range t0 (c_when c) then spec_tick t0 d (last (ticks l) p) (c_when c)
         else spec_tick_sat t0 d (last (ticks l) p) (c_when c))).
Proof.
  induction l as [|[c1 k1] l IH]; intros p c k; cbn [app tick_chain].
  - cbn. rewrite andb_true_r. reflexivity.
  - rewrite IH. change (ticks ((c1, k1) :: l)) with (k1 :: ticks l). rewrite last_cons_default.
    rewrite andb_assoc. reflexivity.
Qed.

Lemma alone_snoc : forall t0 d l e,
  alone t0 d (l ++ [e]) = alone t0 d l && (snd e =? elapsed_ticks t0 d (c_when (fst e))).
Proof.
  intros. unfold alone. rewrite forallb_app. cbn. rewrite andb_true_r. reflexivity.
Qed.

Lemma mono_times_snoc : forall first l c k,
  mono_times first (l ++ [(c, k)]) = mono_times first l && (last (times l) first <=? c_when c).
Proof.
  intros. unfold mono_times. rewrite times_snoc. apply nondecreasing_snoc.
Qed.

Lemma replays_ok_snoc : forall seen x,
  replays_ok (seen ++ [x]) =
  replays_ok seen &&
  forallb (fun e => negb (c_hash (fst x) =? c_hash (fst e))
                    || ((0 <? c_parents (fst x))%nat && (c_when (fst x) =? c_when (fst e)))) seen.
Proof.
  induction seen as [|e seen IH]; intros x; cbn [app replays_ok forallb].
  - reflexivity.
  - rewrite IH, forallb_app. cbn [forallb]. rewrite andb_true_r.
    repeat rewrite <- andb_assoc. f_equal.
    rewrite andb_comm. repeat rewrite <- andb_assoc. f_equal. apply andb_comm.
Qed.

Definition hash_in (h : Z) (seen : list event) : bool := existsb (fun e => c_hash (fst e) =? h) seen.

Lemma hash_in_snoc : forall h seen e, hash_in h (seen ++ [e]) = hash_in h seen || (c_hash (fst e) =? h).
Proof.
  intros. unfold hash_in. rewrite existsb_app. cbn. rewrite orb_false_r. reflexivity.
Qed.

Section Run.
Variables (d first : Z).
Hypothesis Hd : 0 < d.
Let t0 := floor_time first d.

Lemma t0_le_first : t0 <= first.
Proof. apply floor_time_bounds. exact Hd. Qed.

Definition R_run (br : branch) (l : list event) : Prop :=
  tick_size br = d /\
  tick_chain t0 d 0 l = true /\
  (mono_times first l = true -> alone t0 d l = true).

(* exactly-once listing: conditional on what the final histories and the final list of consumed
   commits satisfy; both conditions are closed under taking prefixes *)
Definition J (s : sys) (ls : list (list event)) (seen : list event) : Prop :=
  Forall (fun l => mono_times first l = true) ls -> replays_ok seen = true ->
  (forall h, reg_count (commits (sh s)) h = if hash_in h seen then 1%nat else 0%nat) /\
  Forall (fun e => snd e = elapsed_ticks t0 d (c_when (fst e))) seen.

Definition Inv_core (s : sys) (ls : list (list event)) (seen : list event) : Prop :=
  Inv_all s ls seen /\ Forall2 R_run (brs s) ls /\ J s ls seen.

(* under monotone times the last tick of a history is the un-raised tick of its last commit *)
Lemma alone_last : forall l, alone t0 d l = true ->
  last (ticks l) 0 <= elapsed_ticks t0 d (last (times l) first).
Proof.
  intros l H. destruct l as [|e l] using rev_ind.
  - cbn. apply elapsed_nonneg; [exact Hd|apply t0_le_first].
  - destruct e as [c k]. rewrite alone_snoc in H. apply andb_true_iff in H as [_ H].
    apply Z.eqb_eq in H. cbn in H. rewrite ticks_snoc, times_snoc, !last_snoc. lia.
Qed.

Lemma core_consume : forall s ls seen b index c br s' r,
  Inv_core s ls seen -> nth_error (brs s) b = Some br ->
  new_t0 (sh s) d index c = t0 ->
  step s (OConsume b index c) = (s', r) ->
  Inv_core s' (lin_step ls (OConsume b index c) r) (seen ++ ev_of (OConsume b index c) r) /\ tick0 (sh s') = t0.
Proof.
  intros s ls seen b index c br s' r [HA [HR HJ]] Eb Ht0 H.
  pose proof (Inv_all_step _ _ _ _ _ _ I HA H) as HA'.
  cbn [step] in H. rewrite Eb in H.
  destruct (consume_branch (sh s) br index c) as [[sh' br'] k] eqn:Ec.
  injection H as <- <-. cbn [ev_of lin_step sh brs] in *.
  destruct (Forall2_nth_error _ _ _ _ _ _ _ HR Eb) as [l [El [Hsz [Hch Hal]]]]. rewrite El in *.
  destruct HA as [HM HL].
  destruct (Forall2_nth_error _ _ _ _ _ _ _ HM Eb) as [l' [El' [Hnd Hprev]]].
  rewrite El in El'. injection El' as <-.
  destruct (consume_branch_tick _ _ _ _ _ _ _ Ec) as [Hk [Hp' [Hsz' Ht0']]].
  rewrite Hsz in *. rewrite Ht0 in *. rewrite raw_tick_pos in Hk by exact Hd.
  assert (Hp0 : 0 <= previous_tick br) by (rewrite Hprev; apply nondecreasing_last; assumption).
  (* under monotone times nothing is raised *)
  assert (Halone : mono_times first (l ++ [(c, k)]) = true -> k = elapsed_ticks t0 d (c_when c)).
  { intros Hm. rewrite mono_times_snoc in Hm. apply andb_true_iff in Hm as [Hm1 Hm2].
    apply Z.leb_le in Hm2. specialize (Hal Hm1). pose proof (alone_last l Hal) as A.
    pose proof (elapsed_mono t0 d _ _ Hd Hm2). lia. }
  split; [|exact Ht0']. split; [exact HA'|]. split.
  - apply Forall2_set_nth; [assumption|]. split; [assumption|]. split.
    + rewrite tick_chain_snoc, Hch. cbn [andb]. apply Z.eqb_eq. rewrite <- Hprev.
      destruct (in_range t0 (c_when c)) eqn:Er.
      * rewrite <- spec_tick_sat_in_range by assumption. exact Hk.
      * exact Hk.
    + intros Hm. rewrite alone_snoc. rewrite mono_times_snoc in Hm.
      pose proof Hm as Hm'. apply andb_true_iff in Hm as [Hm1 _]. rewrite (Hal Hm1). cbn [andb fst snd].
      apply Z.eqb_eq. apply Halone. rewrite mono_times_snoc. exact Hm'.
  - (* the registry *)
    intros Hmono Hrep.
    assert (Hmono0 : Forall (fun l => mono_times first l = true) ls).
    { eapply Forall_set_nth_inv; [exact El|exact Hmono|].
      pose proof (Forall_set_nth_at _ _ _ _ _ _ El Hmono) as Hx. cbn beta in Hx.
      rewrite mono_times_snoc in Hx. apply andb_true_iff in Hx as [Hx _]. exact Hx. }
    pose proof (Forall_set_nth_at _ _ _ _ _ _ El Hmono) as Hml. cbn beta in Hml.
    specialize (Halone Hml).
    rewrite replays_ok_snoc in Hrep. apply andb_true_iff in Hrep as [Hrep0 Hrepc]. cbn [fst] in Hrepc.
    destruct (HJ Hmono0 Hrep0) as [Hcnt Hel].
    split; [|apply Forall_app; split; [assumption|constructor; [exact Halone|constructor]]].
    destruct (consume_branch_registry _ _ _ _ _ _ _ Ec) as [_ [_ Hreg]].
    intros h. rewrite hash_in_snoc. cbn [fst]. cbn [commits sh].
    destruct (hash_in (c_hash c) seen) eqn:Ein.
    + (* replayed: it is already listed under this very tick *)
      assert (Hthere : (0 < c_parents c)%nat /\ In (c_hash c) (reg_get (commits (sh s)) k)).
      { unfold hash_in in Ein. apply existsb_exists in Ein as [e [He Heq]]. apply Z.eqb_eq in Heq.
        rewrite forallb_forall in Hrepc. specialize (Hrepc _ He).
        rewrite <- Heq, Z.eqb_refl in Hrepc. cbn [negb orb] in Hrepc.
        apply andb_true_iff in Hrepc as [Hpar Hwhen]. apply Nat.ltb_lt in Hpar. apply Z.eqb_eq in Hwhen.
        split; [exact Hpar|].
        rewrite Forall_forall in HL, Hel. specialize (HL _ He). specialize (Hel _ He).
        apply listed_In in HL. rewrite Hel, <- Hwhen, <- Halone, Heq in HL. exact HL. }
      destruct Hthere as [Hpar Hin].
      destruct Hreg as [[-> _]|[_ Hnot]]; [|exfalso; apply (Hnot Hpar Hin)].
      rewrite Hcnt. destruct (Z.eqb_spec (c_hash c) h) as [<-|N].
      * rewrite Ein. reflexivity.
      * rewrite orb_false_r. reflexivity.
    + (* first time: not listed anywhere, appended once *)
      assert (Hnot : ~ In (c_hash c) (reg_get (commits (sh s)) k)).
      { intros Hin. apply reg_count_get in Hin. rewrite Hcnt, Ein in Hin. lia. }
      destruct Hreg as [[_ [_ Hin]]|[-> _]]; [contradiction|].
      rewrite reg_count_set_snoc, Hcnt.
      destruct (Z.eq_dec (c_hash c) h) as [<-|N].
      * rewrite Ein, Z.eqb_refl. reflexivity.
      * destruct (Z.eqb_spec (c_hash c) h); [contradiction|]. rewrite orb_false_r. lia.
Qed.

Lemma core_other : forall s ls seen o s' r,
  match o with OConsume _ _ _ => False | _ => True end ->
  Inv_core s ls seen -> step s o = (s', r) ->
  Inv_core s' (lin_step ls o r) (seen ++ ev_of o r) /\ tick0 (sh s') = tick0 (sh s).
Proof.
  intros s ls seen o s' r Ho [HA [HR HJ]] H.
  pose proof (Inv_all_step _ _ _ _ _ _ I HA H) as HA'.
  destruct o as [b index c|b n|bs|t dd]; [contradiction| | |]; cbn [step] in H.
  - destruct (nth_error (brs s) b) as [br|] eqn:Eb.
    + injection H as <- <-. cbn [ev_of lin_step sh brs] in *. rewrite app_nil_r in *.
      destruct (Forall2_nth_error _ _ _ _ _ _ _ HR Eb) as [l [El Hl]]. rewrite El in *.
      split; [|reflexivity]. split; [exact HA'|]. split.
      * apply Forall2_app; [assumption|]. apply Forall2_repeat. assumption.
      * intros Hm Hr. apply Forall_app in Hm as [Hm _]. exact (HJ Hm Hr).
    + injection H as <- <-. cbn [lin_step ev_of] in *. rewrite app_nil_r in *.
      split; [|reflexivity]. split; [exact HA'|]. split; assumption.
  - injection H as <- <-. cbn [lin_step ev_of] in *. rewrite app_nil_r in *.
      split; [|reflexivity]. split; [exact HA'|]. split; assumption.
  - injection H as <- <-. cbn [lin_step ev_of] in *. rewrite app_nil_r in *.
      split; [|reflexivity]. split; [exact HA'|]. split; assumption.
Qed.

Definition no_consume (o : op) : Prop := match o with OConsume _ _ _ => False | _ => True end.

Lemma core_pre : forall s ls seen o s' r, no_consume o ->
  Inv_core s ls seen /\ tick0 (sh s) = 0 -> step s o = (s', r) ->
  Inv_core s' (lin_step ls o r) (seen ++ ev_of o r) /\ tick0 (sh s') = 0.
Proof.
  intros s ls seen o s' r Ho [HI Ht] H.
  destruct (core_other _ _ _ _ _ _ Ho HI H) as [HI' Ht']. split; [exact HI'|congruence].
Qed.

Lemma core_rest : forall s ls seen o s' r, index_nonzero o = true ->
  Inv_core s ls seen /\ tick0 (sh s) = t0 -> step s o = (s', r) ->
  Inv_core s' (lin_step ls o r) (seen ++ ev_of o r) /\ tick0 (sh s') = t0.
Proof.
  intros s ls seen o s' r Ho [HI Ht] H.
  destruct o as [b index c|b n|bs|t dd].
  - destruct (nth_error (brs s) b) as [br|] eqn:Eb.
    + eapply core_consume; eauto. unfold new_t0. cbn in Ho.
      destruct (index =? 0); [discriminate|exact Ht].
    + cbn [step] in H. rewrite Eb in H. injection H as <- <-. cbn. rewrite app_nil_r. split; assumption.
  - destruct (core_other _ _ _ (OFork b n) _ _ I HI H) as [HI' Ht']. split; [exact HI'|congruence].
  - destruct (core_other _ _ _ (OMerge bs) _ _ I HI H) as [HI' Ht']. split; [exact HI'|congruence].
  - destruct (core_other _ _ _ (OFloor t dd) _ _ I HI H) as [HI' Ht']. split; [exact HI'|congruence].
Qed.

End Run.

Lemma Inv_core_init : forall cfg first,
  Inv_core (initialize (configure cfg)) first (init_sys cfg) [[]] [].
Proof.
  intros cfg first. split; [apply Inv_all_init|]. split.
  - cbn. constructor; [|constructor]. split; [reflexivity|]. split; reflexivity.
  - intros _ _. split; [intros h; reflexivity|constructor].
Qed.

(* the whole run: nothing but forks/merges, then the first commit with index 0 on an existing
   branch, then any operations whose commits have an index other than 0 *)
Theorem run_core : forall cfg pre b0 c0 rest s' outs,
  let d := initialize (configure cfg) in
  let ops := pre ++ OConsume b0 0 c0 :: rest in
  0 < d ->
  Forall no_consume pre ->
  Forall (fun o => index_nonzero o = true) rest ->
  run (init_sys cfg) ops = (s', outs) ->
  nth_error outs (length pre) <> Some RBad ->
  Inv_core d (c_when c0) s' (lineages ops outs [[]]) (consumed ops outs) /\
  tick0 (sh s') = floor_time (c_when c0) d.
Proof.
  intros cfg pre b0 c0 rest s' outs d ops Hd Hpre Hrest Hrun Hbad. subst ops.
  apply run_app in Hrun as [s1 [outs1 [outs2 [Hrun1 [Hrun2 [-> Hlen]]]]]].
  apply run_cons in Hrun2 as [s2 [r [outs3 [Hstep [Hrun3 ->]]]]].
  rewrite nth_error_app2 in Hbad by lia. rewrite Hlen, Nat.sub_diag in Hbad. cbn in Hbad.
  (* phase 1 *)
  assert (H1 : Inv_core d (c_when c0) s1 (lineages pre outs1 [[]]) ([] ++ consumed pre outs1) /\ tick0 (sh s1) = 0).
  { eapply (run_invariant no_consume (fun s ls seen => Inv_core d (c_when c0) s ls seen /\ tick0 (sh s) = 0)).
    - intros. eapply core_pre; eauto.
    - exact Hpre.
    - split; [apply Inv_core_init|reflexivity].
    - exact Hrun1. }
  destruct H1 as [H1 _].
  (* the first commit *)
  assert (H2 : Inv_core d (c_when c0) s2 (lin_step (lineages pre outs1 [[]]) (OConsume b0 0 c0) r)
                 (([] ++ consumed pre outs1) ++ ev_of (OConsume b0 0 c0) r) /\
               tick0 (sh s2) = floor_time (c_when c0) d).
  { destruct (nth_error (brs s1) b0) as [br|] eqn:Eb.
    - eapply core_consume; eauto.
    - cbn [step] in Hstep. rewrite Eb in Hstep. injection Hstep as <- <-. congruence. }
  (* the rest *)
  rewrite lineages_app by exact Hlen. cbn [lineages].
  rewrite consumed_app by exact Hlen. rewrite consumed_cons.
  rewrite app_assoc.
  eapply (run_invariant (fun o => index_nonzero o = true)
            (fun s ls seen => Inv_core d (c_when c0) s ls seen /\ tick0 (sh s) = floor_time (c_when c0) d)).
  - intros. eapply core_rest; eauto.
  - exact Hrest.
  - exact H2.
  - exact Hrun3.
Qed.

(* ------------------------------------------------------------------ the statements of C19 over whole runs *)

Lemma Forall2_In_r : forall A B (R : A -> B -> Prop) l1 l2 y,
  Forall2 R l1 l2 -> In y l2 -> exists x, In x l1 /\ R x y.
Proof.
  intros A B R l1 l2 y H. induction H as [|a b l1 l2 Hab H IH]; intros Hin; [contradiction|].
  destruct Hin as [<-|Hin].
  - exists a. split; [left; reflexivity|assumption].
  - destruct (IH Hin) as [x [Hx HR]]. exists x. split; [right; assumption|assumption].
Qed.

Lemma nondecreasing_all_ge : forall l p, nondecreasing p l = true -> Forall (fun x => p <= x) l.
Proof.
  induction l as [|a l IH]; intros p H; constructor.
  - cbn in H. apply andb_true_iff in H as [H _]. apply Z.leb_le. exact H.
  - cbn in H. apply andb_true_iff in H as [H1 H2]. apply Z.leb_le in H1.
    eapply Forall_impl; [|apply (IH a H2)]. cbn. intros. lia.
Qed.

Lemma spec_t0_floor : forall first d, 0 < d -> spec_t0 first d = floor_time first d.
Proof. intros. unfold spec_t0. symmetry. apply floor_time_eq. assumption. Qed.

Section Statements.
Variables (cfg : config) (pre : list op) (b0 : nat) (c0 : commit) (rest : list op) (s' : sys) (outs : list out).
Let d := initialize (configure cfg).
Let ops := pre ++ OConsume b0 0 c0 :: rest.
Let t0 := spec_t0 (c_when c0) d.
Hypothesis Hd : 0 < d.
Hypothesis Hpre : Forall no_consume pre.
Hypothesis Hrest : Forall (fun o => index_nonzero o = true) rest.
Hypothesis Hrun : run (init_sys cfg) ops = (s', outs).
Hypothesis Hfirst : nth_error outs (length pre) <> Some RBad.

Lemma core_here : Inv_core d (c_when c0) s' (lineages ops outs [[]]) (consumed ops outs) /\ tick0 (sh s') = t0.
Proof.
  unfold t0. rewrite spec_t0_floor by exact Hd. apply run_core; assumption.
Qed.

(* the shared start of tick 0 is the start of the first analysed commit's period *)
Theorem start_is_floor : tick0 (sh s') = t0 /\ (d | t0) /\ t0 <= c_when c0 < t0 + d.
Proof.
  destruct core_here as [_ H]. split; [exact H|]. unfold t0. rewrite spec_t0_floor by exact Hd.
  destruct (floor_time_spec (c_when c0) d Hd) as [A [B _]]. split; assumption.
Qed.

(* C19_tick over whole histories *)
Theorem history_tick_chain : forall l, In l (lineages ops outs [[]]) -> tick_chain t0 d 0 l = true.
Proof.
  intros l Hl. destruct core_here as [[_ [HR _]] _].
  destruct (Forall2_In_r _ _ _ _ _ _ HR Hl) as [br [_ [_ [Hc _]]]].
  unfold t0. rewrite spec_t0_floor by exact Hd. exact Hc.
Qed.

(* C19_commit_alone *)
Theorem history_commit_alone : forall l, In l (lineages ops outs [[]]) ->
  Sorted Z.le (c_when c0 :: times l) ->
  forall c k, In (c, k) l ->
    k = Z.quot (time_sub (c_when c) t0) d /\
    (in_range t0 (c_when c) = true -> k = (c_when c - t0) / d).
Proof.
  intros l Hl Hs c k Hin. destruct core_here as [[_ [HR _]] _].
  destruct (Forall2_In_r _ _ _ _ _ _ HR Hl) as [br [_ [_ [_ Ha]]]].
  apply nondecreasing_Sorted in Hs. specialize (Ha Hs).
  unfold alone in Ha. rewrite forallb_forall in Ha. specialize (Ha _ Hin). cbn in Ha. apply Z.eqb_eq in Ha.
  unfold t0. rewrite spec_t0_floor by exact Hd. split; [exact Ha|].
  intros Hr. rewrite Ha. rewrite (elapsed_in_range _ _ _ Hr).
  apply Z.quot_div_nonneg; [|lia].
  apply nondecreasing_all_ge in Hs. rewrite Forall_forall in Hs.
  assert (c_when c0 <= c_when c) by (apply Hs; unfold times; apply (in_map (fun e => c_when (fst e)) _ _ Hin)).
  pose proof (floor_time_bounds (c_when c0) d Hd). lia.
Qed.

(* C19_registry, second half *)
Theorem registry_exactly_once :
  (forall l, In l (lineages ops outs [[]]) -> Sorted Z.le (c_when c0 :: times l)) ->
  replays_ok (consumed ops outs) = true ->
  forall c k, In (c, k) (consumed ops outs) -> reg_count (commits (sh s')) (c_hash c) = 1%nat.
Proof.
  intros Hs Hr c k Hin. destruct core_here as [[_ [_ HJ]] _].
  assert (Hm : Forall (fun l => mono_times (c_when c0) l = true) (lineages ops outs [[]])).
  { apply Forall_forall. intros l Hl. apply nondecreasing_Sorted. apply Hs. exact Hl. }
  destruct (HJ Hm Hr) as [Hcnt _]. rewrite Hcnt.
  replace (hash_in (c_hash c) (consumed ops outs)) with true; [reflexivity|].
  symmetry. unfold hash_in. apply existsb_exists. exists (c, k). split; [exact Hin|apply Z.eqb_refl].
Qed.

End Statements.

(* the boolean domain test of the replay driver implies the shape assumed above *)
Lemma shape_sound : forall ops outs c0, shape ops outs = Some c0 ->
  exists pre b0 rest, ops = pre ++ OConsume b0 0 c0 :: rest /\ Forall no_consume pre /\
    Forall (fun o => index_nonzero o = true) rest /\ nth_error outs (length pre) <> Some RBad.
Proof.
  induction ops as [|o ops IH]; intros outs c0 H; [discriminate|].
  destruct outs as [|r outs]; [destruct o; discriminate|].
  destruct o as [b i c|b n|bs|t dd].
  - cbn [shape] in H.
    destruct ((i =? 0) && forallb index_nonzero ops && negb (is_bad r)) eqn:E; [|discriminate].
    injection H as <-. apply andb_true_iff in E as [E E3]. apply andb_true_iff in E as [E1 E2].
    apply Z.eqb_eq in E1. subst i. exists [], b, ops. cbn. repeat split.
    + constructor.
    + apply Forall_forall. rewrite forallb_forall in E2. exact E2.
    + intros Hb. injection Hb as ->. discriminate.
  - cbn [shape] in H. destruct (IH _ _ H) as [pre [b1 [rest [-> [Hp [Hr Hb]]]]]].
    exists (OFork b n :: pre), b1, rest. repeat split; [constructor; [exact I|assumption]|assumption|exact Hb].
  - cbn [shape] in H. destruct (IH _ _ H) as [pre [b1 [rest [-> [Hp [Hr Hb]]]]]].
    exists (OMerge bs :: pre), b1, rest. repeat split; [constructor; [exact I|assumption]|assumption|exact Hb].
  - cbn [shape] in H. destruct (IH _ _ H) as [pre [b1 [rest [-> [Hp [Hr Hb]]]]]].
    exists (OFloor t dd :: pre), b1, rest. repeat split; [constructor; [exact I|assumption]|assumption|exact Hb].
Qed.

Lemma tick_chain_cons : forall t0 d p c k l,
  tick_chain t0 d p ((c, k) :: l) = true <->
  k = (if in_range t0 (c_when c) then Z.max p ((c_when c - t0) / d)
       else Z.max p (Z.quot (time_sub (c_when c) t0) d)) /\
  tick_chain t0 d k l = true.
Proof.
  intros. cbn [tick_chain]. rewrite andb_true_iff, Z.eqb_eq. unfold spec_tick, spec_tick_sat. tauto.
Qed.

(* ------------------------------------------------------------------ what the duplicate scan guarantees for all inputs:
   a commit that has parents whenever it is consumed is never listed twice under one tick *)

Definition Inv_scan (h : Z) (s : sys) (ls : list (list event)) (seen : list event) : Prop :=
  (forall e, In e seen -> c_hash (fst e) = h -> (0 < c_parents (fst e))%nat) ->
  forall k, (count_occ Z.eq_dec (reg_get (commits (sh s)) k) h <= 1)%nat.

Lemma Inv_scan_step : forall h s ls seen o s' r, True -> Inv_scan h s ls seen -> step s o = (s', r) ->
  Inv_scan h s' (lin_step ls o r) (seen ++ ev_of o r).
Proof.
  intros h s ls seen o s' r _ HI H. destruct o as [b index c|b n|bs|t d]; cbn [step] in H.
  - destruct (nth_error (brs s) b) as [br|] eqn:Eb.
    + destruct (consume_branch (sh s) br index c) as [[sh' br'] k] eqn:Ec.
      injection H as <- <-. unfold Inv_scan. cbn [ev_of sh]. intros Hpar k'.
      assert (Hold : forall k, (count_occ Z.eq_dec (reg_get (commits (sh s)) k) h <= 1)%nat).
      { apply HI. intros e He. apply Hpar. apply in_or_app. left. exact He. }
      destruct (consume_branch_registry _ _ _ _ _ _ _ Ec) as [_ [_ [[-> _]|[-> Hnot]]]]; [apply Hold|].
      destruct (Z.eq_dec k' k) as [->|N].
      * rewrite reg_get_set_same, count_occ_app. cbn [count_occ].
        destruct (Z.eq_dec (c_hash c) h) as [E|E].
        -- assert (Hp : (0 < c_parents c)%nat).
           { apply (Hpar (c, k)); [apply in_or_app; right; left; reflexivity|exact E]. }
           specialize (Hnot Hp). rewrite E in Hnot.
           apply (count_occ_not_In Z.eq_dec) in Hnot. rewrite Hnot. lia.
        -- specialize (Hold k). lia.
      * rewrite reg_get_set_other by assumption. apply Hold.
    + injection H as <- <-. cbn. rewrite app_nil_r. exact HI.
  - destruct (nth_error (brs s) b) as [br|] eqn:Eb; injection H as <- <-; cbn; rewrite app_nil_r; exact HI.
  - injection H as <- <-. cbn. rewrite app_nil_r. exact HI.
  - injection H as <- <-. cbn. rewrite app_nil_r. exact HI.
Qed.

Theorem registry_scan : forall cfg ops s' outs h, run (init_sys cfg) ops = (s', outs) ->
  (forall c k, In (c, k) (consumed ops outs) -> c_hash c = h -> (0 < c_parents c)%nat) ->
  forall k, (count_occ Z.eq_dec (reg_get (commits (sh s')) k) h <= 1)%nat.
Proof.
  intros cfg ops s' outs h H Hpar.
  assert (HI : Inv_scan h s' (lineages ops outs [[]]) ([] ++ consumed ops outs)).
  { eapply (run_invariant (fun _ => True) (Inv_scan h) (Inv_scan_step h)); eauto.
    - apply Forall_forall. auto.
    - intros _ k. cbn. lia. }
  apply HI. intros [c k0] Hin. apply (Hpar c k0). exact Hin.
Qed.

(* ------------------------------------------------------------------ the exact formula, and where it fails *)

(* inside the range of time.Duration the saturation-aware chain is the exact one *)
Lemma chain_verdicts_in_range : forall t0 d l p, tick_chain t0 d p l = true ->
  Forall (fun v => snd v = true -> fst v = true) (chain_verdicts t0 d p l).
Proof.
  intros t0 d. induction l as [|[c k] l IH]; intros p H; cbn [chain_verdicts]; constructor.
  - cbn [fst snd]. intros Hr. cbn [tick_chain] in H. rewrite Hr in H.
    apply andb_true_iff in H as [H _]. exact H.
  - apply IH. cbn [tick_chain] in H. apply andb_true_iff in H as [_ H]. exact H.
Qed.

(* beyond 2^63-1 ns (about 292.47 years) the tick is not the number of elapsed periods:
   first commit 1970-01-01, second 2300-01-01 (monotone committer times), 24 h ticks *)
Lemma tick_refuted_beyond_292_years :
  exists cfg c0 c1 s' k,
    let d := initialize (configure cfg) in
    let t0 := spec_t0 (c_when c0) d in
    0 < d /\ c_when c0 <= c_when c1 /\
    run (init_sys cfg) [OConsume 0 0 c0; OConsume 0 1 c1] = (s', [RTick 0; RTick k]) /\
    k = 106751 /\ Z.max 0 ((c_when c1 - t0) / d) = 120530 /\
    in_range t0 (c_when c1) = false.
Proof.
  exists (CHours 24), {| c_hash := 1; c_when := time_of_unix 0 0; c_parents := 0 |},
         {| c_hash := 2; c_when := time_of_unix 10413792000 0; c_parents := 1 |}.
  eexists. exists 106751. vm_compute. repeat split; try reflexivity; discriminate.
Qed.
