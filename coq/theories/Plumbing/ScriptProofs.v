(* C11, proofs about Script.v: the validator is exactly the declarative notion of a valid canonical script,
   a validated script rebuilds the new version, and the two consumers accept every validated script. *)
From Coq Require Import List ZArith Bool Arith Lia.
From Herc Require Import Plumbing.LineCount Plumbing.Script.
Import ListNotations.

(* ---------------------------------------------------------------- list helpers *)

Lemma skipn_skipn' : forall {A} a i (l : list A), skipn i (skipn a l) = skipn (a + i) l.
Proof.
  induction a as [|a IH]; intros i l; [reflexivity|].
  destruct l as [|x l]; [now rewrite !skipn_nil|]. cbn. apply IH.
Qed.

Lemma firstn_app_exact : forall {A} (d r : list A), firstn (length d) (d ++ r) = d.
Proof. intros. rewrite firstn_app, Nat.sub_diag, firstn_all2 by lia. cbn. apply app_nil_r. Qed.

Lemma skipn_app_exact : forall {A} (d r : list A) k, skipn (length d + k) (d ++ r) = skipn k r.
Proof.
  intros. rewrite skipn_app, skipn_all2 by lia. cbn. f_equal. lia.
Qed.

(* ---------------------------------------------------------------- canonical shape *)

Lemma canon_weaken : forall p ds, canon p ds = true -> canon Equal ds = true.
Proof.
  intros p [|[o n] r] H; [reflexivity|]. cbn [canon] in *.
  apply andb_true_iff in H as [_ Hr]. rewrite Hr. destruct o; reflexivity.
Qed.

Lemma canon_cons : forall p o n r,
  canon p ((o, n) :: r) = true <-> follows p o = true /\ canon o r = true.
Proof.
  intros. cbn [canon]. rewrite !andb_true_iff. tauto.
Qed.

Definition is_edit (x : op * nat) : Prop := fst x <> Equal.

(* "between two equal runs there is at most one deletion followed by at most one insertion": every block of
   consecutive non-equal runs is empty, one deletion, one insertion, or a deletion followed by an insertion *)
Lemma canon_block : forall blk p post, Forall is_edit blk -> canon p (blk ++ post) = true ->
  blk = [] \/ (exists n, blk = [(Delete, n)]) \/ (exists n, blk = [(Insert, n)])
  \/ (exists n m, blk = [(Delete, n); (Insert, m)]).
Proof.
  intros blk p post Hb Hc.
  destruct blk as [|[o1 n1] b1]; [now left|]. right.
  inversion Hb as [|? ? H1 Hb1]; subst. cbn [app] in Hc. apply canon_cons in Hc as (_ & Hc).
  destruct b1 as [|[o2 n2] b2].
  - destruct o1; [now elim H1|left; now exists n1|right; left; now exists n1].
  - inversion Hb1 as [|? ? H2 Hb2]; subst. cbn [app] in Hc. apply canon_cons in Hc as (Hf & Hc).
    destruct o1; [now elim H1| |destruct o2; [now elim H2|discriminate|discriminate]].
    destruct o2; [now elim H2|discriminate|].
    destruct b2 as [|[o3 n3] b3]; [right; right; now exists n1, n2|].
    inversion Hb2 as [|? ? H3 _]; subst. cbn [app] in Hc. apply canon_cons in Hc as (Hf3 & _).
    destruct o3; [now elim H3|discriminate|discriminate].
Qed.

Theorem canonical_blocks : forall pre blk post, canonical (pre ++ blk ++ post) = true -> Forall is_edit blk ->
  blk = [] \/ (exists n, blk = [(Delete, n)]) \/ (exists n, blk = [(Insert, n)])
  \/ (exists n m, blk = [(Delete, n); (Insert, m)]).
Proof.
  unfold canonical. intros pre. generalize Equal.
  induction pre as [|[o n] pre IH]; intros p blk post Hc Hb.
  - cbn [app] in Hc. eapply canon_block; eauto.
  - cbn [app] in Hc. apply canon_cons in Hc as (_ & Hc). eapply IH; eauto.
Qed.

(* ---------------------------------------------------------------- the validator *)

Section ValidatorProofs.
  Context {A : Type} (eqb : A -> A -> bool).
  Hypothesis eqb_spec : forall x y, eqb x y = true <-> x = y.

  (* equal runs cover identical lines, at the offsets the runs before them add up to *)
  Fixpoint equal_cover (old new : list A) (i j : nat) (ds : script) : Prop :=
    match ds with
    | [] => True
    | (Equal, n) :: r => firstn n (skipn i old) = firstn n (skipn j new) /\ equal_cover old new (i + n) (j + n) r
    | (Delete, n) :: r => equal_cover old new (i + n) j r
    | (Insert, n) :: r => equal_cover old new i (j + n) r
    end.

  Definition valid_script (old new : list A) (ds : script) : Prop :=
    canonical ds = true /\ old_total ds = length old /\ new_total ds = length new /\ equal_cover old new 0 0 ds.

  Lemma eq_prefix_spec : forall n o w,
    eq_prefix eqb n o w = true <-> n <= length o /\ n <= length w /\ firstn n o = firstn n w.
  Proof.
    induction n as [|n IH]; intros o w; cbn.
    - split; [intros _; repeat split; lia|reflexivity].
    - destruct o as [|x o], w as [|y w]; cbn; try (split; [discriminate|intros (?&?&?); lia]).
      rewrite andb_true_iff, IH, eqb_spec. split.
      + intros (-> & ? & ? & ->). repeat split; lia.
      + intros (? & ? & E). injection E as -> E. repeat split; try lia. exact E.
  Qed.

  Lemma equal_cover_shift : forall ds old new a b i j,
    equal_cover old new (a + i) (b + j) ds <-> equal_cover (skipn a old) (skipn b new) i j ds.
  Proof.
    induction ds as [|[o n] r IH]; intros old new a b i j; cbn [equal_cover]; [tauto|].
    destruct o.
    - rewrite !skipn_skipn'. rewrite <- !Nat.add_assoc. rewrite IH. tauto.
    - rewrite <- !Nat.add_assoc. apply IH.
    - rewrite <- !Nat.add_assoc. apply IH.
  Qed.

  Lemma null_true : forall l : list A, null l = true <-> length l = 0.
  Proof. destruct l; cbn; split; (reflexivity || discriminate). Qed.

  Lemma walk_spec : forall ds p old new,
    walk eqb p old new ds = true <->
    canon p ds = true /\ old_total ds = length old /\ new_total ds = length new /\ equal_cover old new 0 0 ds.
  Proof.
    induction ds as [|[o n] r IH]; intros p old new.
    - cbn. rewrite andb_true_iff, !null_true. intuition lia.
    - cbn [walk]. rewrite canon_cons. rewrite !andb_true_iff.
      destruct o; cbn [old_total new_total equal_cover].
      + rewrite andb_true_iff, eq_prefix_spec, IH, !skipn_length.
        rewrite <- (equal_cover_shift r old new n n 0 0). rewrite !Nat.add_0_r. cbn [skipn Nat.add].
        intuition lia.
      + rewrite andb_true_iff, Nat.leb_le, IH, !skipn_length.
        rewrite <- (equal_cover_shift r old new n 0 0 0). rewrite !Nat.add_0_r. cbn [skipn Nat.add].
        intuition lia.
      + rewrite andb_true_iff, Nat.leb_le, IH, !skipn_length.
        rewrite <- (equal_cover_shift r old new 0 n 0 0). rewrite !Nat.add_0_r. cbn [skipn Nat.add].
        intuition lia.
  Qed.

  (* soundness and completeness of the validator *)
  Theorem script_ok_iff : forall old new ds, script_ok eqb old new ds = true <-> valid_script old new ds.
  Proof. intros. unfold script_ok, valid_script, canonical. apply walk_spec. Qed.

  Lemma walk_apply : forall ds p old new, walk eqb p old new ds = true -> apply ds old new = Some new.
  Proof.
    induction ds as [|[o n] r IH]; intros p old new H.
    - cbn in *. apply andb_true_iff in H as [H1 H2]. apply null_true in H1, H2.
      destruct old; [|discriminate]. destruct new; [reflexivity|discriminate].
    - cbn [walk] in H. apply andb_true_iff in H as [_ H]. destruct o; apply andb_true_iff in H as [H1 H2]; cbn [apply].
      + apply eq_prefix_spec in H1 as (Ho & Hw & E).
        apply Nat.leb_le in Ho, Hw. rewrite Ho, Hw. cbn [andb].
        rewrite (IH _ _ _ H2). cbn. rewrite E, firstn_skipn. reflexivity.
      + rewrite H1. eauto.
      + rewrite H1. rewrite (IH _ _ _ H2). cbn. now rewrite firstn_skipn.
  Qed.

  Theorem script_applies : forall old new ds, script_ok eqb old new ds = true ->
    apply ds old new = Some new /\ canonical ds = true.
  Proof.
    intros old new ds H. split; [eapply walk_apply; exact H|]. now apply script_ok_iff in H as (? & _).
  Qed.
End ValidatorProofs.

(* comparing through a function is validating the mapped lists *)
Lemma eq_prefix_map : forall {A B} (eqb : B -> B -> bool) (f : A -> B) n o w,
  eq_prefix (fun x y => eqb (f x) (f y)) n o w = eq_prefix eqb n (map f o) (map f w).
Proof.
  induction n as [|n IH]; intros o w; [reflexivity|].
  destruct o as [|x o], w as [|y w]; cbn; try reflexivity. now rewrite IH.
Qed.

Lemma walk_map : forall {A B} (eqb : B -> B -> bool) (f : A -> B) ds p o w,
  walk (fun x y => eqb (f x) (f y)) p o w ds = walk eqb p (map f o) (map f w) ds.
Proof.
  induction ds as [|[op n] r IH]; intros p o w.
  - destruct o, w; reflexivity.
  - cbn [walk]. destruct op.
    + rewrite eq_prefix_map, IH, !skipn_map. reflexivity.
    + rewrite IH, skipn_map, map_length. reflexivity.
    + rewrite IH, skipn_map, map_length. reflexivity.
Qed.

Lemma script_ok_map : forall {A B} (eqb : B -> B -> bool) (f : A -> B) o w ds,
  script_ok (fun x y => eqb (f x) (f y)) o w ds = script_ok eqb (map f o) (map f w) ds.
Proof. intros. apply walk_map. Qed.

Lemma list_eqb_spec : forall x y, list_eqb x y = true <-> x = y.
Proof.
  induction x as [|a x IH]; destruct y as [|b y]; cbn; try (split; (reflexivity || discriminate)).
  rewrite andb_true_iff, Z.eqb_eq, IH. split; [intros [-> ->]; reflexivity|intros E; injection E; auto].
Qed.

(* ---------------------------------------------------------------- handleModification *)

Section ConsumerProofs.
  Context {V : Type} (v : V).

  Lemma arr_update_ok : forall pos ins del (done rest : list V),
    pos = length done -> del <= length rest ->
    arr_update v pos ins del (done ++ rest) = Some (done ++ repeat v ins ++ skipn del rest).
  Proof.
    intros pos ins del done rest -> Hd. unfold arr_update.
    destruct ((ins =? 0) && (del =? 0)) eqn:Z.
    - apply andb_true_iff in Z as [Zi Zd]. apply Nat.eqb_eq in Zi, Zd. subst. reflexivity.
    - rewrite app_length.
      destruct (Nat.ltb_spec (length done + length rest) (length done)); [lia|].
      destruct (Nat.ltb_spec (length done + length rest) (length done + del)); [lia|].
      now rewrite firstn_app_exact, skipn_app_exact.
  Qed.

  Definition loop_ok (ds : script) : Prop :=
    (forall done rest pop, canon Equal ds = true -> old_total ds = length rest ->
       hm_loop v ds (mkH (done ++ rest) (length done) pop 0) = HmOk (done ++ relabel v ds rest))
    /\ (forall done rest d, 0 < d -> canon Delete ds = true -> d + old_total ds = length rest ->
       hm_loop v ds (mkH (done ++ rest) (length done) Delete d) = HmOk (done ++ relabel v ds (skipn d rest)))
    /\ (forall done rest i, 0 < i -> canon Insert ds = true -> old_total ds = length rest ->
       hm_loop v ds (mkH (done ++ rest) (length done) Insert i) = HmOk (done ++ repeat v i ++ relabel v ds rest)).

  (* advancing over an equal run when nothing is pending *)
  Lemma step_equal : forall r n done rest pop,
    loop_ok r -> canon Equal r = true -> n + old_total r = length rest ->
    hm_loop v r (mkH (done ++ rest) (length done + n) pop 0) = HmOk (done ++ firstn n rest ++ relabel v r (skipn n rest)).
  Proof.
    intros r n done rest pop (HA & _ & _) Hc Ht.
    specialize (HA (done ++ firstn n rest) (skipn n rest) pop Hc).
    rewrite app_length, firstn_length, Nat.min_l, <- app_assoc, firstn_skipn in HA by lia.
    rewrite HA by (rewrite skipn_length; lia). now rewrite <- app_assoc.
  Qed.

  Lemma hm_loop_ok : forall ds, loop_ok ds.
  Proof.
    induction ds as [|[o n] r IH].
    - split; [|split].
      + intros done rest pop _ _. reflexivity.
      + intros done rest d Hd _ Ht. cbn in Ht. cbn [hm_loop h_pn h_pop h_arr h_pos].
        destruct (Nat.ltb_spec 0 d); [|lia]. cbn [apply_edit].
        rewrite (arr_update_ok (length done) 0 d done rest eq_refl) by lia. reflexivity.
      + intros done rest i Hi _ _. cbn [hm_loop h_pn h_pop h_arr h_pos].
        destruct (Nat.ltb_spec 0 i); [|lia]. cbn [apply_edit].
        rewrite (arr_update_ok (length done) i 0 done rest eq_refl) by lia. reflexivity.
    - split; [|split].
      + (* nothing pending *)
        intros done rest pop Hc Ht. apply canon_cons in Hc as (_ & Hc).
        cbn [hm_loop h_pn h_pop h_arr h_pos]. cbn [Nat.ltb Nat.leb].
        destruct o; cbn [old_total] in Ht; cbn [relabel].
        * apply step_equal; auto.
        * destruct n as [|n].
          -- (* an empty deletion: pending.Text stays "" *)
             destruct IH as (HA & _ & _). cbn [skipn]. apply HA; [eapply canon_weaken; eauto|lia].
          -- destruct IH as (_ & HB & _). apply HB; auto; lia.
        * destruct n as [|n].
          -- destruct IH as (HA & _ & _). cbn [repeat app]. apply HA; [eapply canon_weaken; eauto|lia].
          -- destruct IH as (_ & _ & HC). apply HC; auto; lia.
      + (* a deletion is pending *)
        intros done rest d Hd Hc Ht. apply canon_cons in Hc as (Hf & Hc).
        cbn [hm_loop h_pn h_pop h_arr h_pos]. destruct (Nat.ltb_spec 0 d); [|lia].
        destruct o; [| discriminate |]; cbn [old_total] in Ht; cbn [relabel].
        * cbn [apply_edit]. rewrite (arr_update_ok (length done) 0 d done rest eq_refl) by lia.
          cbn [option_map repeat app]. apply step_equal; auto. rewrite skipn_length. lia.
        * rewrite (arr_update_ok (length done) n d done rest eq_refl) by lia.
          destruct IH as (HA & _ & _).
          specialize (HA (done ++ repeat v n) (skipn d rest) Delete (canon_weaken _ _ Hc)).
          rewrite app_length, repeat_length, <- app_assoc in HA.
          rewrite HA by (rewrite skipn_length; lia). now rewrite <- app_assoc.
      + (* an insertion is pending *)
        intros done rest i Hi Hc Ht. apply canon_cons in Hc as (Hf & Hc).
        cbn [hm_loop h_pn h_pop h_arr h_pos]. destruct (Nat.ltb_spec 0 i); [|lia].
        destruct o; [| discriminate | discriminate]; cbn [old_total] in Ht; cbn [relabel].
        cbn [apply_edit]. rewrite (arr_update_ok (length done) i 0 done rest eq_refl) by lia.
        cbn [option_map skipn].
        pose proof (step_equal r n (done ++ repeat v i) rest Insert IH Hc Ht) as S.
        rewrite app_length, repeat_length, <- !app_assoc in S. rewrite S. rewrite <- ?app_assoc. reflexivity.
  Qed.

  Lemma relabel_length : forall ds rest, old_total ds = length rest ->
    length (relabel v ds rest) = new_total ds.
  Proof.
    induction ds as [|[o n] r IH]; intros rest Ht; cbn in *; [now rewrite <- Ht|].
    destruct o; cbn [old_total new_total relabel] in *.
    - rewrite app_length, firstn_length, IH by (rewrite skipn_length; lia). lia.
    - rewrite IH by (rewrite skipn_length; lia). reflexivity.
    - rewrite app_length, repeat_length, IH by lia. reflexivity.
  Qed.

  (* every canonical script whose totals fit is accepted: no integrity error, no shape error, no panic of
     File.Update, and the file afterwards is the relabelled array of the right length *)
  Theorem handle_modification_ok : forall ds arr new_loc,
    canonical ds = true -> old_total ds = length arr -> new_total ds = new_loc ->
    handle_modification v (length arr) new_loc arr ds = HmOk (relabel v ds arr)
    /\ length (relabel v ds arr) = new_loc.
  Proof.
    intros ds arr k Hc Ho Hn. pose proof (relabel_length ds arr Ho) as L.
    split; [|lia]. unfold handle_modification. rewrite Nat.eqb_refl. cbn [negb].
    destruct (hm_loop_ok ds) as (HA & _ & _). specialize (HA [] arr Equal Hc Ho). cbn in HA. rewrite HA.
    replace (length (relabel v ds arr) =? k) with true by (symmetry; apply Nat.eqb_eq; lia). reflexivity.
  Qed.

  (* the guard is real: a wrong old count is the "src" integrity error *)
  Theorem handle_modification_src : forall ds arr old_loc new_loc, length arr <> old_loc ->
    handle_modification v old_loc new_loc arr ds = HmErr IntegritySrc.
  Proof.
    intros. unfold handle_modification. destruct (Nat.eqb_spec (length arr) old_loc); [contradiction|reflexivity].
  Qed.
End ConsumerProofs.

Theorem consumer_accepts : forall {A V : Type} (eqb : A -> A -> bool) (v : V) (old new : list A) (arr : list V) ds,
  (forall x y, eqb x y = true <-> x = y) ->
  script_ok eqb old new ds = true -> length arr = length old ->
  exists arr', handle_modification v (length old) (length new) arr ds = HmOk arr'
               /\ length arr' = length new /\ arr' = relabel v ds arr.
Proof.
  intros A V eqb v old new arr ds He H L.
  apply (script_ok_iff eqb He) in H as (Hc & Ho & Hn & _).
  exists (relabel v ds arr). rewrite <- L.
  destruct (handle_modification_ok v ds arr (length new) Hc) as [E1 E2]; try congruence.
  repeat split; assumption.
Qed.

(* ---------------------------------------------------------------- LinesStatsCalculator *)

Fixpoint del_total (ds : script) : nat :=
  match ds with [] => 0 | (Delete, n) :: r => n + del_total r | _ :: r => del_total r end.
Fixpoint ins_total (ds : script) : nat :=
  match ds with [] => 0 | (Insert, n) :: r => n + ins_total r | _ :: r => ins_total r end.
Fixpoint eq_total (ds : script) : nat :=
  match ds with [] => 0 | (Equal, n) :: r => n + eq_total r | _ :: r => eq_total r end.

Lemma totals_split : forall ds, old_total ds = eq_total ds + del_total ds /\ new_total ds = eq_total ds + ins_total ds.
Proof. induction ds as [|[o n] r [I1 I2]]; [cbn; lia|]. destruct o; cbn; lia. Qed.

Lemma ls_loop_spec : forall ds p a r c pd, canon p ds = true -> (pd = 0 \/ p = Delete) ->
  let s := ls_loop ds (mkL a r c pd) in
  ls_removed s + ls_changed s = r + c + pd + del_total ds /\ ls_added s + ls_changed s = a + c + ins_total ds.
Proof.
  induction ds as [|[o n] t IH]; intros p a r c pd Hc Hp; [cbn; lia|].
  apply canon_cons in Hc as (Hf & Hc). cbn [ls_loop ls_added ls_removed ls_changed ls_pending del_total ins_total].
  destruct o.
  - specialize (IH Equal a (r + pd) c 0 Hc (or_introl eq_refl)). cbn zeta in *. lia.
  - assert (pd = 0) by (destruct Hp as [?|Hp]; [assumption|subst p; discriminate]). subst pd.
    specialize (IH Delete a r c n Hc (or_intror eq_refl)). cbn zeta in *. lia.
  - destruct (Nat.ltb_spec n pd).
    + specialize (IH Insert a (r + (pd - n)) (c + n) 0 Hc (or_introl eq_refl)). cbn zeta in *. lia.
    + specialize (IH Insert (a + (n - pd)) r (c + pd) 0 Hc (or_introl eq_refl)). cbn zeta in *. lia.
Qed.

(* the second consumer: on a validated script the statistics account for every deleted and every inserted line,
   hence old + added - removed = new *)
Theorem line_stats_conserve : forall {A} (eqb : A -> A -> bool) (old new : list A) ds,
  (forall x y, eqb x y = true <-> x = y) -> script_ok eqb old new ds = true ->
  let s := line_stats ds in
  ls_removed s + ls_changed s = del_total ds /\ ls_added s + ls_changed s = ins_total ds
  /\ length old + ls_added s = length new + ls_removed s.
Proof.
  intros A eqb old new ds He H. apply (script_ok_iff eqb He) in H as (Hc & Ho & Hn & _).
  pose proof (ls_loop_spec ds Equal 0 0 0 0 Hc (or_introl eq_refl)) as S.
  pose proof (totals_split ds) as T. unfold line_stats. cbn zeta in *. lia.
Qed.
