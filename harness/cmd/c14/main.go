// Harness for C14: drives the real Pipeline.Run (internal/core/pipeline.go) over synthetic in-memory
// repositories with pipelines of recording items and records the plan Run executed, every call the
// items received (Consume with the complete deps map, Fork, Merge, Hibernate, Boot, Finalize) and the
// returned summary / error.
package main

import (
	"errors"
	"fmt"
	"io"
	"log"
	"os"
	"regexp"
	"sort"
	"strconv"
	"strings"
	"time"

	"gopkg.in/src-d/go-git.v4"
	"gopkg.in/src-d/go-git.v4/plumbing/object"
	hercules "gopkg.in/src-d/hercules.v10"
	"gopkg.in/src-d/hercules.v10/verifapi"
	vc14 "gopkg.in/src-d/hercules.v10/verifapi/c14"
	. "verifharness/lib"
	"verifharness/synth"
)

// ---------------------------------------------------------------------------------------------
// recording items

type itemSpec struct {
	Name     int // declared number (unique): the item is called "it<Name>" unless Alias is set
	Provides []int
	Requires []int
	Copy     bool
	Hib      bool
	Leaf     bool
	// Alias > 0: Name() is "n<Alias>"; several items of one pipeline may share it (resolve() numbers them
	// n<Alias>_1, n<Alias>_2, ...) while their Provides()/Requires() differ
	Alias int
	// Extras: undeclared keys returned by every Consume besides the default undeclared key e<1000+pos>:
	// 0, 1, 2 = the keys commit, index, is_merge; k >= 3 = e<k> (an entity of another item or one of its own
	// inputs); -2 = do not return the default undeclared key
	Extras []int
}

type injection struct {
	Kind string // none | err | miss | hib | boot | nil | errm
	Item int    // declared number
	// commit index (err, miss, nil) / ordinal of the Hibernate-or-Boot call on one object (hib, boot) /
	// errm: Consume fails at the first call with is_merge = true and commit index >= K
	K   int
	Ent int // miss: the entity left out
}

// special: item Item (declared number) publishes, for its DECLARED entity Ent at commit index K (-1: at every step),
// not a digest but the special-but-legal Go value number Code (specialValue): the untyped nil interface, typed nil
// slices / maps / pointers, "", 0, false, an empty slice, uint64(0).  A value is a value: Run must store it under the
// key, the downstream items must find exactly it, and nothing is "missing".
type special struct{ Item, Ent, K, Code int }

// specBase + code is how a special value is written in the trace (digests are < mixMod = 2^31-1)
const specBase = 3000000000

const numSpecialCodes = 9

func specialValue(code int) interface{} {
	switch code {
	case 1:
		return nil // the untyped nil interface
	case 2:
		return []string(nil)
	case 3:
		return map[string]int(nil)
	case 4:
		return (*base)(nil)
	case 5:
		return ""
	case 6:
		return 0
	case 7:
		return false
	case 8:
		return []int{}
	}
	return uint64(0) // code 9: an ordinary value at the end of the domain
}

// specialCode recognises the values of specialValue (uint64 values are ordinary and handled by the callers)
func specialCode(v interface{}) (uint64, bool) {
	if v == nil {
		return 1, true
	}
	switch x := v.(type) {
	case []string:
		if x == nil {
			return 2, true
		}
	case map[string]int:
		if x == nil {
			return 3, true
		}
	case *base:
		if x == nil {
			return 4, true
		}
	case string:
		if x == "" {
			return 5, true
		}
	case int:
		if x == 0 {
			return 6, true
		}
	case bool:
		if !x {
			return 7, true
		}
	case []int:
		if x != nil && len(x) == 0 {
			return 8, true
		}
	}
	return 0, false
}

type shared struct {
	log      []Sx
	nextID   int
	inj      injection
	injErr   error
	commitID map[string]int
	specials []special
}

func (sh *shared) specialFor(item, ent int, idx uint64) (int, bool) {
	for _, sp := range sh.specials {
		if sp.Item == item && sp.Ent == ent && (sp.K < 0 || uint64(sp.K) == idx) {
			return sp.Code, true
		}
	}
	return 0, false
}

func entName(e int) string { return styled("e", e) }

// keyName is entName extended to the three metadata keys (used for undeclared extra keys only)
func keyName(e int) string {
	switch e {
	case 0:
		return hercules.DependencyCommit
	case 1:
		return hercules.DependencyIndex
	case 2:
		return hercules.DependencyIsMerge
	}
	return entName(e)
}

func entOfKey(k string) (int, bool) {
	switch k {
	case hercules.DependencyCommit:
		return 0, true
	case hercules.DependencyIndex:
		return 1, true
	case hercules.DependencyIsMerge:
		return 2, true
	}
	if nameStyle != 0 {
		v, ok := styledEntities()[k]
		return v, ok
	}
	if strings.HasPrefix(k, "e") {
		if v, err := strconv.Atoi(k[1:]); err == nil {
			return v, true
		}
	}
	return 0, false
}

const mixMod = 2147483647

func mix(a, b uint64) uint64 { return (a*1000003 + b*7919 + 12345) % mixMod }

// base holds the fields of a recording item; ForkCopyPipelineItem copies them by value.
type base struct {
	sh     *shared
	spec   itemSpec
	pos    int // position in the resolved order, set after Pipeline.Initialize
	id     int // identity of this Go object
	calls  int
	hcalls int
}

type based interface{ b() *base }

func (b *base) b() *base { return b }

func (s itemSpec) nameAtom() string {
	if s.Alias > 0 {
		return "n" + strconv.Itoa(s.Alias)
	}
	return strconv.Itoa(s.Name)
}

func (b *base) Name() string {
	if b.spec.Alias > 0 {
		return styled("n", b.spec.Alias)
	}
	return styled("it", b.spec.Name)
}
func (b *base) Provides() []string {
	r := make([]string, len(b.spec.Provides))
	for i, e := range b.spec.Provides {
		r[i] = entName(e)
	}
	return r
}
func (b *base) Requires() []string {
	r := make([]string, len(b.spec.Requires))
	for i, e := range b.spec.Requires {
		r[i] = entName(e)
	}
	return r
}
func (b *base) ListConfigurationOptions() []hercules.ConfigurationOption { return nil }
func (b *base) Configure(facts map[string]interface{}) error             { return nil }

// Initialize starts a new analysis: the per-object counters are reset (a re-initialised pipeline must behave like a new one)
func (b *base) Initialize(*git.Repository) error {
	b.calls, b.hcalls = 0, 0
	return nil
}

func (b *base) depSx(deps map[string]interface{}) Sx {
	type kv struct {
		k int
		v Sx
	}
	var l []kv
	var odd []string
	for k, v := range deps {
		e, ok := entOfKey(k)
		if !ok {
			odd = append(odd, k)
			continue
		}
		var sv Sx
		if code, ok := specialCode(v); ok && e >= 3 {
			l = append(l, kv{e, U64(specBase + code)})
			continue
		}
		switch x := v.(type) {
		case *object.Commit:
			if id, ok := b.sh.commitID[x.Hash.String()]; ok {
				sv = I(id)
			} else {
				sv = A("?")
			}
		case int:
			sv = I(x)
		case bool:
			sv = B(x)
		case uint64:
			sv = U64(x)
		default:
			sv = A("?")
		}
		l = append(l, kv{e, sv})
	}
	sort.Slice(l, func(i, j int) bool { return l[i].k < l[j].k })
	sort.Strings(odd)
	xs := make([]Sx, 0, len(l)+len(odd))
	for _, p := range l {
		xs = append(xs, L(I(p.k), p.v))
	}
	for _, k := range odd {
		xs = append(xs, L(A("odd:"+k), A("?")))
	}
	return T("deps", xs...)
}

func (b *base) Consume(deps map[string]interface{}) (map[string]interface{}, error) {
	sh := b.sh
	b.calls++
	cid, idx, mg := uint64(0), uint64(0), uint64(0)
	if c, ok := deps[hercules.DependencyCommit].(*object.Commit); ok {
		cid = uint64(sh.commitID[c.Hash.String()])
	}
	if i, ok := deps[hercules.DependencyIndex].(int); ok {
		idx = uint64(i)
	}
	if m, ok := deps[hercules.DependencyIsMerge].(bool); ok && m {
		mg = 1
	}
	dig := mix(mix(mix(mix(uint64(b.pos), cid), idx), mg), uint64(b.calls))
	for _, e := range b.spec.Requires {
		v, present := deps[entName(e)]
		var x uint64
		if present {
			if u, ok := v.(uint64); ok {
				x = u + 2
			} else if code, ok := specialCode(v); ok {
				x = specBase + code + 2
			} else {
				x = 1
			}
		}
		dig = mix(dig, x)
	}
	dsx := b.depSx(deps)
	if sh.inj.Item == b.spec.Name && ((sh.inj.Kind == "err" && uint64(sh.inj.K) == idx) ||
		(sh.inj.Kind == "errm" && mg == 1 && idx >= uint64(sh.inj.K))) {
		sh.log = append(sh.log, T("con", I(b.pos), I(b.id), dsx, T("err")))
		return nil, sh.injErr
	}
	if sh.inj.Kind == "nil" && sh.inj.Item == b.spec.Name && uint64(sh.inj.K) == idx {
		// a nil map and no error: fine for an item without declared outputs, a missing output otherwise
		sh.log = append(sh.log, T("con", I(b.pos), I(b.id), dsx, T("out")))
		return nil, nil
	}
	upd := map[string]interface{}{}
	var outs []Sx
	for _, e := range b.spec.Provides {
		if sh.inj.Kind == "miss" && sh.inj.Item == b.spec.Name && uint64(sh.inj.K) == idx && sh.inj.Ent == e {
			continue
		}
		v := mix(dig, uint64(e))
		if code, ok := sh.specialFor(b.spec.Name, e, idx); ok {
			upd[entName(e)] = specialValue(code)
			if code != 9 {
				v = specBase + uint64(code)
			} else {
				v = 0
			}
			outs = append(outs, L(I(e), U64(v)))
			continue
		}
		upd[entName(e)] = v
		outs = append(outs, L(I(e), U64(v)))
	}
	// undeclared extra keys: Run must not copy them into the state
	noDefault := false
	for _, e := range b.spec.Extras {
		noDefault = noDefault || e == -2
	}
	if !noDefault {
		upd[entName(1000+b.pos)] = dig
		outs = append(outs, L(I(1000+b.pos), U64(dig)))
	}
	for _, e := range b.spec.Extras {
		declared := e < 0
		for _, p := range b.spec.Provides {
			declared = declared || p == e
		}
		if _, dup := upd[keyName(e)]; declared || dup {
			continue
		}
		v := mix(dig, uint64(e+500))
		upd[keyName(e)] = v
		outs = append(outs, L(I(e), U64(v)))
	}
	sh.log = append(sh.log, T("con", I(b.pos), I(b.id), dsx, T("out", outs...)))
	return upd, nil
}

func (b *base) fork(self hercules.PipelineItem, n int) []hercules.PipelineItem {
	var clones []hercules.PipelineItem
	ids := make([]int, n)
	if b.spec.Copy {
		clones = hercules.ForkCopyPipelineItem(self, n)
		for i, c := range clones {
			cb := c.(based).b()
			cb.id = b.sh.nextID
			b.sh.nextID++
			ids[i] = cb.id
		}
	} else {
		clones = hercules.ForkSamePipelineItem(self, n)
		for i := range ids {
			ids[i] = b.id
		}
	}
	b.sh.log = append(b.sh.log, T("fork", I(b.pos), I(b.id), I(n), Ints(ids)))
	return clones
}

func (b *base) Merge(branches []hercules.PipelineItem) {
	ids := make([]int, len(branches))
	for i, o := range branches {
		ids[i] = o.(based).b().id
	}
	b.sh.log = append(b.sh.log, T("merge", I(b.pos), I(b.id), Ints(ids)))
}

func (b *base) hb(tag string) error {
	b.hcalls++
	if b.sh.inj.Kind == tag && b.sh.inj.Item == b.spec.Name && b.sh.inj.K == b.hcalls {
		b.sh.log = append(b.sh.log, T(tag, I(b.pos), I(b.id), I(0)))
		return b.sh.injErr
	}
	b.sh.log = append(b.sh.log, T(tag, I(b.pos), I(b.id), I(1)))
	return nil
}

func (b *base) finalize() interface{} {
	b.sh.log = append(b.sh.log, T("fin", I(b.pos), I(b.id), I(b.calls)))
	return [2]int{b.id, b.calls}
}

// the four concrete item types (ForkCopyPipelineItem needs the concrete type of the origin)
type recPlain struct{ base }
type recLeaf struct{ base }
type recHib struct{ base }
type recHibLeaf struct{ base }

func (it *recPlain) Fork(n int) []hercules.PipelineItem   { return it.fork(it, n) }
func (it *recLeaf) Fork(n int) []hercules.PipelineItem    { return it.fork(it, n) }
func (it *recHib) Fork(n int) []hercules.PipelineItem     { return it.fork(it, n) }
func (it *recHibLeaf) Fork(n int) []hercules.PipelineItem { return it.fork(it, n) }

func (it *recHib) Hibernate() error     { return it.hb("hib") }
func (it *recHib) Boot() error          { return it.hb("boot") }
func (it *recHibLeaf) Hibernate() error { return it.hb("hib") }
func (it *recHibLeaf) Boot() error      { return it.hb("boot") }

func (it *recLeaf) Flag() string             { return it.Name() }
func (it *recLeaf) Description() string      { return "Recording leaf." }
func (it *recLeaf) Finalize() interface{}    { return it.finalize() }
func (it *recHibLeaf) Flag() string          { return it.Name() }
func (it *recHibLeaf) Description() string   { return "Recording leaf." }
func (it *recHibLeaf) Finalize() interface{} { return it.finalize() }
func (it *recLeaf) Serialize(interface{}, bool, io.Writer) error {
	return nil
}
func (it *recHibLeaf) Serialize(interface{}, bool, io.Writer) error {
	return nil
}

func newItem(sh *shared, s itemSpec) hercules.PipelineItem {
	b := base{sh: sh, spec: s}
	switch {
	case s.Hib && s.Leaf:
		return &recHibLeaf{b}
	case s.Hib:
		return &recHib{b}
	case s.Leaf:
		return &recLeaf{b}
	}
	return &recPlain{b}
}

// quiet logger (Run reports item errors through the pipeline's logger)
type nopLogger struct{}

func (nopLogger) Info(...interface{})              {}
func (nopLogger) Infof(string, ...interface{})     {}
func (nopLogger) Warn(...interface{})              {}
func (nopLogger) Warnf(string, ...interface{})     {}
func (nopLogger) Error(...interface{})             {}
func (nopLogger) Errorf(string, ...interface{})    {}
func (nopLogger) Critical(...interface{})          {}
func (nopLogger) Criticalf(string, ...interface{}) {}

// ---------------------------------------------------------------------------------------------
// one case

type commitSpec struct {
	ID      int
	Time    int64 // committer time (Unix)
	Parents []int // ids
	// Ext (round 4): the commit is written (id time parents (atime ctz atz nonce)): author time different from the committer
	// time, zone offsets of the committer / author signature in minutes, and a nonce appended to the commit message (found by
	// the generator so that the hash of this commit shares its first / last hex digits with another commit of the case)
	Ext      bool
	ATime    int64
	CTZ, ATZ int
	Nonce    string
}

type caseIn struct {
	Kind    string
	Dist    int
	Items   []itemSpec // in registration order
	Inj     injection
	Commits []commitSpec
	PA      bool // facts[ConfigPipelinePrintActions]
	// Specials: special-but-legal values published for declared entities (field special; see type special)
	Specials []special
	// Runs: kinds reuse-*: the runs of ONE Pipeline object, in order (reuse.go); empty: a single run of everything
	Runs []runSpec
	// Names (round 4, field names): byte-level style of the item and entity names of the case (styled in round4.go)
	Names int
	// Twins (field twins, informational): (a b digits) - the generator searched nonces so that the hashes of commits a and b
	// agree in their first (digits > 0) or last (digits < 0) |digits| hex digits
	Twins [][3]int
}

var missRe = regexp.MustCompile(`^(?:it(\d+)|(n\d+)): Consume\(\) did not return e(\d+)$`)

// planLine is one line of Run's plan dump.
type planLine struct {
	kind  string
	items []int
	hash  string
}

// session: one repository, one Pipeline object and one set of item instances; run() may be called several times
// (kinds reuse-*: the same objects analyse several commit selections, one after the other).
type session struct {
	in       caseIn
	sh       *shared
	commits  []*object.Commit // all commits of the repository, in the order of in.Commits
	byHash   map[string]*object.Commit
	pipeline *hercules.Pipeline
	resolved []hercules.PipelineItem
	order    []int
	// the options in force (a run without Initialize keeps those of the run before)
	dist     int
	pa, dump bool
	ready    bool
}

// synthSpecs: how the commits of a case are written into the in-memory repository
func synthSpecs(cms []commitSpec) []synth.CommitSpec {
	specs := make([]synth.CommitSpec, len(cms))
	index := map[int]int{}
	for i, c := range cms {
		index[c.ID] = i
	}
	for i, c := range cms {
		var ps []int
		for _, p := range c.Parents {
			if j, ok := index[p]; ok && j < i {
				ps = append(ps, j)
			}
		}
		specs[i] = synth.CommitSpec{Parents: ps, AuthorName: "u", AuthorEmail: "u@x",
			AuthorWhen: time.Unix(c.Time, 0), Message: fmt.Sprintf("commit %d", c.ID),
			Files: []synth.FileSpec{{Path: "f", Data: []byte(fmt.Sprintf("%d\n", c.ID))}}}
		if c.Ext {
			specs[i].AuthorWhen = time.Unix(c.ATime, 0).In(time.FixedZone("", c.ATZ*60))
			specs[i].CommitterWhen = time.Unix(c.Time, 0).In(time.FixedZone("", c.CTZ*60))
			if c.Nonce != "" {
				specs[i].Message += " " + c.Nonce
			}
		}
	}
	return specs
}

func newSession(in caseIn) *session {
	repo, commits := synth.BuildRepo(synthSpecs(in.Commits))
	s := &session{in: in, commits: commits, byHash: map[string]*object.Commit{}}
	s.sh = &shared{inj: in.Inj, injErr: errors.New("injected"), commitID: map[string]int{}, specials: in.Specials}
	for i, c := range commits {
		s.sh.commitID[c.Hash.String()] = in.Commits[i].ID
		s.byHash[c.Hash.String()] = c
	}
	s.pipeline = hercules.NewPipeline(repo)
	for _, spec := range in.Items {
		s.pipeline.AddItem(newItem(s.sh, spec))
	}
	return s
}

// runSpec says how the session's objects are prepared for one Run and what is handed to it.
type runSpec struct {
	// Mode 0: Pipeline.Initialize(facts) and then Run; 1: no Initialize - the harness resets the counters of the original
	// item instances by hand and calls Run again (options as in the run before); 3: Initialize twice, then Run
	Mode int
	Dist int
	PA   bool
	// Dump: Pipeline.DumpPlan.  Off: the executed plan is read from what PrintActions prints (PA is forced on), which is
	// complete only when Run returned a result; such runs carry no injection
	Dump bool
	Inj  injection
	Sel  []int // ids of the commits handed to Run, in slice order; nil: all of them
}

func runCase(in caseIn) (obs []Sx, nt bool, fatal error) {
	return newSession(in).run(runSpec{Dist: in.Dist, PA: in.PA, Dump: true, Inj: in.Inj})
}

func (s *session) run(rs runSpec) (obs []Sx, nt bool, fatal error) {
	in, sh, pipeline, byHash := s.in, s.sh, s.pipeline, s.byHash
	commits := s.commits
	ids := make([]int, len(in.Commits))
	for i, c := range in.Commits {
		ids[i] = c.ID
	}
	if rs.Sel != nil {
		pos := map[int]int{}
		for i, c := range in.Commits {
			pos[c.ID] = i
		}
		commits, ids = nil, nil
		for _, id := range rs.Sel {
			if i, ok := pos[id]; ok {
				commits = append(commits, s.commits[i])
				ids = append(ids, id)
			}
		}
	}
	sh.log = nil
	sh.inj = rs.Inj
	if !s.ready && rs.Mode == 1 {
		rs.Mode = 0
	}
	// the lines that arrive before the first call of an item are the plan dump of prepareRunPlan (Run clones the
	// items right after it); with PrintActions, Run prints every action again just before it executes it
	var dump, printed []planLine
	old := vc14.SetPlanPrinter(func(args ...interface{}) {
		pl := planLine{kind: args[0].(string)}
		switch pl.kind {
		case "C":
			pl.items = []int{args[1].(int)}
			pl.hash = args[2].(string)
		case "H", "B":
			pl.items = []int{args[1].(int)}
		default:
			pl.items = append([]int{}, args[1].([]int)...)
		}
		if len(sh.log) == 0 {
			dump = append(dump, pl)
		} else {
			printed = append(printed, pl)
		}
	})
	defer vc14.SetPlanPrinter(old)
	if rs.Mode == 1 {
		for _, it := range s.resolved {
			b := it.(based).b()
			b.calls, b.hcalls = 0, 0
		}
	} else {
		s.dist, s.pa, s.dump = rs.Dist, rs.PA || !rs.Dump, rs.Dump
		facts := map[string]interface{}{
			hercules.ConfigPipelineCommits:  commits,
			vc14.ConfigHibernationDistance:  s.dist,
			hercules.ConfigLogger:           nopLogger{},
			hercules.ConfigPipelineDumpPlan: s.dump,
		}
		if s.pa {
			facts["Pipeline.PrintActions"] = true // core.ConfigPipelinePrintActions (not re-exported by the root package)
		}
		var ierr error
		_, p := Catch(func() {
			ierr = pipeline.Initialize(facts)
			if ierr == nil && rs.Mode == 3 {
				ierr = pipeline.Initialize(facts)
			}
		})
		if p || ierr != nil {
			// resolve() rejected the pipeline (or panicked: known findings C10-K1/K2 about doubly provided entities): outside C14
			if os.Getenv("C14_DEBUG") != "" {
				fmt.Fprintln(os.Stderr, "initfail:", p, ierr)
			}
			s.ready = false
			return []Sx{T("initfail")}, false, nil
		}
		s.ready = true
		s.resolved = pipeline.VerifItems()
		s.order = make([]int, len(s.resolved))
		for j, it := range s.resolved {
			b := it.(based).b()
			b.pos, b.id = j, j
			s.order[j] = b.spec.Name
		}
		if pipeline.HibernationDistance != s.dist {
			return nil, false, fmt.Errorf("hibernation distance not taken from the facts")
		}
		if pipeline.PrintActions != s.pa || pipeline.DumpPlan != s.dump {
			return nil, false, fmt.Errorf("PrintActions / DumpPlan not taken from the facts")
		}
	}
	resolved, order := s.resolved, s.order
	sh.nextID = len(resolved)

	var result map[hercules.LeafPipelineItem]interface{}
	var err error
	pmsg, panicked := Catch(func() { result, err = pipeline.Run(commits) })
	if panicked && os.Getenv("C14_DEBUG") != "" {
		fmt.Fprintln(os.Stderr, "Run panicked:", pmsg)
	}

	// the plan Run executed (the planner is not deterministic: map iteration decides the order of the
	// replays of a merge commit, of simultaneous deletes and which of two equally large components is kept,
	// so a second planner run is no substitute): the dump gives kinds, items and commit hashes; hibernate and
	// boot lines show only their first item, so these actions are re-inserted by the deterministic
	// insertHibernateBoot and compared with the dump; an emerge carries the commit of the commit action
	// that follows it
	lines := dump
	noplan := false
	if !s.dump {
		// no dump: what PrintActions printed is the executed plan, complete iff Run came to its end
		lines = printed
		noplan = panicked || err != nil
	}
	var plan []verifapi.VerifAction
	if len(lines) > 0 && !noplan {
		var nohb []verifapi.VerifAction
		for i, l := range lines {
			switch l.kind {
			case "C":
				c := byHash[l.hash]
				if c == nil {
					return nil, false, fmt.Errorf("plan dump names an unknown commit %s", l.hash)
				}
				nohb = append(nohb, verifapi.VerifAction{Action: verifapi.ActionCommit, Commit: c, Items: l.items})
			case "F":
				nohb = append(nohb, verifapi.VerifAction{Action: verifapi.ActionFork, Items: l.items})
			case "M":
				nohb = append(nohb, verifapi.VerifAction{Action: verifapi.ActionMerge, Items: l.items})
			case "D":
				nohb = append(nohb, verifapi.VerifAction{Action: verifapi.ActionDelete, Items: l.items})
			case "E":
				// generatePlan emits the emerge of a root immediately before that root's commit action
				if i+1 >= len(lines) || lines[i+1].kind != "C" || lines[i+1].items[0] != l.items[0] {
					return nil, false, fmt.Errorf("emerge action %d is not followed by the commit of its root", i)
				}
				nohb = append(nohb, verifapi.VerifAction{Action: verifapi.ActionEmerge, Commit: byHash[lines[i+1].hash], Items: l.items})
			}
		}
		plan = nohb
		if s.dist > 0 {
			plan = verifapi.InsertHibernateBoot(nohb, s.dist)
		}
		if len(plan) != len(lines) {
			return nil, false, fmt.Errorf("reconstructed plan has %d actions, the dump %d", len(plan), len(lines))
		}
		for i, a := range plan {
			l := lines[i]
			k := map[int]string{verifapi.ActionCommit: "C", verifapi.ActionFork: "F", verifapi.ActionMerge: "M",
				verifapi.ActionEmerge: "E", verifapi.ActionDelete: "D", verifapi.ActionHibernate: "H", verifapi.ActionBoot: "B"}[a.Action]
			same := k == l.kind
			if same && (k == "H" || k == "B") {
				same = a.Items[0] == l.items[0]
			} else if same {
				same = fmt.Sprint(a.Items) == fmt.Sprint(l.items)
			}
			if !same {
				return nil, false, fmt.Errorf("reconstructed plan differs from the dump at action %d", i)
			}
		}
	}

	psx := make([]Sx, len(plan))
	ncommitSteps := 0
	for i, a := range plan {
		cid := -1
		if a.Commit != nil {
			cid = sh.commitID[a.Commit.Hash.String()]
		}
		k := map[int]string{verifapi.ActionCommit: "C", verifapi.ActionFork: "F", verifapi.ActionMerge: "M",
			verifapi.ActionEmerge: "E", verifapi.ActionDelete: "D", verifapi.ActionHibernate: "H", verifapi.ActionBoot: "B"}[a.Action]
		if a.Action == verifapi.ActionCommit {
			ncommitSteps++
		}
		psx[i] = L(A(k), I(cid), Ints(a.Items))
	}
	var res Sx
	switch {
	case panicked:
		res = T("res", A("panic"))
	case err != nil:
		if err == sh.injErr {
			res = T("res", A("err"), A("injected"))
		} else if m := missRe.FindStringSubmatch(err.Error()); m != nil && nameStyle == 0 {
			res = T("res", A("err"), A("missing"), A(m[1]+m[2]), A(m[3]))
		} else if it, e, ok := missStyled(resolved, err.Error()); ok && nameStyle != 0 {
			res = T("res", A("err"), A("missing"), A(it), I(e))
		} else {
			res = T("res", A("err"), A("other"))
		}
		if result != nil {
			res = T("res", A("err-with-result"))
		}
	default:
		car, _ := result[nil].(*hercules.CommonAnalysisResult)
		if car == nil {
			res = T("res", A("nosummary"))
			break
		}
		// result map: original leaf item (declared number) -> what Finalize returned
		type fe struct{ pos, id, calls int }
		var fins []fe
		for k, v := range result {
			if k == nil {
				continue
			}
			b := k.(based).b()
			x, _ := v.([2]int)
			// the key must be the item of pipeline.items (the original object)
			orig := 0
			if resolved[b.pos] == hercules.PipelineItem(k) {
				orig = 1
			}
			_ = orig
			fins = append(fins, fe{b.pos, x[0], x[1]})
			if orig == 0 {
				fins[len(fins)-1].pos = -1 - b.pos
			}
		}
		sort.Slice(fins, func(i, j int) bool { return fins[i].pos < fins[j].pos })
		fs := make([]Sx, len(fins))
		for i, f := range fins {
			fs[i] = L(I(f.pos), I(f.id), I(f.calls))
		}
		res = T("res", A("ok"), I64(car.BeginTime), I64(car.EndTime), I(car.CommitsNumber), T("fins", fs...))
	}
	nt = len(resolved) >= 2 && ncommitSteps >= 2
	// the committer times as Run reads them (after the round trip through the object store)
	tsx := make([]Sx, len(s.commits))
	for i, cm := range s.commits {
		tsx[i] = L(I(in.Commits[i].ID), I64(cm.Committer.When.Unix()))
	}
	obs = []Sx{T("order", Ints(order).List...), T("times", tsx...), T("plan", psx...), T("log", sh.log...), res}
	if noplan {
		obs = append(obs, T("noplan"))
	}
	if k := sharedAbbrev(commits, 7); k > 0 {
		// informational: k of the commits handed to this run share their seven-digit abbreviation with another one
		obs = append(obs, T("abbrev7", I(k)))
	}
	// PrintActions: what Run printed must be the executed prefix of the dumped plan (all of it when Run returned a result);
	// without the option nothing is printed after the dump
	if s.dump {
		printOK := len(printed) <= len(dump)
		for i := 0; printOK && i < len(printed); i++ {
			printOK = printed[i].kind == dump[i].kind && fmt.Sprint(printed[i].items) == fmt.Sprint(dump[i].items) && printed[i].hash == dump[i].hash
		}
		if s.pa {
			printOK = printOK && (len(printed) >= 1 || len(dump) == 0) && (panicked || err != nil || len(printed) == len(dump))
		} else {
			printOK = len(printed) == 0
		}
		if !printOK {
			obs = append(obs, T("printbad", I(len(printed)), I(len(dump))))
		}
	} else if len(dump) > 0 {
		// DumpPlan is off: nothing may be printed before the first item call
		obs = append(obs, T("printbad", I(-1), I(len(dump))))
	}
	return obs, nt, nil
}

// ---------------------------------------------------------------------------------------------
// (de)serialisation of the inputs

func (in caseIn) fields() []Sx {
	its := make([]Sx, len(in.Items))
	for i, s := range in.Items {
		its[i] = L(I(s.Name), Ints(s.Provides), Ints(s.Requires), B(s.Copy), B(s.Hib), B(s.Leaf))
		if s.Alias > 0 || len(s.Extras) > 0 {
			its[i].List = append(its[i].List, I(s.Alias), Ints(s.Extras))
		}
	}
	cs := make([]Sx, len(in.Commits))
	for i, c := range in.Commits {
		cs[i] = L(I(c.ID), I64(c.Time), Ints(c.Parents))
		if c.Ext {
			nonce := c.Nonce
			if nonce == "" {
				nonce = "-"
			}
			cs[i].List = append(cs[i].List, L(I64(c.ATime), I(c.CTZ), I(c.ATZ), A(nonce)))
		}
	}
	fs := []Sx{T("dist", I(in.Dist)), T("items", its...),
		T("inject", A(in.Inj.Kind), I(in.Inj.Item), I(in.Inj.K), I(in.Inj.Ent))}
	if in.PA {
		fs = append(fs, T("pa", I(1)))
	}
	if in.Names != 0 {
		fs = append(fs, T("names", I(in.Names)))
	}
	if len(in.Twins) > 0 {
		tw := make([]Sx, len(in.Twins))
		for i, x := range in.Twins {
			tw[i] = L(I(x[0]), I(x[1]), I(x[2]))
		}
		fs = append(fs, T("twins", tw...))
	}
	if len(in.Specials) > 0 {
		sp := make([]Sx, len(in.Specials))
		for i, x := range in.Specials {
			sp[i] = L(I(x.Item), I(x.Ent), I(x.K), I(x.Code))
		}
		fs = append(fs, T("special", sp...))
	}
	fs = append(fs, T("commits", cs...))
	if len(in.Runs) > 0 {
		rs := make([]Sx, len(in.Runs))
		for i, r := range in.Runs {
			rs[i] = T("run", I(r.Mode), I(r.Dist), B(r.PA), B(r.Dump),
				T("inject", A(r.Inj.Kind), I(r.Inj.Item), I(r.Inj.K), I(r.Inj.Ent)), T("sel", Ints(r.Sel).List...))
		}
		fs = append(fs, T("runs", rs...))
	}
	return fs
}

func intsOf(s Sx) []int {
	r := []int{}
	for _, x := range s.List {
		r = append(r, x.Int())
	}
	return r
}

func parseCase(s Sx) caseIn {
	var in caseIn
	if f, ok := s.Field("kind"); ok {
		in.Kind = f.Args()[0].Atom
	}
	if f, ok := s.Field("dist"); ok {
		in.Dist = f.Args()[0].Int()
	}
	if f, ok := s.Field("items"); ok {
		for _, x := range f.Args() {
			it := itemSpec{Name: x.List[0].Int(), Provides: intsOf(x.List[1]), Requires: intsOf(x.List[2]),
				Copy: x.List[3].Int() != 0, Hib: x.List[4].Int() != 0, Leaf: x.List[5].Int() != 0}
			if len(x.List) >= 8 {
				it.Alias, it.Extras = x.List[6].Int(), intsOf(x.List[7])
			}
			in.Items = append(in.Items, it)
		}
	}
	if f, ok := s.Field("inject"); ok {
		a := f.Args()
		in.Inj = injection{Kind: a[0].Atom, Item: a[1].Int(), K: a[2].Int(), Ent: a[3].Int()}
	}
	if f, ok := s.Field("pa"); ok {
		in.PA = f.Args()[0].Int() != 0
	}
	if f, ok := s.Field("commits"); ok {
		for _, x := range f.Args() {
			t, _ := strconv.ParseInt(x.List[1].Atom, 10, 64)
			cm := commitSpec{ID: x.List[0].Int(), Time: t, Parents: intsOf(x.List[2])}
			if len(x.List) >= 4 && len(x.List[3].List) == 4 {
				e := x.List[3].List
				cm.Ext = true
				cm.ATime, _ = strconv.ParseInt(e[0].Atom, 10, 64)
				cm.CTZ, cm.ATZ = e[1].Int(), e[2].Int()
				if e[3].Atom != "-" {
					cm.Nonce = e[3].Atom
				}
			}
			in.Commits = append(in.Commits, cm)
		}
	}
	if f, ok := s.Field("names"); ok {
		in.Names = f.Args()[0].Int()
	}
	if f, ok := s.Field("twins"); ok {
		for _, x := range f.Args() {
			in.Twins = append(in.Twins, [3]int{x.List[0].Int(), x.List[1].Int(), x.List[2].Int()})
		}
	}
	if f, ok := s.Field("special"); ok {
		for _, x := range f.Args() {
			in.Specials = append(in.Specials, special{Item: x.List[0].Int(), Ent: x.List[1].Int(), K: x.List[2].Int(), Code: x.List[3].Int()})
		}
	}
	if f, ok := s.Field("runs"); ok {
		for _, x := range f.Args() {
			a := x.Args()
			r := runSpec{Mode: a[0].Int(), Dist: a[1].Int(), PA: a[2].Int() != 0, Dump: a[3].Int() != 0, Sel: []int{}}
			ia := a[4].Args()
			r.Inj = injection{Kind: ia[0].Atom, Item: ia[1].Int(), K: ia[2].Int(), Ent: ia[3].Int()}
			for _, y := range a[5].Args() {
				r.Sel = append(r.Sel, y.Int())
			}
			in.Runs = append(in.Runs, r)
		}
	}
	return in
}

func emit(c *Config, in caseIn) {
	if len(in.Items) == 0 {
		return
	}
	var obs []Sx
	var nt bool
	var fatal error
	nameStyle = in.Names // cases are run one after the other
	defer func() { nameStyle = 0 }()
	if len(in.Runs) > 0 {
		obs, nt, fatal = runReuse(&in)
	} else {
		obs, nt, fatal = runCase(in)
	}
	if fatal != nil {
		fmt.Fprintln(os.Stderr, "c14 harness:", fatal)
		c.Close()
		os.Exit(3)
	}
	fs := []Sx{T("kind", A(in.Kind)), T("nt", B(nt))}
	fs = append(fs, in.fields()...)
	fs = append(fs, T("obs", obs...))
	c.Emit(fs...)
}

// ---------------------------------------------------------------------------------------------
// generators

const baseTime = 1500000000

func fixedPipeline(k int, c *Config) []itemSpec {
	r := c.Rng
	mode := func() bool { return r.Intn(2) == 0 }
	hib := func() bool { return r.Intn(3) == 0 }
	var its []itemSpec
	switch k {
	case 0: // chain
		its = []itemSpec{
			{Name: 0, Provides: []int{3}},
			{Name: 1, Requires: []int{3}, Provides: []int{4}},
			{Name: 2, Requires: []int{4}, Leaf: true}}
	case 1: // diamond
		its = []itemSpec{
			{Name: 0, Provides: []int{3}},
			{Name: 1, Requires: []int{3}, Provides: []int{4}},
			{Name: 2, Requires: []int{3}, Provides: []int{5}},
			{Name: 3, Requires: []int{4, 5}, Provides: []int{6}, Leaf: true}}
	case 2: // two consumers of one provider with two outputs
		its = []itemSpec{
			{Name: 0, Provides: []int{3, 4}},
			{Name: 1, Requires: []int{3}, Leaf: true},
			{Name: 2, Requires: []int{4, 3}, Leaf: true}}
	case 3: // a re-provider (like TreeDiff -> RenameAnalysis): the consumer must see the later value
		its = []itemSpec{
			{Name: 0, Provides: []int{3}},
			{Name: 1, Requires: []int{3}, Provides: []int{3}},
			{Name: 2, Requires: []int{3}, Leaf: true}}
	default: // a single leaf
		its = []itemSpec{{Name: 0, Provides: []int{3}, Leaf: true}}
	}
	for i := range its {
		its[i].Copy = mode()
		its[i].Hib = hib()
	}
	return its
}

func randomPipeline(c *Config) []itemSpec {
	r := c.Rng
	n := 1 + r.Intn(6)
	var its []itemSpec
	next := 3
	var avail []int
	for j := 0; j < n; j++ {
		s := itemSpec{Name: j, Copy: r.Intn(2) == 0, Hib: r.Intn(3) == 0, Leaf: r.Intn(3) == 0}
		for _, e := range avail {
			if r.Intn(3) == 0 {
				s.Requires = append(s.Requires, e)
			}
		}
		r.Shuffle(len(s.Requires), func(a, b int) { s.Requires[a], s.Requires[b] = s.Requires[b], s.Requires[a] })
		np := r.Intn(3)
		for k := 0; k < np; k++ {
			s.Provides = append(s.Provides, next)
			avail = append(avail, next)
			next++
		}
		its = append(its, s)
	}
	return its
}

func shuffled(c *Config, its []itemSpec) []itemSpec {
	r := append([]itemSpec{}, its...)
	c.Rng.Shuffle(len(r), func(a, b int) { r[a], r[b] = r[b], r[a] })
	return r
}

func pickPipeline(c *Config) []itemSpec {
	if c.Rng.Intn(2) == 0 {
		return shuffled(c, fixedPipeline(c.Rng.Intn(5), c))
	}
	return shuffled(c, randomPipeline(c))
}

func pickInjection(c *Config, its []itemSpec, ncommits, dist int) injection {
	r := c.Rng
	it := its[r.Intn(len(its))]
	switch x := r.Intn(10); {
	case x < 5:
		return injection{Kind: "none"}
	case x < 7:
		return injection{Kind: "err", Item: it.Name, K: r.Intn(ncommits + 2)}
	case x < 9:
		for _, cand := range its {
			if len(cand.Provides) > 0 && r.Intn(2) == 0 {
				it = cand
			}
		}
		if len(it.Provides) == 0 {
			return injection{Kind: "err", Item: it.Name, K: r.Intn(ncommits + 2)}
		}
		return injection{Kind: "miss", Item: it.Name, K: r.Intn(ncommits + 2), Ent: it.Provides[r.Intn(len(it.Provides))]}
	default:
		if dist == 0 {
			return injection{Kind: "none"}
		}
		for _, cand := range its {
			if cand.Hib {
				it = cand
			}
		}
		k := "hib"
		if r.Intn(2) == 0 {
			k = "boot"
		}
		return injection{Kind: k, Item: it.Name, K: 1 + r.Intn(3)}
	}
}

// random times: mostly increasing, sometimes far in the past or equal, so that the newest commit
// is often not the last planned one
func randomTimes(c *Config, n int) []int64 {
	r := c.Rng
	ts := make([]int64, n)
	t := int64(baseTime)
	for i := range ts {
		switch r.Intn(6) {
		case 0:
			ts[i] = baseTime - int64(r.Intn(100000))
		case 1:
			ts[i] = t
		default:
			t += int64(1 + r.Intn(5000))
			ts[i] = t
		}
	}
	if r.Intn(3) == 0 {
		ts[r.Intn(n)] = t + 100000
	}
	return ts
}

func randomDag(c *Config, maxCommits int) []commitSpec {
	r := c.Rng
	n := 1 + r.Intn(maxCommits)
	ts := randomTimes(c, n)
	cs := make([]commitSpec, n)
	for i := 0; i < n; i++ {
		cs[i] = commitSpec{ID: i, Time: ts[i]}
		if i == 0 {
			continue
		}
		k := 1
		switch x := r.Intn(12); {
		case x < 4 && i >= 2:
			k = 2
		case x == 4 && i >= 3:
			k = 3
		case x == 5:
			k = 0 // another root
		}
		seen := map[int]bool{}
		for len(cs[i].Parents) < k {
			w := i
			if w > 5 {
				w = 5
			}
			p := i - 1 - r.Intn(w)
			if !seen[p] {
				seen[p] = true
				cs[i].Parents = append(cs[i].Parents, p)
			}
		}
	}
	return cs
}

func fromHist(c *Config, h *synth.Hist) []commitSpec {
	ts := randomTimes(c, h.N)
	cs := make([]commitSpec, h.N)
	for i := 0; i < h.N; i++ {
		cs[i] = commitSpec{ID: i, Time: ts[i], Parents: append([]int{}, h.Parents[i]...)}
	}
	return cs
}

// every parent assignment on n commits (commit i chooses any subset of the earlier ones)
func exhaustive(c *Config, n int, pipelines [][]itemSpec, dists []int) {
	bits := n * (n - 1) / 2
	for mask := 0; mask < 1<<uint(bits); mask++ {
		cs := make([]commitSpec, n)
		b := 0
		for i := 0; i < n; i++ {
			cs[i] = commitSpec{ID: i, Time: baseTime + int64(i)*10}
			for p := 0; p < i; p++ {
				if mask&(1<<uint(b)) != 0 {
					cs[i].Parents = append(cs[i].Parents, p)
				}
				b++
			}
		}
		// vary which commit is the newest
		cs[mask%n].Time = baseTime + 1000
		for pi, its := range pipelines {
			for _, d := range dists {
				inj := injection{Kind: "none"}
				if (mask+pi+d)%4 == 0 {
					inj = pickInjection(c, its, n, d)
				}
				emit(c, caseIn{Kind: fmt.Sprintf("ex%d", n), Dist: d, Items: its, Inj: inj, Commits: cs})
			}
		}
	}
}

func main() {
	log.SetOutput(io.Discard) // the planner warns about dropped disjoint commits through the standard logger
	c := Setup()
	defer c.Close()
	if c.Replay != "" {
		for _, s := range c.ReplayCases() {
			emit(c, parseCase(s))
		}
		return
	}
	switch os.Getenv("C14_ONLY") { // private runs of one family (not used by ./check)
	case "round4":
		round4Streams(c)
		return
	case "corpusgen":
		round4Corpus(c)
		return
	}
	// exhaustive small scopes
	pipes := [][]itemSpec{fixedPipeline(0, c), fixedPipeline(1, c), fixedPipeline(3, c)}
	pipes[0][0].Copy, pipes[0][1].Copy, pipes[0][2].Copy = true, false, true
	pipes[0][1].Hib = true
	pipes[1][3].Hib = true
	for n := 1; n <= 4; n++ {
		exhaustive(c, n, pipes, []int{0, 1})
	}
	if c.Thorough() {
		exhaustive(c, 5, pipes, []int{0, 1, 2})
	}
	// no commits at all: Run panics on plan[0]
	emit(c, caseIn{Kind: "empty", Dist: 0, Items: fixedPipeline(0, c), Inj: injection{Kind: "none"}})
	// linear histories
	for i := c.Count(200, 3000); i > 0; i-- {
		n := 1 + c.Rng.Intn(8)
		ts := randomTimes(c, n)
		cs := make([]commitSpec, n)
		for j := range cs {
			cs[j] = commitSpec{ID: j, Time: ts[j]}
			if j > 0 {
				cs[j].Parents = []int{j - 1}
			}
		}
		its := pickPipeline(c)
		d := c.Rng.Intn(3)
		emit(c, caseIn{Kind: "lin", Dist: d, Items: its, Inj: pickInjection(c, its, n, d), Commits: cs})
	}
	// random DAGs with merges, octopus merges and several roots
	for i := c.Count(2500, 60000); i > 0; i-- {
		cs := randomDag(c, 14)
		its := pickPipeline(c)
		d := []int{0, 0, 1, 1, 2, 3, 5}[c.Rng.Intn(7)]
		emit(c, caseIn{Kind: "dag", Dist: d, Items: its, Inj: pickInjection(c, its, len(cs), d), Commits: cs})
	}
	// the conflict-free histories of harness/synth (the generator of the burndown checks)
	for i := c.Count(900, 24000); i > 0; i-- {
		h := synth.GenHist(c.Rng, synth.GenOpts{MaxCommits: 12, SingleHead: c.Rng.Intn(2) == 0})
		cs := fromHist(c, h)
		its := pickPipeline(c)
		d := []int{0, 1, 1, 2, 4}[c.Rng.Intn(5)]
		emit(c, caseIn{Kind: "hist", Dist: d, Items: its, Inj: pickInjection(c, its, len(cs), d), Commits: cs})
	}
	// wide octopus merges under hibernation (harness/synth.GenOctopusShape): an octopus of at least d+3 parents makes
	// insertHibernateBoot emit ONE boot action that covers several branches; several merges per history, arms
	// idle for different lengths, chains after the merge, 1..3 roots; pipelines with a hibernateable item
	for i := c.Count(500, 12000); i > 0; i-- {
		oo := synth.OctoOpts{Roots: 1 + c.Rng.Intn(3), Merges: 1 + c.Rng.Intn(2), MinPar: 3, MaxPar: 7,
			MaxArm: 1 + c.Rng.Intn(3), MaxTail: 1 + c.Rng.Intn(3), ExtraHead: c.Rng.Intn(4) == 0, SubMerge: c.Rng.Intn(4) == 0}
		d := 1 + c.Rng.Intn(4)
		if c.Rng.Intn(2) == 0 {
			k := 4 + c.Rng.Intn(4)
			oo.MinPar, oo.MaxPar = k, k
			d = k - 3 - c.Rng.Intn(2)
			if d < 1 {
				d = 1
			}
			if d > 4 {
				d = 4
			}
		}
		shape := synth.GenOctopusShape(c.Rng, oo)
		ts := randomTimes(c, len(shape))
		cs := make([]commitSpec, len(shape))
		for j, ps := range shape {
			cs[j] = commitSpec{ID: j, Time: ts[j], Parents: append([]int{}, ps...)}
		}
		its := pickPipeline(c)
		// make sure Hibernate/Boot calls are observed: at least one hibernateable item
		anyHib := false
		for _, s := range its {
			anyHib = anyHib || s.Hib
		}
		if !anyHib {
			its[c.Rng.Intn(len(its))].Hib = true
		}
		inj := injection{Kind: "none"}
		if c.Rng.Intn(5) == 0 {
			inj = pickInjection(c, its, len(cs), d)
		}
		emit(c, caseIn{Kind: "octo", Dist: d, Items: its, Inj: inj, Commits: cs})
	}
	// input attributes of the pipelines (gen2.go) and the scale family (scale.go)
	attrStreams(c)
	scaleStreams(c)
	// special-but-legal values of declared entities; one Pipeline object run on several commit selections (reuse.go)
	specialStreams(c)
	reuseStreams(c)
	// round 4: content of values (round4.go): commit hashes that share their first / last digits, time (future of the wall clock,
	// before 1970, author vs committer, zones), byte content of item / entity names, decimal widths, pairs of features
	round4Streams(c)
}
