Require Extraction.
Require Import ExtrOcamlBasic.
From Herc Require Import Base.Conv Pipeline.RunModel.
Extraction "c14_model.ml" conv_anchor rec_run plan_okb head_emergeb head_firstb contigb distinctb liveb
  log_ok summary_ok complete call_error is_merge replay_branches consume_log.
