CONFIG = dict(
        level='proof',
        streams=[dict(harness='c06', driver='c06', shrink_field='ops', timeout=3600)],
        search_scale=0.25,
        rule='scripts over 1-5 real rbtree.Allocators, each shared by up to 12 real RBTrees and two "raw" owners that call malloc/free '
             'directly: Insert / DeleteWithKey / Erase / CloneDeep (same or other allocator) / Allocator.Clone + CloneShallow of every tree, '
             'HibernationThreshold 0, size-1, size, size+1, Hibernate / Boot in memory and through Serialize / Deserialize on disk '
             '(unwritable path, missing file, directory instead of file, truncation at every section boundary +-1 and at random offsets; round 3: at EVERY length 0 .. size-1 for all files of the boundary family, one in 16 files of up to 600 bytes of the random family and every file of up to 8 KB of the scale family, which got six small arenas with gaps of 12 .. 1200 cells for it), '
             'Hibernate twice, every use while hibernated, Used/Size.  After every operation every allocator of the world is re-observed '
             '(storage cells, gap set, hibernation fields, ids reachable from every tree root); the compressed buffers and the file bytes '
             'are recorded.  Streams: exhaustive = every sequence of <= 4 (thorough: 5) operations over a 12-letter alphabet of '
             'allocator-level operations with two owners; boundary = 5 arena shapes (empty, one node, gaps only, mixed, no gaps) x 4 '
             'threshold positions x memory/disk; clone = mutate one side of a cloned allocator; random = long mixed scripts. '
             'medium = arenas of 127..1000 cells (thorough: ..3000; sizes straddle 2^7, 2^8, .. 2^11 = the widths of the file varints) built by bulk fill / drain steps, '
             'incompressible / periodic / sequential / constant values, 126..300 gaps, with the full fine correspondence and the model on every state. '
             'scale (judged at checkpoints inside the harness by streaming comparison, the trace carries verdicts and the first differing index; no fine correspondence): '
             'arenas of 10^3, 10^4, 2^14-1, 2^14, 2^14+1, 4*10^4, 2^15+1, 2^16+1, 10^5 cells (thorough also 2.3*10^5 .. 10^6) on two trees, keys ascending / descending / scrambled, '
             'values sequential, constant, incompressible, periodic with periods 2^k and 2^k+-1 NODES (k = 8, 12..16) and 2^14, 2^16, 2^17 +-1 BYTES, with and without gaps, '
             'everything erased (size-1 gaps) and refilled, Clone at scale; Hibernate at threshold 0 / size-1 / size / size+1, in memory and through a file (multi-byte varints checked '
             'with the extracted write_varint, truncation at section boundaries +-1), Boot, second round trip after more frees and re-used gaps; checkpoints: owners disjoint (bitset), '
             'no owned gap, Used() = live + 1, every tree iterates over exactly its own keys and values.  lz = CompressUInt32Slice / DecompressUInt32Slice alone on synthetic buffers of '
             '1..257, 1000, 2^10, 2^12, 2^14, 2^15, 2^16 (each +-1), 10^4, 4*10^4, 2.3*10^5 .. 10^6 elements (thorough: .. 2^24+1) with the same patterns plus mixed literal-run / match-length / '
             'distance ladders: the recorded LZ4 assumption (non-empty output, decompress(compress l) = l) is a PROPFAIL oracle on every such buffer and on every buffer of every hibernated arena. '
             'Non-trivial = at least 2 mallocs and (a free or a real hibernation), for scale / lz cases at least one real hibernation or codec call; distinct = distinct operation list.',
        exhaustive_note='all sequences of length <= 4 (quick) / <= 5 (thorough) over {malloc by owner 0/1, free of id 1..3 by owner 0/1, free(0), '
                        'Hibernate, Boot, threshold:=3} on one allocator',
        assumptions=[
            'LZ4 (internal/rbtree/lz4hc.c, external C code): for every non-empty uint32 buffer l, CompressUInt32Slice(l) is non-empty and '
            'DecompressUInt32Slice(CompressUInt32Slice(l), len(l)) = l (Section hypothesis lz4_ok); a compressed block is shorter than 2^63 bytes '
            '(lz4_small).  The harness decompresses every buffer the implementation produces with the real code and compares (driver counter lz4_buffers); '
            'a violation of this assumption is reported as a property failure (it is the round-trip clause of the property); the scale and lz streams exercise it on buffers of up to 10^6 '
            '(thorough 2^24) elements around the constants of lz4hc.c (64 KiB window, 2^15 hash table, 4096-position optimal parser, 15/255 length bytes, /255 of the compression bound).',
            'The OS file layer: a file holds the bytes written to it; os.File.Read on a regular file returns min(len(buf), remaining) bytes, '
            '(0, io.EOF) at the end, (0, nil) for an empty buffer.  Files larger than 1 GiB per buffer (one read syscall is capped) are outside the model.',
            'Go int is 64 bit; lengths are below 2^63; the int64 accumulator of ReadVariableWidthInt is modelled unbounded (it wraps only on hostile '
            'varints of 10 and more bytes, which no prefix of a file written by Serialize contains).',
            'malloc picks the first key of a Go map iteration: modelled as an explicit choice argument; the theorems quantify over it and the replay '
            'validates the id the implementation returned against the model gap set.',
            'A tree is, for the allocator, an owner that mallocs, frees only its own nodes and writes only its own cells (the red-black algorithm itself is C05).',
            'Operation sequences in which a refused (panicking) tree operation is recovered from and the tree objects involved are used further are only '
            'covered as far as the allocator state goes; CloneDeep from a hibernated source allocator into an awake one is excluded (docs/C06.md, observation O1).',
        ],
        trusted_base=[
            'hand-written Gallina model coq/theories/Alloc/{Model,Varint,Serialize}.v of internal/rbtree/rbtree.go Allocator and of go-git utils/binary '
            'Write/ReadVariableWidthInt, tied to the code by the replay of every harness case (state after every operation, compressed buffers, file bytes)',
            'internal/rbtree/verif_hooks.go (snapshots) and internal/rbtree/verif_c06.go (VerifMalloc/VerifFree forwarders)',
        ],
        level_text='Coq theorems over every state reachable from NewAllocator by any interleaving of malloc (any gap choice) / free / cell writes of any '
                   'number of owners, threshold changes, Hibernate, Boot and Clone: an id is never handed out while live and never 0 (C06_malloc_fresh), '
                   'owners are pairwise disjoint and hold only live cells, also across hibernation (C06_no_alias, C06_frame), Used() = owned + 1 and live = owned '
                   '(C06_used), Boot(Hibernate(a)) restores cells, gap set and threshold at or above the threshold (C06_boot_hibernate), smaller and empty '
                   'allocators are untouched, every use while hibernated is a panic that changes nothing (C06_refused*), and through the file: '
                   'Boot is refused while serialized, every strict prefix of the file is rejected, the whole file boots into the same arena whatever a failed '
                   'attempt left behind (C06_disk_roundtrip, C06_file_roundtrip, C06_truncated, C06_varint_*).  All closed under the global context; '
                   'LZ4 enters as two Section hypotheses.',
        level_note='Proved about the Gallina model, not about the Go text: the tie is the correspondence replay (no disagreement on any generated case). '
                   'Clone independence is true by construction in a pure model; C06_clone_frame states what is copied and that each side evolves by its own '
                   'operations only; that the Go copies do not share a slice or map is carried by the replay (mutate one copy, re-observe all; the mutants '
                   '"Clone shares the gap map / the storage" are caught).  LZ4 and the OS are assumptions.  The MaxUint32 size-limit panic of malloc is '
                   'modelled and covered by the proofs but cannot be exercised (96 GB arena).  Tree-level partial effects of a refused operation are not modelled.',
        technique='machine-checked proof in Coq over a Gallina model of the allocator state machine + replay of the real allocator/trees through the extracted model '
                  'and extracted property oracles',
    )
