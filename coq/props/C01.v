(* C01 - burndown matrices = line-lifetime ground truth.  Only statements closed by [exact]. *)
From Coq Require Import List ZArith.
From Herc Require Import Burndown.Base Burndown.Dense Burndown.DenseProofs.
Import ListNotations.
Open Scope Z_scope.

Theorem C01_dense : forall G S H lastTick,
  1 <= S -> 1 <= G -> H <> [] -> nodup_zb (map fst H) = true ->
  sparse_wfb H (dense_last H lastTick) = true ->
  exists M, group_sparse_history G S H lastTick = Ok (M, dense_last H lastTick) /\
    length M = Z.to_nat (dense_last H lastTick / S + 1) /\
    (forall row, In row M -> length row = Z.to_nat (dense_last H lastTick / G + 1)) /\
    (forall s b, 0 <= s <= dense_last H lastTick / S -> 0 <= b <= dense_last H lastTick / G ->
                 cell M s b = spec_cell G S H s b).
Proof. exact DenseProofs.C01_dense. Qed.
Print Assumptions C01_dense.
