CONFIG = dict(
        level='proof',
        streams=[dict(harness='c01', driver='c01', shrink_field='keep', timeout=7200)],
        rule='TODO',
    )
