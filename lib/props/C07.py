CONFIG = dict(
        level='proof',
        streams=[dict(harness='c07', driver='c07', shrink_field='copies'),
                 dict(harness='c07p', driver='c07', shrink_field='commits')],
        rule='file level: 2..5 real burndown.File copies (clones of one base file on real allocators: deep clone to a new allocator, '
             'Fork-style allocator clone + shallow clone, deep clone on the same allocator, the base itself as the target) edited by random '
             'Update sequences (lengths 0..40, packed authors, ties between equal ticks of different authors, merge-mode edits with the mark '
             'incl. columns marked in every copy), then copies[0].Merge(day, copies[1:]...) with two updater callbacks; every tuple of per-line '
             'arrays over a 5-value alphabet for 2..4 copies of 1 line and 2 copies of 2 lines (thorough: 3x2, 5x1, 2x3); streams with unequal '
             'lengths and nil copies; merge ticks that are marked, negative or >= 2^32. Analysis level: a real leaves.BurndownAnalysis with 1..4 '
             'files (people on/off, file tracking on/off), Fork(2..4), per-branch regular commits (Update/new/drop) and the merge commit replayed '
             'per branch the way Consume does in merge mode (mergedFiles flags incl. contradicting ones, files absent in some branches, deleted '
             'files), Merge, read-back of every branch, an isolation probe (one more Update in one branch). Non-trivial = at least two copies '
             'and one line (file level) / a touched path held by at least two branches (analysis level); distinct = distinct input fields. '
             'Scale family (stream c07, kinds scale-*, ana-scale, ana-big): files of 255/256/257, 1000, 4097, 2^15-1, 2^15, 2^15+1, 2^15+7, 40009, '
             '2^16-1, 2^16, 2^16+1 and 100003 lines (thorough: also 1023..1025, 8191, 8193, 16383..16385, 2^15+2..2^15+6, 2^15+15, 50001, 2^17-1, 2^17+1, '
             '262147, 1000007 lines and three cases per shape) in 2..4 copies that differ only at chosen places: the first 1..7 lines, the last 1..7 lines '
             '(single lines, one run, appended lines = marks in the receiver and real values elsewhere, an older real value in a later copy, tails '
             'marked in every copy), both sides of every power of two, the boundaries and the remainder of an even split into 2..64 parts (also with '
             'the mark in every copy there), stripes of period 2^k and 2^k+-1, every line different (<= 1000 lines; thorough 2^15+1); judged by the '
             'extracted per-line specification applied line by line (lines, length, no mark, report count and shape, well-formed node list), the model '
             'replay is kept for files up to 33000 lines with few nodes; BurndownAnalysis.Merge with 64/257 (thorough 1000) files, 8/9/17/33 (thorough '
             '64/65/129) branches, and a file of 32771 lines whose last lines are appended in one branch and replayed as marks in the others. '
             'Pipeline level (stream c07p): the real hercules pipeline (TreeDiff, RenameAnalysis, BlobCache, FileDiff, TicksSinceStart, IdentityDetector, '
             'BurndownAnalysis; people tracking on/off, file tracking on/off, hibernation distance 0/1/2/3/10) runs on generated histories with merges '
             '(fans of 2..4 branches, random DAGs with octopus merges, rename-heavy fans; renames with edits on one branch, deletions, files created on one '
             'branch only, a freed name reused by a new file, the same line inserted independently on two branches, merge commits that edit or rename, '
             'committer dates that go backwards, a file of 32771 / 40009 lines edited at its very end); BurndownAnalysis sits in a wrapper item that '
             'forwards every call and reads all participating branches before and after each real Merge; non-trivial = the history has a merge commit.',
        exhaustive_note='all per-line value tuples over {1, 2, author1|1, mark, author1|mark} for 2, 3, 4 copies of one line and 2 copies of two lines '
                        '(quick); additionally 3 copies of 2 lines, 5 copies of 1 line, 2 copies of 3 lines (thorough)',
        assumptions=['the in-order node list of the red-black tree is the state of a tracked file (tree = node list is C05/C03); the correspondence '
                     'check observes that list through File.ForEach before and after every Merge',
                     'the order in which Go iterates the key map in BurndownAnalysis.Merge is a choice argument: C07_branches_agree_any_order, '
                     'C07_merged_content and C07_untouched hold for every order; the replay uses first-appearance order and compares final states, which do not depend on it',
                     'heap aliasing does not exist in the model (a deep clone is a copy by construction): that the clones handed to the other branches '
                     'share no storage is checked by the harness only (isolation probe), not proved',
                     'theorems about trees assume uint32 node values, a uint32 merge tick and fewer than 2^32 lines (what uint32(i), uint32(v) do outside '
                     'this range is modelled and replayed, not specified)'],
        trusted_base=['harness c07p: history generator, the wrapper pipeline item around BurndownAnalysis (forwards Consume/Fork/Merge/Hibernate/Boot unchanged, '
                      'remembers the last two commits each branch consumed) and, in the driver, the definition of a path touched by a merge commit (its content in '
                      'the merge commit differs from its content in the commit a participating branch consumed before it), computed from the case\'s trees only',
                      'driver, large files: run-length decoding of the observed lines and the application of the extracted spec_lines / spec_report_count / '
                      'no_mark_b to one-line slices (the rule is pointwise; answers remembered per distinct column)',
                      'hand-written Gallina model coq/theories/FileMerge/Model.v of File.Merge/flatten/updateTime (internal/burndown/file.go) and of '
                      'BurndownAnalysis.Merge/Fork/packPersonWithTick (leaves/burndown.go), tied to the code by the replay of every harness case',
                      '/repo/leaves/verif_c07.go (build tag verif): scenario builder and read-back for BurndownAnalysis (sets tick/mergedFiles/mergedAuthor '
                      'with the statements Consume executes in merge mode; calls the real newFile, Fork, Merge)'],
        level_text='Machine-checked for all inputs: for any number of equal-length copies File.Merge (model) gives every line the value of the first copy '
                   'among those with the minimal real tick, or the merge tick when every copy carries the mark, reports exactly one (day,day,+1) per '
                   'all-marked line, keeps the length, leaves no mark when the merge tick is unmarked, rebuilds a well-formed tree whose flattening is '
                   'the merged array, and panics iff a copy is nil or has another length; after BurndownAnalysis.Merge (model, any key order) all '
                   'branches hold identical lines for every path in some mergedFiles, equal to the line-rule merge of the non-nil copies in branch order.',
        level_note='The theorems are about the Gallina model; the Go code is tied to it by replaying every generated case (node list, flattened lines, '
                   'callback log, panic class, every path of every branch) with zero mismatches required, and the extracted specification functions '
                   '(spec_lines, spec_report_count, wf_nodes_b, no_mark_b) judge the implementation outputs directly, also for files of 10^5 (thorough 10^6) '
                   'lines and for every BurndownAnalysis.Merge the real pipeline performs on generated histories (there: all participating branches hold the '
                   'same lines, given by the per-line rule, for every path the merge commit touches - touched is decided from the trees, not from the '
                   'mergedFiles flags - and no mark is left anywhere). Modelled rather than verified: '
                   'the red-black tree (node list), allocators and clone storage (isolation is probed by the harness), map iteration order (choice '
                   'argument). When the merge tick itself carries the mark updateTime stays silent and the stamped lines keep a mark; this is outside '
                   'the stated domain (C07_length_and_no_mark and the report clause carry the hypothesis mark day = false) and is replayed only.',
        technique='machine-checked proof in Coq over a Gallina model + model/implementation correspondence replay',
    )
