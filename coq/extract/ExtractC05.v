Require Extraction.
Require Import ExtrOcamlBasic.
From Herc Require Import Base.Conv RBTree.Model RBTree.Spec RBTree.Arena.
Extraction "c05_model.ml" conv_anchor init step get_tree live tsize to_arena elems
  s_insert s_delete s_mem s_get s_item s_find_ge s_find_le s_min s_max s_next s_prev pos_fwd pos_bwd sortedb
  arena_tree links_okb snapshot_rb_okb snapshot_map_okb height_okb rb_okb height.
