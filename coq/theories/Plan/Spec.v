(* C02 written out declaratively over the abstract executor (Exec.v) and the commit graph (Graph.v).
   Nothing here refers to the checker.  [run init p1] is the state [Pipeline.Run] is in after the
   actions p1. *)
From Coq Require Import List ZArith Bool Arith Lia Permutation.
From Herc Require Import Plan.Syntax Plan.Exec Plan.Graph.
Import ListNotations.
Local Open Scope nat_scope.

Section Spec.
  Variable g : dag.

  (* the state branch b must be in when commit c is replayed on it: either b has analysed exactly the
     ancestors (or self) of one parent q of c, q last - or b is fresh and c has no parents *)
  Definition replay_ok (s : state) (c : nat) (b : Z) : Prop :=
    c < length g /\
    exists x, get s b = Live x /\
      match last x with
      | None => inc x = [] /\ parents g c = []
      | Some q => In q (parents g c) /\ forall a, In a (inc x) <-> Anc g a q
      end.

  (* b has analysed c last and has incorporated exactly the ancestry of c (c included) *)
  Definition covers (s : state) (b : Z) (c : nat) : Prop :=
    exists x, get s b = Live x /\ last x = Some c /\ forall a, In a (inc x) <-> Anc g a c.

  (* consecutive replays of c on the branches bs *)
  Definition block (c : nat) (bs : list Z) : plan := map (commit_on c) bs.

  (* [ls] = for each replay of c, the commit its branch had analysed last: one replay per non-redundant
     parent (a parent is redundant when it is an ancestor of another parent); a root is replayed once,
     on a branch that has analysed nothing *)
  Definition lasts_ok (c : nat) (ls : list (option nat)) : Prop :=
    (parents g c = [] /\ ls = [None]) \/
    (parents g c <> [] /\
     exists qs, ls = map Some qs /\ NoDup qs /\ forall q, In q qs <-> nonredundant g c q).

  (* all replays of c are one block p1 ++ [c@b1 .. c@bk] ++ p2 on distinct branches, one per
     non-redundant parent; when k >= 2 the very next action merges exactly b1..bk, after which every
     one of them covers exactly the full ancestry of c *)
  Definition replay_block (s0 : state) (p : plan) (c : nat) : Prop :=
    exists p1 bs p2,
      p = p1 ++ block c bs ++ p2 /\
      ~ replayed c p1 /\ ~ replayed c p2 /\
      NoDup bs /\
      lasts_ok c (map (last_on (run s0 p1)) bs) /\
      (2 <= length bs ->
       exists m p3, p2 = m :: p3 /\ kind m = KMerge /\ Permutation (items m) bs /\
                    forall b, In b bs -> covers (run s0 (p1 ++ block c bs ++ [m])) b c).

  (* a commit with at least two non-redundant parents *)
  Definition merge_commit (c : nat) : Prop :=
    exists q1 q2, q1 <> q2 /\ nonredundant g c q1 /\ nonredundant g c q2.

  (* a merge joins pairwise distinct live branches that all analysed the same merge commit last *)
  Definition merge_ok (s : state) (m : action) : Prop :=
    NoDup (items m) /\
    exists c, merge_commit c /\
      forall b, In b (items m) -> exists x, get s b = Live x /\ last x = Some c.

  Record C02_spec (p : plan) : Prop := {
    (* actions have the shape Run expects *)
    c02_shape : Forall wf_action p;
    (* every commit of the retained (largest) connected component is analysed, and nothing else *)
    c02_retained : retained g (analysed p);
    (* whenever a commit is analysed on a branch, the branch holds exactly the ancestry of one parent,
       that parent last; a commit without parents starts a fresh branch *)
    c02_replay : forall p1 c b p2, p = p1 ++ commit_on c b :: p2 -> replay_ok (run init p1) c b;
    (* once per non-redundant parent, merged immediately to the full ancestry; a redundant
       (fast-forward) parent causes neither an extra replay nor a dropped merge *)
    c02_blocks : forall c, replayed c p -> replay_block init p c;
    (* and there are no other merges *)
    c02_merges : forall p1 m p2, p = p1 ++ m :: p2 -> kind m = KMerge -> merge_ok (run init p1) m
  }.
End Spec.
