(* The executable judgement once_ok (used by the replay driver on the implementation's DevsResult) accepts
   what the model computes, for every replay sequence satisfying replay_ok: the oracle never raises a
   property failure against behaviour the theorems cover. *)
From Coq Require Import List NArith Bool Lia.
From Herc Require Import LineStats.Model LineStats.Once.
Import ListNotations.
Open Scope N_scope.

Lemma table_get_commits : forall ticks k, table_get (commits_table ticks) k = commits_at ticks k.
Proof.
  induction ticks as [|[k0 d] r IH]; intro k; [reflexivity|].
  unfold commits_table, commits_at in *. cbn [map table_get tick_get fst snd].
  destruct (tkey_eqb k0 k); [reflexivity | apply IH].
Qed.

Lemma mem_n_in : forall c l, mem_n c l = true <-> In c l.
Proof.
  induction l as [|x r IH]; cbn [mem_n In]; [split; [discriminate | contradiction]|].
  rewrite orb_true_iff, IH, N.eqb_eq. tauto.
Qed.

Lemma commits_of_in : forall l seen c,
  In c (commits_of l seen) <-> In c (map s_commit l) /\ mem_n c seen = false.
Proof.
  induction l as [|s r IH]; intros seen c; cbn [commits_of map In]; [tauto|].
  destruct (mem_n (s_commit s) seen) eqn:M.
  - rewrite IH. split.
    + intros [H1 H2]. split; [right; exact H1 | exact H2].
    + intros [[H1|H1] H2]; [subst c; congruence | split; assumption].
  - cbn [In]. rewrite IH. cbn [mem_n]. split.
    + intros [H|[H1 H2]]; [subst c; split; [left; reflexivity | exact M]|].
      apply orb_false_iff in H2. destruct H2 as [_ H2]. split; [right; exact H1 | exact H2].
    + intros [[H1|H1] H2]; [left; exact H1|].
      destruct (N.eqb_spec (s_commit s) c) as [E|E]; [left; exact E|].
      right. split; [exact H1|]. apply orb_false_iff. split; [reflexivity | exact H2].
Qed.

Lemma commits_of_nodup : forall l seen, NoDup (commits_of l seen).
Proof.
  induction l as [|s r IH]; intro seen; cbn [commits_of]; [constructor|].
  destruct (mem_n (s_commit s) seen); [apply IH|].
  constructor; [|apply IH].
  intro H. apply commits_of_in in H. destruct H as [_ H]. cbn [mem_n] in H. rewrite N.eqb_refl in H. discriminate.
Qed.

Lemma nodup_map_filter : forall {A B} (f : A -> B) (p : A -> bool) (l : list A),
  NoDup (map f l) -> NoDup (map f (filter p l)).
Proof.
  intros A B f p. induction l as [|x r IH]; intro H; [constructor|].
  cbn [map] in H. inversion H; subst. cbn [filter]. destruct (p x); [|apply IH; assumption].
  cbn [map]. constructor; [|apply IH; assumption].
  intro HIn. apply in_map_iff in HIn. destruct HIn as [y [Hy Hy']]. apply filter_In in Hy'. destruct Hy' as [Hy' _].
  apply H2. rewrite <- Hy. apply in_map. exact Hy'.
Qed.

Lemma nodup_filter : forall {A} (p : A -> bool) (l : list A), NoDup l -> NoDup (filter p l).
Proof.
  intros A p. induction l as [|x r IH]; intro H; [constructor|]. inversion H; subst. cbn [filter].
  destruct (p x); [|apply IH; assumption]. constructor; [|apply IH; assumption].
  intro HIn. apply filter_In in HIn. destruct HIn as [HIn _]. contradiction.
Qed.

Lemma nonempty_changes : forall s, step_nonempty s = true <-> s_changes s <> [].
Proof.
  intro s. unfold step_nonempty. destruct (s_changes s); cbn; split; intro H; try discriminate; try congruence.
Qed.

Lemma in_steps_of : forall c l s, In s (steps_of c l) <-> In s l /\ s_commit s = c.
Proof. intros. unfold steps_of. rewrite filter_In, N.eqb_eq. tauto. Qed.

(* the sum of all Commits counters is the number of attributed steps *)
Definition total_of (ticks : list ((N * N) * devtick)) : N := table_total (commits_table ticks).

Lemma total_of_cons : forall k d r, total_of ((k, d) :: r) = dt_commits d + total_of r.
Proof. reflexivity. Qed.

Lemma total_tick_set : forall l k v,
  total_of (tick_set l k v) + commits_at l k = total_of l + dt_commits v.
Proof.
  induction l as [|[k0 v0] r IH]; intros k v.
  - unfold commits_at. cbn [tick_set tick_get]. rewrite total_of_cons. unfold total_of. cbn. lia.
  - unfold commits_at in *. cbn [tick_set tick_get]. destruct (tkey_eqb k0 k).
    + rewrite !total_of_cons. lia.
    + rewrite !total_of_cons. specialize (IH k v). lia.
Qed.

Lemma devs_consume_total : forall cec st s,
  total_of (ds_ticks (fst (devs_consume cec st s))) =
  total_of (ds_ticks st) + (if snd (devs_consume cec st s) then 1 else 0).
Proof.
  intros cec st s. unfold devs_consume.
  destruct (should_consume (ds_merges st) s) as [ok merges].
  destruct (negb ok); [cbn [fst snd ds_ticks]; lia|].
  destruct ((N.of_nat (length (s_changes s)) =? 0) && negb cec); [cbn [fst snd ds_ticks]; lia|].
  cbn [fst snd ds_ticks].
  match goal with |- context [tick_set ?l ?k ?v] => pose proof (total_tick_set l k v) as H; assert (Hv : dt_commits v = commits_at l k + 1) end.
  { unfold commits_at. destruct (s_ismerge s); [|rewrite add_files_commits]; cbn [dt_commits];
      destruct (tick_get (ds_ticks st) (s_tick s, s_author s)); cbn [dt_commits devtick0]; lia. }
  lia.
Qed.

Lemma devs_run_from_total : forall cec l st,
  total_of (ds_ticks (fst (devs_run_from cec st l))) =
  total_of (ds_ticks st) + N.of_nat (length (select l (snd (devs_run_from cec st l)))).
Proof.
  induction l as [|s r IH]; intro st.
  - cbn. lia.
  - cbn [devs_run_from]. pose proof (devs_consume_total cec st s) as H.
    destruct (devs_consume cec st s) as [st1 b]. cbn [fst snd] in H.
    specialize (IH st1). destruct (devs_run_from cec st1 r) as [st2 bs]. cbn [fst snd] in IH |- *.
    rewrite IH, H. cbn [select]. destruct b; cbn [length]; lia.
Qed.

Lemma devs_total : forall cec l, total_of (devs_result cec l) = N.of_nat (length (attributed cec l)).
Proof.
  intros cec l. unfold devs_result, attributed, devs_run. rewrite devs_run_from_total. cbn. lia.
Qed.

Theorem once_ok_model : forall cec l, replay_ok l = true ->
  once_ok cec l (commits_table (devs_result cec l)) = true.
Proof.
  intros cec l Hok. unfold once_ok.
  destruct (devs_once cec l Hok) as [Hnd [Hmust Hattr]].
  assert (Hmust' : forall c, In c (commits_of l []) -> must_count cec l c = true -> In c (map s_commit (attributed cec l))).
  { intros c Hc Hm. apply commits_of_in in Hc. destruct Hc as [Hc _]. apply Hmust; [exact Hc|].
    unfold must_count in Hm. apply orb_true_iff in Hm. destruct Hm as [Hm|Hm]; [left; exact Hm|].
    right. intros s Hs Hsc. apply nonempty_changes. rewrite forallb_forall in Hm. apply Hm. apply in_steps_of. auto. }
  fold (total_of (devs_result cec l)). rewrite devs_total.
  rewrite !andb_true_iff. split; [split|].
  2:{ (* total, lower *)
    apply N.leb_le.
    assert (Hincl : incl (filter (must_count cec l) (commits_of l [])) (map s_commit (attributed cec l))).
    { intros c Hc. apply filter_In in Hc. destruct Hc as [Hc Hm]. apply Hmust'; assumption. }
    pose proof (NoDup_incl_length (nodup_filter _ _ (commits_of_nodup l [])) Hincl) as Hlen.
    rewrite map_length in Hlen. lia. }
  2:{ (* total, upper *)
    apply N.leb_le.
    assert (Hincl : incl (map s_commit (attributed cec l)) (filter (may_count cec l) (commits_of l []))).
    { intros c Hc. apply in_map_iff in Hc. destruct Hc as [s [Hsc Hs]]. destruct (Hattr s Hs) as [Hl Hne].
      apply filter_In. split.
      - apply commits_of_in. split; [|reflexivity]. rewrite <- Hsc. apply in_map. exact Hl.
      - unfold may_count. apply orb_true_iff. destruct Hne as [Hne|Hne]; [left; exact Hne|].
        right. apply existsb_exists. exists s. split; [apply in_steps_of; auto | apply nonempty_changes; exact Hne]. }
    pose proof (NoDup_incl_length Hnd Hincl) as Hlen.
    rewrite map_length in Hlen. lia. }
  apply forallb_forall. intros k _.
  rewrite table_get_commits, devs_commits_counter.
  set (A := attributed cec l) in *. set (B := filter (at_key k) A).
  assert (HB : forall s, In s B -> In s l /\ (cec = true \/ s_changes s <> []) /\ tkey_eqb (key_of s) k = true).
  { intros s Hs. apply filter_In in Hs. destruct Hs as [Hs Hk]. destruct (Hattr s Hs) as [H1 H2]. auto. }
  assert (HBnd : NoDup (map s_commit B)) by (apply nodup_map_filter; exact Hnd).
  apply andb_true_iff. split; apply N.leb_le.
  - (* lower bound *)
    unfold lower_at.
    set (Q := fun c => must_count cec l c && forallb (fun s => tkey_eqb (key_of s) k) (steps_of c l)).
    assert (Hincl : incl (filter Q (commits_of l [])) (map s_commit B)).
    { intros c Hc. apply filter_In in Hc. destruct Hc as [Hc HQ]. unfold Q in HQ. apply andb_true_iff in HQ. destruct HQ as [Hm Hall].
      apply commits_of_in in Hc. destruct Hc as [Hc _].
      assert (HcA : In c (map s_commit A)).
      { apply Hmust; [exact Hc|]. unfold must_count in Hm. apply orb_true_iff in Hm. destruct Hm as [Hm|Hm]; [left; exact Hm|].
        right. intros s Hs Hsc. apply nonempty_changes. rewrite forallb_forall in Hm. apply Hm. apply in_steps_of. auto. }
      apply in_map_iff in HcA. destruct HcA as [s [Hsc Hs]]. apply in_map_iff. exists s. split; [exact Hsc|].
      apply filter_In. split; [exact Hs|]. destruct (Hattr s Hs) as [Hl _].
      rewrite forallb_forall in Hall. apply (Hall s). apply in_steps_of. auto. }
    pose proof (NoDup_incl_length (nodup_filter Q _ (commits_of_nodup l [])) Hincl) as Hlen.
    rewrite map_length in Hlen. lia.
  - (* upper bound *)
    unfold upper_at.
    set (P := fun c => may_count cec l c && existsb (fun s => tkey_eqb (key_of s) k) (steps_of c l)).
    assert (Hincl : incl (map s_commit B) (filter P (commits_of l []))).
    { intros c Hc. apply in_map_iff in Hc. destruct Hc as [s [Hsc Hs]]. destruct (HB s Hs) as [Hl [Hne Hk]].
      apply filter_In. split.
      - apply commits_of_in. split; [|reflexivity]. rewrite <- Hsc. apply in_map. exact Hl.
      - unfold P. apply andb_true_iff. split.
        + unfold may_count. apply orb_true_iff. destruct Hne as [Hne|Hne]; [left; exact Hne|].
          right. apply existsb_exists. exists s. split; [apply in_steps_of; auto | apply nonempty_changes; exact Hne].
        + apply existsb_exists. exists s. split; [apply in_steps_of; auto | exact Hk]. }
    pose proof (NoDup_incl_length HBnd Hincl) as Hlen.
    rewrite map_length in Hlen. fold B. lia.
Qed.
