(* Composition of the two plan validators.

   C02 (theories/Plan) validates the run plans of the real planner with [Plan.Checker.plan_ok] over a commit
   graph given as parent lists of nat; C01 (theories/Burndown) assumes of the plan it replays that
   [Replay.plan_okb] accepts it.  This file translates the syntax of C02 into the syntax of C01 and proves
   that a plan accepted by plan_ok is accepted by plan_okb, provided every commit of the history is analysed
   (C02 only demands the largest connected component; C01 demands every commit exactly once).

   Depends only on definitions and facts of the two developments; nothing is assumed. *)
From Coq Require Import List ZArith Lia Bool Arith Permutation.
From Herc Require Import Burndown.Base Burndown.Lifetimes Burndown.LifetimesFacts Burndown.Analysis
  Burndown.Replay Burndown.AncFacts.
From Herc Require Plan.Syntax Plan.Exec Plan.Graph Plan.Checker Plan.Spec Plan.Lifecycle Plan.GraphProofs
  Plan.ExecProofs Plan.CheckerLemmas Plan.CheckerSound.
Import ListNotations.
Open Scope Z_scope.

Module PS := Herc.Plan.Syntax.
Module PE := Herc.Plan.Exec.
Module PG := Herc.Plan.Graph.
Module PC := Herc.Plan.Checker.
Module PP := Herc.Plan.Spec.
Module PL := Herc.Plan.Lifecycle.
Module PGP := Herc.Plan.GraphProofs.
Module PEP := Herc.Plan.ExecProofs.
Module PCL := Herc.Plan.CheckerLemmas.
Module PCS := Herc.Plan.CheckerSound.

(* ---------- the translation ---------- *)

Definition graph_of (h : hist) : list (list nat) := map (map Z.to_nat) (h_parents h).

Definition tr_action (a : PS.action) : action :=
  match PS.kind a, PS.commit a, PS.items a with
  | PS.KCommit, Some c, b :: _ => ACommit (Z.of_nat c) b
  | PS.KEmerge, _, b :: _ => AEmerge b
  | PS.KFork, _, b :: ts => AFork b ts
  | PS.KMerge, _, bs => AMerge bs
  | PS.KDelete, _, b :: _ => ADelete b
  | PS.KHibernate, _, bs => AHibernate bs
  | PS.KBoot, _, bs => ABoot bs
  | _, _, _ => AHibernate []        (* ill-shaped: rejected by plan_ok anyway *)
  end.

Definition tr_plan (p : list PS.action) : list action := map tr_action p.

(* ---------- non-vacuity: the diamond of props/C02.v (C02_accepts_diamond) is the plan [ex_dag_plan] of
   props/C01.v, and both validators accept it ---------- *)

Definition diamond_hist : hist := mkHist [[]; [0]; [0]; [1; 2]] [0; 1; 1; 3] [0; 1; 0; 1] [].
Definition diamond_plan02 : list PS.action :=
  [PS.emerge 1 (Some 0%nat); PS.commit_on 0 1; PS.mkA PS.KFork (Some 0%nat) [1; 2]; PS.commit_on 1 1;
   PS.commit_on 2 2; PS.commit_on 3 1; PS.commit_on 3 2; PS.merge_of [1; 2]; PS.delete 2].
(* = ex_dag_plan of props/C01.v *)
Definition diamond_plan01 : list action :=
  [AEmerge 1; ACommit 0 1; AFork 1 [2]; ACommit 1 1; ACommit 2 2; ACommit 3 1; ACommit 3 2; AMerge [1; 2]; ADelete 2].

Example diamond_graph : graph_of diamond_hist = [[]; [0]; [0]; [1; 2]]%nat.
Proof. vm_compute. reflexivity. Qed.
Example diamond_translation : tr_plan diamond_plan02 = diamond_plan01.
Proof. vm_compute. reflexivity. Qed.
Example diamond_commits_ok : commits_okb diamond_hist = true.
Proof. vm_compute. reflexivity. Qed.
Example diamond_plan_ok : PC.plan_ok (graph_of diamond_hist) diamond_plan02 = true.
Proof. vm_compute. reflexivity. Qed.
Example diamond_plan_okb : plan_okb diamond_hist (tr_plan diamond_plan02) = true.
Proof. vm_compute. reflexivity. Qed.
Example diamond_covered :
  forallb (fun c => PG.memn c (PS.analysed diamond_plan02)) (seq 0 (length (h_parents diamond_hist))) = true.
Proof. vm_compute. reflexivity. Qed.

(* ---------- association lists ---------- *)

Lemma aget_aset' {V} (l : list (Z * V)) k v k' : aget (aset l k v) k' = if k =? k' then Some v else aget l k'.
Proof.
  induction l as [|[k0 v0] l IH]; cbn [aset aget].
  - reflexivity.
  - destruct (Z.eqb_spec k0 k) as [->|Hne]; cbn [aget].
    + destruct (k =? k'); reflexivity.
    + rewrite IH. destruct (Z.eqb_spec k0 k') as [->|Hne'].
      * destruct (Z.eqb_spec k k'); [congruence|reflexivity].
      * reflexivity.
Qed.

Lemma fst_aset_in {V} (l : list (Z * V)) k v x : In x (map fst (aset l k v)) -> x = k \/ In x (map fst l).
Proof.
  induction l as [|[k0 v0] l IH]; cbn [aset map fst In].
  - intros [E|[]]. left. symmetry. exact E.
  - destruct (Z.eqb_spec k0 k) as [->|Hne]; cbn [map fst In].
    + intros [E|H]; [left; symmetry; exact E | right; right; exact H].
    + intros [E|H]; [right; left; exact E|]. destruct (IH H) as [E|H']; [left; exact E | right; right; exact H'].
Qed.

Lemma nodup_aset' {V} (l : list (Z * V)) k v : NoDup (map fst l) -> NoDup (map fst (aset l k v)).
Proof.
  induction l as [|[k0 v0] l IH]; intros Hnd; cbn [aset map fst].
  - constructor; [intros []|constructor].
  - cbn [map fst] in Hnd. inversion Hnd as [|? ? Hn Hnd']; subst.
    destruct (Z.eqb_spec k0 k) as [->|Hne]; cbn [map fst].
    + constructor; assumption.
    + constructor; [|apply IH; exact Hnd'].
      intros Hin. apply fst_aset_in in Hin. destruct Hin as [E|Hin]; [congruence | contradiction].
Qed.

Lemma aget_none_notin {V} (l : list (Z * V)) k : ~ In k (map fst l) -> aget l k = None.
Proof.
  induction l as [|[k0 v0] l IH]; intros Hn; cbn [aget]; [reflexivity|].
  cbn [map fst In] in Hn. destruct (Z.eqb_spec k0 k) as [->|Hne]; [exfalso; apply Hn; left; reflexivity|].
  apply IH. intros Hin. apply Hn. right. exact Hin.
Qed.

Lemma aget_adel' {V} (l : list (Z * V)) k k' : NoDup (map fst l) ->
  aget (adel l k) k' = if k =? k' then None else aget l k'.
Proof.
  induction l as [|[k0 v0] l IH]; intros Hnd; cbn [adel aget].
  - destruct (k =? k'); reflexivity.
  - cbn [map fst] in Hnd. inversion Hnd as [|? ? Hn Hnd']; subst.
    destruct (Z.eqb_spec k0 k) as [->|Hne].
    + destruct (Z.eqb_spec k k') as [->|Hne']; [apply aget_none_notin; exact Hn | reflexivity].
    + cbn [aget]. rewrite (IH Hnd'). destruct (Z.eqb_spec k0 k') as [->|Hne'].
      * destruct (Z.eqb_spec k k'); [congruence | reflexivity].
      * reflexivity.
Qed.

Lemma fst_adel_in {V} (l : list (Z * V)) k x : In x (map fst (adel l k)) -> In x (map fst l).
Proof.
  induction l as [|[k0 v0] l IH]; cbn [adel map fst In]; [tauto|].
  destruct (Z.eqb_spec k0 k) as [->|Hne]; cbn [map fst In].
  - intros H. right. exact H.
  - intros [E|H]; [left; exact E | right; apply IH; exact H].
Qed.

Lemma nodup_adel' {V} (l : list (Z * V)) k : NoDup (map fst l) -> NoDup (map fst (adel l k)).
Proof.
  induction l as [|[k0 v0] l IH]; intros Hnd; cbn [adel map fst]; [constructor|].
  cbn [map fst] in Hnd. inversion Hnd as [|? ? Hn Hnd']; subst.
  destruct (Z.eqb_spec k0 k) as [->|Hne]; cbn [map fst]; [exact Hnd'|].
  constructor; [|apply IH; exact Hnd']. intros Hin. apply Hn. eapply fst_adel_in. exact Hin.
Qed.

Lemma memz_In x l : memz x l = true <-> In x l.
Proof.
  unfold memz. rewrite existsb_exists. split.
  - intros [y [Hy E]]. apply Z.eqb_eq in E. subst. exact Hy.
  - intros H. exists x. split; [exact H | apply Z.eqb_refl].
Qed.

Lemma memz_notin x l : memz x l = false <-> ~ In x l.
Proof.
  rewrite <- memz_In. destruct (memz x l); split; intros H.
  - discriminate H.
  - exfalso. apply H. reflexivity.
  - intros H'. discriminate H'.
  - reflexivity.
Qed.

Lemma aget_fold_aset' {V} (f : Z -> V) bs : forall m k,
  aget (fold_left (fun m b' => aset m b' (f b')) bs m) k = if memz k bs then Some (f k) else aget m k.
Proof.
  induction bs as [|b bs IH]; intros m k; cbn [fold_left]; [reflexivity|].
  rewrite IH. unfold memz. cbn [existsb]. fold (memz k bs).
  destruct (memz k bs); [rewrite orb_true_r; reflexivity|].
  rewrite orb_false_r, aget_aset', (Z.eqb_sym k b).
  destruct (Z.eqb_spec b k) as [->|Hne]; reflexivity.
Qed.

Lemma nodup_fold_aset' {V} (f : Z -> V) bs : forall m,
  NoDup (map fst m) -> NoDup (map fst (fold_left (fun m b' => aset m b' (f b')) bs m)).
Proof.
  induction bs as [|b bs IH]; intros m Hm; cbn [fold_left]; [exact Hm|].
  apply IH. apply nodup_aset'. exact Hm.
Qed.

Lemma nodup_zb_true l : NoDup l -> nodup_zb l = true.
Proof.
  induction 1 as [|x l Hn Hnd IH]; cbn [nodup_zb]; [reflexivity|].
  rewrite IH, andb_true_r. apply negb_true_iff. apply (proj2 (memz_notin x l)). exact Hn.
Qed.

(* ---------- bit vectors ---------- *)

Lemma vget_neg v i : i < 0 -> vget v i = false.
Proof. intros H. unfold vget, znth. destruct (Z.ltb_spec i 0); [reflexivity | lia]. Qed.

Lemma vec_leb_true : forall a b, length a = length b ->
  (forall i, vget a i = true -> vget b i = true) -> vec_leb a b = true.
Proof.
  induction a as [|x a IH]; intros [|y b] HL H; cbn [length] in HL; try discriminate; cbn [vec_leb]; [reflexivity|].
  apply andb_true_iff. split.
  - specialize (H 0). rewrite !vget_cons in H. cbn in H. destruct x; [rewrite H; reflexivity | reflexivity].
  - apply IH; [lia|]. intros i Hi. pose proof (vget_range _ _ Hi) as Hr.
    specialize (H (i + 1)). rewrite !vget_cons in H.
    destruct (Z.eqb_spec (i + 1) 0); [lia|]. destruct (Z.ltb_spec (i + 1) 0); [lia|].
    replace (i + 1 - 1) with i in H by lia. apply H. exact Hi.
Qed.

Lemma vec_eqb_true : forall a b, length a = length b ->
  (forall i, vget a i = vget b i) -> vec_eqb a b = true.
Proof.
  induction a as [|x a IH]; intros [|y b] HL H; cbn [length] in HL; try discriminate; cbn [vec_eqb]; [reflexivity|].
  apply andb_true_iff. split.
  - specialize (H 0). rewrite !vget_cons in H. cbn in H. subst. apply eqb_reflx.
  - apply IH; [lia|]. intros i. destruct (Z.ltb_spec i 0) as [Hneg|Hpos].
    + rewrite !vget_neg by exact Hneg. reflexivity.
    + specialize (H (i + 1)). rewrite !vget_cons in H.
      destruct (Z.eqb_spec (i + 1) 0); [lia|]. destruct (Z.ltb_spec (i + 1) 0); [lia|].
      replace (i + 1 - 1) with i in H by lia. exact H.
Qed.

Lemma vget_fold_orvec' (n : nat) sets : forall z a, (forall v, In v sets -> length v = n) -> length z = n ->
  vget (fold_left orvec sets z) a = vget z a || existsb (fun v => vget v a) sets.
Proof.
  induction sets as [|v sets IH]; intros z a Hs Hz; cbn [fold_left existsb]; [rewrite orb_false_r; reflexivity|].
  rewrite IH; [|intros v' Hv'; apply Hs; right; exact Hv' | rewrite orvec_length; exact Hz].
  rewrite vget_orvec by (rewrite Hz; symmetry; apply Hs; left; reflexivity). rewrite orb_assoc. reflexivity.
Qed.

Lemma fold_orvec_length sets : forall z, length (fold_left orvec sets z) = length z.
Proof.
  induction sets as [|v sets IH]; intros z; cbn [fold_left]; [reflexivity|]. rewrite IH. apply orvec_length.
Qed.

Lemma vget_vec_set v c a : (c < length v)%nat ->
  vget (vec_set v (Z.of_nat c)) (Z.of_nat a) = (a =? c)%nat || vget v (Z.of_nat a).
Proof.
  intros Hc. unfold vec_set. destruct (Z.ltb_spec (Z.of_nat c) 0); [lia|].
  rewrite Nat2Z.id, vget_setbit. f_equal.
  destruct (Z.ltb_spec (Z.of_nat c) (Z.of_nat (length v))); [|lia]. rewrite andb_true_r.
  destruct (Z.eqb_spec (Z.of_nat a) (Z.of_nat c)), (Nat.eqb_spec a c); try reflexivity; lia.
Qed.

Lemma vec_set_length v c : length (vec_set v c) = length v.
Proof. unfold vec_set. destruct (c <? 0); [reflexivity | apply setbit_length]. Qed.

Lemma existsb_ext_in' {X} (f g : X -> bool) l : (forall x, In x l -> f x = g x) -> existsb f l = existsb g l.
Proof.
  induction l as [|x l IH]; intros H; cbn [existsb]; [reflexivity|].
  rewrite (H x (or_introl eq_refl)), IH; [reflexivity|]. intros y Hy. apply H. right. exact Hy.
Qed.

(* ---------- the ancestor table of C01, row by row ---------- *)
Section Rows.
  Variable n : nat.
  Notation row acc p := (znth (repeat false n) acc p).

  Lemma anc_row_length acc ps : (forall r, In r acc -> length r = n) -> length (anc_row n acc ps) = n.
  Proof.
    intros H. unfold anc_row. rewrite setbit_length. apply fold_or_length; [exact H | apply repeat_length].
  Qed.

  (* the local assertion Hnew of AncFacts.table_step *)
  Lemma vget_anc_row acc ps a : (forall r, In r acc -> length r = n) -> (length acc < n)%nat ->
    vget (anc_row n acc ps) a = (a =? Z.of_nat (length acc)) || existsb (fun p => vget (row acc p) a) ps.
  Proof.
    intros Hacc Hlt. unfold anc_row. rewrite vget_setbit.
    rewrite fold_or_length by (try exact Hacc; apply repeat_length).
    rewrite vget_fold_or by (try exact Hacc; apply repeat_length). rewrite vget_repeat_false. cbn [orb].
    destruct (Z.ltb_spec (Z.of_nat (length acc)) (Z.of_nat n)); [|lia]. rewrite andb_true_r. reflexivity.
  Qed.

  (* row c = {c} + the rows of the parents of c, for the rows built so far; P = the parent lists *)
  Definition rows_char (P : list (list Z)) (acc : list (list bool)) : Prop :=
    forall c a, (c < length acc)%nat ->
      vget (row acc (Z.of_nat c)) a = (a =? Z.of_nat c) || existsb (fun p => vget (row acc p) a) (nth c P []).

  Lemma build_anc_rows : forall pss pre acc,
    length acc = length pre -> (forall r, In r acc -> length r = n) -> (length acc + length pss <= n)%nat ->
    (forall i ps, nth_error (pre ++ pss) i = Some ps -> forall p, In p ps -> 0 <= p < Z.of_nat i) ->
    rows_char pre acc -> rows_char (pre ++ pss) (build_anc n pss acc).
  Proof.
    induction pss as [|ps pss IH]; intros pre acc HL Hlen Hn Hpar Hch; cbn [build_anc].
    - rewrite app_nil_r. exact Hch.
    - cbn [length] in Hn.
      replace (pre ++ ps :: pss) with ((pre ++ [ps]) ++ pss) by (rewrite <- app_assoc; reflexivity).
      assert (Hpar' : forall i ps0, nth_error ((pre ++ [ps]) ++ pss) i = Some ps0 ->
                                    forall p, In p ps0 -> 0 <= p < Z.of_nat i).
      { intros i ps0 Hi. apply (Hpar i ps0). rewrite <- app_assoc in Hi. exact Hi. }
      apply IH.
      + rewrite !app_length. cbn [length]. lia.
      + intros r Hr. apply in_app_or in Hr. destruct Hr as [Hr|[<-|[]]]; [apply Hlen; exact Hr|].
        apply anc_row_length. exact Hlen.
      + rewrite app_length. cbn [length]. lia.
      + exact Hpar'.
      + intros c a Hc. rewrite app_length in Hc. cbn [length] in Hc.
        destruct (Nat.eq_dec c (length acc)) as [->|Hne].
        * rewrite row_app_new. rewrite HL at 2. rewrite app_nth2 by lia. rewrite Nat.sub_diag. cbn [nth].
          rewrite vget_anc_row by (try exact Hlen; lia). f_equal.
          apply existsb_ext_in'. intros p Hp.
          assert (Hr : 0 <= p < Z.of_nat (length pre)).
          { apply (Hpar (length pre) ps); [|exact Hp]. rewrite nth_error_app2 by lia. rewrite Nat.sub_diag. reflexivity. }
          rewrite row_app_old by lia. reflexivity.
        * assert (Hc' : (c < length acc)%nat) by lia.
          rewrite row_app_old by lia. rewrite app_nth1 by lia. rewrite (Hch c a Hc'). f_equal.
          apply existsb_ext_in'. intros p Hp.
          assert (Hr : 0 <= p < Z.of_nat c).
          { apply (Hpar c (nth c pre [])); [|exact Hp]. rewrite nth_error_app1 by lia.
            apply nth_error_nth'. lia. }
          rewrite row_app_old by lia. reflexivity.
  Qed.
End Rows.

(* ---------- ancs h (C01) = Anc (graph_of h) (C02) ---------- *)
Section Table.
  Variable h : hist.
  Hypothesis Hok : commits_okb h = true.
  Notation A := (ancs h).
  Notation n := (length (h_parents h)).
  Notation g := (graph_of h).

  Lemma ancs_rows : rows_char n (h_parents h) A.
  Proof.
    unfold ancs. apply (build_anc_rows n (h_parents h) [] []).
    - reflexivity.
    - intros r [].
    - cbn [length]. lia.
    - intros i ps Hi p Hp. cbn [app] in Hi.
      assert (Hil : (i < n)%nat) by (apply nth_error_Some; congruence).
      assert (Hc : 0 <= Z.of_nat i < ncommits h) by (unfold ncommits; lia).
      assert (Hps : parents_of h (Z.of_nat i) = ps).
      { unfold parents_of, znth. destruct (Z.ltb_spec (Z.of_nat i) 0); [lia|]. rewrite Nat2Z.id.
        apply nth_error_nth. exact Hi. }
      rewrite <- Hps in Hp. pose proof (parents_in_range h Hok _ _ Hc Hp). lia.
    - intros c a Hc. cbn [length] in Hc. lia.
  Qed.

  (* row c of the table = {c} + the rows of the parents of c *)
  Lemma ancb_unfold c a : 0 <= c < ncommits h ->
    ancb A c a = (a =? c) || existsb (fun p => ancb A p a) (parents_of h c).
  Proof.
    intros Hc. destruct (ancs_ok h Hok) as [_ HL].
    rewrite (ancb_row h Hok c a Hc).
    pose proof (ancs_rows (Z.to_nat c) a) as R. rewrite Z2Nat.id in R by lia.
    rewrite R by (rewrite HL; unfold ncommits in Hc; lia).
    f_equal.
    assert (E : nth (Z.to_nat c) (h_parents h) [] = parents_of h c).
    { unfold parents_of, znth. destruct (Z.ltb_spec c 0); [lia | reflexivity]. }
    rewrite E. apply existsb_ext_in'. intros p Hp.
    pose proof (parents_in_range h Hok _ _ Hc Hp) as Hr.
    symmetry. apply (ancb_row h Hok). lia.
  Qed.

  Lemma graph_length : length g = n.
  Proof. unfold graph_of. apply map_length. Qed.

  Lemma parents_graph c : PS.parents g c = map Z.to_nat (parents_of h (Z.of_nat c)).
  Proof.
    unfold PS.parents, graph_of, parents_of, znth. destruct (Z.ltb_spec (Z.of_nat c) 0); [lia|].
    rewrite Nat2Z.id. change (@nil nat) with (map Z.to_nat []). apply map_nth.
  Qed.

  Lemma in_parents_graph c q : (c < n)%nat ->
    (In q (PS.parents g c) <-> In (Z.of_nat q) (parents_of h (Z.of_nat c))).
  Proof.
    intros Hc. rewrite parents_graph, in_map_iff.
    assert (Hcz : 0 <= Z.of_nat c < ncommits h) by (unfold ncommits; lia).
    split.
    - intros [p [E Hp]]. pose proof (parents_in_range h Hok _ _ Hcz Hp) as Hr.
      replace (Z.of_nat q) with p by lia. exact Hp.
    - intros Hp. exists (Z.of_nat q). split; [apply Nat2Z.id | exact Hp].
  Qed.

  Lemma parents_graph_lt c q : In q (PS.parents g c) -> (q < c)%nat.
  Proof.
    intros Hq. pose proof (PGP.parents_lt_len _ _ _ Hq) as Hc. rewrite graph_length in Hc.
    apply (in_parents_graph c q Hc) in Hq.
    assert (Hcz : 0 <= Z.of_nat c < ncommits h) by (unfold ncommits; lia).
    pose proof (parents_in_range h Hok _ _ Hcz Hq). lia.
  Qed.

  Lemma topob_graph : PG.topob g = true.
  Proof.
    unfold PG.topob. apply forallb_forall. intros i _. apply forallb_forall. intros q Hq.
    apply Nat.ltb_lt. apply parents_graph_lt. exact Hq.
  Qed.

  (* the two ancestor relations agree *)
  Lemma ancb_Anc : forall c a, (c < n)%nat ->
    (ancb A (Z.of_nat c) (Z.of_nat a) = true <-> PG.Anc g a c).
  Proof.
    induction c as [c IH] using lt_wf_ind. intros a Hc.
    assert (Hcz : 0 <= Z.of_nat c < ncommits h) by (unfold ncommits; lia).
    rewrite (ancb_unfold _ _ Hcz), PGP.Anc_inv, orb_true_iff, existsb_exists. split.
    - intros [E|[p [Hp Ea]]].
      + left. apply Z.eqb_eq in E. lia.
      + right. pose proof (parents_in_range h Hok _ _ Hcz Hp) as Hr.
        exists (Z.to_nat p). split.
        * apply in_parents_graph; [exact Hc|]. rewrite Z2Nat.id by lia. exact Hp.
        * apply IH; [lia | lia |]. rewrite Z2Nat.id by lia. exact Ea.
    - intros [E|[q [Hq Ha]]].
      + left. apply Z.eqb_eq. lia.
      + right. pose proof (parents_graph_lt c q Hq) as Hlt.
        exists (Z.of_nat q). split.
        * apply in_parents_graph; assumption.
        * apply IH; [exact Hlt | lia | exact Ha].
  Qed.

  Lemma row_vget c a : vget (znth [] A c) a = ancb A c a.
  Proof. reflexivity. Qed.
End Table.

(* ---------- facts on the commit graph of C02 ---------- *)
Section GraphFacts.
  Variable g : list (list nat).
  Hypothesis T : PG.topob g = true.

  (* every parent is an ancestor-or-self of a non-redundant parent (the one with the largest number among
     the parents it is an ancestor of) *)
  Lemma nonred_dominates c : forall k p, (c - p <= k)%nat -> In p (PS.parents g c) ->
    exists q, PG.nonredundant g c q /\ PG.Anc g p q.
  Proof.
    induction k as [|k IH]; intros p Hk Hp; pose proof (PGP.topob_spec g T c p Hp) as Hlt; [lia|].
    destruct (PG.nonredb g (PG.anc_tab g) c p) eqn:E.
    - exists p. split; [apply (PGP.nonredb_spec g T); exact E | apply PG.Anc_refl].
    - unfold PG.nonredb in E. rewrite (proj2 (PGP.memn_In p (PS.parents g c)) Hp) in E. cbn [andb] in E.
      apply negb_false_iff in E. apply existsb_exists in E. destruct E as [q' [Hq' E]].
      apply andb_true_iff in E. destruct E as [E1 E2].
      apply negb_true_iff, Nat.eqb_neq in E1.
      pose proof (PGP.topob_spec g T c q' Hq') as Hq'lt. pose proof (PGP.parents_lt_len g c q' Hq') as Hclen.
      apply (PGP.ancb_spec g T) in E2; [|lia].
      pose proof (PGP.Anc_le g T _ _ E2) as Hle.
      destruct (IH q') as [q [Hq Ha]]; [lia | exact Hq' |].
      exists q. split; [exact Hq | eapply PGP.Anc_trans; eassumption].
  Qed.

  (* with a single non-redundant parent q: anc*(c) = {c} + anc*(q) *)
  Lemma single_parent_anc c q : In q (PS.parents g c) -> (forall q', PG.nonredundant g c q' -> q' = q) ->
    forall a, PG.Anc g a c <-> a = c \/ PG.Anc g a q.
  Proof.
    intros Hq Honly a. rewrite PGP.Anc_inv. split.
    - intros [E|[p [Hp Ha]]]; [left; exact E|]. right.
      destruct (nonred_dominates c (c - p) p (le_n _) Hp) as [q' [Hq' Hpq]].
      rewrite (Honly q' Hq') in Hpq. eapply PGP.Anc_trans; eassumption.
    - intros [E|Ha]; [left; exact E|]. right. exists q. split; assumption.
  Qed.

  Lemma replay_ok_inv s c b x : PP.replay_ok g s c b -> PE.get s b = PE.Live x ->
    (c < length g)%nat /\
    match PE.last x with
    | None => PE.inc x = [] /\ PS.parents g c = []
    | Some q => In q (PS.parents g c) /\ forall a, In a (PE.inc x) <-> PG.Anc g a q
    end.
  Proof.
    intros [Hc [x0 [Hx0 Hm]]] Hx. rewrite Hx in Hx0. injection Hx0 as <-. split; assumption.
  Qed.

  (* one replay: afterwards the branch holds exactly the ancestry of c *)
  Lemma replay_single_anc s c b x :
    PP.replay_ok g s c b -> PP.lasts_ok g c [PE.last_on s b] -> PE.get s b = PE.Live x ->
    forall a, PG.Anc g a c <-> a = c \/ In a (PE.inc x).
  Proof.
    intros Hr Hl Hx a. destruct (replay_ok_inv s c b x Hr Hx) as [Hc Hm].
    unfold PE.last_on in Hl. rewrite Hx in Hl. cbn [PE.last_of PE.data] in Hl.
    destruct (PE.last x) as [q|].
    - destruct Hm as [Hq Hinc]. destruct Hl as [[Hnil _]|[_ [qs [Eqs [_ Hqs]]]]].
      + rewrite Hnil in Hq. destruct Hq.
      + assert (qs = [q]) as ->.
        { destruct qs as [|q0 [|q1 qs]]; cbn in Eqs; try discriminate. injection Eqs as <-. reflexivity. }
        rewrite (single_parent_anc c q Hq).
        * rewrite Hinc. tauto.
        * intros q' Hq'. apply Hqs in Hq'. destruct Hq' as [E|[]]. symmetry. exact E.
    - destruct Hm as [Hinc Hpar]. rewrite PGP.Anc_inv, Hpar, Hinc. cbn [In]. split.
      + intros [E|[q [[] _]]]. left. exact E.
      + intros [E|[]]. left. exact E.
  Qed.

  (* several replays: the commit has several parents *)
  Lemma lasts_multi c ls : PP.lasts_ok g c ls -> (2 <= length ls)%nat ->
    PS.parents g c <> [] /\ (2 <= length (PS.parents g c))%nat.
  Proof.
    intros [[_ ->]|[Hne [qs [-> [Hnd Hqs]]]]] HL; [cbn in HL; lia|].
    split; [exact Hne|]. rewrite map_length in HL.
    etransitivity; [exact HL|]. apply NoDup_incl_length; [exact Hnd|].
    intros q Hq. apply Hqs in Hq. destruct Hq as [Hq _]. exact Hq.
  Qed.
End GraphFacts.

(* ---------- isMerge of C01 ---------- *)
Definition commit_ids (l : list action) : list Z :=
  flat_map (fun a => match a with ACommit c _ => [c] | _ => [] end) l.

Lemma nearest_commit_in l c : nearest_commit l = Some c -> In c (commit_ids l).
Proof.
  induction l as [|a l IH]; cbn [nearest_commit]; [discriminate|].
  intros E. unfold commit_ids. cbn [flat_map]. apply in_or_app.
  destruct a; cbn [is_hib] in E; try discriminate; try (right; apply IH; exact E).
  injection E as <-. left. left. reflexivity.
Qed.

Lemma removelast_in' {X} (l : list X) x : In x (removelast l) -> In x l.
Proof.
  induction l as [|y l IH]; [intros []|]. destruct l as [|z l]; [intros []|].
  change (removelast (y :: z :: l)) with (y :: removelast (z :: l)).
  intros [E|H]; [left; exact E | right; apply IH; exact H].
Qed.

Lemma commit_ids_removelast l z : In z (commit_ids (removelast l)) -> In z (commit_ids l).
Proof.
  unfold commit_ids. rewrite !in_flat_map. intros [a [Ha Hz]]. exists a. split; [|exact Hz].
  apply removelast_in'. exact Ha.
Qed.

Lemma is_merge_at_false before after c :
  (forall z, In z (commit_ids before) -> z <> c) ->
  (forall z, nearest_commit after = Some z -> z <> c) ->
  is_merge_at before after c = false.
Proof.
  intros Hb Ha. unfold is_merge_at.
  assert (E : match nearest_commit after with Some c2 => c2 =? c | None => false end = false).
  { destruct (nearest_commit after) as [c2|]; [|reflexivity]. apply Z.eqb_neq. apply Ha. reflexivity. }
  destruct (nearest_commit (removelast before)) as [c'|] eqn:Eb; [|exact E].
  apply nearest_commit_in, commit_ids_removelast in Eb. apply Hb, Z.eqb_neq in Eb. rewrite Eb. exact E.
Qed.

Lemma is_merge_at_after before after c b : is_merge_at before (ACommit c b :: after) c = true.
Proof.
  unfold is_merge_at. cbn [nearest_commit is_hib]. rewrite Z.eqb_refl.
  destruct (nearest_commit (removelast before)) as [c'|]; [|reflexivity]. destruct (c' =? c); reflexivity.
Qed.

Lemma is_merge_at_before x before after c b : is_merge_at (ACommit c b :: x :: before) after c = true.
Proof.
  unfold is_merge_at. change (removelast (ACommit c b :: x :: before)) with (ACommit c b :: removelast (x :: before)).
  cbn [nearest_commit is_hib]. rewrite Z.eqb_refl. reflexivity.
Qed.

(* ---------- the validator steps of C01, one equation per accepted case ---------- *)
Section Steps.
  Variable h : hist.
  Variable A : list (list bool).
  Variable n : nat.

  Lemma pstep_emerge before after b ps :
    ps_pend ps = None -> memz b (ps_seen ps) = false ->
    pstep h A n before after (AEmerge b) ps =
    Some (mkPS (aset (ps_live ps) b (mkPB (repeat false n) None)) (b :: ps_seen ps) (ps_done ps) None).
  Proof. intros H1 H2. unfold pstep. rewrite H1, H2. reflexivity. Qed.

  Lemma pstep_fork before after b bs ps pb :
    ps_pend ps = None -> aget (ps_live ps) b = Some pb ->
    forallb (fun b' => negb (memz b' (ps_seen ps))) bs = true -> nodup_zb bs = true ->
    pstep h A n before after (AFork b bs) ps =
    Some (mkPS (fold_left (fun m b' => aset m b' pb) bs (ps_live ps)) (bs ++ ps_seen ps) (ps_done ps) None).
  Proof. intros H1 H2 H3 H4. unfold pstep. rewrite H1, H2, H3, H4. reflexivity. Qed.

  Lemma pstep_delete before after b ps pb :
    ps_pend ps = None -> aget (ps_live ps) b = Some pb ->
    pstep h A n before after (ADelete b) ps =
    Some (mkPS (adel (ps_live ps) b) (ps_seen ps) (ps_done ps) None).
  Proof. intros H1 H2. unfold pstep. rewrite H1, H2. reflexivity. Qed.

  Lemma pstep_commit_normal before after c b ps pb :
    aget (ps_live ps) b = Some pb -> in_range (Z.of_nat n) c = true ->
    vec_get (pb_set pb) c = false -> memz c (ps_done ps) = false ->
    is_merge_at before after c = false -> ps_pend ps = None ->
    vec_eqb (vec_set (pb_set pb) c) (znth [] A c) = true ->
    pstep h A n before after (ACommit c b) ps =
    Some (mkPS (aset (ps_live ps) b (mkPB (vec_set (pb_set pb) c) (Some c))) (ps_seen ps) (c :: ps_done ps) None).
  Proof.
    intros H1 H2 H3 H4 H5 H6 H7. unfold pstep. rewrite H1, H2, H3, H4, H5, H6, H7. reflexivity.
  Qed.

  Lemma pstep_commit_merge before after c b ps pb l :
    aget (ps_live ps) b = Some pb -> in_range (Z.of_nat n) c = true ->
    vec_get (pb_set pb) c = false -> memz c (ps_done ps) = false ->
    is_merge_at before after c = true ->
    pb_last pb = Some l -> memz l (parents_of h c) = true ->
    vec_leb (pb_set pb) (znth [] A c) = true -> (2 <=? Z.of_nat (length (parents_of h c))) = true ->
    pstep h A n before after (ACommit c b) ps =
    let live' := aset (ps_live ps) b (mkPB (vec_set (pb_set pb) c) (Some c)) in
    match ps_pend ps with
    | None => Some (mkPS live' (ps_seen ps) (ps_done ps) (Some (c, [b])))
    | Some (m, bs) => if (m =? c) && negb (memz b bs)
                      then Some (mkPS live' (ps_seen ps) (ps_done ps) (Some (c, bs ++ [b])))
                      else None
    end.
  Proof.
    intros H1 H2 H3 H4 H5 H6 H7 H8 H9. unfold pstep. rewrite H1, H2, H3, H4, H5, H6, H7, H8, H9. reflexivity.
  Qed.

  Lemma pstep_merge before after bs ps m rs :
    ps_pend ps = Some (m, rs) ->
    nodup_zb bs = true -> subset_z bs rs = true -> subset_z rs bs = true ->
    (2 <=? Z.of_nat (length bs)) = true ->
    vec_eqb (fold_left orvec (map (fun b => match aget (ps_live ps) b with Some pb => pb_set pb | None => [] end) bs)
                       (repeat false n)) (znth [] A m) = true ->
    pstep h A n before after (AMerge bs) ps =
    Some (mkPS (fold_left (fun l b => aset l b
                  (mkPB (fold_left orvec (map (fun b => match aget (ps_live ps) b with Some pb => pb_set pb | None => [] end) bs)
                                   (repeat false n)) (Some m))) bs (ps_live ps))
               (ps_seen ps) (m :: ps_done ps) None).
  Proof.
    intros H1 H2 H3 H4 H5 H6. unfold pstep. rewrite H1, H2, H3, H4, H5. cbn [andb negb]. rewrite H6. reflexivity.
  Qed.
End Steps.

(* ---------- the simulation relation between the two validators' states ---------- *)
Section Sim.
  Variable n : nat.

  (* C02 branch (list of commits, last) vs C01 branch (bit vector, last) *)
  Definition pb_ok (x : PE.branch) (pb : pbranch) : Prop :=
    length (pb_set pb) = n /\ pb_last pb = option_map Z.of_nat (PE.last x) /\
    forall a, (a < n)%nat -> (vget (pb_set pb) (Z.of_nat a) = true <-> In a (PE.inc x)).

  Definition brel (l : PE.life) (o : option pbranch) : Prop :=
    match PE.data l, o with
    | Some x, Some pb => pb_ok x pb
    | None, None => True
    | _, _ => False
    end.

  (* live or hibernated in C02 <-> in ps_live; every branch index C01 has seen is not Absent in C02 *)
  Definition lsim (s : list (Z * PE.life)) (live : list (Z * pbranch)) (seen : list Z) : Prop :=
    (forall b, brel (PE.get s b) (aget live b)) /\ NoDup (map fst live) /\
    (forall b, In b seen -> PE.get s b <> PE.Absent).

  Lemma lsim_live s live seen b x : lsim s live seen -> PE.get s b = PE.Live x ->
    exists pb, aget live b = Some pb /\ pb_ok x pb.
  Proof.
    intros [H1 _] Hx. specialize (H1 b). unfold brel in H1. rewrite Hx in H1. cbn [PE.data] in H1.
    destruct (aget live b) as [pb|]; [|destruct H1]. exists pb. split; [reflexivity | exact H1].
  Qed.

  Lemma lsim_absent s live seen b : lsim s live seen -> PE.get s b = PE.Absent -> memz b seen = false.
  Proof.
    intros [_ [_ H3]] Hx. apply memz_notin. intros Hin. apply (H3 b Hin). exact Hx.
  Qed.

  Lemma pb_ok_commit x pb c : pb_ok x pb -> (c < n)%nat ->
    pb_ok (PE.mkB (c :: PE.inc x) (Some c)) (mkPB (vec_set (pb_set pb) (Z.of_nat c)) (Some (Z.of_nat c))).
  Proof.
    intros [HL [_ Hb]] Hc. split; [|split]; cbn [pb_set pb_last PE.inc PE.last option_map].
    - rewrite vec_set_length. exact HL.
    - reflexivity.
    - intros a Ha. rewrite vget_vec_set by lia. rewrite orb_true_iff, Nat.eqb_eq, (Hb a Ha). cbn [In].
      split; intros [E|H]; auto.
  Qed.

  Lemma lsim_commit s live seen b x pb c :
    lsim s live seen -> PE.get s b = PE.Live x -> aget live b = Some pb -> (c < n)%nat ->
    lsim (PE.step s (PS.commit_on c b))
         (aset live b (mkPB (vec_set (pb_set pb) (Z.of_nat c)) (Some (Z.of_nat c)))) seen.
  Proof.
    intros Hs Hx Hpb Hc. destruct (lsim_live _ _ _ _ _ Hs Hx) as [pb' [E Hok]].
    rewrite Hpb in E. injection E as <-. destruct Hs as [H1 [H2 H3]]. split; [|split].
    - intros b'. rewrite PEP.get_step_commit, aget_aset'. destruct (Z.eqb_spec b b') as [<-|Hne].
      + rewrite Hx. cbn [PE.upd]. unfold brel. cbn [PE.data]. apply pb_ok_commit; assumption.
      + apply H1.
    - apply nodup_aset'. exact H2.
    - intros b' Hb'. rewrite PEP.get_step_commit. destruct (Z.eqb_spec b b') as [<-|Hne].
      + rewrite Hx. cbn [PE.upd]. discriminate.
      + apply H3. exact Hb'.
  Qed.

  Lemma lsim_emerge s live seen b : lsim s live seen ->
    lsim (PE.set s b (PE.Live (PE.mkB [] None))) (aset live b (mkPB (repeat false n) None)) (b :: seen).
  Proof.
    intros [H1 [H2 H3]]. split; [|split].
    - intros b'. rewrite PEP.get_set, aget_aset'. destruct (Z.eqb_spec b b') as [<-|Hne]; [|apply H1].
      unfold brel. cbn [PE.data]. split; [|split]; cbn [pb_set pb_last PE.inc PE.last option_map].
      + apply repeat_length.
      + reflexivity.
      + intros a _. rewrite vget_repeat_false. cbn [In]. split; [discriminate | tauto].
    - apply nodup_aset'. exact H2.
    - intros b' Hb'. rewrite PEP.get_set. destruct (Z.eqb_spec b b') as [<-|Hne]; [discriminate|].
      apply H3. destruct Hb' as [E|Hb']; [congruence | exact Hb'].
  Qed.

  Lemma lsim_fork s live seen b x pb ts :
    lsim s live seen -> PE.get s b = PE.Live x -> aget live b = Some pb ->
    lsim (fold_left (fun s' t => PE.set s' t (PE.get s b)) ts s)
         (fold_left (fun m t => aset m t pb) ts live) (ts ++ seen).
  Proof.
    intros Hs Hx Hpb. destruct (lsim_live _ _ _ _ _ Hs Hx) as [pb' [E Hok]].
    rewrite Hpb in E. injection E as <-. destruct Hs as [H1 [H2 H3]]. split; [|split].
    - intros b'. rewrite (PEP.get_fold_set (fun _ => PE.get s b)), (aget_fold_aset' (fun _ => pb)).
      change (PEP.memzb b' ts) with (memz b' ts). destruct (memz b' ts); [|apply H1].
      rewrite Hx. unfold brel. cbn [PE.data]. exact Hok.
    - apply (nodup_fold_aset' (fun _ => pb)). exact H2.
    - intros b' Hb'. rewrite (PEP.get_fold_set (fun _ => PE.get s b)).
      change (PEP.memzb b' ts) with (memz b' ts). destruct (memz b' ts) eqn:E.
      + rewrite Hx. discriminate.
      + apply H3. apply in_app_or in Hb'. destruct Hb' as [Hb'|Hb']; [|exact Hb'].
        apply memz_In in Hb'. congruence.
  Qed.

  Lemma lsim_delete s live seen b : lsim s live seen -> lsim (PE.set s b PE.Disposed) (adel live b) seen.
  Proof.
    intros [H1 [H2 H3]]. split; [|split].
    - intros b'. rewrite PEP.get_set, (aget_adel' _ _ _ H2). destruct (Z.eqb_spec b b') as [<-|Hne]; [|apply H1].
      exact I.
    - apply nodup_adel'. exact H2.
    - intros b' Hb'. rewrite PEP.get_set. destruct (Z.eqb_spec b b') as [<-|Hne]; [discriminate|].
      apply H3. exact Hb'.
  Qed.

  Lemma lsim_data s s' live seen :
    (forall b, PE.data (PE.get s' b) = PE.data (PE.get s b)) ->
    (forall b, PE.get s b <> PE.Absent -> PE.get s' b <> PE.Absent) ->
    lsim s live seen -> lsim s' live seen.
  Proof.
    intros Hd Ha [H1 [H2 H3]]. split; [|split].
    - intros b. unfold brel. rewrite Hd. apply H1.
    - exact H2.
    - intros b Hb. apply Ha, H3. exact Hb.
  Qed.

  Lemma lsim_hibernate s live seen bs : lsim s live seen -> lsim (fold_left PE.hibernate1 bs s) live seen.
  Proof.
    apply lsim_data; intros b; rewrite PEP.get_fold_hibernate; destruct (PEP.memzb b bs); try reflexivity; try tauto;
      destruct (PE.get s b); cbn; try reflexivity; try tauto; discriminate.
  Qed.

  Lemma lsim_boot s live seen bs : lsim s live seen -> lsim (fold_left PE.boot1 bs s) live seen.
  Proof.
    apply lsim_data; intros b; rewrite PEP.get_fold_boot; destruct (PEP.memzb b bs); try reflexivity; try tauto;
      destruct (PE.get s b); cbn; try reflexivity; try tauto; discriminate.
  Qed.

  (* the union computed by the merge of C01 = the concatenation computed by the merge of C02 *)
  Definition sets_of (live : list (Z * pbranch)) (bs : list Z) : list (list bool) :=
    map (fun b => match aget live b with Some pb => pb_set pb | None => [] end) bs.
  Definition union_of (live : list (Z * pbranch)) (bs : list Z) : list bool :=
    fold_left orvec (sets_of live bs) (repeat false n).

  Lemma union_of_spec s live seen bs :
    lsim s live seen -> (forall b, In b bs -> exists x, PE.get s b = PE.Live x) ->
    length (union_of live bs) = n /\
    forall a, (a < n)%nat ->
      (vget (union_of live bs) (Z.of_nat a) = true <-> In a (flat_map (fun k => PE.inc_of (PE.get s k)) bs)).
  Proof.
    intros Hs Hlive. unfold union_of. split; [rewrite fold_orvec_length; apply repeat_length|].
    intros a Ha.
    assert (Hlen : forall v, In v (sets_of live bs) -> length v = n).
    { intros v Hv. unfold sets_of in Hv. apply in_map_iff in Hv. destruct Hv as [b [<- Hb]].
      destruct (Hlive b Hb) as [x Hx]. destruct (lsim_live _ _ _ _ _ Hs Hx) as [pb [-> [HL _]]]. exact HL. }
    rewrite (vget_fold_orvec' n) by (try exact Hlen; apply repeat_length).
    rewrite vget_repeat_false. cbn [orb]. rewrite existsb_exists, in_flat_map. unfold sets_of. split.
    - intros [v [Hv Hg]]. apply in_map_iff in Hv. destruct Hv as [b [<- Hb]]. exists b. split; [exact Hb|].
      destruct (Hlive b Hb) as [x Hx]. destruct (lsim_live _ _ _ _ _ Hs Hx) as [pb [E [_ [_ Hbits]]]].
      rewrite E in Hg. rewrite Hx. cbn [PE.inc_of PE.data]. apply (Hbits a Ha). exact Hg.
    - intros [b [Hb Hin]]. destruct (Hlive b Hb) as [x Hx].
      destruct (lsim_live _ _ _ _ _ Hs Hx) as [pb [E [_ [_ Hbits]]]].
      exists (pb_set pb). split.
      + apply in_map_iff. exists b. split; [rewrite E; reflexivity | exact Hb].
      + rewrite Hx in Hin. cbn [PE.inc_of PE.data] in Hin. apply (Hbits a Ha). exact Hin.
  Qed.

  Lemma lsim_merge s live seen m c :
    lsim s live seen -> PS.kind m = PS.KMerge ->
    (forall b, In b (PS.items m) -> exists x, PE.get s b = PE.Live x /\ PE.last x = Some c) ->
    lsim (PE.step s m)
         (fold_left (fun l b => aset l b (mkPB (union_of live (PS.items m)) (Some (Z.of_nat c)))) (PS.items m) live)
         seen.
  Proof.
    intros Hs K Hl.
    assert (Hlive : forall b, In b (PS.items m) -> exists x, PE.get s b = PE.Live x).
    { intros b Hb. destruct (Hl b Hb) as [x [Hx _]]. exists x. exact Hx. }
    destruct (union_of_spec s live seen (PS.items m) Hs Hlive) as [HL Hbits].
    destruct Hs as [H1 [H2 H3]]. split; [|split].
    - intros b. rewrite (PEP.get_step_merge s m b K).
      rewrite (aget_fold_aset' (fun _ => mkPB (union_of live (PS.items m)) (Some (Z.of_nat c)))).
      change (PEP.memzb b (PS.items m)) with (memz b (PS.items m)).
      destruct (memz b (PS.items m)) eqn:E; [|apply H1].
      apply memz_In in E. destruct (Hl b E) as [x [Hx Hlast]]. rewrite Hx. cbn [PE.upd].
      unfold brel. cbn [PE.data]. split; [|split]; cbn [pb_set pb_last PE.inc PE.last].
      + exact HL.
      + rewrite Hlast. reflexivity.
      + exact Hbits.
    - apply (nodup_fold_aset' (fun _ => mkPB (union_of live (PS.items m)) (Some (Z.of_nat c)))). exact H2.
    - intros b Hb. rewrite (PEP.get_step_merge s m b K). destruct (PEP.memzb b (PS.items m)) eqn:E; [|apply H3; exact Hb].
      apply PEP.memzb_In in E. destruct (Hl b E) as [x [Hx _]]. rewrite Hx. cbn [PE.upd]. discriminate.
  Qed.
End Sim.

Lemma in_map_of_nat c l : In (Z.of_nat c) (map Z.of_nat l) <-> In c l.
Proof.
  rewrite in_map_iff. split.
  - intros [x [E Hx]]. apply Nat2Z.inj in E. subst. exact Hx.
  - intros H. exists c. split; [reflexivity | exact H].
Qed.

Lemma nodup_map_of_nat l : NoDup l -> NoDup (map Z.of_nat l).
Proof.
  induction 1 as [|x l Hn Hnd IH]; cbn [map]; constructor; [|exact IH].
  rewrite in_map_of_nat. exact Hn.
Qed.

Lemma memz_done c done : ~ In c done -> memz (Z.of_nat c) (map Z.of_nat done) = false.
Proof. intros H. apply memz_notin. rewrite in_map_of_nat. exact H. Qed.

Lemma vget_out v i : ~ (0 <= i < Z.of_nat (length v)) -> vget v i = false.
Proof.
  intros H. destruct (vget v i) eqn:E; [|reflexivity]. exfalso. apply H. apply vget_range. exact E.
Qed.

(* the nearest commit action of an accepted remainder is not an already completed commit *)
Lemma Acc_nearest g0 s done p : PCS.Acc g0 s done p ->
  forall z, nearest_commit (tr_plan p) = Some z -> exists c, z = Z.of_nat c /\ ~ In c done.
Proof.
  induction 1 as [s done Hf | s done c b rest Hd Hr Hl _ IH
                 | s done c bs m rest L Hd Hnd Hr Hl K Hp Hlive Hcov _ IH
                 | s done a rest K1 K2 Hs _ IH]; intros z Hz.
  - discriminate Hz.
  - change (tr_plan (PS.commit_on c b :: rest)) with (ACommit (Z.of_nat c) b :: tr_plan rest) in Hz.
    cbn [nearest_commit is_hib] in Hz. injection Hz as <-. exists c. split; [reflexivity | exact Hd].
  - destruct bs as [|b0 bs0]; [cbn in L; lia|].
    change (tr_plan (PP.block c (b0 :: bs0) ++ m :: rest))
      with (ACommit (Z.of_nat c) b0 :: tr_plan (PP.block c bs0 ++ m :: rest)) in Hz.
    cbn [nearest_commit is_hib] in Hz. injection Hz as <-. exists c. split; [reflexivity | exact Hd].
  - change (tr_plan (a :: rest)) with (tr_action a :: tr_plan rest) in Hz.
    destruct a as [k co its]. cbn [PS.kind] in K1, K2.
    destruct k; try (exfalso; apply K1; reflexivity); try (exfalso; apply K2; reflexivity);
      destruct its as [|b its']; cbn [tr_action PS.kind PS.commit PS.items nearest_commit is_hib] in Hz;
      try discriminate Hz; apply IH; exact Hz.
Qed.

(* ---------- the simulation ---------- *)
Section Main.
  Variable h : hist.
  Hypothesis Hok : commits_okb h = true.
  Notation A := (ancs h).
  Notation n := (length (h_parents h)).
  Notation g := (graph_of h).
  Notation T := (topob_graph h Hok).

  Lemma in_range_of_nat c : (c < n)%nat -> in_range (Z.of_nat n) (Z.of_nat c) = true.
  Proof. intros H. unfold in_range. apply andb_true_iff. split; [apply Z.leb_le | apply Z.ltb_lt]; lia. Qed.

  Lemma row_length_of_nat c : (c < n)%nat -> length (znth [] A (Z.of_nat c)) = n.
  Proof. intros H. apply (row_len h Hok). unfold ncommits. lia. Qed.

  Lemma not_in_set s c b x pb : (c < n)%nat ->
    PP.replay_ok g s c b -> PE.get s b = PE.Live x -> pb_ok n x pb ->
    vec_get (pb_set pb) (Z.of_nat c) = false.
  Proof.
    intros Hc Hr Hx [_ [_ Hbits]]. change (vget (pb_set pb) (Z.of_nat c) = false).
    destruct (vget (pb_set pb) (Z.of_nat c)) eqn:E; [|reflexivity]. exfalso.
    apply (Hbits c Hc) in E. destruct (replay_ok_inv g s c b x Hr Hx) as [_ Hm].
    destruct (PE.last x) as [q|].
    - destruct Hm as [Hq Hinc]. apply Hinc in E. pose proof (PGP.Anc_le g T _ _ E).
      pose proof (PGP.topob_spec g T c q Hq). lia.
    - destruct Hm as [Hinc _]. rewrite Hinc in E. destruct E.
  Qed.

  (* one replay (normal mode of C01): set + {c} = row c of the table *)
  Lemma single_vec_eqb s c b x pb : (c < n)%nat ->
    PP.replay_ok g s c b -> PP.lasts_ok g c [PE.last_on s b] -> PE.get s b = PE.Live x -> pb_ok n x pb ->
    vec_eqb (vec_set (pb_set pb) (Z.of_nat c)) (znth [] A (Z.of_nat c)) = true.
  Proof.
    intros Hc Hr Hl Hx [HL [_ Hbits]]. apply vec_eqb_true.
    - rewrite vec_set_length, HL, row_length_of_nat by exact Hc. reflexivity.
    - intros i. destruct (Z_lt_dec i 0) as [Hneg|Hpos]; [rewrite !vget_neg by exact Hneg; reflexivity|].
      destruct (Z_lt_dec i (Z.of_nat n)) as [Hin|Hout].
      + replace i with (Z.of_nat (Z.to_nat i)) by lia.
        assert (Ha : (Z.to_nat i < n)%nat) by lia. set (a := Z.to_nat i) in *.
        rewrite vget_vec_set by lia. rewrite row_vget. apply eq_true_iff_eq.
        rewrite orb_true_iff, Nat.eqb_eq, (Hbits a Ha), (ancb_Anc h Hok c a Hc).
        rewrite (replay_single_anc g T s c b x Hr Hl Hx a). reflexivity.
      + rewrite !vget_out; [reflexivity | |].
        * rewrite row_length_of_nat by exact Hc. lia.
        * rewrite vec_set_length, HL. lia.
  Qed.

  (* one of several replays (merge mode of C01) *)
  Lemma multi_commit_facts s c b x pb : (c < n)%nat -> PS.parents g c <> [] ->
    PP.replay_ok g s c b -> PE.get s b = PE.Live x -> pb_ok n x pb ->
    exists q, pb_last pb = Some (Z.of_nat q) /\ memz (Z.of_nat q) (parents_of h (Z.of_nat c)) = true /\
              vec_leb (pb_set pb) (znth [] A (Z.of_nat c)) = true.
  Proof.
    intros Hc Hne Hr Hx [HL [Hlast Hbits]]. destruct (replay_ok_inv g s c b x Hr Hx) as [_ Hm].
    destruct (PE.last x) as [q|]; [|destruct Hm as [_ Hm]; contradiction].
    destruct Hm as [Hq Hinc]. exists q. split; [exact Hlast|]. split.
    - apply memz_In. apply (in_parents_graph h Hok c q Hc). exact Hq.
    - apply vec_leb_true.
      + rewrite HL, row_length_of_nat by exact Hc. reflexivity.
      + intros i Hi. pose proof (vget_range _ _ Hi) as Hr'. rewrite HL in Hr'.
        replace i with (Z.of_nat (Z.to_nat i)) in * by lia.
        assert (Ha : (Z.to_nat i < n)%nat) by lia. set (a := Z.to_nat i) in *.
        rewrite row_vget. apply (ancb_Anc h Hok c a Hc).
        apply (Hbits a Ha), Hinc in Hi. eapply PG.Anc_step; eassumption.
  Qed.

  Definition before_ok (before : list action) (done : list nat) : Prop :=
    forall z, In z (commit_ids before) -> exists c, z = Z.of_nat c /\ In c done.

  (* the replays of a merge commit: C01 collects them in ps_pend *)
  Lemma block_sim c total tail s0 done :
    (c < n)%nat -> NoDup total -> (2 <= length total)%nat ->
    PS.parents g c <> [] -> (2 <= length (PS.parents g c))%nat -> ~ In c done ->
    (forall bs1 b bs2, total = bs1 ++ b :: bs2 -> PP.replay_ok g (PE.run s0 (PP.block c bs1)) c b) ->
    forall bs2 bs1 before ps,
      total = bs1 ++ bs2 ->
      lsim n (PE.run s0 (PP.block c bs1)) (ps_live ps) (ps_seen ps) ->
      ps_done ps = map Z.of_nat done ->
      ps_pend ps = match bs1 with [] => None | _ :: _ => Some (Z.of_nat c, bs1) end ->
      before <> [] ->
      (bs1 <> [] -> exists bl x r, before = ACommit (Z.of_nat c) bl :: x :: r) ->
      exists before2 ps2,
        prun h A n before (tr_plan (PP.block c bs2) ++ tail) ps = prun h A n before2 tail ps2 /\
        lsim n (PE.run s0 (PP.block c total)) (ps_live ps2) (ps_seen ps2) /\
        ps_done ps2 = map Z.of_nat done /\
        ps_pend ps2 = match total with [] => None | _ :: _ => Some (Z.of_nat c, total) end /\
        before2 <> [] /\
        (forall z, In z (commit_ids before2) -> z = Z.of_nat c \/ In z (commit_ids before)).
  Proof.
    intros Hc Hnd HL Hpne Hp2 Hd Hrep.
    induction bs2 as [|b bs2 IH]; intros bs1 before ps Etot Hs Hdone Hpend Hbne Hbform.
    - rewrite app_nil_r in Etot. subst bs1. exists before, ps.
      split; [reflexivity|]. split; [exact Hs|]. split; [exact Hdone|]. split; [exact Hpend|].
      split; [exact Hbne|]. intros z Hz. right. exact Hz.
    - pose proof (Hrep bs1 b bs2 Etot) as Hr. pose proof Hr as [_ [x [Hx _]]].
      destruct (lsim_live n _ _ _ _ _ Hs Hx) as [pb [Hpb Hpbok]].
      destruct (multi_commit_facts _ c b x pb Hc Hpne Hr Hx Hpbok) as [q [Hlast [Hmem Hleb]]].
      pose proof (not_in_set _ c b x pb Hc Hr Hx Hpbok) as Hnot.
      assert (Hmd : memz (Z.of_nat c) (ps_done ps) = false) by (rewrite Hdone; apply memz_done; exact Hd).
      assert (Hm : is_merge_at before (tr_plan (PP.block c bs2) ++ tail) (Z.of_nat c) = true).
      { destruct bs1 as [|b1 bs1'].
        - destruct bs2 as [|b2 bs2']; [subst total; cbn in HL; lia|].
          change (tr_plan (PP.block c (b2 :: bs2')) ++ tail)
            with (ACommit (Z.of_nat c) b2 :: (tr_plan (PP.block c bs2') ++ tail)).
          apply is_merge_at_after.
        - destruct Hbform as [bl [x0 [r ->]]]; [discriminate|]. apply is_merge_at_before. }
      assert (Hlen2 : (2 <=? Z.of_nat (length (parents_of h (Z.of_nat c)))) = true).
      { apply Z.leb_le. rewrite (parents_graph h c), map_length in Hp2. lia. }
      assert (Hbnot : ~ In b bs1).
      { rewrite Etot in Hnd. apply NoDup_remove_2 in Hnd. intros Hin. apply Hnd. apply in_or_app. left. exact Hin. }
      set (ps1 := mkPS (aset (ps_live ps) b (mkPB (vec_set (pb_set pb) (Z.of_nat c)) (Some (Z.of_nat c))))
                       (ps_seen ps) (ps_done ps) (Some (Z.of_nat c, bs1 ++ [b]))).
      assert (Hstep : pstep h A n before (tr_plan (PP.block c bs2) ++ tail) (ACommit (Z.of_nat c) b) ps = Some ps1).
      { rewrite (pstep_commit_merge h A n before _ (Z.of_nat c) b ps pb (Z.of_nat q) Hpb (in_range_of_nat c Hc)
                   Hnot Hmd Hm Hlast Hmem Hleb Hlen2).
        cbv zeta. rewrite Hpend. destruct bs1 as [|b1 bs1']; [reflexivity|].
        rewrite Z.eqb_refl. rewrite (proj2 (memz_notin b (b1 :: bs1')) Hbnot). reflexivity. }
      change (tr_plan (PP.block c (b :: bs2)) ++ tail)
        with (ACommit (Z.of_nat c) b :: (tr_plan (PP.block c bs2) ++ tail)).
      cbn [prun]. rewrite Hstep.
      destruct (IH (bs1 ++ [b]) (ACommit (Z.of_nat c) b :: before) ps1) as [before2 [ps2 [E [Hs2 [Hd2 [Hp2' [Hb2 Hc2]]]]]]].
      + rewrite <- app_assoc. exact Etot.
      + rewrite PCL.block_app, PEP.run_app.
        change (PE.run (PE.run s0 (PP.block c bs1)) (PP.block c [b]))
          with (PE.step (PE.run s0 (PP.block c bs1)) (PS.commit_on c b)).
        apply lsim_commit with (x := x); assumption.
      + exact Hdone.
      + cbn [ps_pend ps1]. destruct bs1; reflexivity.
      + discriminate.
      + intros _. destruct before as [|x0 r]; [contradiction|]. exists b, x0, r. reflexivity.
      + exists before2, ps2. split; [exact E|]. split; [exact Hs2|]. split; [exact Hd2|]. split; [exact Hp2'|].
        split; [exact Hb2|]. intros z Hz. apply Hc2 in Hz. destruct Hz as [Hz|Hz]; [left; exact Hz|].
        change (commit_ids (ACommit (Z.of_nat c) b :: before)) with (Z.of_nat c :: commit_ids before) in Hz.
        destruct Hz as [Hz|Hz]; [left; symmetry; exact Hz | right; exact Hz].
  Qed.
  Definition result_ok (done : list nat) (p : list PS.action) (r : option pstate) : Prop :=
    exists ps' done', r = Some ps' /\ ps_pend ps' = None /\ ps_done ps' = map Z.of_nat done' /\ NoDup done' /\
      (forall c, In c done' -> (c < n)%nat) /\ (forall c, In c done \/ In c (PS.analysed p) -> In c done').

  Lemma result_ok_mono done1 p1 done2 p2 r :
    (forall c, In c done1 \/ In c (PS.analysed p1) -> In c done2 \/ In c (PS.analysed p2)) ->
    result_ok done2 p2 r -> result_ok done1 p1 r.
  Proof.
    intros H [ps' [done' [E [H1 [H2 [H3 [H4 H5]]]]]]]. exists ps', done'.
    split; [exact E|]. split; [exact H1|]. split; [exact H2|]. split; [exact H3|]. split; [exact H4|].
    intros c Hc. apply H5, H. exact Hc.
  Qed.

  Lemma before_ok_other a before done : PS.kind a <> PS.KCommit ->
    before_ok before done -> before_ok (tr_action a :: before) done.
  Proof.
    intros K Hb z Hz. apply Hb.
    change (commit_ids (tr_action a :: before))
      with ((match tr_action a with ACommit c _ => [c] | _ => [] end) ++ commit_ids before) in Hz.
    apply in_app_or in Hz. destruct Hz as [Hz|Hz]; [|exact Hz]. exfalso.
    destruct a as [k co its]. cbn [PS.kind] in K.
    destruct k; try (apply K; reflexivity); destruct its as [|b its']; destruct Hz.
  Qed.

  Lemma Acc_sim : forall s done p, PCS.Acc g s done p ->
    forall before ps,
      lsim n s (ps_live ps) (ps_seen ps) -> ps_done ps = map Z.of_nat done -> ps_pend ps = None ->
      (before = [] -> forall b, PE.get s b = PE.Absent) -> before_ok before done ->
      NoDup done -> (forall c, In c done -> (c < n)%nat) ->
      result_ok done p (prun h A n before (tr_plan p) ps).
  Proof.
    intros s done p HAcc.
    induction HAcc as [s done Hf | s done c b rest Hd Hr Hl HA IH
                      | s done c bs m rest L Hd Hnd Hr Hl K Hp Hlive Hcov HA IH
                      | s done a rest K1 K2 Hs HA IH];
      intros before ps Hsim Hdone Hpend Hb0 Hbok Hdnd Hdlt.
    - (* end of the plan *)
      exists ps, done. split; [reflexivity|]. split; [exact Hpend|]. split; [exact Hdone|].
      split; [exact Hdnd|]. split; [exact Hdlt|]. intros c [Hc|[]]. exact Hc.
    - (* one replay of c: normal mode *)
      pose proof Hr as [Hc [x [Hx _]]]. rewrite (graph_length h) in Hc.
      destruct (lsim_live n _ _ _ _ _ Hsim Hx) as [pb [Hpb Hpbok]].
      pose proof (not_in_set _ c b x pb Hc Hr Hx Hpbok) as Hnot.
      assert (Hmd : memz (Z.of_nat c) (ps_done ps) = false) by (rewrite Hdone; apply memz_done; exact Hd).
      assert (Him : is_merge_at before (tr_plan rest) (Z.of_nat c) = false).
      { apply is_merge_at_false.
        - intros z Hz. destruct (Hbok z Hz) as [c' [-> Hc']]. intros E. apply Nat2Z.inj in E. subst c'. contradiction.
        - intros z Hz. destruct (Acc_nearest _ _ _ _ HA z Hz) as [c' [-> Hc']]. intros E. apply Nat2Z.inj in E.
          subst c'. apply Hc'. left. reflexivity. }
      pose proof (single_vec_eqb _ c b x pb Hc Hr Hl Hx Hpbok) as Heq.
      change (tr_plan (PS.commit_on c b :: rest)) with (ACommit (Z.of_nat c) b :: tr_plan rest).
      cbn [prun].
      rewrite (pstep_commit_normal h A n before (tr_plan rest) (Z.of_nat c) b ps pb Hpb (in_range_of_nat c Hc)
                 Hnot Hmd Him Hpend Heq).
      eapply result_ok_mono; [|apply IH].
      + intros c0 [H0|H0]; [left; right; exact H0|].
        change (PS.analysed (PS.commit_on c b :: rest)) with (c :: PS.analysed rest) in H0.
        destruct H0 as [<-|H0]; [left; left; reflexivity | right; exact H0].
      + cbn [ps_live ps_seen]. apply lsim_commit with (x := x); assumption.
      + cbn [ps_done]. rewrite Hdone. reflexivity.
      + reflexivity.
      + discriminate.
      + intros z Hz.
        change (commit_ids (ACommit (Z.of_nat c) b :: before)) with (Z.of_nat c :: commit_ids before) in Hz.
        destruct Hz as [<-|Hz]; [exists c; split; [reflexivity | left; reflexivity]|].
        destruct (Hbok z Hz) as [c' [-> Hc']]. exists c'. split; [reflexivity | right; exact Hc'].
      + constructor; assumption.
      + intros c0 [<-|H0]; [exact Hc | apply Hdlt; exact H0].
    - (* several replays of c, then the merge *)
      destruct bs as [|b0 bs0] eqn:Ebs; [cbn in L; lia|]. rewrite <- Ebs in *.
      assert (Hr0 : PP.replay_ok g s c b0).
      { apply (Hr [] b0 bs0). rewrite Ebs. reflexivity. }
      pose proof Hr0 as [Hc [x0 [Hx0 _]]]. rewrite (graph_length h) in Hc.
      assert (Hbne : before <> []).
      { intros E. rewrite (Hb0 E b0) in Hx0. discriminate. }
      assert (HL' : (2 <= length (map (PE.last_on s) bs))%nat) by (rewrite map_length; exact L).
      destruct (lasts_multi g c _ Hl HL') as [Hpne Hp2].
      unfold tr_plan. rewrite map_app. fold (tr_plan (PP.block c bs)). cbn [map]. fold (tr_plan rest).
      destruct (block_sim c bs (tr_action m :: tr_plan rest) s done Hc Hnd L Hpne Hp2 Hd Hr bs [] before ps)
        as [before2 [ps2 [E [Hs2 [Hd2 [Hp2' [Hb2 Hc2]]]]]]].
      + reflexivity.
      + exact Hsim.
      + exact Hdone.
      + exact Hpend.
      + exact Hbne.
      + intros Hf. exfalso. apply Hf. reflexivity.
      + rewrite E. rewrite Ebs in Hp2'. rewrite <- Ebs in Hp2'.
        assert (Etr : tr_action m = AMerge (PS.items m)).
        { destruct m as [k co its]. cbn [PS.kind] in K. subst k. reflexivity. }
        rewrite Etr. cbn [prun].
        assert (Hlive' : forall b, In b (PS.items m) -> exists x, PE.get (PE.run s (PP.block c bs)) b = PE.Live x).
        { intros b Hb. destruct (Hlive b Hb) as [x [Hx _]]. exists x. exact Hx. }
        destruct (union_of_spec n _ _ _ (PS.items m) Hs2 Hlive') as [HUL HUbits].
        assert (Hmnd : NoDup (PS.items m)).
        { eapply Permutation_NoDup; [apply Permutation_sym; exact Hp | exact Hnd]. }
        assert (Heq : vec_eqb (union_of n (ps_live ps2) (PS.items m)) (znth [] A (Z.of_nat c)) = true).
        { apply vec_eqb_true.
          - rewrite HUL, row_length_of_nat by exact Hc. reflexivity.
          - intros i. destruct (Z_lt_dec i 0) as [Hneg|Hpos]; [rewrite !vget_neg by exact Hneg; reflexivity|].
            destruct (Z_lt_dec i (Z.of_nat n)) as [Hin|Hout].
            + replace i with (Z.of_nat (Z.to_nat i)) by lia.
              assert (Ha : (Z.to_nat i < n)%nat) by lia. set (a := Z.to_nat i) in *.
              rewrite row_vget. apply eq_true_iff_eq.
              rewrite (HUbits a Ha), (ancb_Anc h Hok c a Hc). apply Hcov.
            + rewrite !vget_out; [reflexivity | |].
              * rewrite row_length_of_nat by exact Hc. lia.
              * rewrite HUL. lia. }
        rewrite (pstep_merge h A n before2 (tr_plan rest) (PS.items m) ps2 (Z.of_nat c) bs).
        * eapply result_ok_mono; [|apply IH].
          -- intros c0 [H0|H0]; [left; right; exact H0|].
             change (m :: rest) with ([m] ++ rest) in H0.
             rewrite !PEP.analysed_app, !in_app_iff, (PCL.analysed_noncommit m) in H0 by (rewrite K; discriminate).
             destruct H0 as [H0|[[]|H0]]; [|right; exact H0].
             apply PCL.analysed_block in H0. left. left. symmetry. exact H0.
          -- cbn [ps_live ps_seen]. apply (lsim_merge n _ _ _ m c Hs2 K Hlive).
          -- cbn [ps_done]. rewrite Hd2. reflexivity.
          -- reflexivity.
          -- discriminate.
          -- intros z Hz.
             change (commit_ids (AMerge (PS.items m) :: before2)) with (commit_ids before2) in Hz.
             apply Hc2 in Hz. destruct Hz as [->|Hz]; [exists c; split; [reflexivity | left; reflexivity]|].
             destruct (Hbok z Hz) as [c' [-> Hc']]. exists c'. split; [reflexivity | right; exact Hc'].
          -- constructor; assumption.
          -- intros c0 [<-|H0]; [exact Hc | apply Hdlt; exact H0].
        * rewrite Hp2'. rewrite Ebs. reflexivity.
        * apply nodup_zb_true. exact Hmnd.
        * unfold subset_z. apply forallb_forall. intros y Hy. apply memz_In.
          eapply Permutation_in; [exact Hp | exact Hy].
        * unfold subset_z. apply forallb_forall. intros y Hy. apply memz_In.
          eapply Permutation_in; [apply Permutation_sym; exact Hp | exact Hy].
        * apply Z.leb_le. rewrite (Permutation_length Hp). lia.
        * exact Heq.
    - (* emerge / fork / delete / hibernate / boot *)
      destruct Hs as [W [Hind [Hu [Hcr Hbo]]]].
      change (tr_plan (a :: rest)) with (tr_action a :: tr_plan rest). cbn [prun].
      pose proof (before_ok_other a before done K1 Hbok) as Hbok'.
      destruct a as [k co its]. unfold PS.wf_action in W.
      unfold PL.uses in Hu. unfold PL.creates in Hcr. unfold PL.boots in Hbo.
      cbn [PS.kind PS.items] in K1, K2, W, Hind, Hu, Hcr, Hbo.
      destruct k; try (exfalso; apply K1; reflexivity); try (exfalso; apply K2; reflexivity).
      + (* fork *)
        destruct W as [b [t [ts ->]]].
        change (tr_action (PS.mkA PS.KFork co (b :: t :: ts))) with (AFork b (t :: ts)).
        destruct (Hu b (or_introl eq_refl)) as [x Hx].
        destruct (lsim_live n _ _ _ _ _ Hsim Hx) as [pb [Hpb Hpbok]].
        rewrite (pstep_fork h A n before (tr_plan rest) b (t :: ts) ps pb Hpend Hpb).
        * eapply result_ok_mono; [|apply IH].
          -- intros c0 [H0|H0]; [left; exact H0 | right; exact H0].
          -- cbn [ps_live ps_seen].
             change (PE.step s (PS.mkA PS.KFork co (b :: t :: ts)))
               with (fold_left (fun s' t0 => PE.set s' t0 (PE.get s b)) (t :: ts) s).
             apply lsim_fork with (x := x); assumption.
          -- exact Hdone.
          -- reflexivity.
          -- discriminate.
          -- exact Hbok'.
          -- exact Hdnd.
          -- exact Hdlt.
        * apply forallb_forall. intros b' Hb'. apply negb_true_iff.
          apply (lsim_absent n _ _ _ _ Hsim). apply Hcr. exact Hb'.
        * apply nodup_zb_true. inversion Hind; assumption.
      + (* emerge *)
        destruct W as [b ->].
        change (tr_action (PS.mkA PS.KEmerge co [b])) with (AEmerge b).
        pose proof (Hcr b (or_introl eq_refl)) as Habs.
        rewrite (pstep_emerge h A n before (tr_plan rest) b ps Hpend (lsim_absent n _ _ _ _ Hsim Habs)).
        eapply result_ok_mono; [|apply IH].
        * intros c0 [H0|H0]; [left; exact H0 | right; exact H0].
        * cbn [ps_live ps_seen].
          change (PE.step s (PS.mkA PS.KEmerge co [b])) with (PE.set s b (PE.Live (PE.mkB [] None))).
          apply lsim_emerge. exact Hsim.
        * exact Hdone.
        * reflexivity.
        * discriminate.
        * exact Hbok'.
        * exact Hdnd.
        * exact Hdlt.
      + (* delete *)
        destruct W as [b ->].
        change (tr_action (PS.mkA PS.KDelete co [b])) with (ADelete b).
        destruct (Hu b (or_introl eq_refl)) as [x Hx].
        destruct (lsim_live n _ _ _ _ _ Hsim Hx) as [pb [Hpb Hpbok]].
        rewrite (pstep_delete h A n before (tr_plan rest) b ps pb Hpend Hpb).
        eapply result_ok_mono; [|apply IH].
        * intros c0 [H0|H0]; [left; exact H0 | right; exact H0].
        * cbn [ps_live ps_seen].
          change (PE.step s (PS.mkA PS.KDelete co [b])) with (PE.set s b PE.Disposed).
          apply lsim_delete. exact Hsim.
        * exact Hdone.
        * reflexivity.
        * discriminate.
        * exact Hbok'.
        * exact Hdnd.
        * exact Hdlt.
      + (* hibernate: ignored by C01 *)
        change (tr_action (PS.mkA PS.KHibernate co its)) with (AHibernate its). cbn [pstep].
        eapply result_ok_mono; [|apply IH].
        * intros c0 [H0|H0]; [left; exact H0 | right; exact H0].
        * change (PE.step s (PS.mkA PS.KHibernate co its)) with (fold_left PE.hibernate1 its s).
          apply lsim_hibernate. exact Hsim.
        * exact Hdone.
        * exact Hpend.
        * discriminate.
        * exact Hbok'.
        * exact Hdnd.
        * exact Hdlt.
      + (* boot: ignored by C01 *)
        change (tr_action (PS.mkA PS.KBoot co its)) with (ABoot its). cbn [pstep].
        eapply result_ok_mono; [|apply IH].
        * intros c0 [H0|H0]; [left; exact H0 | right; exact H0].
        * change (PE.step s (PS.mkA PS.KBoot co its)) with (fold_left PE.boot1 its s).
          apply lsim_boot. exact Hsim.
        * exact Hdone.
        * exact Hpend.
        * discriminate.
        * exact Hbok'.
        * exact Hdnd.
        * exact Hdlt.
  Qed.
End Main.

(* ---------- the theorems ---------- *)

Lemma covered_length n done : NoDup done -> (forall c, In c done -> (c < n)%nat) ->
  (forall c, (c < n)%nat -> In c done) -> length done = n.
Proof.
  intros Hnd Hlt Hall. apply Nat.le_antisymm.
  - rewrite <- (seq_length n 0). apply NoDup_incl_length; [exact Hnd|].
    intros c Hc. apply in_seq. specialize (Hlt c Hc). lia.
  - rewrite <- (seq_length n 0) at 1. apply NoDup_incl_length; [apply seq_NoDup|].
    intros c Hc. apply in_seq in Hc. apply Hall. lia.
Qed.

(* A plan accepted by the validator of C02 over the graph of h, and analysing every commit of h, is accepted
   by the validator of C01 (after translation).  The coverage hypothesis is needed: C02 only asks for the largest
   connected component of the graph, C01 for every commit (see [coverage_needed] below). *)
Theorem plan_ok_implies_plan_okb : forall h p,
  commits_okb h = true ->
  PC.plan_ok (graph_of h) p = true ->
  (forall c, (c < length (h_parents h))%nat -> In c (PS.analysed p)) ->
  plan_okb h (tr_plan p) = true.
Proof.
  intros h p Hok Hp Hcov. destruct (PCS.plan_ok_Acc _ _ Hp) as [_ HA].
  destruct (Acc_sim h Hok _ _ _ HA [] pstate0) as [ps' [done' [E [Hpend [Hdone [Hnd [Hlt Hall]]]]]]].
  - split; [|split].
    + intros b. exact I.
    + constructor.
    + intros b [].
  - reflexivity.
  - reflexivity.
  - intros _ b. reflexivity.
  - intros z [].
  - constructor.
  - intros c [].
  - unfold plan_okb. rewrite E, Hpend, Hdone. rewrite map_length.
    rewrite (covered_length (length (h_parents h)) done' Hnd Hlt).
    + rewrite Z.eqb_refl. cbn [andb]. apply nodup_zb_true. apply nodup_map_of_nat. exact Hnd.
    + intros c Hc. apply Hall. right. apply Hcov. exact Hc.
Qed.

(* the coverage hypothesis follows when the commit graph is connected ... *)
Corollary plan_ok_implies_plan_okb_connected : forall h p,
  commits_okb h = true ->
  PC.plan_ok (graph_of h) p = true ->
  (forall a c, (a < length (h_parents h))%nat -> (c < length (h_parents h))%nat -> PG.conn (graph_of h) a c) ->
  plan_okb h (tr_plan p) = true.
Proof.
  intros h p Hok Hp Hconn. apply plan_ok_implies_plan_okb; [exact Hok | exact Hp |].
  intros c Hc. destruct (PCS.checker_sound _ _ Hp) as [_ R _ _ _].
  destruct R as [[c0 Hc0] [Hlt [Hcomp _]]].
  apply (Hcomp c0 c Hc0). apply Hconn; [|exact Hc].
  rewrite <- (graph_length h). apply Hlt. exact Hc0.
Qed.

Lemma Anc_conn g a c : PG.Anc g a c -> PG.conn g a c.
Proof.
  induction 1 as [c|a q c Hq Ha IH]; [apply PG.conn_refl|].
  eapply PG.conn_step; [exact IH|]. left. exact Hq.
Qed.

(* ... in particular when the history has a single head in the sense of C01 *)
Corollary plan_ok_implies_plan_okb_single_head : forall h p,
  commits_okb h = true ->
  Lifetimes.single_head h = true ->
  PC.plan_ok (graph_of h) p = true ->
  plan_okb h (tr_plan p) = true.
Proof.
  intros h p Hok Hsh Hp. apply plan_ok_implies_plan_okb_connected; [exact Hok | exact Hp |].
  assert (Hn : 1 <= ncommits h).
  { unfold commits_okb in Hok. repeat (apply andb_prop in Hok; destruct Hok as [Hok ?]). lia. }
  assert (Hhead : forall a, (a < length (h_parents h))%nat ->
                            PG.conn (graph_of h) a (length (h_parents h) - 1)).
  { intros a Ha. apply Anc_conn. apply (ancb_Anc h Hok); [unfold ncommits in Hn; lia|].
    unfold Lifetimes.single_head in Hsh. rewrite forallb_forall in Hsh.
    replace (Z.of_nat (length (h_parents h) - 1)) with (ncommits h - 1) by (unfold ncommits in *; lia).
    apply Hsh. apply zrange_in. unfold ncommits. lia. }
  intros a c Ha Hc. eapply PGP.conn_trans; [apply Hhead; exact Ha | apply PGP.conn_sym, Hhead; exact Hc].
Qed.

(* The coverage hypothesis cannot be dropped: two unrelated roots, the planner (leaveRootComponent) keeps one
   component; C02 accepts the plan, C01 rejects it because commit 1 is never accounted. *)
Definition two_roots : hist := mkHist [[]; []] [0; 0] [0; 0] [].
Definition two_roots_plan : list PS.action := [PS.emerge 1 (Some 0%nat); PS.commit_on 0 1].
Example coverage_needed :
  commits_okb two_roots = true /\
  PC.plan_ok (graph_of two_roots) two_roots_plan = true /\
  plan_okb two_roots (tr_plan two_roots_plan) = false.
Proof. vm_compute. auto. Qed.

(* non-vacuity of the theorem: its three hypotheses hold of the diamond, and so does the conclusion *)
Example plan_ok_implies_plan_okb_nonvacuous :
  commits_okb diamond_hist = true /\
  PC.plan_ok (graph_of diamond_hist) diamond_plan02 = true /\
  (forall c, (c < length (h_parents diamond_hist))%nat -> In c (PS.analysed diamond_plan02)) /\
  plan_okb diamond_hist (tr_plan diamond_plan02) = true.
Proof.
  split; [exact diamond_commits_ok|]. split; [exact diamond_plan_ok|]. split; [|exact diamond_plan_okb].
  intros c Hc. apply PGP.memn_In.
  pose proof diamond_covered as H. rewrite forallb_forall in H. apply H. apply in_seq. lia.
Qed.

Example single_head_corollary_nonvacuous :
  Lifetimes.single_head diamond_hist = true /\
  plan_okb diamond_hist (tr_plan diamond_plan02) = true.
Proof.
  split; [vm_compute; reflexivity|].
  apply plan_ok_implies_plan_okb_single_head; [exact diamond_commits_ok | vm_compute; reflexivity | exact diamond_plan_ok].
Qed.

Print Assumptions plan_ok_implies_plan_okb.
Print Assumptions plan_ok_implies_plan_okb_connected.
Print Assumptions plan_ok_implies_plan_okb_single_head.
Print Assumptions ancb_Anc.
