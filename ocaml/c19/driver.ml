(* C19: replay the harness trace through the extracted Gallina model of ticks.go *)
open C19_model
open Conv

(* MISMATCH lines are printed after all PROPFAIL lines: lib/check.py attaches case lines to the first
   2000 findings only, and a property failure must keep its case *)
let deferred : (int * string) list ref = ref []
let mismatch (id : int) (what : string) = incr n_mismatch; deferred := (id, what) :: !deferred

(* decimal strings <-> extracted Z, beyond the range of OCaml's int (nanoseconds since year 1,
   ticks up to 2^63-1) *)
let z_of_string (s : string) : z =
  let neg = String.length s > 0 && s.[0] = '-' in
  let digits = if neg then String.sub s 1 (String.length s - 1) else s in
  if digits = "" then failwith ("number expected: " ^ s);
  String.iter (fun ch -> if ch < '0' || ch > '9' then failwith ("number expected: " ^ s)) digits;
  let n = String.length digits in
  let first = if n mod 9 = 0 then 9 else n mod 9 in
  let acc = ref (z_of_int (int_of_string (String.sub digits 0 first))) in
  let pos = ref first in
  while !pos < n do
    acc := z_pack !acc (z_of_int (int_of_string (String.sub digits !pos 9)));
    pos := !pos + 9
  done;
  if neg then Z.opp !acc else !acc

let rec string_of_z (z : z) : string =
  match z with
  | Zneg _ -> "-" ^ string_of_z (Z.opp z)
  | _ ->
    let (q, r) = z_unpack z in
    (match q with
     | Z0 -> string_of_int (int_of_z r)
     | _ -> string_of_z q ^ Printf.sprintf "%09d" (int_of_z r))

let zs s = z_of_string (atom s)
let show_zs l = "[" ^ String.concat ";" (List.map string_of_z l) ^ "]"

let cfg_of_sx (s : sx) : config =
  let a = List.hd (args s) in
  match tag a with
  | "hours" -> CHours (zs (List.hd (args a)))
  | "default" -> CDefault
  | "direct" -> CDirect (zs (List.hd (args a)))
  | t -> failwith ("unknown cfg " ^ t)

let nat_arg (s : sx) : nat =
  let i = int_of_sx s in if i < 0 then failwith "negative branch or count" else nat_of_int i

let op_of_sx (s : sx) : op =
  let a i = List.nth (args s) i in
  match tag s with
  | "c" ->
      OConsume (nat_arg (a 0), zs (a 1),
                { c_hash = zs (a 2); c_when = time_of_unix (zs (a 3)) (zs (a 4)); c_parents = nat_arg (a 5) })
  | "fork" -> OFork (nat_arg (a 0), nat_arg (a 1))
  | "merge" -> OMerge (List.map nat_arg (list_of_sx (a 0)))
  | "floor" -> OFloor (time_of_unix (zs (a 0)) (zs (a 1)), zs (a 2))
  | t -> failwith ("unknown op " ^ t)

let reg_of_sx (s : sx) : (z * z list) list =
  List.map (fun e -> match e with
    | L [k; l] -> (zs k, List.map zs (list_of_sx l))
    | _ -> failwith "registry entry") (args s)

let show_reg r =
  String.concat " " (List.map (fun (k, l) -> string_of_z k ^ ":" ^ show_zs l) r)

let sort_reg r = List.sort (fun (a, _) (b, _) -> match Z.compare a b with Lt -> -1 | Eq -> 0 | Gt -> 1) r

let zeq a b = Z.eqb a b

let () =
  iter_cases (fun id c ->
    let cfg = cfg_of_sx (field "cfg" c) in
    let sops = args (field "ops" c) in
    let ops = List.map op_of_sx sops in
    let obs = args (field "obs" c) in
    let nops = List.length ops in
    if List.length obs <> nops + 1 then failwith "ops/obs length";
    let s0 = init_sys cfg in
    let d = (List.hd s0.brs).tick_size in
    (* ---------------- fine correspondence: model state after every step *)
    let st = ref s0 in
    let impl_outs = ref [] in       (* the implementation's outputs in the model's vocabulary *)
    let usable = ref true in        (* false when an observation cannot be turned into an output *)
    List.iteri (fun i (o, ob) ->
      let here = Printf.sprintf "op#%d %s" i (string_of_sx (List.nth sops i)) in
      let (st', r) = step !st o in
      let prevs_model = List.map (fun b -> b.previous_tick) st'.brs in
      let check_prevs p =
        let got = List.map zs (args p) in
        if List.length got <> List.length prevs_model || not (List.for_all2 zeq got prevs_model) then
          mismatch id (here ^ " previousTick of the branches: impl=" ^ show_zs got ^ " model=" ^ show_zs prevs_model) in
      (match r, tag ob with
       | RBad, "bad" -> impl_outs := RBad :: !impl_outs
       | RTick k, "tick" ->
           let a = args ob in
           let gk = zs (List.nth a 0) in
           impl_outs := RTick gk :: !impl_outs;
           if not (zeq gk k) then mismatch id (here ^ " tick impl=" ^ string_of_z gk ^ " model=" ^ string_of_z k);
           check_prevs (List.nth a 1);
           let t0 = (match args (List.nth a 2) with [s; n] -> time_of_unix (zs s) (zs n) | _ -> failwith "t0") in
           if not (zeq t0 st'.sh.tick0) then
             mismatch id (here ^ " tick0 impl=" ^ string_of_z t0 ^ " model=" ^ string_of_z st'.sh.tick0);
           let under = List.map zs (list_of_sx (List.hd (args (List.nth a 3)))) in
           let munder = (let rec get = function [] -> [] | (k', l) :: r -> if zeq k' gk then l else get r in get st'.sh.commits) in
           if List.length under <> List.length munder || not (List.for_all2 zeq under munder) then
             mismatch id (here ^ " commits[tick] impl=" ^ show_zs under ^ " model=" ^ show_zs munder);
           if int_of_sx (List.nth a 4) <> 1 then mismatch id (here ^ " Consume returned more than the tick")
       | RFork f, "fork" ->
           impl_outs := RFork f :: !impl_outs;
           if int_of_nat f <> int_of_sx (List.nth (args ob) 0) then mismatch id (here ^ " first clone");
           check_prevs (List.nth (args ob) 1)
       | RUnit, "u" -> impl_outs := RUnit :: !impl_outs; check_prevs (List.hd (args ob))
       | RTime t, "time" ->
           impl_outs := RTime t :: !impl_outs;
           let a = args ob in
           let gt = time_of_unix (zs (List.nth a 0)) (zs (List.nth a 1)) in
           count "floors";
           (match o with
            | OFloor (t_in, dd) when (match dd with Zpos _ -> true | _ -> false) ->
                (* property: the greatest multiple of d (from the zero time) not after t *)
                if not (floor_ok t_in dd gt) then
                  propfail id (here ^ " FloorTime result " ^ string_of_z gt ^ " is not the greatest multiple of d not after t=" ^ string_of_z t_in)
                else if not (zeq gt t) then mismatch id (here ^ " FloorTime impl=" ^ string_of_z gt ^ " model=" ^ string_of_z t)
            | _ -> if not (zeq gt t) then mismatch id (here ^ " FloorTime (d<=0) impl=" ^ string_of_z gt ^ " model=" ^ string_of_z t))
       | _, ("panic" | "error") ->
           usable := false; impl_outs := RBad :: !impl_outs;
           propfail id (here ^ " the implementation failed: " ^ string_of_sx ob)
       | _ -> usable := false; impl_outs := RBad :: !impl_outs; mismatch id (here ^ " observation shape " ^ string_of_sx ob));
      st := st') (List.combine ops (List.filteri (fun i _ -> i < nops) obs));
    let fin = List.nth obs nops in
    let greg = (match args fin with
      | [dsx; pub; same; reg] ->
          if not (zeq (zs dsx) d) then mismatch id ("TickSize impl=" ^ atom dsx ^ " model=" ^ string_of_z d);
          (* the published fact is what Configure computed (before Initialize replaces a zero size) *)
          let mpub = (match cfg with CDirect _ -> configure CDefault | _ -> configure cfg) in
          if not (zeq (zs pub) mpub) then mismatch id ("published tick size impl=" ^ atom pub ^ " model=" ^ string_of_z mpub);
          if not (bool_of_sx same) then
            propfail id "the branches (or the published fact) do not share one commits registry / tick size";
          reg_of_sx reg
      | _ -> failwith "end observation") in
    let mreg = sort_reg !st.sh.commits in
    if List.length greg <> List.length mreg
       || not (List.for_all2 (fun (k, l) (k', l') -> zeq k k' && List.length l = List.length l' && List.for_all2 zeq l l') greg mreg) then
      mismatch id ("final registry impl=" ^ show_reg greg ^ " model=" ^ show_reg mreg);
    (* ---------------- property oracles on the implementation's outputs *)
    if !usable then begin
      let outs = List.rev !impl_outs in
      let lins = lineages ops outs [[]] in
      let evs = consumed ops outs in
      (* monotone along every branch history: all inputs *)
      List.iteri (fun b l ->
        if not (nondecreasing Z0 (ticks l)) then
          propfail id (Printf.sprintf "ticks decrease along the history of branch %d: %s" b (show_zs (ticks l)))) lins;
      (* every consumed commit is listed under its tick: all inputs *)
      List.iter (fun e ->
        if not (listed greg e) then
          propfail id ("commit " ^ string_of_z (fst e).c_hash ^ " got tick " ^ string_of_z (snd e) ^ " but is not listed under it: " ^ show_reg greg)) evs;
      let positive = (match d with Zpos _ -> true | _ -> false) in
      match shape ops outs with
      | Some c0 when positive && evs <> [] ->
          count "in_domain";
          let t0 = spec_t0 c0.c_when d in
          (* tick = max prev (whole periods elapsed since t0), with unbounded integers, along every
             history.  Where Time.Sub saturates (more than 2^63-1 ns between t0 and the commit) a
             difference is the known finding F17; it is expected only in the -sat streams. *)
          let kind = atom (List.hd (args (field "kind" c))) in
          let sat_stream = String.length kind >= 4 && String.sub kind (String.length kind - 4) 4 = "-sat" in
          List.iteri (fun b l ->
            let prev = ref Z0 in
            List.iter2 (fun e (ok, inr) ->
              if not ok then begin
                let t = (fst e).c_when in
                let expected = spec_tick t0 d !prev t in
                if inr then
                  propfail id (Printf.sprintf "tick formula violated on branch %d: commit %s at t=%s got tick %s, expected max(prev=%s, floor((t - t0)/d)) = %s (t0=%s d=%s)"
                                 b (string_of_z (fst e).c_hash) (string_of_z t) (string_of_z (snd e)) (string_of_z !prev)
                                 (string_of_z expected) (string_of_z t0) (string_of_z d))
                else
                  propfail id (Printf.sprintf "[duration-saturation]%s tick %s given on branch %d to commit %s but %s periods have elapsed since the start of tick 0 (t - t0 = %s ns is beyond the +-2^63 ns of time.Duration; t0=%s d=%s prev=%s)"
                                 (if sat_stream then "" else "[outside-sat-stream]")
                                 (string_of_z (snd e)) b (string_of_z (fst e).c_hash) (string_of_z expected)
                                 (string_of_z (Z.sub t t0)) (string_of_z t0) (string_of_z d) (string_of_z !prev))
              end;
              prev := snd e) l (chain_verdicts t0 d Z0 l)) lins;
          if List.exists (fun e -> not (in_range t0 (fst e).c_when)) evs then count "saturated";
          if List.exists (fun e -> Z.ltb (fst e).c_when t0) evs then count "before_start";
          (* monotone committer times: no raising, the tick depends on the commit alone, listed exactly once *)
          if List.for_all (mono_times c0.c_when) lins && replays_ok evs then begin
            count "monotone_times";
            List.iteri (fun b l ->
              if not (alone t0 d l) then
                propfail id (Printf.sprintf "committer times are monotone but a tick was raised on branch %d: times=%s ticks=%s" b
                               (show_zs (times l)) (show_zs (ticks l)))) lins;
            List.iter (fun e ->
              if int_of_nat (reg_count greg (fst e).c_hash) <> 1 then
                propfail id ("committer times are monotone but commit " ^ string_of_z (fst e).c_hash ^ " is listed "
                             ^ string_of_int (int_of_nat (reg_count greg (fst e).c_hash)) ^ " times: " ^ show_reg greg)) evs
          end else if List.exists (fun e -> int_of_nat (reg_count greg (fst e).c_hash) > 1) evs then count "listed_more_than_once"
      | _ -> count "outside_domain"
    end);
  List.iter (fun (id, what) -> Printf.printf "MISMATCH %d %s\n" id what) (List.rev !deferred)
