(* Proofs about the model of GeneratePeopleDict / Consume (Identity.v). *)
From Coq Require Import List ZArith Lia Bool Permutation Sorted Arith.
From Herc Require Import Plumbing.IdStr Plumbing.Identity.
Import ListNotations.
Local Open Scope nat_scope.

Section Proofs.
  Variable lower : str -> str.

  Notation names_of devs d := (fst (nth d devs (@nil (list Z), @nil (list Z)))).
  Notation emails_of devs d := (snd (nth d devs (@nil (list Z), @nil (list Z)))).
  Notation ln c := (lower (c_name c)).
  Notation le c := (lower (c_email c)).
  Notation role cs k := (first_role lower cs k).
  Notation used cs k := (key_used lower false cs k).

  (* ---------- first_role / key_used over an appended commit ---------- *)
  Lemma used_snoc cs c k :
    used (cs ++ [c]) k = used cs k || (str_eqb (ln c) k || str_eqb (le c) k).
  Proof. unfold key_used. rewrite existsb_app. simpl. rewrite orb_false_r. reflexivity. Qed.

  Lemma role_unused cs k : used cs k = false -> role cs k = (false, false).
  Proof.
    induction cs as [|c cs IH]; simpl; [reflexivity|].
    intros H. apply orb_false_iff in H. destruct H as [H1 H2]. rewrite H1. apply IH. assumption.
  Qed.

  Lemma role_snoc cs c k :
    role (cs ++ [c]) k = if used cs k then role cs k else (str_eqb (ln c) k, str_eqb (le c) k).
  Proof.
    induction cs as [|c0 cs IH]; simpl.
    - destruct (str_eqb (ln c) k), (str_eqb (le c) k); reflexivity.
    - destruct (str_eqb (ln c0) k || str_eqb (le c0) k); simpl; [reflexivity|]. apply IH.
  Qed.

  Lemma role_used cs k : used cs k = true -> fst (role cs k) = true \/ snd (role cs k) = true.
  Proof.
    induction cs as [|c cs IH]; simpl; [discriminate|].
    destruct (str_eqb (ln c) k) eqn:E1; simpl; [intros _; left; reflexivity|].
    destruct (str_eqb (le c) k) eqn:E2; simpl; [intros _; right; reflexivity|].
    apply IH.
  Qed.

  Lemma used_In cs k : used cs k = true <-> exists c, In c cs /\ (ln c = k \/ le c = k).
  Proof.
    unfold key_used. rewrite existsb_exists. split; intros [c [Hc H]]; exists c; (split; [assumption|]).
    - apply orb_true_iff in H. destruct H as [H|H]; apply str_eqb_eq in H; auto.
    - apply orb_true_iff. destruct H as [H|H]; [left|right]; apply str_eqb_eq; assumption.
  Qed.

  (* ---------- add_name / add_email ---------- *)
  Lemma add_name_length devs id n : length (add_name devs id n) = length devs.
  Proof. revert id. induction devs as [|[ns es] r IH]; intros [|id]; simpl; auto. Qed.
  Lemma add_email_length devs id n : length (add_email devs id n) = length devs.
  Proof. revert id. induction devs as [|[ns es] r IH]; intros [|id]; simpl; auto. Qed.

  Lemma nth_add_name devs id n d : id < length devs ->
    nth d (add_name devs id n) ([], []) =
    if Nat.eqb d id then (names_of devs d ++ [n], emails_of devs d) else nth d devs ([], []).
  Proof.
    revert id d. induction devs as [|[ns es] r IH]; intros [|id] [|d]; simpl; try lia; try reflexivity.
    intros H. apply IH. lia.
  Qed.
  Lemma nth_add_email devs id n d : id < length devs ->
    nth d (add_email devs id n) ([], []) =
    if Nat.eqb d id then (names_of devs d, emails_of devs d ++ [n]) else nth d devs ([], []).
  Proof.
    revert id d. induction devs as [|[ns es] r IH]; intros [|id] [|d]; simpl; try lia; try reflexivity.
    intros H. apply IH. lia.
  Qed.

  (* ---------- the invariant of the non-exact loop ---------- *)
  Record GInv (cs : list commit) (s : gst) : Prop := {
    gi_nodup : keys_nodup (g_dict s);
    gi_used : forall k, used cs k = true <-> exists d, sget (g_dict s) k = Some d;
    gi_range : forall k d, sget (g_dict s) k = Some d -> d < length (g_devs s);
    gi_names : forall d k, d < length (g_devs s) ->
        (In k (names_of (g_devs s) d) <-> sget (g_dict s) k = Some d /\ fst (role cs k) = true);
    gi_emails : forall d k, d < length (g_devs s) ->
        (In k (emails_of (g_devs s) d) <-> sget (g_dict s) k = Some d /\ snd (role cs k) = true);
    gi_nd_names : forall d, NoDup (names_of (g_devs s) d);
    gi_nd_emails : forall d, NoDup (emails_of (g_devs s) d);
    gi_inhab : forall d, d < length (g_devs s) -> exists k, sget (g_dict s) k = Some d
  }.

  Lemma GInv_init : GInv [] (g_init).
  Proof.
    constructor; simpl; try (intros; lia).
    - constructor.
    - intros k. split; [discriminate|intros [d H]; discriminate].
    - intros; discriminate.
    - intros [|d]; constructor.
    - intros [|d]; constructor.
  Qed.

  Lemma not_used_none cs s k : GInv cs s -> sget (g_dict s) k = None -> used cs k = false.
  Proof.
    intros I H. destruct (used cs k) eqn:E; [|reflexivity].
    apply (gi_used _ _ I) in E. destruct E as [d E]. congruence.
  Qed.

  Lemma used_some cs s k d : GInv cs s -> sget (g_dict s) k = Some d -> used cs k = true.
  Proof. intros I H. apply (gi_used _ _ I). eauto. Qed.

  Ltac beq := repeat match goal with
    | H : str_eqb _ _ = true |- _ => apply str_eqb_eq in H
    | H : str_eqb _ _ = false |- _ => apply str_eqb_neq in H
    | H : Nat.eqb _ _ = true |- _ => apply Nat.eqb_eq in H
    | H : Nat.eqb _ _ = false |- _ => apply Nat.eqb_neq in H
    end.

  Lemma GInv_step cs s c : GInv cs s -> GInv (cs ++ [c]) (g_step lower s c).
  Proof.
    intros I. unfold g_step.
    destruct (sget (g_dict s) (le c)) as [ide|] eqn:Ee; destruct (sget (g_dict s) (ln c)) as [idn|] eqn:En.
    - (* both known: nothing changes *)
      pose proof (used_some _ _ _ _ I Ee) as Ue. pose proof (used_some _ _ _ _ I En) as Un.
      assert (Hu : forall k, used (cs ++ [c]) k = used cs k).
      { intros k. rewrite used_snoc.
        destruct (str_eqb_spec (ln c) k) as [<-|]; [rewrite Un; reflexivity|].
        destruct (str_eqb_spec (le c) k) as [<-|]; [rewrite Ue; reflexivity|].
        simpl. rewrite orb_false_r. reflexivity. }
      assert (Hr : forall k, role (cs ++ [c]) k = role cs k).
      { intros k. rewrite role_snoc. destruct (used cs k) eqn:E; [reflexivity|].
        rewrite role_unused by assumption.
        destruct (str_eqb_spec (ln c) k) as [<-|]; [congruence|].
        destruct (str_eqb_spec (le c) k) as [<-|]; [congruence|]. reflexivity. }
      destruct I. constructor; auto.
      + intros k. rewrite Hu. auto.
      + intros d k Hd. rewrite Hr. auto.
      + intros d k Hd. rewrite Hr. auto.
    - (* e-mail known, name new *)
      pose proof (used_some _ _ _ _ I Ee) as Ue. pose proof (not_used_none _ _ _ I En) as Un.
      pose proof (gi_range _ _ I _ _ Ee) as Hide.
      assert (Hne : ln c <> le c) by congruence.
      assert (Hr : forall k, k <> ln c -> role (cs ++ [c]) k = role cs k).
      { intros k Hk. rewrite role_snoc. destruct (used cs k) eqn:E; [reflexivity|].
        rewrite role_unused by assumption.
        destruct (str_eqb_spec (ln c) k) as [<-|]; [congruence|].
        destruct (str_eqb_spec (le c) k) as [<-|]; [congruence|]. reflexivity. }
      assert (Hrn : role (cs ++ [c]) (ln c) = (true, false)).
      { rewrite role_snoc, Un, str_eqb_refl. f_equal. apply str_eqb_neq. congruence. }
      constructor; cbn [g_dict g_devs].
      + apply sset_keys_nodup. apply (gi_nodup _ _ I).
      + intros k. rewrite used_snoc, sget_sset.
        destruct (str_eqb_spec (ln c) k) as [<-|Hk]; [simpl; rewrite orb_true_r; split; eauto|].
        destruct (str_eqb_spec (le c) k) as [<-|Hk2].
        * rewrite Ue. simpl. split; eauto.
        * simpl. rewrite orb_false_r. apply (gi_used _ _ I).
      + intros k d. rewrite add_name_length, sget_sset.
        destruct (str_eqb (ln c) k); [intros [= <-]; assumption|apply (gi_range _ _ I)].
      + intros d k. rewrite add_name_length. intros Hd. rewrite nth_add_name by assumption.
        rewrite sget_sset.
        destruct (str_eqb_spec (ln c) k) as [<-|Hk].
        * rewrite Hrn. cbn [fst].
          destruct (Nat.eqb_spec d ide) as [->|Hd2]; cbn [fst].
          -- rewrite in_app_iff. simpl. intuition.
          -- rewrite (gi_names _ _ I d (ln c) Hd). rewrite En. split; [intros [? _]; discriminate|].
             intros [[= ->] _]. congruence.
        * rewrite Hr by congruence.
          destruct (Nat.eqb_spec d ide) as [->|Hd2]; cbn [fst].
          -- rewrite in_app_iff, (gi_names _ _ I ide k Hd). simpl. intuition congruence.
          -- apply (gi_names _ _ I d k Hd).
      + intros d k. rewrite add_name_length. intros Hd. rewrite nth_add_name by assumption.
        rewrite sget_sset.
        assert (Hem : snd (if Nat.eqb d ide then (names_of (g_devs s) d ++ [ln c], emails_of (g_devs s) d)
                           else nth d (g_devs s) ([], [])) = emails_of (g_devs s) d)
          by (destruct (Nat.eqb d ide); reflexivity).
        rewrite Hem.
        destruct (str_eqb_spec (ln c) k) as [<-|Hk].
        * rewrite Hrn. cbn [snd]. rewrite (gi_emails _ _ I d (ln c) Hd), En.
          split; [intros [? _]; discriminate|intros [_ ?]; discriminate].
        * rewrite Hr by congruence. apply (gi_emails _ _ I d k Hd).
      + intros d. destruct (Nat.ltb_spec d (length (g_devs s))) as [Hd|Hd].
        * rewrite nth_add_name by assumption. destruct (Nat.eqb_spec d ide) as [->|]; cbn [fst].
          -- apply NoDup_snoc; [apply (gi_nd_names _ _ I)|].
             rewrite (gi_names _ _ I ide (ln c) Hide), En. intros [? _]; discriminate.
          -- apply (gi_nd_names _ _ I).
        * rewrite nth_overflow by (rewrite add_name_length; lia). constructor.
      + intros d. destruct (Nat.ltb_spec d (length (g_devs s))) as [Hd|Hd].
        * rewrite nth_add_name by assumption. destruct (Nat.eqb_spec d ide) as [->|]; cbn [snd];
            apply (gi_nd_emails _ _ I).
        * rewrite nth_overflow by (rewrite add_name_length; lia). constructor.
      + intros d. rewrite add_name_length. intros Hd. destruct (gi_inhab _ _ I d Hd) as [k Hk].
        exists k. rewrite sget_sset. destruct (str_eqb_spec (ln c) k) as [<-|]; [congruence|assumption].
    - (* name known, e-mail new *)
      pose proof (used_some _ _ _ _ I En) as Un. pose proof (not_used_none _ _ _ I Ee) as Ue.
      pose proof (gi_range _ _ I _ _ En) as Hidn.
      assert (Hne : ln c <> le c) by congruence.
      assert (Hr : forall k, k <> le c -> role (cs ++ [c]) k = role cs k).
      { intros k Hk. rewrite role_snoc. destruct (used cs k) eqn:E; [reflexivity|].
        rewrite role_unused by assumption.
        destruct (str_eqb_spec (ln c) k) as [<-|]; [congruence|].
        destruct (str_eqb_spec (le c) k) as [<-|]; [congruence|]. reflexivity. }
      assert (Hre : role (cs ++ [c]) (le c) = (false, true)).
      { rewrite role_snoc, Ue, str_eqb_refl. f_equal. apply str_eqb_neq. congruence. }
      constructor; cbn [g_dict g_devs].
      + apply sset_keys_nodup. apply (gi_nodup _ _ I).
      + intros k. rewrite used_snoc, sget_sset.
        destruct (str_eqb_spec (le c) k) as [<-|Hk]; [simpl; rewrite !orb_true_r; split; eauto|].
        destruct (str_eqb_spec (ln c) k) as [<-|Hk2].
        * rewrite Un. simpl. split; eauto.
        * simpl. rewrite orb_false_r. apply (gi_used _ _ I).
      + intros k d. rewrite add_email_length, sget_sset.
        destruct (str_eqb (le c) k); [intros [= <-]; assumption|apply (gi_range _ _ I)].
      + intros d k. rewrite add_email_length. intros Hd. rewrite nth_add_email by assumption.
        rewrite sget_sset.
        assert (Hnm : fst (if Nat.eqb d idn then (names_of (g_devs s) d, emails_of (g_devs s) d ++ [le c])
                           else nth d (g_devs s) ([], [])) = names_of (g_devs s) d)
          by (destruct (Nat.eqb d idn); reflexivity).
        rewrite Hnm.
        destruct (str_eqb_spec (le c) k) as [<-|Hk].
        * rewrite Hre. cbn [fst]. rewrite (gi_names _ _ I d (le c) Hd), Ee.
          split; [intros [? _]; discriminate|intros [_ ?]; discriminate].
        * rewrite Hr by congruence. apply (gi_names _ _ I d k Hd).
      + intros d k. rewrite add_email_length. intros Hd. rewrite nth_add_email by assumption.
        rewrite sget_sset.
        destruct (str_eqb_spec (le c) k) as [<-|Hk].
        * rewrite Hre. cbn [snd].
          destruct (Nat.eqb_spec d idn) as [->|Hd2]; cbn [snd].
          -- rewrite in_app_iff. simpl. intuition.
          -- rewrite (gi_emails _ _ I d (le c) Hd). rewrite Ee. split; [intros [? _]; discriminate|].
             intros [[= ->] _]. congruence.
        * rewrite Hr by congruence.
          destruct (Nat.eqb_spec d idn) as [->|Hd2]; cbn [snd].
          -- rewrite in_app_iff, (gi_emails _ _ I idn k Hd). simpl. intuition congruence.
          -- apply (gi_emails _ _ I d k Hd).
      + intros d. destruct (Nat.ltb_spec d (length (g_devs s))) as [Hd|Hd].
        * rewrite nth_add_email by assumption. destruct (Nat.eqb_spec d idn) as [->|]; cbn [fst];
            apply (gi_nd_names _ _ I).
        * rewrite nth_overflow by (rewrite add_email_length; lia). constructor.
      + intros d. destruct (Nat.ltb_spec d (length (g_devs s))) as [Hd|Hd].
        * rewrite nth_add_email by assumption. destruct (Nat.eqb_spec d idn) as [->|]; cbn [snd].
          -- apply NoDup_snoc; [apply (gi_nd_emails _ _ I)|].
             rewrite (gi_emails _ _ I idn (le c) Hidn), Ee. intros [? _]; discriminate.
          -- apply (gi_nd_emails _ _ I).
        * rewrite nth_overflow by (rewrite add_email_length; lia). constructor.
      + intros d. rewrite add_email_length. intros Hd. destruct (gi_inhab _ _ I d Hd) as [k Hk].
        exists k. rewrite sget_sset. destruct (str_eqb_spec (le c) k) as [<-|]; [congruence|assumption].
    - (* both new: a new developer *)
      pose proof (not_used_none _ _ _ I En) as Un. pose proof (not_used_none _ _ _ I Ee) as Ue.
      set (size := length (g_devs s)).
      assert (Hr : forall k, k <> le c -> k <> ln c -> role (cs ++ [c]) k = role cs k).
      { intros k Hk1 Hk2. rewrite role_snoc. destruct (used cs k) eqn:E; [reflexivity|].
        rewrite role_unused by assumption.
        destruct (str_eqb_spec (ln c) k) as [<-|]; [congruence|].
        destruct (str_eqb_spec (le c) k) as [<-|]; [congruence|]. reflexivity. }
      assert (Hre : role (cs ++ [c]) (le c) = (str_eqb (ln c) (le c), true)).
      { rewrite role_snoc, Ue, str_eqb_refl. reflexivity. }
      assert (Hrn : role (cs ++ [c]) (ln c) = (true, str_eqb (le c) (ln c))).
      { rewrite role_snoc, Un, str_eqb_refl. reflexivity. }
      assert (Hget : forall k, sget (sset (sset (g_dict s) (le c) size) (ln c) size) k =
                     if str_eqb (ln c) k || str_eqb (le c) k then Some size else sget (g_dict s) k).
      { intros k. rewrite !sget_sset. destruct (str_eqb (ln c) k), (str_eqb (le c) k); reflexivity. }
      assert (Hold : forall k d, sget (g_dict s) k = Some d -> k <> le c /\ k <> ln c /\ d < size).
      { intros k d H. repeat split; try congruence. apply (gi_range _ _ I _ _ H). }
      assert (Hnth : forall d, nth d (g_devs s ++ [([ln c], [le c])]) ([], []) =
                     if Nat.ltb d size then nth d (g_devs s) ([], [])
                     else if Nat.eqb d size then ([ln c], [le c]) else ([], [])).
      { intros d. destruct (Nat.ltb_spec d size) as [Hd|Hd]; [apply app_nth1; assumption|].
        rewrite app_nth2 by assumption. fold size.
        destruct (Nat.eqb_spec d size) as [->|Hd2]; [rewrite Nat.sub_diag; reflexivity|].
        destruct (d - size) as [|[|x]] eqn:E; try reflexivity. lia. }
      constructor; cbn [g_dict g_devs]; fold size.
      + apply sset_keys_nodup, sset_keys_nodup. apply (gi_nodup _ _ I).
      + intros k. rewrite used_snoc, Hget.
        destruct (str_eqb (ln c) k || str_eqb (le c) k); [rewrite orb_true_r; split; eauto|].
        rewrite orb_false_r. apply (gi_used _ _ I).
      + intros k d. rewrite Hget, app_length. simpl. fold size.
        destruct (str_eqb (ln c) k || str_eqb (le c) k); [intros [= <-]; lia|].
        intros H. apply Hold in H. lia.
      + intros d k. rewrite app_length. simpl. fold size. intros Hd. rewrite Hnth, Hget.
        destruct (Nat.ltb_spec d size) as [Hd1|Hd1].
        * destruct (str_eqb_spec (ln c) k) as [<-|Hk1]; simpl.
          { rewrite (gi_names _ _ I d (ln c) Hd1), En. split; [intros [? _]; discriminate|]. intros [[= ->] _]. lia. }
          destruct (str_eqb_spec (le c) k) as [<-|Hk2]; simpl.
          { rewrite (gi_names _ _ I d (le c) Hd1), Ee. split; [intros [? _]; discriminate|]. intros [[= ->] _]. lia. }
          rewrite Hr by congruence. apply (gi_names _ _ I d k Hd1).
        * assert (d = size) by lia. subst d. rewrite Nat.eqb_refl. cbn [fst In].
          destruct (str_eqb_spec (ln c) k) as [<-|Hk1]; simpl.
          { rewrite Hrn. cbn [fst]. intuition. }
          destruct (str_eqb_spec (le c) k) as [<-|Hk2]; simpl.
          { rewrite Hre. cbn [fst]. split; [intuition congruence|]. intros [_ H]. beq. left. assumption. }
          split; [intros [?|[]]; congruence|]. intros [H _]. apply Hold in H. lia.
      + intros d k. rewrite app_length. simpl. fold size. intros Hd. rewrite Hnth, Hget.
        destruct (Nat.ltb_spec d size) as [Hd1|Hd1].
        * destruct (str_eqb_spec (ln c) k) as [<-|Hk1]; simpl.
          { rewrite (gi_emails _ _ I d (ln c) Hd1), En. split; [intros [? _]; discriminate|]. intros [[= ->] _]. lia. }
          destruct (str_eqb_spec (le c) k) as [<-|Hk2]; simpl.
          { rewrite (gi_emails _ _ I d (le c) Hd1), Ee. split; [intros [? _]; discriminate|]. intros [[= ->] _]. lia. }
          rewrite Hr by congruence. apply (gi_emails _ _ I d k Hd1).
        * assert (d = size) by lia. subst d. rewrite Nat.eqb_refl. cbn [snd In].
          destruct (str_eqb_spec (le c) k) as [<-|Hk2].
          { rewrite orb_true_r. rewrite Hre. cbn [snd]. intuition. }
          rewrite orb_false_r.
          destruct (str_eqb_spec (ln c) k) as [<-|Hk1].
          { rewrite Hrn. cbn [snd]. split; [intuition congruence|]. intros [_ H]. beq. left. assumption. }
          split; [intros [?|[]]; congruence|]. intros [H _]. apply Hold in H. lia.
      + intros d. rewrite Hnth. destruct (Nat.ltb d size); [apply (gi_nd_names _ _ I)|].
        destruct (Nat.eqb d size); cbn [fst]; [constructor; [intros []|constructor]|constructor].
      + intros d. rewrite Hnth. destruct (Nat.ltb d size); [apply (gi_nd_emails _ _ I)|].
        destruct (Nat.eqb d size); cbn [snd]; [constructor; [intros []|constructor]|constructor].
      + intros d. rewrite app_length. simpl. fold size. intros Hd.
        destruct (Nat.ltb_spec d size) as [Hd1|Hd1].
        * destruct (gi_inhab _ _ I d Hd1) as [k Hk]. exists k. rewrite Hget.
          destruct (Hold _ _ Hk) as [H1 [H2 _]].
          destruct (str_eqb_spec (ln c) k); [congruence|]. destruct (str_eqb_spec (le c) k); [congruence|].
          assumption.
        * exists (ln c). rewrite Hget, str_eqb_refl. simpl. f_equal. lia.
  Qed.

  Lemma g_run_snoc cs c : g_run lower (cs ++ [c]) = g_step lower (g_run lower cs) c.
  Proof. unfold g_run. rewrite fold_left_app. reflexivity. Qed.

  Lemma GInv_run cs : GInv cs (g_run lower cs).
  Proof.
    induction cs as [|c cs IH] using rev_ind; [apply GInv_init|].
    rewrite g_run_snoc. apply GInv_step. assumption.
  Qed.

  (* ---------- the reversed dictionary ---------- *)
  Lemma fold_upd_length {A B} (f : B -> nat) (g : B -> A) l init :
    length (fold_left (fun rd kv => upd rd (f kv) (g kv)) l init) = length init.
  Proof. revert init. induction l as [|kv l IH]; intros init; simpl; [reflexivity|]. rewrite IH. apply upd_length. Qed.

  Lemma fold_upd_val (f : nat -> str) (l : list (str * nat)) : forall init d,
    nth d (fold_left (fun rd kv => upd rd (snd kv) (f (snd kv))) l init) [] =
    if existsb (fun kv => Nat.eqb (snd kv) d) l && Nat.ltb d (length init) then f d else nth d init [].
  Proof.
    induction l as [|[k v] l IH]; intros init d; simpl; [reflexivity|].
    rewrite IH, upd_length, nth_upd. cbn [snd].
    destruct (Nat.eqb_spec v d) as [->|Hv]; simpl.
    - destruct (Nat.ltb d (length init)); simpl.
      + destruct (existsb _ l); reflexivity.
      + rewrite !andb_false_r. reflexivity.
    - reflexivity.
  Qed.

  Lemma fold_upd_key (l : list (str * nat)) : forall init d, d < length init ->
    (forall k k', In (k, d) l -> In (k', d) l -> k = k') ->
    nth d (fold_left (fun rd kv => upd rd (snd kv) (fst kv)) l init) [] =
    match find (fun kv => Nat.eqb (snd kv) d) l with Some kv => fst kv | None => nth d init [] end.
  Proof.
    induction l as [|[k v] l IH]; intros init d Hd Hinj; simpl; [reflexivity|].
    rewrite IH; [|rewrite upd_length; assumption|intros; apply Hinj; right; assumption].
    rewrite nth_upd. cbn [snd fst].
    destruct (Nat.eqb_spec v d) as [->|Hv]; simpl; [|reflexivity].
    destruct (find (fun kv => Nat.eqb (snd kv) d) l) as [[k' v']|] eqn:F.
    - apply find_some in F. destruct F as [Hin E]. cbn [snd] in E. apply Nat.eqb_eq in E. subst v'.
      cbn [fst]. apply Hinj; [right; assumption|left; reflexivity].
    - apply Nat.ltb_lt in Hd. rewrite Hd. reflexivity.
  Qed.

  Section Order.
    Variable order : list (str * nat) -> list (str * nat).
    Hypothesis order_perm : forall l, Permutation (order l) l.

    Lemma g_reverse_length s : length (g_reverse order s) = length (g_devs s).
    Proof. unfold g_reverse. rewrite fold_upd_length. apply repeat_length. Qed.

    Lemma g_reverse_nth cs d : d < length (g_devs (g_run lower cs)) ->
      nth d (g_reverse order (g_run lower cs)) [] = describe (nth d (g_devs (g_run lower cs)) ([], [])).
    Proof.
      intros Hd. pose proof (GInv_run cs) as I. set (s := g_run lower cs) in *.
      unfold g_reverse.
      rewrite (fold_upd_val (fun v => describe (nth v (g_devs s) ([], [])))).
      rewrite repeat_length. apply Nat.ltb_lt in Hd. rewrite Hd, andb_true_r.
      apply Nat.ltb_lt in Hd.
      destruct (gi_inhab _ _ I d Hd) as [k Hk]. apply sget_In in Hk.
      assert (E : existsb (fun kv => Nat.eqb (snd kv) d) (order (g_dict s)) = true).
      { apply existsb_exists. exists (k, d). split; [|apply Nat.eqb_refl].
        eapply Permutation_in; [symmetry; apply order_perm|assumption]. }
      rewrite E. reflexivity.
    Qed.
  End Order.

  (* ---------- exact mode ---------- *)
  Notation lsig c := (lower (sig_string c)).
  Notation xused cs k := (key_used lower true cs k).

  Record XInv (cs : list commit) (s : xst) : Prop := {
    xi_nodup : keys_nodup (x_dict s);
    xi_used : forall k, xused cs k = true <-> exists d, sget (x_dict s) k = Some d;
    xi_range : forall k d, sget (x_dict s) k = Some d -> d < x_size s;
    xi_inj : forall k k' d, sget (x_dict s) k = Some d -> sget (x_dict s) k' = Some d -> k = k';
    xi_inhab : forall d, d < x_size s -> exists k, sget (x_dict s) k = Some d
  }.

  Lemma xused_snoc cs c k : xused (cs ++ [c]) k = xused cs k || str_eqb (lsig c) k.
  Proof. unfold key_used. rewrite existsb_app. simpl. rewrite orb_false_r. reflexivity. Qed.

  Lemma XInv_step cs s c : XInv cs s -> XInv (cs ++ [c]) (x_step lower s c).
  Proof.
    intros I. unfold x_step. destruct (sget (x_dict s) (lsig c)) as [d0|] eqn:E.
    - destruct I. constructor; auto.
      intros k. rewrite xused_snoc. destruct (str_eqb_spec (lsig c) k) as [<-|].
      + rewrite orb_true_r. split; eauto.
      + rewrite orb_false_r. auto.
    - constructor; cbn [x_dict x_size].
      + apply sset_keys_nodup, (xi_nodup _ _ I).
      + intros k. rewrite xused_snoc, sget_sset. destruct (str_eqb_spec (lsig c) k) as [<-|].
        * rewrite orb_true_r. split; eauto.
        * rewrite orb_false_r. apply (xi_used _ _ I).
      + intros k d. rewrite sget_sset. destruct (str_eqb (lsig c) k); [intros [= <-]; lia|].
        intros H. apply (xi_range _ _ I) in H. lia.
      + intros k k' d. rewrite !sget_sset.
        destruct (str_eqb_spec (lsig c) k) as [<-|Hk], (str_eqb_spec (lsig c) k') as [<-|Hk']; try reflexivity.
        * intros [= <-] H. apply (xi_range _ _ I) in H. lia.
        * intros H [= <-]. apply (xi_range _ _ I) in H. lia.
        * apply (xi_inj _ _ I).
      + intros d Hd. destruct (Nat.eqb_spec d (x_size s)) as [->|Hd2].
        * exists (lsig c). apply sget_sset_same.
        * destruct (xi_inhab _ _ I d) as [k Hk]; [lia|]. exists k. rewrite sget_sset.
          destruct (str_eqb_spec (lsig c) k) as [<-|]; [congruence|assumption].
  Qed.

  Lemma XInv_run cs : XInv cs (x_run lower cs).
  Proof.
    induction cs as [|c cs IH] using rev_ind.
    - constructor; simpl; try (intros; lia); try (intros; discriminate).
      + constructor.
      + intros k. split; [discriminate|intros [d H]; discriminate].
    - unfold x_run. rewrite fold_left_app. apply XInv_step. assumption.
  Qed.

  Section OrderX.
    Variable order : list (str * nat) -> list (str * nat).
    Hypothesis order_perm : forall l, Permutation (order l) l.

    Lemma x_reverse_length s : length (x_reverse order s) = x_size s.
    Proof. unfold x_reverse. rewrite fold_upd_length. apply repeat_length. Qed.

    Lemma x_reverse_nth cs d : d < x_size (x_run lower cs) ->
      sget (x_dict (x_run lower cs)) (nth d (x_reverse order (x_run lower cs)) []) = Some d.
    Proof.
      intros Hd. pose proof (XInv_run cs) as I. set (s := x_run lower cs) in *.
      assert (Hin : forall k v, In (k, v) (order (x_dict s)) <-> sget (x_dict s) k = Some v).
      { intros k v. split.
        - intros H. apply In_sget_nodup; [apply (xi_nodup _ _ I)|].
          eapply Permutation_in; [apply order_perm|assumption].
        - intros H. apply sget_In in H. eapply Permutation_in; [symmetry; apply order_perm|assumption]. }
      unfold x_reverse. rewrite fold_upd_key.
      - destruct (xi_inhab _ _ I d Hd) as [k Hk].
        destruct (find (fun kv => Nat.eqb (snd kv) d) (order (x_dict s))) as [[k' v']|] eqn:F.
        + apply find_some in F. destruct F as [F1 F2]. cbn [snd] in F2. apply Nat.eqb_eq in F2. subst v'.
          cbn [fst]. apply Hin. assumption.
        + exfalso. apply Hin in Hk. eapply find_none in F; [|exact Hk]. cbn [snd] in F.
          rewrite Nat.eqb_refl in F. discriminate.
      - rewrite repeat_length. assumption.
      - intros k k' H1 H2. apply Hin in H1. apply Hin in H2. eapply (xi_inj _ _ I); eassumption.
    Qed.
  End OrderX.

  (* ---------- the theorems about GeneratePeopleDict + Consume ---------- *)
  Definition order_ok (order : list (str * nat) -> list (str * nat)) : Prop :=
    forall l, Permutation (order l) l.

  Lemma gen_empty exact order : generate_people_dict lower exact order [] = None.
  Proof. reflexivity. Qed.

  Lemma gen_loose_inv order cs dict rev :
    generate_people_dict lower false order cs = Some (dict, rev) ->
    dict = g_dict (g_run lower cs) /\ rev = g_reverse order (g_run lower cs).
  Proof. destruct cs; simpl; [discriminate|]. intros [= <- <-]. split; reflexivity. Qed.

  Lemma gen_exact_inv order cs dict rev :
    generate_people_dict lower true order cs = Some (dict, rev) ->
    dict = x_dict (x_run lower cs) /\ rev = x_reverse order (x_run lower cs).
  Proof. destruct cs; simpl; [discriminate|]. intros [= <- <-]. split; reflexivity. Qed.

  Theorem gen_dict_keys exact order cs dict rev :
    generate_people_dict lower exact order cs = Some (dict, rev) ->
    forall k, (exists d, sget dict k = Some d) <-> key_used lower exact cs k = true.
  Proof.
    destruct exact; intros H k.
    - apply gen_exact_inv in H. destruct H as [-> _]. symmetry. apply (xi_used _ _ (XInv_run cs)).
    - apply gen_loose_inv in H. destruct H as [-> _]. symmetry. apply (gi_used _ _ (GInv_run cs)).
  Qed.

  Theorem gen_total exact order cs dict rev : order_ok order ->
    generate_people_dict lower exact order cs = Some (dict, rev) ->
    forall c, In c cs ->
    exists d, lookup_author lower exact dict c = Some d /\ consume lower exact dict c = Z.of_nat d /\ d < length rev.
  Proof.
    intros Ho H c Hc. destruct exact.
    - apply gen_exact_inv in H. destruct H as [-> ->]. pose proof (XInv_run cs) as I.
      assert (U : xused cs (lsig c) = true).
      { unfold key_used. apply existsb_exists. exists c. split; [assumption|apply str_eqb_refl]. }
      apply (xi_used _ _ I) in U. destruct U as [d Hd]. exists d.
      unfold consume, lookup_author. rewrite Hd. repeat split.
      rewrite x_reverse_length. apply (xi_range _ _ I _ _ Hd).
    - apply gen_loose_inv in H. destruct H as [-> ->]. pose proof (GInv_run cs) as I.
      assert (U : used cs (le c) = true).
      { apply used_In. exists c. auto. }
      apply (gi_used _ _ I) in U. destruct U as [d Hd]. exists d.
      unfold consume, lookup_author. rewrite Hd. repeat split.
      rewrite g_reverse_length. apply (gi_range _ _ I _ _ Hd).
  Qed.

  Theorem gen_same_email order cs dict rev : order_ok order ->
    generate_people_dict lower false order cs = Some (dict, rev) ->
    forall c1 c2, In c1 cs -> In c2 cs -> lower (c_email c1) = lower (c_email c2) ->
    consume lower false dict c1 = consume lower false dict c2.
  Proof.
    intros Ho H c1 c2 H1 H2 E.
    unfold consume, lookup_author. rewrite <- E.
    (* the e-mail of a commit of the list is always a key *)
    apply gen_loose_inv in H. destruct H as [-> _].
    assert (U : used cs (le c1) = true) by (apply used_In; exists c1; auto).
    apply (gi_used _ _ (GInv_run cs)) in U. destruct U as [d Hd].
    rewrite Hd. reflexivity.
  Qed.

  Theorem gen_same_signature order cs dict rev : order_ok order ->
    generate_people_dict lower true order cs = Some (dict, rev) ->
    forall c1 c2, In c1 cs -> In c2 cs -> lower (sig_string c1) = lower (sig_string c2) ->
    consume lower true dict c1 = consume lower true dict c2.
  Proof. intros Ho H c1 c2 _ _ E. unfold consume, lookup_author. rewrite E. reflexivity. Qed.

  Theorem gen_description_loose order cs dict rev : order_ok order ->
    generate_people_dict lower false order cs = Some (dict, rev) ->
    forall d, d < length rev -> exists ns es,
      nth d rev [] = join ns ++ bar :: join es /\
      StronglySorted (leR str_ltb) ns /\ StronglySorted (leR str_ltb) es /\ NoDup ns /\ NoDup es /\
      (forall k, In k ns <-> sget dict k = Some d /\ fst (first_role lower cs k) = true) /\
      (forall k, In k es <-> sget dict k = Some d /\ snd (first_role lower cs k) = true) /\
      (forall k, sget dict k = Some d -> In k ns \/ In k es).
  Proof.
    intros Ho H d Hd. apply gen_loose_inv in H. destruct H as [-> ->].
    pose proof (GInv_run cs) as I. rewrite g_reverse_length in Hd.
    set (s := g_run lower cs) in *.
    exists (sort_str (names_of (g_devs s) d)), (sort_str (emails_of (g_devs s) d)).
    split; [unfold s; rewrite g_reverse_nth by assumption; reflexivity|].
    split; [apply sort_str_sorted|]. split; [apply sort_str_sorted|].
    split; [apply isort_NoDup, (gi_nd_names _ _ I)|]. split; [apply isort_NoDup, (gi_nd_emails _ _ I)|].
    split; [intros k; unfold sort_str; rewrite isort_In; apply (gi_names _ _ I d k Hd)|].
    split; [intros k; unfold sort_str; rewrite isort_In; apply (gi_emails _ _ I d k Hd)|].
    intros k Hk. unfold sort_str. rewrite !isort_In.
    destruct (role_used cs k (used_some _ _ _ _ I Hk)) as [R|R]; [left|right].
    - apply (gi_names _ _ I d k Hd). auto.
    - apply (gi_emails _ _ I d k Hd). auto.
  Qed.

  Theorem gen_description_exact order cs dict rev : order_ok order ->
    generate_people_dict lower true order cs = Some (dict, rev) ->
    forall d, d < length rev ->
      sget dict (nth d rev []) = Some d /\
      (forall k, sget dict k = Some d -> k = nth d rev []) /\
      (exists c, In c cs /\ nth d rev [] = lower (sig_string c)).
  Proof.
    intros Ho H d Hd. apply gen_exact_inv in H. destruct H as [-> ->].
    pose proof (XInv_run cs) as I. rewrite x_reverse_length in Hd.
    pose proof (x_reverse_nth order Ho cs d Hd) as Hn.
    split; [assumption|]. split.
    - intros k Hk. eapply (xi_inj _ _ I); eassumption.
    - assert (U : xused cs (nth d (x_reverse order (x_run lower cs)) []) = true) by (apply (xi_used _ _ I); eauto).
      unfold key_used in U. apply existsb_exists in U. destruct U as [c [Hc E]].
      apply str_eqb_eq in E. exists c. auto.
  Qed.

  (* in both modes no two developers share a key, and every developer has one *)
  Theorem gen_developers_inhabited exact order cs dict rev : order_ok order ->
    generate_people_dict lower exact order cs = Some (dict, rev) ->
    forall d, d < length rev -> exists k, sget dict k = Some d.
  Proof.
    intros Ho H d Hd. destruct exact.
    - apply gen_exact_inv in H. destruct H as [-> ->]. rewrite x_reverse_length in Hd.
      apply (xi_inhab _ _ (XInv_run cs)). assumption.
    - apply gen_loose_inv in H. destruct H as [-> ->]. rewrite g_reverse_length in Hd.
      apply (gi_inhab _ _ (GInv_run cs)). assumption.
  Qed.
End Proofs.

Lemma consume_missing lower exact dict c :
  lookup_author lower exact dict c = None -> consume lower exact dict c = 262142%Z.
Proof. unfold consume. intros ->. reflexivity. Qed.

(* ---------- the executable statement of description exactness used by the replay is sound ---------- *)
Lemma str_list_eqb_eq a : forall b, str_list_eqb a b = true -> a = b.
Proof.
  induction a as [|x a IH]; intros [|y b]; simpl; try discriminate; [reflexivity|].
  intros H. apply andb_true_iff in H. destruct H as [H1 H2]. apply str_eqb_eq in H1. f_equal; auto.
Qed.

Lemma all_pairs_keys_nodup (dict : list (str * nat)) :
  all_pairs (fun x y => negb (str_eqb (fst x) (fst y))) dict = true -> keys_nodup dict.
Proof.
  unfold keys_nodup. induction dict as [|[k v] r IH]; simpl; intros H; [constructor|].
  apply andb_true_iff in H. destruct H as [H1 H2]. constructor; [|apply IH; assumption].
  intros Hin. apply in_map_iff in Hin. destruct Hin as [[k' v'] [E Hin]]. cbn [fst] in E. subst k'.
  rewrite forallb_forall in H1. specialize (H1 _ Hin). cbn [fst] in H1. rewrite str_eqb_refl in H1. discriminate.
Qed.

Lemma keys_of_In (dict : list (str * nat)) d k : keys_nodup dict -> (In k (keys_of dict d) <-> sget dict k = Some d).
Proof.
  intros Hnd. unfold keys_of. rewrite in_map_iff. split.
  - intros [[k' v] [E H]]. cbn [fst] in E. subst k'. apply filter_In in H. destruct H as [H1 H2].
    cbn [snd] in H2. apply Nat.eqb_eq in H2. subst v. apply In_sget_nodup; assumption.
  - intros H. apply sget_In in H. exists (k, d). split; [reflexivity|]. apply filter_In.
    split; [assumption|apply Nat.eqb_refl].
Qed.

Theorem description_okb_sound lower cs dict rev : description_okb lower false cs dict rev = true ->
  (forall k d, sget dict k = Some d -> key_used lower false cs k = true /\ d < length rev) /\
  forall d, d < length rev -> exists ns es,
    nth d rev [] = join ns ++ bar :: join es /\
    StronglySorted (leR str_ltb) ns /\ StronglySorted (leR str_ltb) es /\
    (forall k, In k ns <-> sget dict k = Some d /\ fst (first_role lower cs k) = true) /\
    (forall k, In k es <-> sget dict k = Some d /\ snd (first_role lower cs k) = true).
Proof.
  unfold description_okb. intros H. apply andb_true_iff in H. destruct H as [H H3].
  apply andb_true_iff in H. destruct H as [H1 H2]. apply all_pairs_keys_nodup in H1.
  apply str_list_eqb_eq in H3. rewrite forallb_forall in H2. split.
  - intros k d Hk. apply sget_In in Hk. specialize (H2 _ Hk). cbn [fst snd] in H2.
    apply andb_true_iff in H2. destruct H2 as [Ha Hb]. apply Nat.ltb_lt in Hb. auto.
  - intros d Hd.
    exists (sort_str (filter (fun k => fst (first_role lower cs k)) (keys_of dict d))),
           (sort_str (filter (fun k => snd (first_role lower cs k)) (keys_of dict d))).
    split.
    { rewrite H3 at 1. rewrite (nth_indep _ [] (spec_description lower false cs dict 0)) by (rewrite map_length, seq_length; assumption).
      rewrite map_nth, seq_nth by assumption. reflexivity. }
    split; [apply sort_str_sorted|]. split; [apply sort_str_sorted|].
    split; intros k; unfold sort_str; rewrite isort_In, filter_In, (keys_of_In dict d k H1); reflexivity.
Qed.

(* case-insensitive equality of names and e-mails gives equal signatures for the concrete lower-casing *)
Lemma lower_ascii_sig c1 c2 :
  lower_ascii (c_name c1) = lower_ascii (c_name c2) -> lower_ascii (c_email c1) = lower_ascii (c_email c2) ->
  lower_ascii (sig_string c1) = lower_ascii (sig_string c2).
Proof. intros H1 H2. unfold sig_string. rewrite !lower_ascii_app, H1, H2. reflexivity. Qed.
