(* C02 - run plan replays every commit on exactly its own ancestry.

   Decided by translation validation: ./check C02 runs the extracted [plan_ok] on every plan the real
   planner (internal/core/forks.go prepareRunPlan) produces; the theorem below says what an accepted plan
   satisfies, for every commit graph [g] (list of parent lists in a topological numbering) and every plan.
   Vocabulary (coq/theories/Plan): Exec.v [run init p1] = branch states of Pipeline.Run after the actions p1
   (per branch: [inc] = commits incorporated, [last] = commit analysed last; Live / Hibernated / Disposed);
   Graph.v [Anc g a c] = a is c or an ancestor of c, [nonredundant g c q] = q is a parent of c and not an
   ancestor of another parent, [retained g A] = A is a whole connected component of g of maximal size;
   Spec.v [replay_ok], [lasts_ok], [replay_block], [merge_ok], restated here clause by clause.

   Second stream (execution): ./check C02 also runs the real Pipeline.Run with a stateful recording item on
   synthetic repositories and judges the log of its Consume calls with the extracted [exec_ok]
   (ExecCheck.v: one [consume_record] per Consume = the commit, what the instance had seen before, the
   commit it consumed last); the theorems C02_exec_* below say what an accepted log satisfies. *)
From Coq Require Import List ZArith Permutation.
From Herc Require Import Plan.Syntax Plan.Exec Plan.Graph Plan.Checker Plan.Spec Plan.CheckerSound.
From Herc Require Import Plan.ExecCheck Plan.ExecCheckSound.
Import ListNotations.
Local Open Scope nat_scope.

Theorem C02_checker_sound : forall (g : list (list nat)) (p : list action),
  plan_ok g p = true -> C02_spec g p.
Proof. exact checker_sound. Qed.
Print Assumptions C02_checker_sound.

(* the same statement with the record and its predicates written out *)
Theorem C02_checker_sound_spelled_out : forall (g : list (list nat)) (p : list action),
  plan_ok g p = true ->
  (* every commit of the retained connected component is analysed (and nothing else) *)
  retained g (analysed p) /\
  (* whenever a commit is analysed on a branch, that branch is live and has analysed exactly the ancestors
     (or self) of one parent of the commit, that parent last; a commit without parents starts a fresh branch *)
  (forall p1 c b p2, p = p1 ++ commit_on c b :: p2 ->
     c < length g /\
     exists x, get (run init p1) b = Live x /\
       match last x with
       | None => inc x = [] /\ parents g c = []
       | Some q => In q (parents g c) /\ forall a, In a (inc x) <-> Anc g a q
       end) /\
  (* the replays of a commit are one block on distinct branches, one per non-redundant parent (redundant =
     fast-forward parents cause no replay); with several replays the next action merges exactly these
     branches, after which each of them holds exactly the full ancestry of the commit *)
  (forall c, In c (analysed p) ->
     exists p1 bs p2,
       p = p1 ++ map (commit_on c) bs ++ p2 /\
       ~ In c (analysed p1) /\ ~ In c (analysed p2) /\ NoDup bs /\
       ((parents g c = [] /\ map (last_on (run init p1)) bs = [None]) \/
        (parents g c <> [] /\
         exists qs, map (last_on (run init p1)) bs = map Some qs /\ NoDup qs /\
                    forall q, In q qs <-> (In q (parents g c) /\
                                           ~ exists q', In q' (parents g c) /\ q' <> q /\ Anc g q q'))) /\
       (2 <= length bs ->
        exists m p3, p2 = m :: p3 /\ kind m = KMerge /\ Permutation (items m) bs /\
          forall b, In b bs ->
            exists x, get (run init (p1 ++ map (commit_on c) bs ++ [m])) b = Live x /\
                      last x = Some c /\ forall a, In a (inc x) <-> Anc g a c)) /\
  (* there is no other merge: every merge joins distinct live branches that analysed the same commit with at
     least two non-redundant parents last *)
  (forall p1 m p2, p = p1 ++ m :: p2 -> kind m = KMerge ->
     NoDup (items m) /\
     exists c, (exists q1 q2, q1 <> q2 /\ nonredundant g c q1 /\ nonredundant g c q2) /\
       forall b, In b (items m) -> exists x, get (run init p1) b = Live x /\ last x = Some c) /\
  (* actions have the shape Pipeline.Run expects *)
  Forall wf_action p.
Proof. exact checker_sound_spelled_out. Qed.
Print Assumptions C02_checker_sound_spelled_out.

(* ---------- non-vacuity: the validator accepts what the repaired planner emits ... ---------- *)

(* a diamond: 0 <- 1, 0 <- 2, 3 = merge of 1 and 2 *)
Example C02_accepts_diamond :
  plan_ok [[]; [0]; [0]; [1; 2]]
    [emerge 1 (Some 0); commit_on 0 1; mkA KFork (Some 0) [1%Z; 2%Z]; commit_on 1 1; commit_on 2 2;
     commit_on 3 1; commit_on 3 2; merge_of [1%Z; 2%Z]; delete 2] = true.
Proof. vm_compute. reflexivity. Qed.

(* the F3 witness graph, parents [[],[0],[0],[2,1],[3,1],[2,4]]: the plan of the repaired planner for hash
   ranks [1,4,3,0,5,2] - the edges 4->1 and 5->2 are fast-forward edges: no replay, no lost merge *)
Definition f3_graph : list (list nat) := [[]; [0]; [0]; [2; 1]; [3; 1]; [2; 4]].
Example C02_accepts_f3_witness_fixed :
  plan_ok f3_graph
    [emerge 1 (Some 0); commit_on 0 1; mkA KFork (Some 0) [1%Z; 2%Z]; commit_on 1 2; commit_on 2 1;
     commit_on 3 2; commit_on 3 1; merge_of [2%Z; 1%Z]; delete 2; commit_on 4 1; commit_on 5 1] = true.
Proof. vm_compute. reflexivity. Qed.

Example C02_spec_satisfiable : exists p, C02_spec f3_graph p /\ length p = 11.
Proof. eexists. split; [apply checker_sound; exact C02_accepts_f3_witness_fixed | reflexivity]. Qed.

(* ---------- ... and rejects the plans of the unrepaired planner (defect F3) ---------- *)

(* before the fix commit 5e22591 the planner dropped the merge of commit 3 (parents 2 and 1) *)
Example C02_rejects_f3_witness_unfixed :
  plan_ok f3_graph
    [emerge 1 (Some 0); commit_on 0 1; mkA KFork (Some 0) [1%Z; 2%Z]; commit_on 1 2; delete 2; commit_on 2 1;
     commit_on 3 1; commit_on 4 1; commit_on 5 1] = false.
Proof. vm_compute. reflexivity. Qed.

(* ... and on the chain 0-1-2-3 with the fast-forward edges 2->0 and 3->1 it replayed commit 3 twice *)
Example C02_rejects_extra_replay :
  plan_ok [[]; [0]; [0; 1]; [1; 2]]
    [emerge 1 (Some 0); commit_on 0 1; commit_on 1 1; mkA KFork (Some 1) [1%Z; 2%Z]; commit_on 2 1;
     commit_on 3 2; commit_on 3 1; merge_of [2%Z; 1%Z]] = false.
Proof. vm_compute. reflexivity. Qed.

(* a plan that analyses the smaller component and drops the larger one is rejected: [retained] *)
Example C02_rejects_smaller_component :
  plan_ok [[]; []; [1]] [emerge 1 (Some 0); commit_on 0 1] = false.
Proof. vm_compute. reflexivity. Qed.

(* ====================== execution stream: the log of the real Pipeline.Run ====================== *)

(* An accepted Consume log satisfies the property, for every commit graph and every log: the consumed
   commits are exactly the retained component; every Consume happens on an instance that had seen exactly
   Anc(q) for one parent q, q last, or on a fresh instance for a commit without parents; every commit is
   consumed once per non-redundant parent. *)
Theorem C02_exec_checker_sound : forall (g : list (list nat)) (log : list consume_record),
  exec_ok g log = true -> exec_spec g log.
Proof. exact exec_ok_sound. Qed.
Print Assumptions C02_exec_checker_sound.

Theorem C02_exec_checker_sound_spelled_out : forall (g : list (list nat)) (log : list consume_record),
  exec_ok g log = true ->
  (* every commit of the retained connected component is consumed (and nothing else) *)
  retained g (map rc_commit log) /\
  (* whenever a commit is consumed, the consuming instance has seen exactly the ancestors (or self) of one
     parent of the commit, that parent last; a commit without parents is consumed by a fresh instance *)
  (forall r, In r log ->
     rc_commit r < length g /\
     match rc_last r with
     | None => rc_seen r = [] /\ parents g (rc_commit r) = []
     | Some q => In q (parents g (rc_commit r)) /\ forall a, In a (rc_seen r) <-> Anc g a q
     end) /\
  (* a commit is consumed once per non-redundant parent (a root: once) *)
  (forall c, In c (map rc_commit log) ->
     let ls := map rc_last (filter (fun r => rc_commit r =? c) log) in
     (parents g c = [] /\ ls = [None]) \/
     (parents g c <> [] /\
      exists qs, ls = map Some qs /\ NoDup qs /\
                 forall q, In q qs <-> (In q (parents g c) /\
                                        ~ exists q', In q' (parents g c) /\ q' <> q /\ Anc g q q'))).
Proof. exact exec_ok_sound_spelled_out. Qed.
Print Assumptions C02_exec_checker_sound_spelled_out.

(* the merged state covers the full ancestry: a child consumed after its parent q sees all of Anc(q) *)
Theorem C02_exec_full_ancestry : forall g log r q,
  exec_ok g log = true -> In r log -> rc_last r = Some q ->
  In q (parents g (rc_commit r)) /\
  (forall a, Anc g a q -> In a (rc_seen r)) /\ (forall a, In a (rc_seen r) -> Anc g a q).
Proof. exact exec_ok_full_ancestry. Qed.
Print Assumptions C02_exec_full_ancestry.

(* a commit without analysed parents starts a fresh branch *)
Theorem C02_exec_root_fresh : forall g log r,
  exec_ok g log = true -> In r log -> parents g (rc_commit r) = [] -> rc_seen r = [] /\ rc_last r = None.
Proof. exact exec_ok_root_fresh. Qed.
Print Assumptions C02_exec_root_fresh.

(* non-vacuity.  Three roots merged one after the other (the history of seeded/C02-s2):
   0-1, 2-3, 4-5, 6 = merge(1,3), 7 = merge(6,5), 8 = child of 7 *)
Definition three_roots : list (list nat) := [[]; [0]; []; [2]; []; [4]; [1; 3]; [6; 5]; [7]].

(* the log of the unchanged Pipeline.Run is accepted ... *)
Example C02_exec_accepts_three_roots :
  exec_ok three_roots
    [mkR 0 [] None; mkR 1 [0] (Some 0); mkR 2 [] None; mkR 3 [2] (Some 2); mkR 4 [] None; mkR 5 [4] (Some 4);
     mkR 6 [0; 1] (Some 1); mkR 6 [2; 3] (Some 3);
     mkR 7 [0; 1; 2; 3; 6] (Some 6); mkR 7 [4; 5] (Some 5);
     mkR 8 [0; 1; 2; 3; 4; 5; 6; 7] (Some 7)] = true.
Proof. vm_compute. reflexivity. Qed.

Example C02_exec_spec_satisfiable : exists log, exec_spec three_roots log /\ length log = 11.
Proof. eexists. split; [apply exec_ok_sound; exact C02_exec_accepts_three_roots | reflexivity]. Qed.

(* ... the log observed with the third root branch sharing the items of the second one is rejected
   (root 4 consumed on a branch that had seen {2,3}) ... *)
Example C02_exec_rejects_shared_root_branch :
  exec_ok three_roots
    [mkR 0 [] None; mkR 1 [0] (Some 0); mkR 2 [] None; mkR 3 [2] (Some 2); mkR 4 [2; 3] (Some 3);
     mkR 5 [2; 3; 4] (Some 4); mkR 6 [0; 1] (Some 1); mkR 6 [2; 3; 4; 5] (Some 5);
     mkR 7 [0; 1; 2; 3; 4; 5; 6] (Some 6); mkR 7 [0; 1; 2; 3; 4; 5; 6] (Some 6);
     mkR 8 [0; 1; 2; 3; 4; 5; 6; 7] (Some 7)] = false.
Proof. vm_compute. reflexivity. Qed.

(* ... so are a dropped merge (the child 3 of the merge commit 2 sees one side only), a replay on a
   redundant parent (graph 0 <- 1 <- 2 with the fast-forward edge 2 -> 0) and a run that consumed the
   smaller component *)
Example C02_exec_rejects_dropped_merge :
  exec_ok [[]; []; [0; 1]; [2]]
    [mkR 0 [] None; mkR 1 [] None; mkR 2 [0] (Some 0); mkR 2 [1] (Some 1); mkR 3 [0; 2] (Some 2)] = false.
Proof. vm_compute. reflexivity. Qed.

Example C02_exec_rejects_replay_on_redundant_parent :
  exec_ok [[]; [0]; [1; 0]]
    [mkR 0 [] None; mkR 1 [0] (Some 0); mkR 2 [0; 1] (Some 1); mkR 2 [0] (Some 0)] = false.
Proof. vm_compute. reflexivity. Qed.

Example C02_exec_rejects_smaller_component :
  exec_ok [[]; []; [1]] [mkR 0 [] None] = false.
Proof. vm_compute. reflexivity. Qed.

(* ---------- large plans (generator family [scale] of the plan stream) ----------
   [plan_ok] keeps association lists and ancestor sets: plans of 10^4 .. 10^6 actions are out of its reach.  They are
   judged by [fast_c02] (coq/theories/Plan/FastPlan.v: branch table = binary trie, commits = binary numbers [N]; an
   action is a [faction], [to_action] = the action of Syntax.v it stands for; [par c] = parents of commit c), which
   tests, in the state of the SAME abstract executor before every action: a commit c @ b finds b live and awake, and the
   commit b analysed last is a parent of c - or b has analysed nothing and c has no parents; a merge joins pairwise
   distinct live branches that all analysed the same commit last.  These are consequences of C02 (clauses c02_replay and
   c02_merges), not all of it: a plan that [fast_c02] rejects violates C02 (theorem below; so a rejection is a property
   failure), an accepted one has only passed the tests above - the ancestry clauses (exactly Anc(parent), one replay
   per non-redundant parent, retained component) stay with [plan_ok] on graphs of up to a few hundred commits. *)
From Coq Require Import NArith.
From Herc Require Import Plan.FastPlan Plan.FastPlanSound.

Theorem C02_fast_necessary : forall (g : list (list nat)) (par : N -> list N) (p : list faction),
  (forall c, map N.to_nat (par c) = parents g (N.to_nat c)) ->
  C02_spec g (map to_action p) -> fast_c02 par p = true.
Proof. exact fast_c02_necessary. Qed.
Print Assumptions C02_fast_necessary.

(* a rejected plan violates C02 *)
Theorem C02_fast_reject_is_violation : forall (g : list (list nat)) (par : N -> list N) (p : list faction),
  (forall c, map N.to_nat (par c) = parents g (N.to_nat c)) ->
  fast_c02 par p = false -> ~ C02_spec g (map to_action p).
Proof.
  intros g par p Hg F S. rewrite (fast_c02_necessary g par p Hg S) in F. discriminate.
Qed.
Print Assumptions C02_fast_reject_is_violation.

(* whatever the full validator accepts, the fast one accepts (the driver runs both on the small cases) *)
Theorem C02_fast_accepts_what_plan_ok_accepts : forall (g : list (list nat)) (par : N -> list N) (p : list faction),
  (forall c, map N.to_nat (par c) = parents g (N.to_nat c)) ->
  plan_ok g (map to_action p) = true -> fast_c02 par p = true.
Proof. intros g par p Hg H. apply (fast_c02_necessary g par p Hg). apply checker_sound. exact H. Qed.
Print Assumptions C02_fast_accepts_what_plan_ok_accepts.

(* non-vacuity: the diamond plan is accepted; a replay on a disposed branch, a replay on a branch whose last
   commit is not a parent, a replay of a parentless commit on a used branch, and a merge of branches that
   analysed different commits are rejected *)
Definition fdiamond_par (c : N) : list N :=
  match c with 1%N => [0%N] | 2%N => [0%N] | 3%N => [1%N; 2%N] | _ => [] end.
Definition fC (c : N) (b : Z) : faction := mkFA KCommit (Some c) [b].
Example C02_fast_accepts_diamond :
  fast_c02 fdiamond_par
    [mkFA KEmerge None [1%Z]; fC 0 1; mkFA KFork None [1%Z; 2%Z]; fC 1 1; fC 2 2; fC 3 1; fC 3 2;
     mkFA KMerge None [1%Z; 2%Z]; mkFA KDelete None [2%Z]] = true.
Proof. vm_compute. reflexivity. Qed.
Example C02_fast_rejects_replay_on_disposed_branch :
  fast_c02 fdiamond_par
    [mkFA KEmerge None [1%Z]; fC 0 1; mkFA KFork None [1%Z; 2%Z]; mkFA KDelete None [2%Z]; fC 1 1; fC 2 2] = false.
Proof. vm_compute. reflexivity. Qed.
Example C02_fast_rejects_replay_after_a_non_parent :
  fast_c02 fdiamond_par
    [mkFA KEmerge None [1%Z]; fC 0 1; fC 1 1; fC 2 1] = false.
Proof. vm_compute. reflexivity. Qed.
Example C02_fast_rejects_root_on_used_branch :
  fast_c02 (fun c => match c with 2%N => [0%N; 1%N] | _ => [] end)
    [mkFA KEmerge None [1%Z]; fC 0 1; fC 1 1] = false.
Proof. vm_compute. reflexivity. Qed.
Example C02_fast_rejects_merge_of_different_commits :
  fast_c02 fdiamond_par
    [mkFA KEmerge None [1%Z]; fC 0 1; mkFA KFork None [1%Z; 2%Z]; fC 1 1; fC 2 2; mkFA KMerge None [1%Z; 2%Z]] = false.
Proof. vm_compute. reflexivity. Qed.
