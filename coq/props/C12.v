(* C12 - every commit is counted once and line statistics conserve lines.
   Only statements closed by [exact] and their assumptions; the model is coq/theories/LineStats/Model.v. *)
From Coq Require Import List NArith ZArith Bool.
From Herc Require Import LineStats.Model LineStats.Conserve LineStats.Once LineStats.Totals LineStats.Oracle.
Import ListNotations.
Open Scope N_scope.

(* ---- line statistics conserve lines ---------------------------------------------------------------
   The removedPending loop of LinesStatsCalculator.Consume, for EVERY diff script in which a deletion is
   never directly followed by another deletion: added + changed is the number of inserted lines,
   removed + changed the number of deleted lines, hence added - removed is the growth of the file. *)
Theorem C12_linestats : forall ds : list (op * N), no_del_del ds = true ->
  added (line_stats ds) + changed (line_stats ds) = inserted ds /\
  removed (line_stats ds) + changed (line_stats ds) = deleted ds /\
  (Z.of_N (added (line_stats ds)) - Z.of_N (removed (line_stats ds)) = Z.of_N (inserted ds) - Z.of_N (deleted ds))%Z.
Proof. exact line_stats_conserves. Qed.
Print Assumptions C12_linestats.

(* the canonical shape C11 guarantees for FileDiff's output (neighbouring edits of different type,
   deletion before insertion inside a block) implies the hypothesis *)
Theorem C12_linestats_canonical : forall ds : list (op * N), canonical ds = true ->
  no_del_del ds = true /\
  added (line_stats ds) + changed (line_stats ds) = inserted ds /\
  removed (line_stats ds) + changed (line_stats ds) = deleted ds.
Proof.
  exact (fun ds H => conj (canonical_no_del_del ds H)
                          (conj (proj1 (line_stats_conserves_canonical ds H))
                                (proj1 (proj2 (line_stats_conserves_canonical ds H))))).
Qed.
Print Assumptions C12_linestats_canonical.

(* the hypothesis is needed: removedPending is assigned, not accumulated *)
Theorem C12_linestats_refuted_without_canonical :
  exists ds : list (op * N), removed (line_stats ds) + changed (line_stats ds) <> deleted ds.
Proof. exact line_stats_refuted_without_canonical. Qed.
Print Assumptions C12_linestats_refuted_without_canonical.

(* a whole non-merge step: summed over the entries LinesStatsCalculator returns for the commit *)
Theorem C12_commit_conservation : forall cs : list change,
  forallb ch_ok cs = true -> keys_distinct [] cs = true ->
  sum_ins (lsc_consume false cs) = fold_right (fun c a => ch_inserted c + a) 0 cs /\
  sum_del (lsc_consume false cs) = fold_right (fun c a => ch_deleted c + a) 0 cs.
Proof. exact lsc_consume_conserves. Qed.
Print Assumptions C12_commit_conservation.

(* ---- per-language figures sum to the totals: every developer tick of every run ------------------- *)
Theorem C12_language_sums : forall (cec : bool) (l : list step) (k : N * N) (dd : devtick),
  In (k, dd) (devs_result cec l) ->
  fold_right (fun e a => stats_add (snd e) a) zero_stats (dt_langs dd) = dt_stats dd.
Proof. exact language_sums. Qed.
Print Assumptions C12_language_sums.

(* ---- every commit is counted once -----------------------------------------------------------------
   [attributed cec l] = the replay steps at which DevsAnalysis.Consume executed dd.Commits++ .
   For every replay sequence that satisfies replay_ok (what C02/C14 give: the merge flag of a step says
   whether its commit is replayed more than once; at most one replay per parent):
   no commit is attributed twice; a replayed commit IS attributed when empty commits are counted or when
   every replay of it has a non-empty change list; nothing is attributed with an empty change list unless
   empty commits are counted. *)
Theorem C12_once : forall (cec : bool) (l : list step), replay_ok l = true ->
  NoDup (map s_commit (attributed cec l)) /\
  (forall c, In c (map s_commit l) ->
     (cec = true \/ forall s, In s l -> s_commit s = c -> s_changes s <> []) ->
     In c (map s_commit (attributed cec l))) /\
  (forall s, In s (attributed cec l) -> In s l /\ (cec = true \/ s_changes s <> [])).
Proof. exact devs_once. Qed.
Print Assumptions C12_once.

(* and the Commits counter of (tick, developer) in the result is the number of steps attributed there
   (for every sequence, no hypothesis) *)
Theorem C12_once_counters : forall (cec : bool) (l : list step) (k : N * N),
  commits_at (devs_result cec l) k = N.of_nat (length (filter (at_key k) (attributed cec l))).
Proof. exact devs_commits_counter. Qed.
Print Assumptions C12_once_counters.

(* the executable judgement the replay driver applies to the implementation's Commits counters (bounds per
   (tick, developer) computed from the replay sequence alone) accepts the model's result on every
   replay sequence satisfying replay_ok *)
Theorem C12_once_oracle : forall (cec : bool) (l : list step), replay_ok l = true ->
  once_ok cec l (map (fun e => (fst e, dt_commits (snd e))) (devs_result cec l)) = true.
Proof. exact once_ok_model. Qed.
Print Assumptions C12_once_oracle.

(* ---- the per-commit listing = the commits replayed on a single branch, each once ----------------- *)
Theorem C12_listing : forall l : list step, replay_ok l = true ->
  NoDup (map cs_commit (commits_run l)) /\
  (forall c, In c (map cs_commit (commits_run l)) <-> count_commit c l = 1).
Proof. exact commits_listing. Qed.
Print Assumptions C12_listing.

(* ---- conservation end to end on the model ---------------------------------------------------------
   In DevsResult, at every (tick, developer): added + changed = lines inserted and removed + changed =
   lines deleted by the diffs of the NON-MERGE steps attributed there (merge replays contribute nothing),
   provided the scripts have no two neighbouring deletions (C11) and every entry is named once (C20). *)
Theorem C12_devs_lines : forall (cec : bool) (l : list step) (k : N * N),
  (forall s, In s l -> s_ismerge s = false ->
     forallb ch_ok (s_changes s) && keys_distinct [] (s_changes s) = true) ->
  ins_at (devs_result cec l) k =
    sum_over (fun s => if s_ismerge s then 0 else step_inserted s) (filter (at_key k) (attributed cec l)) /\
  del_at (devs_result cec l) k =
    sum_over (fun s => if s_ismerge s then 0 else step_deleted s) (filter (at_key k) (attributed cec l)).
Proof. exact devs_lines_conserve. Qed.
Print Assumptions C12_devs_lines.

(* every entry of CommitsResult is a non-merge step, with conserving figures *)
Theorem C12_listing_lines : forall (l : list step) (cs : commit_stat), In cs (commits_run l) ->
  exists s, In s l /\ s_ismerge s = false /\ cs_commit cs = s_commit s /\ cs_author cs = s_author s /\
    (forallb ch_ok (s_changes s) && keys_distinct [] (s_changes s) = true ->
     sum_ins (cs_files cs) = step_inserted s /\ sum_del (cs_files cs) = step_deleted s).
Proof. exact commits_lines_conserve. Qed.
Print Assumptions C12_listing_lines.

(* ---- non-vacuity -------------------------------------------------------------------------------- *)
(* a canonical script with a changed block, a pure deletion and a pure insertion *)
Example C12_ex_script :
  let ds := [(OEq, 2); (ODel, 3); (OIns, 5); (OEq, 1); (ODel, 4); (OEq, 1); (OIns, 2)] in
  canonical ds = true /\ no_del_del ds = true /\ line_stats ds = mkStats 4 4 3 /\ inserted ds = 7 /\ deleted ds = 7.
Proof. vm_compute. repeat split. Qed.

(* a replay sequence with a root, two branches, an octopus-like merge (commit 3, three parents) replayed
   three times - first against a parent it does not differ from - and a two-parent commit replayed once *)
Definition ex_steps : list step :=
  [ mkStep 0 0 false 0 0 [ChInsert 0 1 (Some 3)];
    mkStep 1 1 false 1 0 [ChModify 0 1 [(OEq, 1); (ODel, 1); (OIns, 2); (OEq, 1)]];
    mkStep 2 1 false 0 1 [];
    mkStep 3 3 true 1 2 [];
    mkStep 3 3 true 1 2 [ChModify 0 1 [(OEq, 3); (OIns, 1)]];
    mkStep 3 3 true 1 3 [ChInsert 1 2 None];
    mkStep 4 2 false 0 3 [ChDelete 0 1 (Some 4); ChInsert 2 0 (Some 1)] ].

Example C12_ex_replay :
  replay_ok ex_steps = true /\
  map s_commit (attributed false ex_steps) = [0; 1; 4] /\
  map s_commit (attributed true ex_steps) = [0; 1; 2; 3; 4] /\
  map cs_commit (commits_run ex_steps) = [0; 1; 2; 4] /\
  commits_at (devs_result true ex_steps) (2, 1) = 1 /\
  forallb (fun s => s_ismerge s || step_wf s) ex_steps = true /\
  ins_at (devs_result true ex_steps) (0, 1) = 2 /\ del_at (devs_result true ex_steps) (0, 1) = 1 /\
  forallb (fun e => langs_sum_ok (snd e)) (devs_result true ex_steps) = true /\
  once_ok false ex_steps [((0, 0), 1); ((0, 1), 1); ((3, 0), 1)] = true /\
  once_ok false ex_steps [((0, 0), 1); ((0, 1), 1); ((3, 0), 1); ((2, 1), 1)] = true /\
  once_ok false ex_steps [((0, 0), 1); ((0, 1), 1); ((3, 0), 1); ((2, 1), 1); ((3, 1), 1)] = false /\
  once_ok false ex_steps [((0, 0), 1); ((0, 1), 2); ((3, 0), 1)] = false /\
  once_ok true ex_steps [((0, 0), 1); ((0, 1), 1); ((3, 0), 1)] = false.
Proof. vm_compute. repeat split. Qed.

(* the hypothesis of C12_once is needed: a merge replayed twice whose steps claim a single parent escapes the filter *)
Example C12_ex_replay_needed :
  let l := [mkStep 7 1 true 0 0 [ChInsert 0 0 (Some 1)]; mkStep 7 1 true 0 0 [ChInsert 0 0 (Some 1)]] in
  replay_ok l = false /\ map s_commit (attributed false l) = [7; 7].
Proof. vm_compute. repeat split. Qed.

Example C12_ex_commit :
  let cs := [ChInsert 0 1 (Some 3); ChDelete 1 1 (Some 2); ChInsert 2 0 None; ChModify 3 2 [(ODel, 2); (OIns, 1)]] in
  forallb ch_ok cs = true /\ keys_distinct [] cs = true /\ sum_ins (lsc_consume false cs) = 4 /\ sum_del (lsc_consume false cs) = 4.
Proof. vm_compute. repeat split. Qed.

(* ==== composition ==== *)
(* What C12 assumes of the planner / run loop ([replay_ok]) and of the diff scripts ([no_del_del] / [canonical])
   derived inside Coq from C02, C14 and C11 (coq/theories/Compose/RunReplay.v, ScriptShape.v; the plan translation
   [back_plan] and the validator [c04_ok] are explained at the end of coq/props/C14.v). *)
From Herc Require Compose.PlanRun Compose.RunReplay Compose.ScriptShape.
From Herc Require Pipeline.RunModel Plan.Syntax Plan.Lifecycle Plumbing.Script Plumbing.ScriptProofs.
Close Scope N_scope.

(* [replay_ok] holds of the replay sequence of every COMPLETED run of C14's model of Pipeline.Run on a plan that
   the validator of C02/C04 accepts for the commit graph g: [l] has one step per executed commit step, with that
   step's commit and the IsMerge flag the run handed to the items, and NumParents() at least the number of parent
   entries the commit has in g (g = the history restricted to the analysed commits).  Used: C02's specification
   (one replay per non-redundant parent, hence at most one per parent) and C14_is_merge (the flag is set iff the
   commit is replayed on two or more branches).  A run that is aborted has executed only a prefix of the replays
   while the flags are computed from the whole plan, so the statement is about runs that return a result. *)
Theorem C12_replay_ok_composed : forall (St U : Type) (sm : Pipeline.RunModel.sem St U)
    (items : list Pipeline.RunModel.item) (g : list (list nat)) (q : list Pipeline.RunModel.action) (nc : N),
  Plan.Lifecycle.c04_ok g (Compose.PlanRun.back_plan q) = true ->
  Compose.PlanRun.head_carriesb q = true ->
  forall (fins : list (Pipeline.RunModel.fincall U)) (sm' : Pipeline.RunModel.summary),
  Pipeline.RunModel.ro_out (Pipeline.RunModel.run St U sm items q nc) = Pipeline.RunModel.Done fins sm' ->
  forall l : list step,
  Forall2 (fun (s : step) (cs : Pipeline.RunModel.cstep U) =>
             s_commit s = Pipeline.RunModel.c_id (Pipeline.RunModel.cs_commit cs) /\
             s_ismerge s = Pipeline.RunModel.cs_merge cs /\
             (length (Plan.Syntax.parents g (N.to_nat (s_commit s))) <= N.to_nat (s_nparents s))%nat)
          l (Pipeline.RunModel.csteps (Pipeline.RunModel.ro_recs (Pipeline.RunModel.run St U sm items q nc))) ->
  replay_ok l = true.
Proof. exact Compose.RunReplay.replay_ok_composed. Qed.
Print Assumptions C12_replay_ok_composed.

(* C12_once with that hypothesis discharged *)
Theorem C12_once_composed : forall (St U : Type) (sm : Pipeline.RunModel.sem St U)
    (items : list Pipeline.RunModel.item) (g : list (list nat)) (q : list Pipeline.RunModel.action) (nc : N),
  Plan.Lifecycle.c04_ok g (Compose.PlanRun.back_plan q) = true ->
  Compose.PlanRun.head_carriesb q = true ->
  forall (fins : list (Pipeline.RunModel.fincall U)) (sm' : Pipeline.RunModel.summary),
  Pipeline.RunModel.ro_out (Pipeline.RunModel.run St U sm items q nc) = Pipeline.RunModel.Done fins sm' ->
  forall l : list step,
  Forall2 (fun (s : step) (cs : Pipeline.RunModel.cstep U) =>
             s_commit s = Pipeline.RunModel.c_id (Pipeline.RunModel.cs_commit cs) /\
             s_ismerge s = Pipeline.RunModel.cs_merge cs /\
             (length (Plan.Syntax.parents g (N.to_nat (s_commit s))) <= N.to_nat (s_nparents s))%nat)
          l (Pipeline.RunModel.csteps (Pipeline.RunModel.ro_recs (Pipeline.RunModel.run St U sm items q nc))) ->
  forall cec : bool,
  NoDup (map s_commit (attributed cec l)) /\
  (forall c, In c (map s_commit l) ->
     (cec = true \/ forall s, In s l -> s_commit s = c -> s_changes s <> []) ->
     In c (map s_commit (attributed cec l))) /\
  (forall s, In s (attributed cec l) -> In s l /\ (cec = true \/ s_changes s <> [])).
Proof. exact Compose.RunReplay.devs_once_composed. Qed.
Print Assumptions C12_once_composed.

(* ---- diff scripts: C11's shape against C12's ------------------------------------------------------
   [tr_script] reads a script of C11 (Plumbing/Script.v: runs with nat counts) as a script of C12.
   C12's [canonical] implies C11's, C11's implies [no_del_del] (all that C12_linestats needs); C11's does NOT
   imply C12's: C11 allows two neighbouring equal runs. *)
Theorem C12_shapes_composed :
  (forall ds, canonical (Compose.ScriptShape.tr_script ds) = true -> Plumbing.Script.canonical ds = true) /\
  (forall ds, Plumbing.Script.canonical ds = true -> no_del_del (Compose.ScriptShape.tr_script ds) = true) /\
  (exists ds, Plumbing.Script.canonical ds = true /\ canonical (Compose.ScriptShape.tr_script ds) = false).
Proof.
  exact (conj Compose.ScriptShape.c12_canonical_c11
        (conj Compose.ScriptShape.c11_canonical_no_del_del
              (ex_intro _ [(Plumbing.Script.Equal, 1%nat); (Plumbing.Script.Equal, 1%nat)] (conj eq_refl eq_refl)))).
Qed.
Print Assumptions C12_shapes_composed.

(* the model of the Modify loop written for C11 and the one written for C12 compute the same statistics on
   EVERY script *)
Theorem C12_linestats_models_agree : forall ds : list (Plumbing.Script.op * nat),
  line_stats (Compose.ScriptShape.tr_script ds) =
  mkStats (N.of_nat (Plumbing.Script.ls_added (Plumbing.Script.line_stats ds)))
          (N.of_nat (Plumbing.Script.ls_removed (Plumbing.Script.line_stats ds)))
          (N.of_nat (Plumbing.Script.ls_changed (Plumbing.Script.line_stats ds))).
Proof. exact Compose.ScriptShape.models_agree. Qed.
Print Assumptions C12_linestats_models_agree.

(* C12_linestats on every script that C11's validator accepts for the line lists [old] / [new] (what ./check C11
   evaluates on every output of FileDiff): the hypothesis [no_del_del] is discharged, and the growth is the
   difference of the two line counts *)
Theorem C12_linestats_composed : forall (old new : list (list Z)) (ds : list (Plumbing.Script.op * nat)),
  Plumbing.Script.lines_script_ok old new ds = true ->
  let st := line_stats (Compose.ScriptShape.tr_script ds) in
  no_del_del (Compose.ScriptShape.tr_script ds) = true /\
  (added st + changed st = inserted (Compose.ScriptShape.tr_script ds))%N /\
  (removed st + changed st = deleted (Compose.ScriptShape.tr_script ds))%N /\
  (Z.of_N (added st) - Z.of_N (removed st) = Z.of_nat (length new) - Z.of_nat (length old))%Z.
Proof.
  exact (fun old new ds =>
           Compose.ScriptShape.linestats_composed Plumbing.LineCount.list_eqb old new ds
             Plumbing.ScriptProofs.list_eqb_spec).
Qed.
Print Assumptions C12_linestats_composed.

Example C12_ex_composed_script :
  let ds := [(Plumbing.Script.Equal, 2%nat); (Plumbing.Script.Delete, 1%nat); (Plumbing.Script.Insert, 2%nat)] in
  Plumbing.Script.lines_script_ok [[1%Z]; [2%Z]; [3%Z]] [[1%Z]; [2%Z]; [4%Z]; [5%Z]] ds = true /\
  line_stats (Compose.ScriptShape.tr_script ds) = mkStats 1 0 1.
Proof. vm_compute. split; reflexivity. Qed.

(* non-vacuity of C12_replay_ok_composed: the plan of coq/props/C14.v (two roots 0 and 1 merged by commit 2, replayed on
   both branches with a boot action in between) run with C14's recording items; the hypotheses hold and the replay
   sequence read off the run has the merge commit twice with the flag *)
Definition cx_plan : list Pipeline.RunModel.action :=
  let c0 := Pipeline.RunModel.mkC 0 1500001000 in
  let c1 := Pipeline.RunModel.mkC 1 1500000010 in
  let c2 := Pipeline.RunModel.mkC 2 1500000020 in
  [Pipeline.RunModel.AOther Pipeline.RunModel.KEmerge (Some c0) [1%N]; Pipeline.RunModel.ACommit c0 [1%N];
   Pipeline.RunModel.AOther Pipeline.RunModel.KHibernate (Some c0) [1%N];
   Pipeline.RunModel.AOther Pipeline.RunModel.KEmerge (Some c1) [2%N]; Pipeline.RunModel.ACommit c1 [2%N];
   Pipeline.RunModel.ACommit c2 [2%N]; Pipeline.RunModel.AOther Pipeline.RunModel.KBoot (Some c2) [1%N];
   Pipeline.RunModel.ACommit c2 [1%N]; Pipeline.RunModel.AOther Pipeline.RunModel.KMerge None [2%N; 1%N]].
Definition cx_items : list Pipeline.RunModel.item :=
  [Pipeline.RunModel.mkItem 0 [3%N] [] false false false; Pipeline.RunModel.mkItem 1 [4%N] [3%N] true true true].
Definition cx_graph : list (list nat) := [[]; []; [0; 1]]%nat.
Definition cx_steps : list step :=
  map (fun cs => mkStep (Pipeline.RunModel.c_id (Pipeline.RunModel.cs_commit cs))
                        (N.of_nat (length (Plan.Syntax.parents cx_graph
                                      (N.to_nat (Pipeline.RunModel.c_id (Pipeline.RunModel.cs_commit cs))))))
                        (Pipeline.RunModel.cs_merge cs) 0 0 [])
      (Pipeline.RunModel.csteps (Pipeline.RunModel.ro_recs
         (Pipeline.RunModel.rec_run cx_items Pipeline.RunModel.INone cx_plan 3))).

Example C12_ex_composed_replay :
  Plan.Lifecycle.c04_ok cx_graph (Compose.PlanRun.back_plan cx_plan) = true /\
  Compose.PlanRun.head_carriesb cx_plan = true /\
  (exists fins sm', Pipeline.RunModel.ro_out (Pipeline.RunModel.rec_run cx_items Pipeline.RunModel.INone cx_plan 3)
                    = Pipeline.RunModel.Done fins sm') /\
  map (fun s => (s_commit s, s_nparents s, s_ismerge s)) cx_steps =
    [(0, 0, false); (1, 0, false); (2, 2, true); (2, 2, true)]%N /\
  replay_ok cx_steps = true.
Proof. vm_compute. repeat split. eexists. eexists. reflexivity. Qed.

(* ==== the judgements the replay driver applies to LONG replay sequences (scale cases: 10^3 .. 10^5 steps) ====
   coq/theories/LineStats/Fast.v groups the replay sequence by commit once (binary trie of the standard library)
   instead of walking it once per step; every fast function EQUALS the specification-level function it
   replaces, for every input, so that a verdict of the fast judgement is a verdict of the judgement the
   theorems above are about.  [keys] of the once-judgement is the list of (tick, developer) keys without
   repetitions, computed by the caller; the extracted [same_keys] checks that it has exactly the elements
   [once_ok] walks over. *)
From Herc Require Import LineStats.Fast.
Open Scope N_scope.

Theorem C12_fast_replay_ok : forall l : list step, replay_ok_fast l = replay_ok l.
Proof. exact replay_ok_fast_eq. Qed.
Print Assumptions C12_fast_replay_ok.

Theorem C12_fast_once_oracle : forall (cec : bool) (l : list step) (table : list ((N * N) * N)) (keys : list (N * N)),
  same_keys keys l table = true -> once_ok_fast cec l table keys = once_ok cec l table.
Proof. exact once_ok_fast_eq. Qed.
Print Assumptions C12_fast_once_oracle.

Theorem C12_fast_listing : forall (l : list step) (c : N), single_fast (steps_map l) c = single_branch l c.
Proof. exact single_fast_eq. Qed.
Print Assumptions C12_fast_listing.

Theorem C12_fast_runs : forall (cec : bool) (l : list step),
  commits_run_fast l = commits_run l /\ devs_result_fast cec l = devs_result cec l.
Proof. exact (fun cec l => conj (commits_run_fast_eq l) (devs_result_fast_eq cec l)). Qed.
Print Assumptions C12_fast_runs.

Example C12_ex_fast :
  replay_ok_fast ex_steps = true /\
  map (single_fast (steps_map ex_steps)) [0; 1; 2; 3; 4; 5] = [true; true; true; false; true; false] /\
  same_keys [(0, 0); (0, 1); (1, 0); (2, 1); (3, 1); (3, 0)] ex_steps [((0, 0), 1); ((0, 1), 1); ((3, 0), 1)] = true /\
  same_keys [(0, 0); (0, 1); (1, 0); (2, 1); (3, 1)] ex_steps [((0, 0), 1); ((0, 1), 1); ((3, 0), 1)] = false /\
  once_ok_fast false ex_steps [((0, 0), 1); ((0, 1), 1); ((3, 0), 1)] [(0, 0); (0, 1); (1, 0); (2, 1); (3, 1); (3, 0)] = true /\
  once_ok_fast false ex_steps [((0, 0), 1); ((0, 1), 2); ((3, 0), 1)] [(0, 0); (0, 1); (1, 0); (2, 1); (3, 1); (3, 0)] = false /\
  once_ok_fast true ex_steps [((0, 0), 1); ((0, 1), 1); ((3, 0), 1)] [(0, 0); (0, 1); (1, 0); (2, 1); (3, 1); (3, 0)] = false /\
  map cs_commit (commits_run_fast ex_steps) = [0; 1; 2; 4].
Proof. vm_compute. repeat split. Qed.
