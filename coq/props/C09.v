(* C09 - hibernation never changes results and its I/O failures surface as errors.
   Only statements closed by [exact] and their assumptions.

   [run o cfg io adv p fs0] is the model of Pipeline.Run on the plan p (Hibernation/Model.v):
   o    the abstract analysis item (BurndownAnalysis seen through size / compress / decompress /
        strip / encode / decode / consume / clone / merge / finalize),
   cfg  HibernationThreshold and HibernationToDisk,
   io   the oracle that names every temp file and decides which I/O operation fails,
   adv  the adversary: files removed or truncated before every plan step,
   fs0  the content of the hibernation directory before the run.
   The first three hypotheses of every theorem are what C06 proves of the allocator
   (C06_boot_hibernate, C06_file_roundtrip, C06_truncated); the hypotheses on [io_name] say that
   ioutil.TempFile never hands out a name twice nor the name of an existing file.
   [lifecycle_ok_h p] is the branch lifecycle predicate that C04 proves of insertHibernateBoot. *)
From Coq Require Import List ZArith Bool NArith.
From Herc Require Import Hibernation.Model Hibernation.Inv Hibernation.Erasure Hibernation.Theorems
     Hibernation.Faults Hibernation.Surface Hibernation.Example.
Import ListNotations.
Open Scope Z_scope.

(* Every plan with well-placed Hibernate / Boot actions, every threshold, memory or disk: when all
   I/O succeeds and nobody touches the files, the run gives exactly what the plan without the
   Hibernate / Boot actions gives (the same result, the same error, the same panic). *)
Theorem C09_erasure :
  forall (S H K R byte : Type) (o : ops S H K R byte),
    (forall s, size o s <> 0 -> decompress o (compress o s) = s) ->
    (forall h, decode o (strip o h) (encode o h) = Some h) ->
    (forall h j, (j < length (encode o h))%nat -> decode o (strip o h) (firstn j (encode o h)) = None) ->
  forall (cfg : config) (io : nat -> io_choice) (adv : nat -> list tamper) (fs0 : list (N * list byte)),
    (forall i j, io_name (io i) = io_name (io j) -> i = j) ->
    (forall i, fs_mem (io_name (io i)) fs0 = false) ->
  forall (cfg0 : config) (io0 : nat -> io_choice) (adv0 : nat -> list tamper)
         (p : list action) (fs00 : list (N * list byte)),
    (forall i, io_result (io i) = IoOk) -> (forall i, adv i = []) ->
    lifecycle_ok_h p = true ->
    outcome (run o cfg io adv p fs0) = outcome (run o cfg0 io0 adv0 (erase_hb p) fs00).
Proof. exact @erasure. Qed.
Print Assumptions C09_erasure.

(* After a successful run - whatever failed or was tampered with on the way - every file in the
   directory was there before the run: no temporary hibernation file remains. *)
Theorem C09_no_leftover :
  forall (S H K R byte : Type) (o : ops S H K R byte),
    (forall s, size o s <> 0 -> decompress o (compress o s) = s) ->
    (forall h, decode o (strip o h) (encode o h) = Some h) ->
    (forall h j, (j < length (encode o h))%nat -> decode o (strip o h) (firstn j (encode o h)) = None) ->
  forall (cfg : config) (io : nat -> io_choice) (adv : nat -> list tamper) (fs0 : list (N * list byte)),
    (forall i j, io_name (io i) = io_name (io j) -> i = j) ->
    (forall i, fs_mem (io_name (io i)) fs0 = false) ->
  forall (cfg0 : config) (io0 : nat -> io_choice) (adv0 : nat -> list tamper) (p : list action) (r : option R),
    lifecycle_ok_h p = true ->
    outcome (run o cfg io adv p fs0) = Ok r ->
    forall n, fs_mem n (files_left (run o cfg io adv p fs0)) = true -> fs_mem n fs0 = true.
Proof. exact @no_leftover. Qed.
Print Assumptions C09_no_leftover.

Theorem C09_no_leftover_empty_directory :
  forall (S H K R byte : Type) (o : ops S H K R byte),
    (forall s, size o s <> 0 -> decompress o (compress o s) = s) ->
    (forall h, decode o (strip o h) (encode o h) = Some h) ->
    (forall h j, (j < length (encode o h))%nat -> decode o (strip o h) (firstn j (encode o h)) = None) ->
  forall (cfg : config) (io : nat -> io_choice) (adv : nat -> list tamper),
    (forall i j, io_name (io i) = io_name (io j) -> i = j) ->
  forall (p : list action) (r : option R),
    lifecycle_ok_h p = true ->
    outcome (run o cfg io adv p []) = Ok r ->
    files_left (run o cfg io adv p []) = [].
Proof. exact @no_leftover_empty. Qed.
Print Assumptions C09_no_leftover_empty_directory.

(* Under ANY sequence of I/O failures (create, close, write, open, read, remove - decided by the
   oracle) and ANY removal / truncation of files by the adversary, the run either behaves exactly
   like the plan without hibernation or returns an I/O error; it never returns another result. *)
Theorem C09_faults :
  forall (S H K R byte : Type) (o : ops S H K R byte),
    (forall s, size o s <> 0 -> decompress o (compress o s) = s) ->
    (forall h, decode o (strip o h) (encode o h) = Some h) ->
    (forall h j, (j < length (encode o h))%nat -> decode o (strip o h) (firstn j (encode o h)) = None) ->
  forall (cfg : config) (io : nat -> io_choice) (adv : nat -> list tamper) (fs0 : list (N * list byte)),
    (forall i j, io_name (io i) = io_name (io j) -> i = j) ->
    (forall i, fs_mem (io_name (io i)) fs0 = false) ->
  forall (cfg0 : config) (io0 : nat -> io_choice) (adv0 : nat -> list tamper)
         (p : list action) (fs00 : list (N * list byte)),
    lifecycle_ok_h p = true ->
    outcome (run o cfg io adv p fs0) = outcome (run o cfg0 io0 adv0 (erase_hb p) fs00) \/
    exists e, outcome (run o cfg io adv p fs0) = Err e /\ io_err e = true.
Proof. exact @faults_dichotomy. Qed.
Print Assumptions C09_faults.

Theorem C09_faults_never_another_result :
  forall (S H K R byte : Type) (o : ops S H K R byte),
    (forall s, size o s <> 0 -> decompress o (compress o s) = s) ->
    (forall h, decode o (strip o h) (encode o h) = Some h) ->
    (forall h j, (j < length (encode o h))%nat -> decode o (strip o h) (firstn j (encode o h)) = None) ->
  forall (cfg : config) (io : nat -> io_choice) (adv : nat -> list tamper) (fs0 : list (N * list byte)),
    (forall i j, io_name (io i) = io_name (io j) -> i = j) ->
    (forall i, fs_mem (io_name (io i)) fs0 = false) ->
  forall (cfg0 : config) (io0 : nat -> io_choice) (adv0 : nat -> list tamper)
         (p : list action) (fs00 : list (N * list byte)) (r : option R),
    lifecycle_ok_h p = true ->
    outcome (run o cfg io adv p fs0) = Ok r ->
    outcome (run o cfg0 io0 adv0 (erase_hb p) fs00) = Ok r.
Proof. exact @never_another_result. Qed.
Print Assumptions C09_faults_never_another_result.

(* A failing create / close / write / open / read / remove surfaces: a run that ends Ok performed
   successful I/O operations only (every plan, no hypothesis at all). *)
Theorem C09_faults_io_failure_surfaces :
  forall (S H K R byte : Type) (o : ops S H K R byte)
         (cfg : config) (io : nat -> io_choice) (adv : nat -> list tamper)
         (p : list action) (fs0 : list (N * list byte)) (r : option R),
    fst (run o cfg io adv p fs0) = Ok r ->
    forall i, (i < nio (snd (run o cfg io adv p fs0)))%nat -> io_result (io i) = IoOk.
Proof. exact @run_io_ok. Qed.
Print Assumptions C09_faults_io_failure_surfaces.

(* A missing or truncated file surfaces at Boot.  The truncations that are detected are exactly the
   truncations to a PROPER PREFIX of what Hibernate wrote (C06_truncated for the real format);
   replacing bytes or appending is not a truncation and is not detected by the format. *)
Theorem C09_faults_boot_of_damaged_file :
  forall (S H K R byte : Type) (o : ops S H K R byte),
    (forall h j, (j < length (encode o h))%nat -> decode o (strip o h) (firstn j (encode o h)) = None) ->
  forall (io : nat -> io_choice) (b : Z) (st : rstate) (h : H) (n : N),
    (fs_get n (fs st) = None \/
     exists j, (j < length (encode o h))%nat /\ fs_get n (fs st) = Some (firstn j (encode o h))) ->
    exists e, fst (boot_item o io b st (HibDisk (strip o h) n)) = Err e /\ (e = EOpen \/ e = ERead).
Proof. exact @boot_damaged. Qed.
Print Assumptions C09_faults_boot_of_damaged_file.

(* ... and at the level of the run: if, after the adversary's move before step n, the temp file of
   some hibernated branch is missing or a proper prefix, the run does not end Ok. *)
Theorem C09_faults_damaged_file_surfaces :
  forall (S H K R byte : Type) (o : ops S H K R byte),
    (forall s, size o s <> 0 -> decompress o (compress o s) = s) ->
    (forall h, decode o (strip o h) (encode o h) = Some h) ->
    (forall h j, (j < length (encode o h))%nat -> decode o (strip o h) (firstn j (encode o h)) = None) ->
  forall (cfg : config) (io : nat -> io_choice) (adv : nat -> list tamper) (fs0 : list (N * list byte)),
    (forall i j, io_name (io i) = io_name (io j) -> i = j) ->
    (forall i, fs_mem (io_name (io i)) fs0 = false) ->
  forall (p : list action) (n : nat) (done rest : list action) (st : rstate),
    lifecycle_ok_h p = true ->
    exec_n o cfg io adv n [] p (start fs0) = Some (done, rest, st) ->
    (exists b k m h, tget b (br st) = Some (HibDisk k m) /\ strip o h = k /\
                     damaged o (apply_tampers (fs st) (adv n)) m h) ->
    forall r, outcome (run o cfg io adv p fs0) <> Ok r.
Proof. exact @damaged_file_surfaces. Qed.
Print Assumptions C09_faults_damaged_file_surfaces.

(* ---------------------------------------------------------------------------------------- *)
(* Non-vacuity: a concrete item satisfies the three assumptions, a plan of the shape the planner
   produces satisfies the lifecycle predicate, and the runs behave as the theorems say. *)

Example C09_assumptions_satisfiable :
  (forall s, size ex_ops s <> 0 -> decompress ex_ops (compress ex_ops s) = s) /\
  (forall h, decode ex_ops (strip ex_ops h) (encode ex_ops h) = Some h) /\
  (forall h j, (j < length (encode ex_ops h))%nat ->
               decode ex_ops (strip ex_ops h) (firstn j (encode ex_ops h)) = None) /\
  (forall i j, io_name (ex_io i) = io_name (ex_io j) -> i = j) /\
  lifecycle_ok_h ex_plan = true.
Proof.
  exact (conj ex_boot_hibernate (conj ex_file_roundtrip (conj ex_truncation_detected (conj ex_names_inj eq_refl)))).
Qed.

(* on disk: two temp files are written, read back and removed; same result as without hibernation *)
Example C09_erasure_example :
  let x := run ex_ops on_disk ex_io no_adv ex_plan [] in
  rev (evs (snd x)) = [EvHibDisk 1 4 1 5; EvBootDisk 1 1; EvHibDisk 2 10 3 11; EvBootDisk 2 3] /\
  files_left x = [] /\
  outcome x = outcome (run ex_ops in_memory ex_io no_adv (erase_hb ex_plan) []) /\
  exists r, outcome x = Ok (Some r).
Proof. vm_compute. repeat split. eexists. reflexivity. Qed.

(* threshold above the arena size with disk on - the situation of defect F6: nothing is written *)
Example C09_threshold_above_arena_example :
  let x := run ex_ops above_arena ex_io no_adv ex_plan [] in
  rev (evs (snd x)) = [EvHibStay 1 4; EvBootNop 1; EvHibStay 2 10; EvBootNop 2] /\
  files_left x = [] /\
  outcome x = outcome (run ex_ops in_memory ex_io no_adv (erase_hb ex_plan) []).
Proof. vm_compute. repeat split. Qed.

(* faults: file removed / truncated between Hibernate and Boot, create fails, remove fails *)
Example C09_faults_examples :
  outcome (run ex_ops on_disk ex_io (adv_at 5 [TRemove 1%N]) ex_plan []) = Err EOpen /\
  outcome (run ex_ops on_disk ex_io (adv_at 5 [TTrunc 1%N 3]) ex_plan []) = Err ERead /\
  outcome (run ex_ops on_disk ex_io (adv_at 5 [TTrunc 1%N 0]) ex_plan []) = Err ERead /\
  outcome (run ex_ops on_disk (ex_io_fail 0 0) no_adv ex_plan []) = Err ECreate /\
  outcome (run ex_ops on_disk (ex_io_fail 0 5) no_adv ex_plan []) = Err EWrite /\
  outcome (run ex_ops on_disk (ex_io_fail 1 1) no_adv ex_plan []) = Err ERead /\
  outcome (run ex_ops on_disk (ex_io_fail 1 2) no_adv ex_plan []) = Err ERemove.
Proof. vm_compute. repeat split. Qed.

(* the lifecycle hypothesis is needed: a Commit on a sleeping branch panics *)
Example C09_ill_placed_example :
  lifecycle_ok_h [AEmerge 1; ACommit 1 0; AHibernate 1 []; ACommit 1 1] = false /\
  outcome (run ex_ops on_disk ex_io no_adv [AEmerge 1; ACommit 1 0; AHibernate 1 []; ACommit 1 1] []) = Panic PUseHibernated.
Proof. vm_compute. split; reflexivity. Qed.
