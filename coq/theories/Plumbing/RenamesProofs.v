(* Proofs about the model of renames.go (Renames.v):
   A. sortableChange.Less is a strict total order on 20-byte hashes; the old one is not;
   B. the merge scan of stage 1: permutation facts for any comparison, exact counts for [less];
   C. matchA / matchB only re-pair, for any similarity predicate, candidate order, cap and cut;
   D. [consume] returns a re-pairing of its input (C13_repairing); soundness of [repairing_b];
   E. [consume] reports exactly min(#added, #deleted) exact renames per hash (C13_exact);
      soundness of [exact_b]. *)
From Coq Require Import List ZArith NArith Bool Lia Permutation Sorting.Sorted.
From Herc Require Import Plumbing.Renames.
Import ListNotations.

(* ================= A. the comparison ================= *)

Lemma less_irrefl : forall a, less a a = false.
Proof.
  induction a as [|x a IH]; cbn [less]; auto.
  rewrite N.ltb_irrefl. exact IH.
Qed.

Lemma less_trans : forall a b c, less a b = true -> less b c = true -> less a c = true.
Proof.
  induction a as [|x a IH]; intros b c Hab Hbc; cbn [less] in *; [discriminate|].
  destruct b as [|y b]; [discriminate|]. destruct c as [|z c]; [cbn in Hbc; discriminate|].
  cbn [less] in Hbc.
  destruct (N.ltb_spec x y), (N.ltb_spec y x), (N.ltb_spec y z), (N.ltb_spec z y),
           (N.ltb_spec x z), (N.ltb_spec z x); try discriminate; try reflexivity; try lia.
  eapply IH; eauto.
Qed.

Lemma less_asym : forall a b, less a b = true -> less b a = false.
Proof.
  intros a b H. destruct (less b a) eqn:E; auto.
  pose proof (less_trans _ _ _ H E) as F. rewrite less_irrefl in F. discriminate.
Qed.

Lemma less_tricho : forall a b, length a = length b ->
  less a b = false -> less b a = false -> a = b.
Proof.
  induction a as [|x a IH]; intros [|y b] Hl H1 H2; cbn [length] in Hl; try discriminate; auto.
  cbn [less] in H1, H2.
  destruct (N.ltb_spec x y), (N.ltb_spec y x); try discriminate; try lia.
  assert (x = y) by lia. subst. f_equal. apply IH; auto.
Qed.

Lemma hash_eqb_spec : forall a b, reflect (a = b) (hash_eqb a b).
Proof.
  induction a as [|x a IH]; intros [|y b]; cbn [hash_eqb]; try (constructor; congruence).
  destruct (N.eqb_spec x y); cbn [andb].
  - destruct (IH b); constructor; congruence.
  - constructor; congruence.
Qed.

Lemma hash_eqb_refl : forall a, hash_eqb a a = true.
Proof. intros a. destruct (hash_eqb_spec a a); congruence. Qed.

Lemma entry_eqb_spec : forall x y, reflect (x = y) (entry_eqb x y).
Proof.
  intros [n1 h1 s1] [n2 h2 s2]. unfold entry_eqb; cbn [e_name e_hash e_size].
  destruct (N.eqb_spec n1 n2), (hash_eqb_spec h1 h2), (Z.eqb_spec s1 s2); cbn [andb];
    constructor; congruence.
Qed.

Lemma oentry_eqb_spec : forall x y, reflect (x = y) (oentry_eqb x y).
Proof.
  intros [a|] [b|]; cbn [oentry_eqb]; try (constructor; congruence).
  destruct (entry_eqb_spec a b); constructor; congruence.
Qed.

Lemma change_eqb_spec : forall c d : option entry * option entry, reflect (c = d) (change_eqb c d).
Proof.
  intros [f1 t1] [f2 t2]. unfold change_eqb; cbn [fst snd].
  destruct (oentry_eqb_spec f1 f2), (oentry_eqb_spec t1 t2); cbn [andb]; constructor; congruence.
Qed.

(* ================= multiset helpers ================= *)

Section MSub.
  Context {A : Type} (eqb : A -> A -> bool) (eqb_spec : forall x y, reflect (x = y) (eqb x y)).

  Lemma remove1_perm : forall x l r, remove1 eqb x l = Some r -> Permutation l (x :: r).
  Proof.
    induction l as [|y l IH]; intros r H; cbn [remove1] in H; [discriminate|].
    destruct (eqb_spec x y) as [->|N].
    - inversion H; subst. reflexivity.
    - destruct (remove1 eqb x l) as [r'|] eqn:E; [|discriminate]. inversion H; subst.
      rewrite (IH r' eq_refl). apply perm_swap.
  Qed.

  Lemma msub_perm : forall m l r, msub eqb l m = Some r -> Permutation l (m ++ r).
  Proof.
    induction m as [|x m IH]; intros l r H; cbn [msub] in H.
    - inversion H; subst. reflexivity.
    - destruct (remove1 eqb x l) as [l'|] eqn:E; [|discriminate].
      rewrite (remove1_perm _ _ _ E). cbn [app]. constructor. apply IH; auto.
  Qed.

  Lemma perm_b_sound : forall l m, perm_b eqb l m = true -> Permutation l m.
  Proof.
    unfold perm_b. intros l m H. destruct (msub eqb l m) as [[|? ?]|] eqn:E; try discriminate.
    rewrite (msub_perm _ _ _ E). rewrite app_nil_r. reflexivity.
  Qed.
End MSub.

(* ================= the specification of "re-pairing" ================= *)

(* out consists of the modifications of the input, unchanged, and of [rest], in which every deleted
   entry of the input occurs exactly once as a From side (alone = still a deletion, or paired = the
   source of a rename), every added entry exactly once as a To side (alone = still an addition, or
   paired = the target of a rename), and nothing else occurs. *)
Definition repairing (inp out : list (option entry * option entry)) : Prop :=
  exists rest, Permutation out (mods inp ++ rest) /\
               Permutation (froms rest) (dels inp) /\
               Permutation (tos rest) (adds inp) /\
               Forall (fun c => nonempty c = true) rest.

Lemma repairing_b_sound : forall inp out, repairing_b inp out = true -> repairing inp out.
Proof.
  unfold repairing_b, repairing. intros inp out H.
  destruct (msub change_eqb out (mods inp)) as [rest|] eqn:E; [|discriminate].
  apply andb_true_iff in H as [H H3]. apply andb_true_iff in H as [H1 H2].
  exists rest. repeat split.
  - apply (msub_perm change_eqb change_eqb_spec); auto.
  - apply (perm_b_sound entry_eqb entry_eqb_spec); auto.
  - apply (perm_b_sound entry_eqb entry_eqb_spec); auto.
  - apply Forall_forall. rewrite forallb_forall in H3. auto.
Qed.

Lemma froms_app : forall a b, froms (a ++ b) = froms a ++ froms b.
Proof. intros. unfold froms. apply flat_map_app. Qed.
Lemma tos_app : forall a b, tos (a ++ b) = tos a ++ tos b.
Proof. intros. unfold tos. apply flat_map_app. Qed.

Lemma froms_ren : forall l, froms (map c_ren l) = map fst l.
Proof. induction l as [|p l IH]; cbn; auto. f_equal; auto. Qed.
Lemma tos_ren : forall l, tos (map c_ren l) = map snd l.
Proof. induction l as [|p l IH]; cbn; auto. f_equal; auto. Qed.
Lemma froms_add : forall l, froms (map c_add l) = [].
Proof. induction l; cbn; auto. Qed.
Lemma tos_add : forall l, tos (map c_add l) = l.
Proof. induction l as [|x l IH]; cbn; auto. f_equal; auto. Qed.
Lemma froms_del : forall l, froms (map c_del l) = l.
Proof. induction l as [|x l IH]; cbn; auto. f_equal; auto. Qed.
Lemma tos_del : forall l, tos (map c_del l) = [].
Proof. induction l; cbn; auto. Qed.

(* ================= B. the merge scan ================= *)

Lemma scan_with_perm : forall lt fuel a d m sa sd,
  scan_with lt fuel a d = (m, sa, sd) ->
  Permutation a (map snd m ++ sa) /\ Permutation d (map fst m ++ sd).
Proof.
  intros lt. induction fuel as [|f IH]; intros a d m sa sd H; cbn [scan_with] in H.
  - inversion H; subst. split; reflexivity.
  - destruct a as [|x a']; [inversion H; subst; split; reflexivity|].
    destruct d as [|y d']; [inversion H; subst; split; reflexivity|].
    destruct (hash_eqb (e_hash x) (e_hash y)).
    + destruct (scan_with lt f a' d') as [[m' sa'] sd'] eqn:E. inversion H; subst.
      destruct (IH _ _ _ _ _ E) as [P1 P2]. cbn [map fst snd app]. split; constructor; auto.
    + destruct (lt (e_hash x) (e_hash y)).
      * destruct (scan_with lt f a' (y :: d')) as [[m' sa'] sd'] eqn:E. inversion H; subst.
        destruct (IH _ _ _ _ _ E) as [P1 P2]. split; auto.
        rewrite P1. apply Permutation_middle.
      * destruct (scan_with lt f (x :: a') d') as [[m' sa'] sd'] eqn:E. inversion H; subst.
        destruct (IH _ _ _ _ _ E) as [P1 P2]. split; auto.
        rewrite P2. apply Permutation_middle.
Qed.

(* what sort.Sort guarantees for a strict weak order: no later element is Less than an earlier one *)
Definition hsorted (l : list entry) : Prop :=
  StronglySorted (fun x y => less (e_hash y) (e_hash x) = false) l.

Definition wf20 (l : list entry) : Prop := forall e, In e l -> length (e_hash e) = 20%nat.

Definition pair_count (h : list N) (m : list (entry * entry)) : nat :=
  length (filter (fun p => hash_eqb (e_hash (snd p)) h) m).

Lemma count_hash_cons : forall h x l,
  count_hash h (x :: l) = ((if hash_eqb (e_hash x) h then 1 else 0) + count_hash h l)%nat.
Proof. intros. unfold count_hash. cbn [filter]. destruct (hash_eqb (e_hash x) h); cbn [length]; lia. Qed.

Lemma count_hash_zero : forall h l, (forall e, In e l -> e_hash e <> h) -> count_hash h l = 0%nat.
Proof.
  intros h. induction l as [|x l IH]; intros H; [reflexivity|].
  rewrite count_hash_cons. rewrite IH by (intros; apply H; right; auto).
  destruct (hash_eqb_spec (e_hash x) h) as [E|]; auto. exfalso. apply (H x); [left; auto|auto].
Qed.

Lemma count_hash_perm : forall h l l', Permutation l l' -> count_hash h l = count_hash h l'.
Proof.
  intros h l l' P. induction P; auto.
  - rewrite !count_hash_cons. lia.
  - rewrite !count_hash_cons. lia.
  - lia.
Qed.

Lemma count_hash_app : forall h l l', count_hash h (l ++ l') = (count_hash h l + count_hash h l')%nat.
Proof. intros. unfold count_hash. rewrite filter_app, app_length. reflexivity. Qed.

Lemma hsorted_tail : forall x l, hsorted (x :: l) -> hsorted l.
Proof. intros x l H. inversion H; auto. Qed.

Lemma hsorted_head : forall x l y, hsorted (x :: l) -> In y (x :: l) -> less (e_hash y) (e_hash x) = false.
Proof.
  intros x l y H [<-|Hy]; [apply less_irrefl|].
  inversion H as [|? ? ? HF]; subst. rewrite Forall_forall in HF. auto.
Qed.

Lemma wf20_tail : forall x l, wf20 (x :: l) -> wf20 l.
Proof. intros x l H e He. apply H. right; auto. Qed.

(* the number of exact matches reported for each hash is the smaller of the two counts, the
   leftovers are exactly the rest, and every matched pair has equal hashes *)
Lemma scan_spec : forall fuel a d, (length a + length d <= fuel)%nat ->
  wf20 a -> wf20 d -> hsorted a -> hsorted d ->
  forall m sa sd, scan_with less fuel a d = (m, sa, sd) ->
  (forall p, In p m -> e_hash (fst p) = e_hash (snd p)) /\
  forall h, pair_count h m = Nat.min (count_hash h a) (count_hash h d) /\
            (count_hash h sa + pair_count h m = count_hash h a)%nat /\
            (count_hash h sd + pair_count h m = count_hash h d)%nat.
Proof.
  induction fuel as [|f IH]; intros a d Hf Wa Wd Ha Hd m sa sd H.
  - destruct a, d; cbn [length] in Hf; try lia. cbn in H. inversion H; subst.
    split; [intros p []|]. intros h. cbn. auto.
  - cbn [scan_with] in H.
    destruct a as [|x a'].
    { inversion H; subst. split; [intros p []|]. intros h. unfold pair_count. cbn. lia. }
    destruct d as [|y d'].
    { inversion H; subst. split; [intros p []|]. intros h. unfold pair_count. cbn [filter length].
      replace (count_hash h []) with 0%nat by reflexivity. lia. }
    destruct (hash_eqb_spec (e_hash x) (e_hash y)) as [E|NE].
    + destruct (scan_with less f a' d') as [[m' sa'] sd'] eqn:E1. inversion H; subst.
      destruct (IH a' d' ltac:(cbn [length] in Hf; lia) (wf20_tail _ _ Wa) (wf20_tail _ _ Wd)
                   (hsorted_tail _ _ Ha) (hsorted_tail _ _ Hd) _ _ _ E1) as [Q1 Q2].
      split.
      * intros p [<-|Hp]; cbn [fst snd]; auto.
      * intros h. destruct (Q2 h) as (R1 & R2 & R3).
        rewrite !count_hash_cons. unfold pair_count in *. cbn [filter snd].
        rewrite <- E. destruct (hash_eqb (e_hash x) h); cbn [length]; lia.
    + destruct (less (e_hash x) (e_hash y)) eqn:L.
      * destruct (scan_with less f a' (y :: d')) as [[m' sa'] sd'] eqn:E1. inversion H; subst.
        destruct (IH a' (y :: d') ltac:(cbn [length] in *; lia) (wf20_tail _ _ Wa) Wd
                     (hsorted_tail _ _ Ha) Hd _ _ _ E1) as [Q1 Q2].
        split; auto. intros h. destruct (Q2 h) as (R1 & R2 & R3).
        rewrite (count_hash_cons h x a'), (count_hash_cons h x sa').
        destruct (hash_eqb_spec (e_hash x) h) as [Eh|Nh]; [|lia].
        (* nothing in y :: d' carries the hash of x *)
        assert (Z0 : count_hash h (y :: d') = 0%nat).
        { apply count_hash_zero. intros e He Ee.
          pose proof (hsorted_head _ _ _ Hd He) as G. rewrite Ee, <- Eh, L in G. discriminate. }
        lia.
      * destruct (scan_with less f (x :: a') d') as [[m' sa'] sd'] eqn:E1. inversion H; subst.
        destruct (IH (x :: a') d' ltac:(cbn [length] in *; lia) Wa (wf20_tail _ _ Wd)
                     Ha (hsorted_tail _ _ Hd) _ _ _ E1) as [Q1 Q2].
        split; auto. intros h. destruct (Q2 h) as (R1 & R2 & R3).
        rewrite (count_hash_cons h y d'), (count_hash_cons h y sd').
        destruct (hash_eqb_spec (e_hash y) h) as [Eh|Nh]; [|lia].
        (* trichotomy: y is less than x, so nothing in x :: a' carries the hash of y *)
        assert (L' : less (e_hash y) (e_hash x) = true).
        { destruct (less (e_hash y) (e_hash x)) eqn:G; auto. exfalso. apply NE.
          apply less_tricho; auto. rewrite (Wa x), (Wd y); cbn; auto. }
        assert (Z0 : count_hash h (x :: a') = 0%nat).
        { apply count_hash_zero. intros e He Ee.
          pose proof (hsorted_head _ _ _ Ha He) as G. rewrite Ee, <- Eh, L' in G. discriminate. }
        lia.
Qed.

(* ================= C. matchA / matchB ================= *)

Lemma remove_nth_perm : forall {A} (l : list A) a x,
  nth_error l a = Some x -> Permutation l (x :: remove_nth a l).
Proof.
  intros A. induction l as [|y l IH]; intros a x H; destruct a; cbn in H; try discriminate.
  - inversion H; subst. reflexivity.
  - cbn [remove_nth]. rewrite (IH _ _ H) at 1. apply perm_swap.
Qed.

Section Oracles.
  Variable sort_hash : list entry -> list entry.
  Variable sort_size : list entry -> list entry.
  Variable cand_order : entry -> list (nat * entry) -> list nat.
  Variable blobs_close : entry -> entry -> bool.

  Lemma try_cands_nth : forall maxc me pool cands ci a x,
    try_cands blobs_close maxc me pool cands ci = Some (Some (a, x)) -> nth_error pool a = Some x.
  Proof.
    intros maxc me pool. induction cands as [|c cands IH]; intros ci a x H; cbn [try_cands] in H.
    - discriminate.
    - destruct (maxc <? ci)%Z; [discriminate|].
      destruct (nth_error pool c) as [y|] eqn:E; [|discriminate].
      destruct (blobs_close me y).
      + inversion H; subst. auto.
      + eapply IH; eauto.
  Qed.

  (* whatever the predicate, the candidate order, the cap and the cut: the pairs together with
     what is left are a permutation of what was there *)
  Lemma match_gen_perm : forall thr maxc cut todo pool pstart ms pl tl,
    match_gen cand_order blobs_close thr maxc cut todo pool pstart = Some (ms, pl, tl) ->
    Permutation todo (map fst ms ++ tl) /\ Permutation pool (map snd ms ++ pl).
  Proof.
    intros thr maxc. induction cut as [|cut IH]; intros todo pool pstart ms pl tl H.
    - cbn [match_gen] in H. inversion H; subst. split; reflexivity.
    - cbn [match_gen] in H. destruct todo as [|me todo'].
      { inversion H; subst. split; reflexivity. }
      set (p1 := skip_far thr (e_size me) (skipn pstart pool) pstart) in *.
      destruct (try_cands blobs_close maxc me pool
                  (cand_order me (window thr (e_size me) (skipn p1 pool) p1)) 0) as [[[a x]|]|] eqn:T;
        [| |discriminate].
      + destruct (match_gen cand_order blobs_close thr maxc cut todo' (remove_nth a pool) p1)
          as [[[ms' pl'] tl']|] eqn:E; [|discriminate].
        inversion H; subst. destruct (IH _ _ _ _ _ _ E) as [P1 P2].
        cbn [map fst snd app]. split; [constructor; auto|].
        rewrite (remove_nth_perm pool a x (try_cands_nth _ _ _ _ _ _ _ T)). constructor; auto.
      + destruct (match_gen cand_order blobs_close thr maxc cut todo' pool p1)
          as [[[ms' pl'] tl']|] eqn:E; [|discriminate].
        inversion H; subst. destruct (IH _ _ _ _ _ _ E) as [P1 P2]. split; auto.
        rewrite P1. apply Permutation_middle.
  Qed.

  Lemma match_a_perm : forall thr maxc cut added deleted ms al dl,
    match_a cand_order blobs_close thr maxc cut added deleted = Some (ms, al, dl) ->
    Permutation deleted (map fst ms ++ dl) /\ Permutation added (map snd ms ++ al).
  Proof.
    unfold match_a. intros thr maxc cut added deleted ms al dl H.
    destruct (match_gen cand_order blobs_close thr maxc cut deleted added 0) as [[[ms' pl] tl]|] eqn:E;
      [|discriminate].
    inversion H; subst. eapply match_gen_perm; eauto.
  Qed.

  Lemma match_b_perm : forall thr maxc cut added deleted ms al dl,
    match_b cand_order blobs_close thr maxc cut added deleted = Some (ms, al, dl) ->
    Permutation deleted (map fst ms ++ dl) /\ Permutation added (map snd ms ++ al).
  Proof.
    unfold match_b. intros thr maxc cut added deleted ms al dl H.
    destruct (match_gen cand_order blobs_close thr maxc cut added deleted 0) as [[[ms' pl] tl]|] eqn:E;
      [|discriminate].
    inversion H; subst. destruct (match_gen_perm _ _ _ _ _ _ _ _ _ E) as [P1 P2].
    rewrite !map_map. cbn [fst snd]. split; auto.
  Qed.

  (* ================= D. Consume is a re-pairing ================= *)

  Hypothesis sort_hash_perm : forall l, Permutation (sort_hash l) l.
  Hypothesis sort_size_perm : forall l, Permutation (sort_size l) l.

  Lemma filter_split_perm : forall (l : list entry),
    Permutation l (filter not_small l ++ filter is_small l).
  Proof.
    induction l as [|x l IH]; [reflexivity|]. cbn [filter]. unfold not_small at 1.
    destruct (is_small x); cbn [negb app].
    - rewrite IH at 1. apply Permutation_middle.
    - constructor. exact IH.
  Qed.

  Lemma malformed_false_nonempty : forall cs, malformed cs = false ->
    Forall (fun c => nonempty c = true) cs.
  Proof.
    induction cs as [|[[f|] [t|]] cs IH]; cbn; intros H; constructor; auto; try discriminate;
      try (apply IH; auto).
  Qed.

  (* the facts about the winner's result that both theorems need *)
  Lemma winner_perm : forall thr maxc (winner_b : bool) cut_a cut_b ab db ms al dl,
    (if winner_b then match_b cand_order blobs_close thr maxc cut_b ab db
     else match_a cand_order blobs_close thr maxc cut_a ab db) = Some (ms, al, dl) ->
    Permutation db (map fst ms ++ dl) /\ Permutation ab (map snd ms ++ al).
  Proof.
    intros thr maxc [|] cut_a cut_b ab db ms al dl H.
    - eapply match_b_perm; eauto.
    - eapply match_a_perm; eauto.
  Qed.

  Theorem consume_repairing : forall thr0 winner_b cut_a cut_b cs out,
    consume sort_hash sort_size cand_order blobs_close thr0 winner_b cut_a cut_b cs = Ok out ->
    repairing cs out.
  Proof.
    intros thr0 winner_b cut_a cut_b cs out H. unfold consume in H.
    destruct (malformed cs) eqn:M; [discriminate|].
    unfold stage1 in H.
    destruct (scan (sort_hash (adds cs)) (sort_hash (dels cs))) as [[exact sa] sd] eqn:S.
    set (thr := effective_threshold thr0) in *. set (maxc := cap_of sa sd) in *.
    set (ab := sort_size (filter not_small sa)) in *. set (db := sort_size (filter not_small sd)) in *.
    destruct (if winner_b then match_b cand_order blobs_close thr maxc cut_b ab db
              else match_a cand_order blobs_close thr maxc cut_a ab db) as [[[ms al] dl]|] eqn:W;
      [|discriminate].
    inversion H; subst out; clear H.
    destruct (scan_with_perm _ _ _ _ _ _ _ S) as [PA PD].
    destruct (winner_perm _ _ _ _ _ _ _ _ _ _ W) as [QD QA].
    unfold stage3.
    exists (map c_ren exact ++ map c_ren ms ++ map c_add al ++ map c_del dl
            ++ map c_add (filter is_small sa) ++ map c_del (filter is_small sd)).
    split; [reflexivity|]. split; [|split].
    - rewrite !froms_app, !froms_ren, !froms_add, !froms_del. cbn [app]. rewrite ?app_nil_r.
      symmetry. etransitivity; [symmetry; apply sort_hash_perm|]. etransitivity; [apply PD|].
      apply Permutation_app_head. etransitivity; [apply filter_split_perm|].
      rewrite app_assoc. apply Permutation_app_tail.
      etransitivity; [symmetry; apply sort_size_perm|]. exact QD.
    - rewrite !tos_app, !tos_ren, !tos_add, !tos_del. cbn [app]. rewrite ?app_nil_r.
      symmetry. etransitivity; [symmetry; apply sort_hash_perm|]. etransitivity; [apply PA|].
      apply Permutation_app_head. etransitivity; [apply filter_split_perm|].
      rewrite app_assoc. apply Permutation_app_tail.
      etransitivity; [symmetry; apply sort_size_perm|]. exact QA.
    - rewrite !Forall_app. repeat split; apply Forall_forall; intros c Hc;
        apply in_map_iff in Hc as [x [<- _]]; reflexivity.
  Qed.

  (* Consume fails only on a malformed change (both sides empty), and then with an error *)
  Lemma consume_err_iff : forall thr0 winner_b cut_a cut_b cs,
    consume sort_hash sort_size cand_order blobs_close thr0 winner_b cut_a cut_b cs = Err <->
    malformed cs = true.
  Proof.
    intros. unfold consume. destruct (malformed cs); [split; auto|].
    destruct (stage1 sort_hash cs) as [[[mds exact] sa] sd].
    destruct (if winner_b then _ else _) as [r|]; split; intros; discriminate.
  Qed.

  (* ================= E. identical content is never missed ================= *)

  Hypothesis sort_hash_sorted : forall l, wf20 l -> hsorted (sort_hash l).

  Lemma count_same_app : forall h a b, count_same h (a ++ b) = (count_same h a + count_same h b)%nat.
  Proof. intros. unfold count_same. rewrite filter_app, app_length. reflexivity. Qed.

  Lemma count_same_add : forall h l, count_same h (map c_add l) = 0%nat.
  Proof. induction l; cbn; auto. Qed.
  Lemma count_same_del : forall h l, count_same h (map c_del l) = 0%nat.
  Proof. induction l; cbn; auto. Qed.

  Lemma count_same_exact : forall h (m : list (entry * entry)),
    (forall p, In p m -> e_hash (fst p) = e_hash (snd p)) ->
    count_same h (map c_ren m) = pair_count h m.
  Proof.
    intros h. induction m as [|p m IH]; intros H; [reflexivity|].
    unfold count_same, pair_count in *. cbn [map filter c_ren same_hash].
    rewrite (H p (or_introl eq_refl)).
    destruct (hash_eqb (e_hash (snd p)) h); cbn [andb length]; rewrite IH; auto;
      intros; apply H; right; auto.
  Qed.

  Lemma count_same_none : forall h (m : list (entry * entry)),
    (forall p, In p m -> e_hash (fst p) = h -> e_hash (snd p) = h -> False) ->
    count_same h (map c_ren m) = 0%nat.
  Proof.
    intros h. induction m as [|p m IH]; intros H; [reflexivity|].
    unfold count_same in *. cbn [map filter c_ren same_hash].
    destruct (hash_eqb_spec (e_hash (fst p)) h) as [E1|]; cbn [andb];
      [destruct (hash_eqb_spec (e_hash (snd p)) h) as [E2|]|]; cbn [length];
      try (apply IH; intros; eapply H; eauto; right; auto).
    exfalso. eapply H; eauto. left; auto.
  Qed.

  Lemma count_hash_pos : forall h l e, In e l -> e_hash e = h -> (1 <= count_hash h l)%nat.
  Proof.
    intros h. induction l as [|x l IH]; intros e He E; [destruct He|].
    destruct He as [<-|He]; rewrite count_hash_cons.
    - rewrite E, hash_eqb_refl. lia.
    - specialize (IH _ He E). lia.
  Qed.

  Definition wf_hashes (cs : list (option entry * option entry)) : Prop :=
    wf20 (adds cs) /\ wf20 (dels cs).

  Lemma wf_hashes_b_spec : forall cs, wf_hashes_b cs = true -> wf_hashes cs.
  Proof.
    unfold wf_hashes_b, wf_hashes, wf20. intros cs H. apply andb_true_iff in H as [H1 H2].
    rewrite forallb_forall in H1, H2. split; intros e He; [apply H1 in He|apply H2 in He];
      unfold wf_entry in He; apply Nat.eqb_eq in He; auto.
  Qed.

  Theorem consume_exact : forall thr0 winner_b cut_a cut_b cs out,
    wf_hashes cs ->
    consume sort_hash sort_size cand_order blobs_close thr0 winner_b cut_a cut_b cs = Ok out ->
    forall h, count_same h out =
              (count_same h (mods cs) + Nat.min (count_hash h (adds cs)) (count_hash h (dels cs)))%nat.
  Proof.
    intros thr0 winner_b cut_a cut_b cs out [WA WD] H h. unfold consume in H.
    destruct (malformed cs) eqn:M; [discriminate|].
    unfold stage1 in H.
    destruct (scan (sort_hash (adds cs)) (sort_hash (dels cs))) as [[exact sa] sd] eqn:S.
    set (thr := effective_threshold thr0) in *. set (maxc := cap_of sa sd) in *.
    set (ab := sort_size (filter not_small sa)) in *. set (db := sort_size (filter not_small sd)) in *.
    destruct (if winner_b then match_b cand_order blobs_close thr maxc cut_b ab db
              else match_a cand_order blobs_close thr maxc cut_a ab db) as [[[ms al] dl]|] eqn:W;
      [|discriminate].
    inversion H; subst out; clear H.
    assert (WA' : wf20 (sort_hash (adds cs))).
    { intros e He. apply WA. eapply Permutation_in; [apply sort_hash_perm|]; auto. }
    assert (WD' : wf20 (sort_hash (dels cs))).
    { intros e He. apply WD. eapply Permutation_in; [apply sort_hash_perm|]; auto. }
    destruct (scan_spec _ _ _ (le_n _) WA' WD' (sort_hash_sorted _ WA) (sort_hash_sorted _ WD) _ _ _ S)
      as [EQ CNT].
    destruct (CNT h) as (C1 & C2 & C3).
    rewrite (count_hash_perm h _ _ (sort_hash_perm (adds cs))) in C1, C2.
    rewrite (count_hash_perm h _ _ (sort_hash_perm (dels cs))) in C1, C3.
    destruct (winner_perm _ _ _ _ _ _ _ _ _ _ W) as [QD QA].
    unfold stage3. rewrite !count_same_app, !count_same_add, !count_same_del.
    rewrite (count_same_exact h exact EQ), C1.
    rewrite (count_same_none h ms); [lia|].
    (* a similarity rename with both hashes = h would need h among the leftovers on both sides *)
    intros p Hp E1 E2.
    assert (I1 : In (fst p) sd).
    { assert (In (fst p) db).
      { eapply Permutation_in; [symmetry; exact QD|]. apply in_or_app. left. apply in_map; auto. }
      unfold db in H. apply (Permutation_in _ (sort_size_perm _)) in H.
      apply filter_In in H as [H _]; auto. }
    assert (I2 : In (snd p) sa).
    { assert (In (snd p) ab).
      { eapply Permutation_in; [symmetry; exact QA|]. apply in_or_app. left. apply in_map; auto. }
      unfold ab in H. apply (Permutation_in _ (sort_size_perm _)) in H.
      apply filter_In in H as [H _]; auto. }
    pose proof (count_hash_pos h _ _ I1 E1). pose proof (count_hash_pos h _ _ I2 E2). lia.
  Qed.

  (* ================= no panic ================= *)
  (* sortRenameCandidates only reorders the candidates it is given: then no index is out of range *)
  Hypothesis cand_order_incl : forall me l a, In a (cand_order me l) -> In a (map fst l).

  Lemma nth_error_skipn_add : forall {A} n (l : list A) k, nth_error (skipn n l) k = nth_error l (n + k).
  Proof.
    intros A. induction n as [|n IH]; intros l k; [reflexivity|].
    destruct l as [|x l]; cbn [skipn plus nth_error]; [destruct k; reflexivity|apply IH].
  Qed.

  Lemma window_in : forall thr my l i0 i x, In (i, x) (window thr my l i0) ->
    exists k, i = (i0 + k)%nat /\ nth_error l k = Some x.
  Proof.
    intros thr my. induction l as [|y l IH]; intros i0 i x H; cbn [window] in H; [destruct H|].
    destruct (sizes_close thr my (e_size y)); [|destruct H].
    destruct H as [H|H].
    - inversion H; subst. exists 0%nat. split; [lia|reflexivity].
    - destruct (IH _ _ _ H) as [k [-> Hk]]. exists (S k). split; [lia|exact Hk].
  Qed.

  Lemma try_cands_some : forall maxc me pool cands ci,
    (forall a, In a cands -> exists x, nth_error pool a = Some x) ->
    try_cands blobs_close maxc me pool cands ci <> None.
  Proof.
    intros maxc me pool. induction cands as [|c cands IH]; intros ci H; cbn [try_cands]; [discriminate|].
    destruct (maxc <? ci)%Z; [discriminate|].
    destruct (H c (or_introl eq_refl)) as [x ->].
    destruct (blobs_close me x); [discriminate|]. apply IH. intros a Ha. apply H. right; auto.
  Qed.

  Lemma match_gen_some : forall thr maxc cut todo pool pstart,
    match_gen cand_order blobs_close thr maxc cut todo pool pstart <> None.
  Proof.
    intros thr maxc. induction cut as [|cut IH]; intros todo pool pstart; cbn [match_gen]; [discriminate|].
    destruct todo as [|me todo']; [discriminate|].
    set (p1 := skip_far thr (e_size me) (skipn pstart pool) pstart).
    destruct (try_cands blobs_close maxc me pool
                (cand_order me (window thr (e_size me) (skipn p1 pool) p1)) 0) as [[[a x]|]|] eqn:T.
    - specialize (IH todo' (remove_nth a pool) p1).
      destruct (match_gen cand_order blobs_close thr maxc cut todo' (remove_nth a pool) p1) as [[[? ?] ?]|];
        [discriminate|congruence].
    - specialize (IH todo' pool p1).
      destruct (match_gen cand_order blobs_close thr maxc cut todo' pool p1) as [[[? ?] ?]|];
        [discriminate|congruence].
    - exfalso. revert T. apply try_cands_some. intros a Ha.
      apply cand_order_incl in Ha. apply in_map_iff in Ha as [[i x] [<- Hi]]. cbn [fst].
      apply window_in in Hi as [k [-> Hk]]. exists x. rewrite <- Hk. symmetry. apply nth_error_skipn_add.
  Qed.

  Theorem consume_no_panic : forall thr0 winner_b cut_a cut_b cs,
    consume sort_hash sort_size cand_order blobs_close thr0 winner_b cut_a cut_b cs <> Panic.
  Proof.
    intros. unfold consume. destruct (malformed cs); [discriminate|].
    destruct (stage1 sort_hash cs) as [[[mds exact] sa] sd].
    set (thr := effective_threshold thr0). set (maxc := cap_of sa sd).
    set (ab := sort_size (filter not_small sa)). set (db := sort_size (filter not_small sd)).
    destruct winner_b; unfold match_a, match_b.
    - pose proof (match_gen_some thr maxc cut_b ab db 0) as G.
      destruct (match_gen cand_order blobs_close thr maxc cut_b ab db 0) as [[[? ?] ?]|]; [discriminate|congruence].
    - pose proof (match_gen_some thr maxc cut_a db ab 0) as G.
      destruct (match_gen cand_order blobs_close thr maxc cut_a db ab 0) as [[[? ?] ?]|]; [discriminate|congruence].
  Qed.

End Oracles.

(* soundness of the executable count oracle *)
Lemma count_same_zero : forall h cs, ~ In h (map e_hash (froms cs)) -> count_same h cs = 0%nat.
Proof.
  intros h. induction cs as [|c cs IH]; intros H; [reflexivity|].
  unfold count_same in *. cbn [filter]. unfold froms in H. cbn [flat_map] in H.
  rewrite map_app, in_app_iff in H.
  assert (G : same_hash h c = false).
  { destruct c as [[f|] [t|]]; cbn [same_hash]; auto.
    destruct (hash_eqb_spec (e_hash f) h) as [E|]; cbn [andb]; auto.
    exfalso. apply H. left. cbn [fst map]. left. exact E. }
  rewrite G. apply IH. intros I. apply H. right. exact I.
Qed.

Lemma count_hash_zero_notin : forall h l, ~ In h (map e_hash l) -> count_hash h l = 0%nat.
Proof.
  intros h l H. apply count_hash_zero. intros e He E. apply H. rewrite <- E. apply in_map; auto.
Qed.

Lemma exact_b_sound : forall inp out, exact_b inp out = true ->
  forall h, count_same h out =
            (count_same h (mods inp) + Nat.min (count_hash h (adds inp)) (count_hash h (dels inp)))%nat.
Proof.
  unfold exact_b. intros inp out H h. rewrite forallb_forall in H.
  destruct (in_dec (list_eq_dec N.eq_dec) h (hashes_of inp out)) as [I|NI].
  - specialize (H h I). unfold exact_at in H. apply Nat.eqb_eq in H. exact H.
  - unfold hashes_of in NI. rewrite !in_app_iff in NI.
    rewrite (count_same_zero h out) by tauto.
    rewrite (count_same_zero h (mods inp)) by tauto.
    rewrite (count_hash_zero_notin h (adds inp)) by tauto. reflexivity.
Qed.

(* ================= the comparison, in one statement ================= *)
Theorem less_strict_total :
  (forall a, less a a = false) /\
  (forall a b c, less a b = true -> less b c = true -> less a c = true) /\
  (forall a b, length a = 20%nat -> length b = 20%nat -> less a b = false -> less b a = false -> a = b).
Proof.
  split; [exact less_irrefl|]. split; [exact less_trans|].
  intros a b Ha Hb. apply less_tricho. congruence.
Qed.

(* ================= a concrete sort (insertion sort, what sort.Sort does up to 12 elements) =================
   used for the non-vacuity examples: the assumptions made on sort.Sort are satisfiable *)
Fixpoint insert_by (lt : entry -> entry -> bool) (x : entry) (l : list entry) : list entry :=
  match l with
  | [] => [x]
  | y :: l' => if lt x y then x :: y :: l' else y :: insert_by lt x l'
  end.
Fixpoint isort_by (lt : entry -> entry -> bool) (l : list entry) : list entry :=
  match l with
  | [] => []
  | x :: l' => insert_by lt x (isort_by lt l')
  end.

Definition lt_hash (x y : entry) : bool := less (e_hash x) (e_hash y).
Definition lt_size (x y : entry) : bool := (e_size x <? e_size y)%Z.

Lemma insert_by_perm : forall lt x l, Permutation (insert_by lt x l) (x :: l).
Proof.
  intros lt x. induction l as [|y l IH]; cbn [insert_by]; [reflexivity|].
  destruct (lt x y); [reflexivity|]. rewrite IH. apply perm_swap.
Qed.

Lemma isort_by_perm : forall lt l, Permutation (isort_by lt l) l.
Proof.
  intros lt. induction l as [|x l IH]; cbn [isort_by]; [reflexivity|].
  rewrite insert_by_perm. constructor. exact IH.
Qed.

Lemma insert_hash_sorted : forall x l, hsorted l -> hsorted (insert_by lt_hash x l).
Proof.
  intros x. induction l as [|y l IH]; intros H; cbn [insert_by].
  - constructor; constructor.
  - unfold lt_hash at 1. destruct (less (e_hash x) (e_hash y)) eqn:L.
    + constructor; [exact H|]. apply Forall_forall. intros z Hz.
      pose proof (hsorted_head _ _ _ H Hz) as G.
      destruct (less (e_hash z) (e_hash x)) eqn:F; auto.
      rewrite (less_trans _ _ _ F L) in G. discriminate.
    + inversion H as [|? ? Hs Hf]; subst. constructor; [apply IH; exact Hs|].
      apply Forall_forall. intros z Hz.
      apply (Permutation_in _ (insert_by_perm lt_hash x l)) in Hz. destruct Hz as [<-|Hz]; [exact L|].
      rewrite Forall_forall in Hf. auto.
Qed.

Lemma isort_hash_sorted : forall l, hsorted (isort_by lt_hash l).
Proof.
  induction l as [|x l IH]; cbn [isort_by]; [constructor|]. apply insert_hash_sorted. exact IH.
Qed.
