(* Completeness of the execution-time lifecycle oracle: [run_spec single n log -> run_okb single n log = true].
   Together with RunLifecycleSound.v: the oracle rejects a call log exactly when the log violates the declarative
   statement, so a PROPFAIL of the stream c04run is never an artefact of the oracle. *)
From Coq Require Import List Bool Arith Lia.
From Herc Require Import Plan.RunLifecycle Plan.RunLifecycleSound.
Import ListNotations.

Definition wf_log (l : list event) : Prop := forall l1 e l2, l = l1 ++ e :: l2 -> event_ok l1 e.

Lemma wf_log_snoc l e : wf_log (l ++ [e]) -> wf_log l /\ event_ok l e.
Proof.
  intro H. split.
  - intros l1 e' l2 Heq. apply (H l1 e' (l2 ++ [e])). subst l. rewrite <- app_assoc. reflexivity.
  - apply (H l e []). reflexivity.
Qed.

Lemma NoDup_rl_nodupb l : NoDup l -> rl_nodupb l = true.
Proof.
  induction 1 as [|x r Hx Hr IH]; simpl.
  - reflexivity.
  - rewrite IH, andb_true_r. apply negb_true_iff. apply rl_mem_false. exact Hx.
Qed.

Lemma nil_of_no_member {A} (l : list A) : (forall x, ~ In x l) -> l = [].
Proof. destruct l as [|a r]; intro H; [reflexivity | exfalso; apply (H a); left; reflexivity]. Qed.

Lemma last_consumed_snoc_inv l e i c :
  last_consumed (l ++ [e]) i c -> e = EConsume i c \/ (last_consumed l i c /\ forall c', e <> EConsume i c').
Proof.
  intros [l1 [l2 [Heq Hn]]]. apply snoc_split' in Heq. destruct Heq as [[H2 [H1 He]] | [l2' [H2 Hl]]].
  - left. exact He.
  - right. subst l2. split.
    + exists l1, l2'. split; [exact Hl|]. intros c' Hin. apply (Hn c'). apply in_or_app. left. exact Hin.
    + intros c' He. apply (Hn c'). apply in_or_app. right. left. exact He.
Qed.

Lemma created_in_mono l e i : created_in l i -> created_in (l ++ [e]) i.
Proof. intro H. apply created_in_snoc. left. exact H. Qed.

(* in a well-formed log only existing instances have incorporated anything *)
Lemma incorporated_created l i c : incorporated l i c -> wf_log l -> created_in l i.
Proof.
  induction 1 as [l i c | l s ts t c Ht Hs IH | l i os j k c Hj Hk Hinc IH | l e i c Hinc IH]; intro Hwf;
    apply wf_log_snoc in Hwf; destruct Hwf as [Hwf Hev].
  - apply created_in_mono. destruct Hev as [Hu _]. apply (Hu i). left. reflexivity.
  - apply created_in_snoc. right. exact Ht.
  - apply created_in_mono. destruct Hev as [Hu _]. apply (Hu j). exact Hj.
  - apply created_in_mono. apply IH. exact Hwf.
Qed.

Lemma incorporated_snoc_inv l e i c :
  incorporated (l ++ [e]) i c ->
  (e = EConsume i c) \/
  (exists s ts, e = EFork s ts /\ In i ts /\ incorporated l s c) \/
  (exists j os k, e = EMerge j os /\ In i (j :: os) /\ In k (j :: os) /\ incorporated l k c) \/
  incorporated l i c.
Proof.
  intro H. remember (l ++ [e]) as l' eqn:El.
  destruct H as [l0 i c | l0 s ts t c Ht Hs | l0 j os i k c Hj Hk Hinc | l0 e0 i c Hinc];
    apply app_inj_tail in El; destruct El as [El Ee]; subst.
  - left. reflexivity.
  - right. left. exists s, ts. auto.
  - right. right. left. exists j, os, k. auto.
  - right. right. right. exact Hinc.
Qed.

(* the converse directions of the two one-way clauses of [Inv] *)
Record InvC (l : list event) (s : rstate) : Prop := mkInvC {
  invc_lastc : forall i c, last_consumed l i c -> rl_getc (r_lastc s) i = Some c;
  invc_incs : forall i c, incorporated l i c -> In c (rl_geti (r_incs s) i)
}.

Lemma invc_init : InvC [] rinit.
Proof.
  constructor.
  - intros i c [l1 [l2 [Heq _]]]. destruct l1; discriminate.
  - intros i c H. inversion H as [l0 ? ? E | l0 ? ? ? ? ? ? E | l0 ? ? ? ? ? ? ? ? E | l0 ? ? ? ? E];
      destruct l0; discriminate.
Qed.

Lemma invc_step l s e : wf_log (l ++ [e]) -> Inv l s -> InvC l s -> InvC (l ++ [e]) (rl_apply s e).
Proof.
  intros Hwf HI [Hl Hi]. constructor.
  - (* last consumed *)
    intros i c H. apply last_consumed_snoc_inv in H.
    destruct e as [j | src ts | j c0 | j os | j | j | j | j]; simpl;
      try (destruct H as [H | [H _]]; [discriminate | apply Hl; exact H]).
    destruct (j =? i) eqn:E.
    + apply Nat.eqb_eq in E. subst j. destruct H as [H | [_ H]].
      * injection H as H. subst. reflexivity.
      * exfalso. apply (H c0). reflexivity.
    + destruct H as [H | [H _]].
      * injection H as H1 H2. apply Nat.eqb_neq in E. exfalso. apply E. exact H1.
      * apply Hl. exact H.
  - (* incorporated *)
    intros i c H. pose proof (wf_log_snoc l e Hwf) as [Hwfl Hev].
    apply incorporated_snoc_inv in H.
    destruct e as [j | src ts | j c0 | j os | j | j | j | j]; simpl;
      try (destruct H as [H | [[? [? [H _]]] | [[? [? [? [H _]]]] | H]]]; try discriminate; apply Hi; exact H).
    + (* fork *)
      rewrite (rl_geti_app_map (fun _ => rl_geti (r_incs s) src)).
      destruct H as [H | [[s0 [ts0 [H [Hin Hinc]]]] | [[? [? [? [H _]]]] | H]]]; try discriminate.
      * injection H as H1 H2. subst s0 ts0. apply rl_mem_In in Hin. rewrite Hin. apply Hi. exact Hinc.
      * destruct (rl_mem i ts) eqn:E; [|apply Hi; exact H].
        (* a fork target did not exist before, so it had incorporated nothing *)
        exfalso. apply rl_mem_In in E. destruct Hev as [_ [_ [Hnew _]]].
        apply (Hnew i E). apply (incorporated_created l i c H Hwfl).
    + (* consume *)
      destruct (j =? i) eqn:E.
      * apply Nat.eqb_eq in E. subst j.
        destruct H as [H | [[? [? [H _]]] | [[? [? [? [H _]]]] | H]]]; try discriminate.
        -- injection H as H. subst. left. reflexivity.
        -- right. apply Hi. exact H.
      * destruct H as [H | [[? [? [H _]]] | [[? [? [? [H _]]]] | H]]]; try discriminate.
        -- injection H as H1 H2. apply Nat.eqb_neq in E. exfalso. apply E. exact H1.
        -- apply Hi. exact H.
    + (* merge *)
      set (u := nodup Nat.eq_dec (flat_map (rl_geti (r_incs s)) (j :: os))).
      change (In c (rl_geti (map (fun k => (k, (fun _ => u) k)) (j :: os) ++ r_incs s) i)).
      rewrite (rl_geti_app_map (fun _ => u)).
      destruct H as [H | [[? [? [H _]]] | [[j0 [os0 [k [H [Hin [Hk Hinc]]]]]] | H]]]; try discriminate.
      * injection H as H1 H2. subst j0 os0. apply rl_mem_In in Hin. rewrite Hin.
        unfold u. apply nodup_In. apply in_flat_map. exists k. split; [exact Hk | apply Hi; exact Hinc].
      * destruct (rl_mem i (j :: os)) eqn:E; [|apply Hi; exact H].
        apply rl_mem_In in E. unfold u. apply nodup_In. apply in_flat_map. exists i. split; [exact E | apply Hi; exact H].
Qed.

(* a call the statement allows passes the check *)
Lemma event_ok_check l s e : Inv l s -> InvC l s -> event_ok l e -> rl_check s e = true.
Proof.
  intros HI HC [Hu [Hnd [Hnew Hm]]]. unfold rl_check.
  repeat (apply andb_true_iff; split).
  - apply forallb_forall. intros i Hin. destruct (Hu i Hin) as [Hc [Hh Hf]]. unfold rl_liveb.
    repeat (apply andb_true_iff; split).
    + apply rl_mem_In. apply (inv_created l s HI). exact Hc.
    + apply negb_true_iff. apply rl_mem_false. intro H. apply Hh. apply (inv_hibs l s HI). exact H.
    + apply negb_true_iff. apply rl_mem_false. intro H. apply Hf. apply (inv_finals l s HI). exact H.
  - apply NoDup_rl_nodupb. exact Hnd.
  - apply forallb_forall. intros i Hin. apply negb_true_iff. apply rl_mem_false. intro H.
    apply (Hnew i Hin). apply (inv_created l s HI). exact H.
  - destruct e as [j | src ts | j c0 | j os | j | j | j | j]; try reflexivity.
    + (* merge *)
      destruct Hm as [Hnd' [c Hc]]. apply andb_true_iff. split; [apply NoDup_rl_nodupb; exact Hnd'|].
      rewrite (invc_lastc l s HC j c (Hc j (or_introl eq_refl))).
      apply forallb_forall. intros k Hk. rewrite (invc_lastc l s HC k c (Hc k (or_intror Hk))). apply Nat.eqb_refl.
    + (* boot *)
      destruct Hm as [Hc [Hh Hf]]. repeat (apply andb_true_iff; split).
      * apply rl_mem_In. apply (inv_created l s HI). exact Hc.
      * apply rl_mem_In. apply (inv_hibs l s HI). exact Hh.
      * apply negb_true_iff. apply rl_mem_false. intro H. apply Hf. apply (inv_finals l s HI). exact H.
    + (* finalize *)
      destruct Hm as [Hh Hf]. apply andb_true_iff. split.
      * rewrite (nil_of_no_member (r_hibs s)); [reflexivity|]. intros k Hk. apply (Hh k). apply (inv_hibs l s HI). exact Hk.
      * rewrite (nil_of_no_member (r_finals s)); [reflexivity|]. intros k Hk. apply (Hf k). apply (inv_finals l s HI). exact Hk.
Qed.

Lemma wf_exec l : wf_log l -> exists s, rl_exec rinit l = Some s /\ Inv l s /\ InvC l s /\ length (r_finals s) <= 1.
Proof.
  induction l as [|e l IH] using rev_ind; intro Hwf.
  - exists rinit. split; [reflexivity | split; [apply inv_init | split; [apply invc_init | simpl; lia]]].
  - pose proof (wf_log_snoc l e Hwf) as [Hwfl Hev].
    destruct (IH Hwfl) as [s [He [HI [HC Hlen]]]].
    pose proof (event_ok_check l s e HI HC Hev) as Hchk.
    exists (rl_apply s e). split; [|split; [|split]].
    + rewrite rl_exec_app, He. simpl. unfold rl_exec1. rewrite Hchk. reflexivity.
    + apply inv_step. exact HI.
    + apply invc_step; assumption.
    + destruct e as [j | src ts | j c0 | j os | j | j | j | j]; simpl; try exact Hlen.
      (* finalize: the check saw no earlier Finalize *)
      unfold rl_check in Hchk. apply andb_true_iff in Hchk. destruct Hchk as [_ Hchk].
      apply andb_true_iff in Hchk. destruct Hchk as [_ Hchk]. apply rl_is_nil_eq in Hchk. rewrite Hchk. simpl. lia.
Qed.

Theorem run_lifecycle_complete : forall (single : bool) (n : nat) (log : list event),
  run_spec single n log -> run_okb single n log = true.
Proof.
  intros single n log [Hwf [Hnh [i [Hfin Hinc]]]].
  destruct (wf_exec log Hwf) as [s [He [HI [HC Hlen]]]].
  unfold run_okb. rewrite He. unfold final_okb. apply andb_true_iff. split.
  - rewrite (nil_of_no_member (r_hibs s)); [reflexivity|]. intros k Hk. apply (Hnh k). apply (inv_hibs log s HI). exact Hk.
  - apply (inv_finals log s HI) in Hfin.
    destruct (r_finals s) as [|a [|b r]] eqn:Ef.
    + destruct Hfin.
    + destruct Hfin as [Hfin | []]. subst a. destruct single; [|reflexivity]. simpl.
      apply forallb_forall. intros c Hc. apply in_seq in Hc. apply rl_mem_In.
      apply (invc_incs log s HC). apply Hinc; [reflexivity | lia].
    + simpl in Hlen. lia.
Qed.

Corollary run_lifecycle_exact : forall single n log, run_okb single n log = true <-> run_spec single n log.
Proof. intros. split; [apply run_lifecycle_sound | apply run_lifecycle_complete]. Qed.
