(* C06: replay the harness trace through the extracted Gallina model of rbtree.Allocator
   (malloc / free / Used / Size / Clone / Hibernate / Boot / Serialize / Deserialize) and judge the
   implementation's own outputs with the extracted oracles. *)
open C06_model
open Conv

(* ---- conversions ---- *)
let ints_of_ns l = List.map int_of_n l
let ns_of_ints l = List.map n_of_int l
let show_ints l = "[" ^ String.concat ";" (List.map string_of_int l) ^ "]"
type icell = int * int * int * int * int * bool
let icell_of_cell (c : cell) : icell =
  (int_of_n c.ckey, int_of_n c.cval, int_of_n c.cleft, int_of_n c.cparent, int_of_n c.cright, c.ccolor)
let cell_of_icell ((k, v, l, p, r, c) : icell) : cell =
  { ckey = n_of_int k; cval = n_of_int v; cleft = n_of_int l; cparent = n_of_int p; cright = n_of_int r; ccolor = c }
let show_cell ((k, v, l, p, r, c) : icell) = Printf.sprintf "(%d %d %d %d %d %b)" k v l p r c

let pclass_name = function
  | PHibUse -> "hibuse" | PCloneHib -> "clonehib" | PAlreadyHib -> "alreadyhib" | PBootSerialized -> "bootser"
  | PFreeZero -> "freezero" | PAssert -> "assert" | PIndex -> "index" | PMaxSize -> "maxsize" | PNilMap -> "nilmap"
  | PSerAwake -> "serawake" | PDeserAwake -> "deserawake"

let pan : 'a. 'a result -> pclass option = function Panic p -> Some p | _ -> None

(* ---- observed allocator state ---- *)
type otree = { root : int; cnt : int; bad : bool; ids : int list option (* None: allocator asleep *) }
type ost = {
  othr : int; ost : icell list option; og : int list option; ohs : int; ohg : int; ohd : int list;
  ou : int; osz : int; otrees : (int * otree) list; oraws : (int * int list) list }

let initial_ost = { othr = 0; ost = Some []; og = Some []; ohs = 0; ohg = 0; ohd = [-1; -1; -1; -1; -1; -1; -1];
                    ou = 0; osz = 0; otrees = []; oraws = [] }

let opt_list_of_sx (f : sx -> 'a) (s : sx) : 'a list option =
  match args s with
  | [A "nil"] -> None
  | l -> Some (List.map f l)

let icell_of_sx s = match ints_of_sx s with
  | [k; v; l; p; r; c] -> (k, v, l, p, r, c <> 0)
  | _ -> failwith "cell"

let parse_state (s : sx) : int * ost =
  let idx = int_of_sx (List.hd (args s)) in
  let f t = field t s in
  let one t = int_of_sx (List.hd (args (f t))) in
  let trees = List.filter_map (fun x -> if tag x = "T" then
      (match args x with
       | [t; root; cnt; A "hib"] -> Some (int_of_sx t, { root = int_of_sx root; cnt = int_of_sx cnt; bad = false; ids = None })
       | [t; root; cnt; bad; ids] -> Some (int_of_sx t, { root = int_of_sx root; cnt = int_of_sx cnt; bad = bool_of_sx bad; ids = Some (ints_of_sx ids) })
       | _ -> failwith "tree state") else None) (args s) in
  let raws = List.filter_map (fun x -> if tag x = "R" then
      (match args x with [o; ids] -> Some (int_of_sx o, ints_of_sx ids) | _ -> failwith "raw state") else None) (args s) in
  (idx, { othr = one "thr"; ost = opt_list_of_sx icell_of_sx (f "s"); og = opt_list_of_sx int_of_sx (f "g");
          ohs = one "hs"; ohg = one "hg"; ohd = List.map int_of_sx (args (f "hd")); ou = one "u"; osz = one "sz";
          otrees = trees; oraws = raws })

(* ---- the world of one case ---- *)
let raw_owner o = 100 + o

type st = {
  mutable worlds : world array;            (* model: allocator + owners, per allocator *)
  mutable obs : ost array;                 (* last observed state per allocator *)
  mutable tree_alloc : int array;          (* tree index -> allocator index *)
  lz_c : (int list, int list) Hashtbl.t;   (* uint32 buffer -> compressed bytes, as observed *)
  lz_d : (int list, int list) Hashtbl.t;   (* compressed bytes -> what the real decompressor returned *)
  before_hib : (int, icell list option * int list option) Hashtbl.t;  (* observed arena when it went to sleep *)
  obs_hd : (int, int list option list) Hashtbl.t;                     (* observed contents of the seven buffers *)
  serialized : (int, int * int * int list option list * int list) Hashtbl.t; (* per allocator: observed hs, hg, buffers, file bytes *)
}

let compress_tbl (s : st) (buf : n list) : n list =
  let k = ints_of_ns buf in
  match Hashtbl.find_opt s.lz_c k with
  | Some b -> ns_of_ints b
  | None -> failwith ("model compresses a buffer the implementation did not: " ^ show_ints k)

let decompress_tbl (s : st) (data : n list) (len : nat) : n list =
  let k = ints_of_ns data in
  match Hashtbl.find_opt s.lz_d k with
  | Some b -> if List.length b <> int_of_nat len then failwith "model decompresses with another length" else ns_of_ints b
  | None -> failwith "model decompresses bytes that no compression produced"

let model_ids (w : world) (o : int) : int list = List.sort compare (ints_of_ns (ids_of w (nat_of_int o)))

let hd_lens (a : alloc) : int list =
  List.map (function None -> -1 | Some b -> List.length b) a.hdata


(* ---- scale streams: big operations are judged inside the harness by streaming comparison; the trace
   carries verdicts (counts, lengths, first differing index).  Here the verdicts become findings:
   PROPFAIL for the property's clauses (no aliasing, Used() = live + 1, lossless round trip incl. the
   recorded LZ4 assumption, refusal while hibernated, truncated files rejected), MISMATCH for what only
   the model defines (Used() = size - gaps, hibernation lengths, file layout via the extracted write_varint). *)
let big_ops = ["bnewtree"; "bfill"; "bholes"; "berase"; "bclone"; "bchk"; "brt"; "blz"]

let judge_lz pf mm what n v =
  count "lz4_buffers";
  match v with
  | A "ok" -> count "lz4_big_ok"
  | A "none" -> ()
  | A "spurious" -> mm (what ^ ": a compressed block for an empty input")
  | A "empty" -> pf (Printf.sprintf "LZ4 assumption violated (%s): CompressUInt32Slice returned an empty block for %d elements; the buffer cannot be restored" what n)
  | L [A "diff"; idx; want; got; nd] ->
      pf (Printf.sprintf "LZ4 round trip failed (%s, %d elements): element %s is %s after DecompressUInt32Slice(CompressUInt32Slice(..)), was %s; %s element(s) differ"
            what n (atom idx) (atom got) (atom want) (atom nd))
  | x -> failwith ("lz verdict " ^ string_of_sx x)

let judge_big id c =
  let ops = args (field "ops" c) and obs = args (field "obs" c) in
  if List.length ops <> List.length obs then failwith "ops/obs length";
  List.iteri (fun i (o, ob) ->
    let here = Printf.sprintf "op#%d %s" i (string_of_sx o) in
    let mm what = mismatch id (here ^ " " ^ what) in
    let pf what = propfail id (here ^ " " ^ what) in
    let res = List.hd (args ob) in
    let one t x = int_of_sx (List.hd (args (field t x))) in
    match tag res with
    | "skip" -> count "skipped"
    | "hang" -> pf "the operation did not terminate"
    | "panic" -> mm ("a tree / allocator operation panics on an awake allocator: " ^ string_of_sx res)
    | "ok" -> ()
    | "bfill" -> count "big_fills"
    | "bholes" ->
        (match List.map int_of_sx (args res) with
         | [_; lost] -> if lost > 0 then pf (Printf.sprintf "%d element(s) the tree must hold were not found" lost)
         | _ -> failwith "bholes")
    | "blz" ->
        (match args res with
         | [n; _; v; intact] ->
             judge_lz pf mm "synthetic buffer" (int_of_sx n) v;
             if not (bool_of_sx intact) then mm "CompressUInt32Slice modified its input"
         | _ -> failwith "blz")
    | "bchk" ->
        count "big_checkpoints";
        List.iter (fun a ->
          match args a with
          | [_; A "asleep"; _; _] -> count "asleep_states"
          | ai :: _ ->
              let ai = int_of_sx ai in
              let sz = one "sz" a and sz2 = (match args (field "sz" a) with [_; x] -> int_of_sx x | _ -> -1) in
              let ng = one "ng" a and u = one "u" a and live = one "live" a in
              count "awake_states_judged";
              if sz <> sz2 then mm (Printf.sprintf "allocator %d: Size()=%d, storage has %d cells" ai sz2 sz);
              if u <> sz - ng then mm (Printf.sprintf "allocator %d: Used()=%d, size %d - %d gaps" ai u sz ng);
              if one "dup" a > 0 then pf (Printf.sprintf "allocator %d: %d cell(s) are reached twice (two owners share a node)" ai (one "dup" a));
              if one "oob" a > 0 then pf (Printf.sprintf "allocator %d: a tree reaches %d node(s) outside the arena" ai (one "oob" a));
              if one "gown" a > 0 then pf (Printf.sprintf "allocator %d: %d owned node(s) are gaps" ai (one "gown" a));
              if one "gbad" a > 0 then pf (Printf.sprintf "allocator %d: %d gap(s) are slot 0 or outside the arena" ai (one "gbad" a));
              if (sz = 0 && (u <> 0 || live <> 0)) || (sz > 0 && u <> live + 1) then
                pf (Printf.sprintf "allocator %d: Used()=%d but %d live nodes (+1 reserved)" ai u live);
              List.iter (fun t -> if tag t = "T" then
                match args t with
                | [ti; n; len; reached; L [A "panic"; cls]] ->
                    pf (Printf.sprintf "tree %s (must hold %s, Len %s, reaches %s) cannot be walked: panic %s" (atom ti) (atom n) (atom len) (atom reached) (atom cls))
                | [ti; n; len; reached; walked; sorted; sumok] ->
                    let n = int_of_sx n and len = int_of_sx len and reached = int_of_sx reached and walked = int_of_sx walked in
                    if reached <> walked then pf (Printf.sprintf "tree %s reaches %d cells but iterates over %d" (atom ti) reached walked);
                    if walked <> n || len <> n || not (bool_of_sx sumok) || not (bool_of_sx sorted) then
                      pf (Printf.sprintf "tree %s does not hold exactly its own elements: must hold %d, Len()=%d, iterates over %d, ascending=%s, same keys and values=%s"
                            (atom ti) n len walked (atom sorted) (atom sumok))
                | _ -> failwith "T") (args a)
          | _ -> failwith "A") (args res)
    | "brt" ->
        let sz = one "sz" res and ng = one "ng" res and thr = one "thr" res in
        let hib = args (field "hib" res) in
        let cmp_judge what =
          (match field_opt "cmp" res with
           | Some (L [_; A "same"]) -> count "big_arena_compared"
           | Some (L [_; A "cell"; idx; b; a; nd]) ->
               pf (Printf.sprintf "%s: first differing cell #%s was %s is %s; %s of %d cells differ" what (atom idx) (string_of_sx b) (string_of_sx a) (atom nd) sz)
           | Some x -> pf (Printf.sprintf "%s: %s" what (string_of_sx x))
           | None -> ()) in
        (match hib with
         | A "panic" :: _ -> mm ("Hibernate of an awake allocator panics: " ^ string_of_sx (field "hib" res))
         | [A "noop"] ->
             count "hibernate_noop";
             if sz >= thr && sz > 0 then mm (Printf.sprintf "Hibernate did nothing at size %d, threshold %d" sz thr);
             cmp_judge "a smaller or empty allocator was not left untouched by Hibernate";
             (match args (field "after" res) with [A "0"; A "0"] -> () | _ -> mm "hibernation lengths are set after a no-op")
         | [A "ok"; hs; hg] ->
             count "hibernations";
             if sz < thr then pf (Printf.sprintf "an allocator below its threshold (size %d, threshold %d) was hibernated" sz thr);
             if int_of_sx hs <> sz || int_of_sx hg <> ng then mm (Printf.sprintf "hibernated lengths %s %s, arena %d cells %d gaps" (atom hs) (atom hg) sz ng);
             let clens = List.map (fun b -> match args b with
               | [k; n; clen; v] ->
                   let k = int_of_sx k and n = int_of_sx n in
                   if k < 6 && n <> sz then mm "field buffer length";
                   if k = 6 && n <> ng then mm "gap buffer length";
                   judge_lz pf mm (Printf.sprintf "buffer %d of the hibernated arena" k) n v;
                   max 0 (int_of_sx clen)
               | _ -> failwith "b") (args (field "bufs" res)) in
             List.iteri (fun k r -> if not (bool_of_sx r) then
               pf ("use of a hibernated allocator was not refused: " ^ (try List.nth ["Used"; "malloc"; "Clone"; "Hibernate"; "Insert"] k with _ -> "?")))
               (args (field "refused" res));
             (match field_opt "ser" res with Some x -> mm ("Serialize failed: " ^ string_of_sx x) | None -> ());
             (match field_opt "file" res with
              | Some f ->
                  count "serializations";
                  (match args f with
                   | total :: tail :: vs ->
                       let total = int_of_sx total in
                       if int_of_sx tail <> 0 then mm (Printf.sprintf "file layout: %s trailing byte(s)" (atom tail));
                       let expect = sz :: ng :: clens in
                       if List.length vs <> 9 then failwith "file sections";
                       List.iteri (fun k (v, e) ->
                         let bytes = ints_of_sx (List.hd (args v)) in
                         let want = ints_of_ns (write_varint (n_of_int e)) in
                         count "varints_checked";
                         if List.length want >= 3 then count "varints_3_bytes_or_more";
                         if bytes <> want then mm (Printf.sprintf "file layout: varint %d is %s, write_varint %d = %s" k (show_ints bytes) e (show_ints want));
                         (match args v with
                          | [_; n; ok] -> if int_of_sx n <> e || not (bool_of_sx ok) then mm (Printf.sprintf "file layout: payload %d differs from the buffer" (k - 2))
                          | _ -> ())) (List.combine vs expect);
                       if not (bool_of_sx (List.hd (args (field "bootser" res)))) then pf "Boot of a serialized allocator was not refused";
                       List.iter (fun cu -> match cu with
                         | L [c; e] -> count "deser_truncated";
                             if not (bool_of_sx e) then pf (Printf.sprintf "Deserialize accepted a file truncated to %s of %d bytes" (atom c) total)
                         | _ -> failwith "cut") (args (field "cuts" res));
                       count "deser_nofile";
                       if not (bool_of_sx (List.hd (args (field "missing" res)))) then pf "Deserialize succeeded without a readable file";
                       (match args (field "deser" res) with
                        | [ok; hs; hg; same] ->
                            count "deser_full";
                            if not (bool_of_sx ok) then pf "Deserialize rejected the intact file"
                            else begin
                              if int_of_sx hs <> sz || int_of_sx hg <> ng then pf "Deserialize succeeded with different lengths";
                              if not (bool_of_sx same) then pf "Deserialize succeeded with different buffer contents"
                            end
                        | _ -> failwith "deser")
                   | _ -> failwith "file")
              | None -> ());
             (match field_opt "boot" res with
              | Some (L [_; A "ok"]) ->
                  count "boots";
                  cmp_judge "the arena after Boot differs from the arena before Hibernate";
                  (match args (field "used" res) with [b; a] -> if atom b <> atom a then mm ("Used() before " ^ atom b ^ " after " ^ atom a) | _ -> ());
                  (match args (field "after" res) with [A "0"; A "0"; A "1"] -> () | _ -> mm ("hibernation fields after Boot: " ^ string_of_sx (field "after" res)))
              | Some (L [_; A "impossible"]) -> pf "the arena cannot be restored: a compressed buffer that Boot needs is empty"
              | Some x -> pf ("Boot of a hibernated allocator fails, the arena is not restored: " ^ string_of_sx x)
              | None -> ())
         | _ -> failwith "hib")
    | t -> failwith ("unknown big observation " ^ t))
    (List.combine ops obs)

let () =
  iter_cases (fun id c ->
    let ops = args (field "ops" c) and obs = args (field "obs" c) in
    if (match ops with o :: _ -> List.mem (tag o) big_ops | [] -> false) then judge_big id c else begin
    if List.length ops <> List.length obs then failwith "ops/obs length";
    let s = { worlds = [| init_world |]; obs = [| initial_ost |]; tree_alloc = [||];
              lz_c = Hashtbl.create 16; lz_d = Hashtbl.create 16; before_hib = Hashtbl.create 4;
              obs_hd = Hashtbl.create 4; serialized = Hashtbl.create 4 } in
    let diverged = ref false in
    List.iteri (fun i (o, ob) ->
      let here = Printf.sprintf "op#%d %s" i (string_of_sx o) in
      let mm what = if not !diverged then mismatch id (here ^ " " ^ what); diverged := true in
      let pf what = propfail id (here ^ " " ^ what) in
      let res = List.hd (args ob) in
      let states = List.map parse_state (List.filter (fun x -> tag x = "A") (args ob)) in
      let oargs = List.filter_map (function A a -> (try Some (int_of_string a) with _ -> None) | _ -> None) (args o) in
      let arg k = try List.nth oargs k with _ -> 0 in
      let model a = s.worlds.(a).wa in
      let set_model a al = s.worlds.(a) <- { s.worlds.(a) with wa = al } in
      let asleep a = (model a).storage = None in
      (* judgements on the implementation's own outputs never look at the model *)
      let asleep_obs a = s.obs.(a).ost = None in
      let refused_check a what = if asleep_obs a then pf ("use of a hibernated allocator was not refused: " ^ what) in
      let writer = ref None in   (* (allocator, owner) allowed to write cells in this operation *)
      let expect_panic a r cls =
        (match r with
         | Some p -> if pclass_name p <> cls then mm (Printf.sprintf "panic class: impl=%s model=%s" cls (pclass_name p))
                      else count ("panic_" ^ cls)
         | _ -> mm ("implementation panics (" ^ cls ^ "), model does not")) in
      (* ---- allocator-level events ---- *)
      let do_malloc a owner mid =
        count "mallocs";
        (* property, on the implementation's own data: the id is not 0 and nobody holds it *)
        let ob = s.obs.(a) in
        let held = List.concat (List.map (fun (_, t) -> match t.ids with Some l -> l | None -> []) ob.otrees
                                @ List.map snd ob.oraws) in
        refused_check a "malloc succeeded";
        if mid = 0 then pf "malloc handed out the reserved slot 0"
        else if List.mem mid held then pf (Printf.sprintf "malloc handed out id %d which is still live (no free in between)" mid);
        let w = s.worlds.(a) in
        let g = ints_of_ns (glist w.wa) in
        let choice =
          if g = [] then Some 0
          else (let rec find k = function [] -> None | x :: r -> if x = mid then Some k else find (k + 1) r in find 0 g) in
        (match choice with
         | None -> mm (Printf.sprintf "malloc returned %d which is not one of the model's gaps %s" mid (show_ints g))
         | Some ch ->
             (match malloc (nat_of_int ch) w.wa with
              | Ok (_, mid') ->
                  if int_of_n mid' <> mid then mm (Printf.sprintf "malloc returned %d, model %d" mid (int_of_n mid'))
                  else begin
                    if g <> [] then count "malloc_from_gap" else count "malloc_fresh";
                    s.worlds.(a) <- step (compress_tbl s) (decompress_tbl s) w (OMalloc (nat_of_int owner, nat_of_int ch))
                  end
              | Panic p -> mm ("model malloc panics " ^ pclass_name p)
              | Err _ -> mm "model malloc err")) in
      let do_free a owner fid =
        count "frees";
        refused_check a "free succeeded";
        let w = s.worlds.(a) in
        if not (owns w (nat_of_int owner) (n_of_int fid)) then mm (Printf.sprintf "free of id %d which the model does not attribute to this owner" fid)
        else (match free (n_of_int fid) w.wa with
            | Ok _ -> s.worlds.(a) <- step (compress_tbl s) (decompress_tbl s) w (OFree (nat_of_int owner, n_of_int fid))
            | Panic p -> mm ("model free panics " ^ pclass_name p)
            | Err _ -> mm "model free err") in
      let tree_op t f =
        (* a tree operation on a hibernated allocator must be refused (panic) or touch nothing *)
        let a = s.tree_alloc.(t) in
        writer := Some (a, t);
        match tag res with
        | "panic" -> if asleep_obs a then count "tree_op_refused" else mm ("tree operation panics on an awake allocator: " ^ string_of_sx res)
        | _ -> f a in
      (* ---- the operation ---- *)
      (try (match tag res with
       | "skip" -> count "skipped"
       | "hang" -> pf "the operation did not terminate"
       | _ ->
         (match tag o with
          | "newtree" -> s.tree_alloc <- Array.append s.tree_alloc [| arg 0 |]
          | "ins" ->
              tree_op (arg 0) (fun a ->
                match List.map int_of_sx (args res) with
                | [1; mid] -> do_malloc a (arg 0) mid
                | _ -> count "ins_existing")
          | "del" ->
              tree_op (arg 0) (fun a ->
                match List.map int_of_sx (args res) with
                | [1; fid] -> do_free a (arg 0) fid
                | _ -> count "del_absent")
          | "erase" | "drain" ->
              tree_op (arg 0) (fun a -> List.iter (do_free a (arg 0)) (ints_of_sx (List.hd (args res))))
          | "fill" ->
              tree_op (arg 0) (fun a ->
                let ids = ints_of_sx (List.hd (args res)) in
                count "bulk_fills";
                let rec dup = function x :: (y :: _ as r) -> x = y || dup r | _ -> false in
                if dup (List.sort compare ids) then pf "one id was handed out twice within a bulk fill";
                List.iter (do_malloc a (arg 0)) ids)
          | "cdeep" ->
              let a = arg 1 in
              let nt = Array.length s.tree_alloc in
              (match tag res with
               | "panic" -> if asleep_obs a || asleep_obs s.tree_alloc.(arg 0) then count "tree_op_refused"
                            else mm ("CloneDeep panics on awake allocators: " ^ string_of_sx res)
               | _ ->
                   s.tree_alloc <- Array.append s.tree_alloc [| a |];
                   writer := Some (a, nt);
                   List.iter (do_malloc a nt) (ints_of_sx (List.hd (args res))))
          | "aclone" ->
              let a = arg 0 in
              (match tag res, clone (model a) with
               | "panic", r -> expect_panic a (pan r) (atom (List.hd (args res)))
               | _, mc ->
                   count "clones";
                   refused_check a "Clone succeeded";
                   let c = (match mc with Ok c -> c | _ -> mm "model Clone fails"; model a) in
                   let na = Array.length s.worlds in
                   let nt = ref (Array.length s.tree_alloc) in
                   let ren = Hashtbl.create 8 in
                   Array.iteri (fun ti ta -> if ta = a then begin Hashtbl.replace ren ti !nt; incr nt end) s.tree_alloc;
                   let added = Array.make (!nt - Array.length s.tree_alloc) na in
                   s.tree_alloc <- Array.append s.tree_alloc added;
                   let owned' = List.map (fun (x, ow) ->
                     let ow = int_of_nat ow in
                     (x, nat_of_int (if ow >= 100 then ow else try Hashtbl.find ren ow with Not_found -> ow))) s.worlds.(a).owned in
                   s.worlds <- Array.append s.worlds [| { wa = c; owned = owned' } |];
                   s.obs <- Array.append s.obs [| initial_ost |])
          | "rm" ->
              let a = arg 0 in
              (match tag res with
               | "panic" -> expect_panic a (pan (malloc O (model a))) (atom (List.hd (args res)))
               | _ -> do_malloc a (raw_owner (arg 1)) (int_of_sx (List.hd (args res))))
          | "rf" ->
              let a = arg 0 in
              (match tag res with
               | "panic" -> expect_panic a (pan (free (n_of_int (arg 2)) (model a))) (atom (List.hd (args res)))
               | _ -> do_free a (raw_owner (arg 1)) (arg 2))
          | "thr" ->
              let v = int_of_sx (List.hd (args res)) in
              s.worlds.(arg 0) <- step (compress_tbl s) (decompress_tbl s) s.worlds.(arg 0) (OSetThr (z_of_int v))
          | "hib" ->
              let a = arg 0 in
              (match tag res with
               | "panic" -> expect_panic a (pan (hibernate (compress_tbl s) (model a))) (atom (List.hd (args res)))
               | _ ->
                   if s.obs.(a).ohs > 0 then pf "Hibernate of an already hibernated allocator was not refused";
                   let lzs0 = List.filter (fun x -> tag x = "lz") (args res) in
                   if lzs0 <> [] then
                     Hashtbl.replace s.obs_hd a (List.map (fun lz -> match args lz with
                       | [_; A "nil"] -> None | [_; d] -> Some (ints_of_sx d) | [_; d; _; _] -> Some (ints_of_sx d) | _ -> failwith "lz") lzs0);
                   List.iter (fun lz -> match args lz with
                     | [inp; data; out; same] ->
                         count "lz4_buffers";
                         let inp = ints_of_sx inp and data = ints_of_sx data and out = ints_of_sx out in
                         if out <> inp then pf ("LZ4 round trip failed (recorded assumption violated) on " ^ show_ints inp);
                         if not (bool_of_sx same) then mm "CompressUInt32Slice is not deterministic";
                         Hashtbl.replace s.lz_c inp data; Hashtbl.replace s.lz_d data out
                     | _ -> ()) (List.filter (fun x -> tag x = "lz") (args res));
                   (match hibernate (compress_tbl s) (model a) with
                    | Ok al ->
                        if al.storage = None then count "hibernations" else count "hibernate_noop";
                        (* the compressed buffers themselves, position by position *)
                        let lzs = List.filter (fun x -> tag x = "lz") (args res) in
                        if lzs <> [] then
                          List.iteri (fun k lz ->
                            let data = (match args lz with
                              | [_; A "nil"] -> None | [_; d] -> Some (ints_of_sx d) | [_; d; _; _] -> Some (ints_of_sx d) | _ -> failwith "lz") in
                            let md = (match List.nth al.hdata k with None -> None | Some b -> Some (ints_of_ns b)) in
                            if data <> md then mm (Printf.sprintf "hibernated buffer %d differs" k)) lzs;
                        set_model a al
                    | Panic p -> mm ("model Hibernate panics " ^ pclass_name p)
                    | Err _ -> mm "model hibernate err"))
          | "boot" ->
              let a = arg 0 in
              (match tag res with
               | "panic" -> expect_panic a (pan (boot (decompress_tbl s) (model a))) (atom (List.hd (args res)))
               | _ ->
                   if s.obs.(a).ohs <> 0 && List.hd s.obs.(a).ohd = -1 then pf "Boot of a serialized allocator was not refused";
                   (match boot (decompress_tbl s) (model a) with
                    | Ok al -> if asleep a then count "boots" else count "boot_noop"; set_model a al
                    | Panic p -> mm ("model Boot panics " ^ pclass_name p)
                    | Err _ -> mm "model boot err"))
          | "ser" ->
              let a = arg 0 in
              (match tag res with
               | "panic" -> expect_panic a (pan (serialize (model a))) (atom (List.hd (args res)))
               | "err" ->
                   count "serialize_io_error";
                   (match serialize_fail (model a) with Err _ -> () | _ -> mm "Serialize returned an error, model differs")
               | _ ->
                   if not (asleep_obs a) then pf "Serialize of an awake allocator was not refused";
                   let fb = (match args (field "file" res) with [A "unreadable"] -> failwith "harness could not read the file back" | [b] -> ints_of_sx b | _ -> failwith "file") in
                   (match Hashtbl.find_opt s.obs_hd a with
                    | Some hd -> Hashtbl.replace s.serialized a (s.obs.(a).ohs, s.obs.(a).ohg, hd, fb)
                    | None -> Hashtbl.remove s.serialized a);
                   Hashtbl.replace s.obs_hd a [None; None; None; None; None; None; None];
                   (match serialize (model a) with
                    | Ok (al, bytes) ->
                        count "serializations";
                        let mb = ints_of_ns bytes in
                        if fb <> mb then mm (Printf.sprintf "file layout differs: impl %d bytes, model %d bytes" (List.length fb) (List.length mb));
                        set_model a al
                    | Panic p -> mm ("model Serialize panics " ^ pclass_name p)
                    | Err _ -> mm "model serialize err"))
          | "deser" ->
              let a = arg 0 in
              (match tag res with
               | "panic" -> expect_panic a (pan (deserialize (model a) None)) (atom (List.hd (args res)))
               | _ ->
                   let gerr = tag res = "err" in
                   let presented, full_len = (match args (field "file" res) with
                     | [A "none"] -> None, 0
                     | [b; l] -> Some (ints_of_sx b), int_of_sx l
                     | _ -> failwith "file") in
                   let hdc = List.map (function A "nil" -> None | b -> Some (ints_of_sx b)) (args (field "hdc" res)) in
                   if not (asleep_obs a) then pf "Deserialize into an awake allocator was not refused";
                   Hashtbl.replace s.obs_hd a hdc;
                   (* property, on the implementation's own outputs *)
                   (match presented with
                    | None -> count "deser_nofile"; if not gerr then pf "Deserialize succeeded without a readable file"
                    | Some b when List.length b < full_len ->
                        count "deser_truncated";
                        if not gerr then pf (Printf.sprintf "Deserialize accepted a file truncated to %d of %d bytes" (List.length b) full_len)
                    | Some b ->
                        count "deser_full";
                        if gerr then pf "Deserialize rejected the intact file"
                        else (match Hashtbl.find_opt s.serialized (arg 1) with
                          | Some (hs, hg, bufs, _) ->
                              let norm = List.map (function None -> Some [] | x -> x) in
                              let st' = List.assoc_opt a states in
                              (match st' with
                               | Some o' -> if o'.ohs <> hs || o'.ohg <> hg then pf "Deserialize succeeded with different lengths"
                               | None -> ());
                              if norm hdc <> norm bufs then pf "Deserialize succeeded with different buffer contents"
                          | None -> ()));
                   (match deserialize (model a) (match presented with None -> None | Some b -> Some (ns_of_ints b)) with
                    | Ok (al, e) ->
                        if (e <> None) <> gerr then mm (Printf.sprintf "Deserialize error=%b, model error=%b" gerr (e <> None));
                        let mhd = List.map (function None -> None | Some b -> Some (ints_of_ns b)) al.hdata in
                        if mhd <> hdc then mm "buffers after Deserialize differ";
                        (* register what a later Boot will decompress (bytes are those of an earlier compression) *)
                        set_model a al
                    | Panic p -> mm ("model Deserialize panics " ^ pclass_name p)
                    | Err _ -> mm "model deserialize err"))
          | "used" ->
              let a = arg 0 in
              (match tag res, used (model a) with
               | "panic", r -> expect_panic a (pan r) (atom (List.hd (args res)))
               | _, Ok u -> if int_of_z u <> int_of_sx (List.hd (args res)) then mm "Used() differs"
               | _, Panic p -> refused_check a "Used() returned"; mm ("model Used panics " ^ pclass_name p)
               | _, Err _ -> mm "model used err")
          | "size" ->
              if int_of_z (size (model (arg 0))) <> int_of_sx (List.hd (args res)) then mm "Size() differs"
          | t -> failwith ("unknown op " ^ t)))
       with Failure m -> mm ("driver-failure " ^ m));
      (* ---- take in the new observations ---- *)
      List.iter (fun (a, o') ->
        if a >= Array.length s.obs then failwith "state of an unknown allocator";
        let before = s.obs.(a) in
        s.obs.(a) <- o';
        if before.ost <> None && o'.ost = None then Hashtbl.replace s.before_hib a (before.ost, before.og);
        (* boot restores exactly what was there before hibernation (implementation vs itself) *)
        if before.ost = None && o'.ost <> None then
          (match Hashtbl.find_opt s.before_hib a with
           | Some (st0, g0) ->
               if st0 <> o'.ost || g0 <> o'.og then pf "the arena after Boot differs from the arena before Hibernate";
               Hashtbl.remove s.before_hib a
           | None -> ())) states;
      (* ---- writes of the operating tree: every changed cell must belong to it ---- *)
      (match !writer with
       | Some (a, owner) when not !diverged ->
           (match (model a).storage, s.obs.(a).ost with
            | Some ms, Some os when List.length ms = List.length os ->
                List.iteri (fun k (mc, oc) ->
                  if icell_of_cell mc <> oc then begin
                    count "cell_writes";
                    s.worlds.(a) <- step (compress_tbl s) (decompress_tbl s) s.worlds.(a)
                        (OWrite (nat_of_int owner, n_of_int k, cell_of_icell oc))
                  end) (List.combine ms os)
            | _ -> ())
       | _ -> ());
      (* ---- fine correspondence: model state = snapshot, for every allocator ---- *)
      if not !diverged then
        Array.iteri (fun a (w : world) ->
          let o' = s.obs.(a) and m = w.wa in
          let tagm what = mm (Printf.sprintf "allocator %d: %s" a what) in
          if int_of_z m.thr <> o'.othr then tagm "threshold differs";
          (match m.storage, o'.ost with
           | None, None -> ()
           | Some ms, Some os ->
               if List.length ms <> List.length os then tagm (Printf.sprintf "storage length impl=%d model=%d" (List.length os) (List.length ms))
               else List.iteri (fun k (mc, oc) ->
                 if icell_of_cell mc <> oc then
                   tagm (Printf.sprintf "cell %d impl=%s model=%s (not owned by the operating tree, or not zeroed by free)" k (show_cell oc) (show_cell (icell_of_cell mc))))
                 (List.combine ms os)
           | _ -> tagm "storage nil-ness differs");
          (match m.gaps, o'.og with
           | None, None -> ()
           | Some mg, Some og -> if ints_of_ns mg <> og then tagm ("gaps impl=" ^ show_ints og ^ " model=" ^ show_ints (ints_of_ns mg))
           | _ -> tagm "gaps nil-ness differs");
          if int_of_z m.hslen <> o'.ohs then tagm "hibernatedStorageLen differs";
          if int_of_z m.hglen <> o'.ohg then tagm "hibernatedGapsLen differs";
          if hd_lens m <> o'.ohd then tagm ("hibernatedData lengths impl=" ^ show_ints o'.ohd ^ " model=" ^ show_ints (hd_lens m));
          (match used m with
           | Ok u -> if int_of_z u <> o'.ou then tagm "Used() differs"
           | _ -> if o'.ou <> -1 then tagm "Used() did not panic");
          if int_of_z (size m) <> o'.osz then tagm "Size() differs";
          if m.storage <> None then begin
            List.iter (fun (t, tr) -> match tr.ids with
              | Some ids -> if model_ids w t <> ids then tagm (Printf.sprintf "tree %d reaches %s, the model attributes %s to it" t (show_ints ids) (show_ints (model_ids w t)))
              | None -> ()) o'.otrees;
            List.iter (fun (ow, ids) -> if model_ids w (raw_owner ow) <> ids then tagm "raw owner ids differ") o'.oraws
          end) s.worlds;
      (* ---- the property on the implementation's own outputs ---- *)
      List.iter (fun (a, o') ->
        match o'.ost, o'.og with
        | Some cells, Some g ->
            count "awake_states_judged";
            let sets = List.map (fun (_, t) -> match t.ids with Some l -> l | None -> []) o'.otrees @ List.map snd o'.oraws in
            let nsets = List.map ns_of_ints sets in
            let sz = n_of_int (List.length cells) in
            if List.exists (fun (_, t) -> t.bad) o'.otrees then pf (Printf.sprintf "allocator %d: a tree reaches a cell twice or outside the arena" a);
            if not (oracle_gaps sz (ns_of_ints g)) then pf (Printf.sprintf "allocator %d: gap set %s not inside the arena" a (show_ints g));
            if not (oracle_disjoint nsets) then pf (Printf.sprintf "allocator %d: two owners share a node: %s" a (String.concat " " (List.map show_ints sets)));
            if not (oracle_live sz (ns_of_ints g) nsets) then pf (Printf.sprintf "allocator %d: an owned node is a gap, slot 0 or outside the arena: %s gaps=%s" a (String.concat " " (List.map show_ints sets)) (show_ints g));
            if not (oracle_used sz nsets (z_of_int o'.ou)) then
              pf (Printf.sprintf "allocator %d: Used()=%d but %d live nodes (+1 reserved)" a o'.ou (List.length (List.concat sets)))
        | _ -> count "asleep_states") states)
      (List.combine ops obs) end)
