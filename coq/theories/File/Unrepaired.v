(* The model of File.Update as the code was BEFORE the repair
   "fix: File.Update kept a wrapped uint32 origin key and skipped re-inserting the interval when the last
   deleted node starts after pos" (F2).  Exactly two places differ from Model.update:
   the "insert our new interval" condition tests origin.Key == uint32(pos) instead of >=, and the shifted
   origin key is stored back into the uint32 field (so it wraps below zero) and is compared as uint32.
   Kept to document the repaired defect: update_refuted_before_fix evaluates the two witnesses. *)
From Coq Require Import List ZArith Bool.
Import ListNotations.
From Herc Require Import File.Model File.Spec.
Open Scope Z_scope.

Definition prepare_unrepaired (t pos ins del : Z) (origin1 : node) (L1 : list node) (r : node) (right_rest : list node)
  : list node * list node * node :=
  if (ins >? 0) && (negb (snd origin1 =? u32 t) || (fst origin1 =? u32 pos)) then       (* before F2: == *)
    if (snd r =? u32 t) && (fst r - del =? pos) then
      match last_opt L1 with
      | Some p =>
        if negb (snd p =? u32 t)
        then (L1 ++ [(u32 pos, snd r)], right_rest, (fst origin1, u32 t))
        else (L1, right_rest, (fst origin1, u32 t))
      | None => ([(u32 pos, snd r)], right_rest, (fst origin1, u32 t))
      end
    else (L1 ++ [(u32 pos, u32 t)], r :: right_rest, origin1)
  else (L1, r :: right_rest, origin1).

Definition finish_unrepaired (t pos ins del : Z) (prevOrigin : node) (previous : option node)
           (before after : list node) (origin2 : node) : list node :=
  let delta := ins - del in
  let s3 := if delta =? 0 then before ++ after else before ++ shift32 delta after in
  (* before F2: origin.Key = uint32(int(origin.Key) + delta) *)
  let okey := if negb (delta =? 0) && (fst origin2 >? u32 pos) then u32 (fst origin2 + delta) else fst origin2 in
  if ins >? 0 then
    if negb (snd origin2 =? u32 t) then insert (u32 (pos + ins)) (snd origin2) s3
    else if pos =? 0 then insert (u32 pos) (u32 t) s3 else s3
  else
    (* before F2: uint32(pos) > origin.Key, uint32(pos) == origin.Key *)
    if ((u32 pos >? okey) && (match previous with Some p => negb (snd p =? snd origin2) | None => false end))
       || ((u32 pos =? okey) && negb (snd origin2 =? snd prevOrigin)) || (pos =? 0)
    then insert (u32 pos) (snd origin2) s3 else s3.

Definition update_body_unrepaired (t pos ins del : Z) (L : list node) (origin : node) (rest : list node)
  : result (list node * list delta_rec) :=
  let prevOrigin := match last_opt L with Some p => p | None => origin end in
  match (if ins >? 0 then update_time t t ins else Ok []) with
  | Panic c => Panic c
  | Ok reps0 =>
    if del =? 0 then Ok (ins_only t pos ins L origin rest, reps0)
    else
      match del_loop t pos ins del origin prevOrigin L origin rest reps0 with
      | Panic c => Panic c
      | Ok (origin1, L1, right1, reps1) =>
        match right1 with
        | [] => Panic PNil
        | r :: right_rest =>
          let condA := (ins >? 0) && (negb (snd origin1 =? u32 t) || (fst origin1 =? u32 pos)) in
          let '(before, after, origin2) := prepare_unrepaired t pos ins del origin1 L1 r right_rest in
          let previous := if condA then None else last_opt L1 in
          Ok (finish_unrepaired t pos ins del prevOrigin previous before after origin2, reps1)
        end
      end
  end.

Definition update_unrepaired (t pos ins del : Z) (s : list node) : result (list node * list delta_rec) :=
  if t <? 0 then Panic PTimeNeg else
  if t >=? MaxU32 then Panic PTimeBig else
  if pos <? 0 then Panic PPosNeg else
  if pos >? MaxU32 then Panic PPosBig else
  if (ins <? 0) || (del <? 0) then Panic PLenNeg else
  if (ins >? MaxU32) || (del >? MaxU32) then Panic PLenBig else
  if Z.lor ins del =? 0 then Ok (s, []) else
  match s with
  | [] => Panic PNil
  | n0 :: tl =>
  if (match tl with [] => true | _ => false end) && negb (fst n0 =? 0) then Panic PInvalidTree else
  if u32 pos >? klast 0 s then Panic PAfterEnd else
  if u32 pos <? fst n0 then Panic PNil else
  match find_le (u32 pos) [] s with
  | None => Panic PNil
  | Some (L, origin, rest) => update_body_unrepaired t pos ins del L origin rest
  end
  end.

Fixpoint run_unrepaired (ops : list op) (s : list node) : option (list node) :=
  match ops with
  | [] => Some s
  | (t, pos, ins, del) :: ops' =>
      match update_unrepaired t pos ins del s with
      | Panic _ => None
      | Ok (s', _) => run_unrepaired ops' s'
      end
  end.

Definition witness1 : list op := [(1, 2, 3, 0); (1, 1, 0, 3)].
Definition witness2 : list op := [(1, 3, 1, 0); (1, 0, 1, 0); (1, 3, 2, 2)].

(* both operation lists are valid on the 3-line file stamped 0, the unrepaired code accepts them without a
   panic, and the lines it ends with are not those of the plain array *)
Lemma update_refuted_before_fix :
  forall ops, ops = witness1 \/ ops = witness2 ->
    ops_validb (repeat 0 3) ops = true /\
    exists s, run_unrepaired ops [(0, 0); (3, TreeEnd)] = Some s /\ flatten s <> arr_run (repeat 0 3) ops.
Proof.
  intros ops [-> | ->]; (split; [vm_compute; reflexivity|]); eexists; (split; [vm_compute; reflexivity|]);
    vm_compute; discriminate.
Qed.

(* the same two operation lists on the repaired model *)
Lemma witnesses_after_fix :
  forall ops, ops = witness1 \/ ops = witness2 ->
    exists s r, run ops [(0, 0); (3, TreeEnd)] [] = Ok (s, r) /\ flatten s = arr_run (repeat 0 3) ops.
Proof.
  intros ops [-> | ->]; eexists; eexists; (split; [vm_compute; reflexivity|]); vm_compute; reflexivity.
Qed.
