// Harness for C19: drives the real plumbing.TicksSinceStart (Configure, Initialize, Consume, Fork,
// Merge) and plumbing.FloorTime with generated commit sequences on several branches and records the
// tick of every Consume, the branch-local previousTick of every branch, the shared tick0 and the
// shared tick -> hashes registry.
package main

import (
	"encoding/binary"
	"os"
	"reflect"
	"sort"
	"strconv"
	"strings"
	"time"

	"gopkg.in/src-d/go-git.v4"
	"gopkg.in/src-d/go-git.v4/plumbing"
	"gopkg.in/src-d/go-git.v4/plumbing/object"
	"gopkg.in/src-d/go-git.v4/storage/memory"
	api "gopkg.in/src-d/hercules.v10/verifapi/c19"
	. "verifharness/lib"
)

// ---------------------------------------------------------------- inputs

type cfg struct {
	kind string // hours | default | direct
	v    int64
}

func (c cfg) sx() Sx {
	if c.kind == "default" {
		return T("cfg", T("default"))
	}
	return T("cfg", T(c.kind, I64(c.v)))
}

type op struct {
	kind    string // c | fork | merge | floor | init
	b       int    // branch (c, fork)
	idx     int    // DependencyIndex (c)
	hash    int    // (c)
	sec     int64  // unix seconds (c, floor)
	nsec    int64  // nanoseconds 0..999999999 (c, floor)
	parents int    // number of parents (c)
	tz      int    // zone offset in minutes (c, floor)
	n       int    // clones (fork)
	bs      []int  // branches (merge)
	d       int64  // duration in ns (floor)
	v       int    // init: 0 = Initialize only; Configure + Initialize with 1 = the same facts map as it is, 2 = a fresh facts map, 3 = the same map with the option set again
}

func (o op) sx() Sx {
	switch o.kind {
	case "c":
		return T("c", I(o.b), I(o.idx), I(o.hash), I64(o.sec), I64(o.nsec), I(o.parents), I(o.tz))
	case "fork":
		return T("fork", I(o.b), I(o.n))
	case "merge":
		return T("merge", Ints(o.bs))
	case "floor":
		return T("floor", I64(o.sec), I64(o.nsec), I64(o.d), I(o.tz))
	case "init":
		return T("init", I(o.v))
	}
	panic("op kind " + o.kind)
}

func i64(s Sx) int64 {
	v, err := strconv.ParseInt(s.Atom, 10, 64)
	if err != nil {
		panic("not an int64: " + s.String())
	}
	return v
}

func parseOp(s Sx) op {
	a := s.Args()
	o := op{kind: s.Tag()}
	switch o.kind {
	case "c":
		o.b, o.idx, o.hash, o.sec, o.nsec, o.parents, o.tz = a[0].Int(), a[1].Int(), a[2].Int(), i64(a[3]), i64(a[4]), a[5].Int(), a[6].Int()
	case "fork":
		o.b, o.n = a[0].Int(), a[1].Int()
	case "merge":
		for _, x := range a[0].List {
			o.bs = append(o.bs, x.Int())
		}
	case "floor":
		o.sec, o.nsec, o.d, o.tz = i64(a[0]), i64(a[1]), i64(a[2]), a[3].Int()
	case "init":
		o.v = a[0].Int()
	default:
		panic("unknown op " + o.kind)
	}
	return o
}

func parseCfg(s Sx) cfg {
	a := s.Args()[0]
	if a.Tag() == "default" {
		return cfg{kind: "default"}
	}
	return cfg{kind: a.Tag(), v: i64(a.Args()[0])}
}

// ---------------------------------------------------------------- driving the implementation

var repository *git.Repository

func mkHash(i int) plumbing.Hash {
	var h plumbing.Hash
	binary.LittleEndian.PutUint64(h[:8], uint64(i))
	h[19] = 0xc1
	return h
}

func unHash(h plumbing.Hash) int { return int(binary.LittleEndian.Uint64(h[:8])) }

func mkTime(sec, nsec int64, tz int) time.Time {
	return time.Unix(sec, nsec).In(time.FixedZone("", tz*60))
}

func mkCommit(o op) *object.Commit {
	when := mkTime(o.sec, o.nsec, o.tz)
	// the author time is deliberately different (only the committer time may count)
	author := when.Add(time.Duration(o.hash%7-3) * 960 * time.Hour).Add(17 * time.Minute)
	return &object.Commit{
		Hash:         mkHash(o.hash),
		Author:       object.Signature{Name: "a", Email: "a@a", When: author},
		Committer:    object.Signature{Name: "c", Email: "c@c", When: when},
		ParentHashes: make([]plumbing.Hash, o.parents),
	}
}

func timeSx(tag string, t time.Time) Sx {
	return T(tag, I64(t.Unix()), I(t.Nanosecond()))
}

func regSx(tag string, reg map[int][]plumbing.Hash) Sx {
	keys := make([]int, 0, len(reg))
	for k := range reg {
		keys = append(keys, k)
	}
	sort.Ints(keys)
	items := make([]Sx, 0, len(keys))
	for _, k := range keys {
		hs := make([]int, len(reg[k]))
		for i, h := range reg[k] {
			hs[i] = unHash(h)
		}
		items = append(items, L(I(k), Ints(hs)))
	}
	return T(tag, items...)
}

// A case with more than bigOps operations or more than bigClones clones is recorded compactly
// ("big" mode): per Consume only the tick, per Fork only the index of the first clone;
// previousTick of every branch, tick0 and the registries are recorded at the end of every
// analysis (at every init and at the end of the case) instead of after every step (the
// per-step record is quadratic: previousTick of every branch and the whole commits[tick]).
const bigOps = 300
const bigClones = 40

func isBig(ops []op) bool {
	if len(ops) > bigOps {
		return true
	}
	clones := 0
	for _, o := range ops {
		if o.kind == "fork" && o.n > 0 {
			clones += o.n
		}
	}
	return clones > bigClones
}

func sameMap(a, b map[int][]plumbing.Hash) bool {
	return reflect.ValueOf(a).Pointer() == reflect.ValueOf(b).Pointer()
}

// runCase plays the lifecycle of one TicksSinceStart: Configure, Initialize, the operations; an
// init operation initialises the item AGAIN (the pipeline does that when it is run twice) and
// drops the forks.  The registry is observed twice: the private map (VerifCommits) and the map
// the item PUBLISHED, i.e. the value of facts[FactCommitsByTick] captured right after Configure,
// as a downstream item (leaves/comment_sentiment.go) captures it.
func runCase(c cfg, ops []op) (obs []Sx) {
	big := isBig(ops)
	root := &api.TicksSinceStart{}
	facts := map[string]interface{}{}
	var pubs []map[int][]plumbing.Hash // every registry captured at Configure time, oldest first
	var publishedSize time.Duration
	if c.kind == "hours" {
		facts[api.ConfigTicksSinceStartTickSize] = int(c.v)
	}
	configure := func() bool {
		if err := root.Configure(facts); err != nil {
			return false
		}
		m, _ := facts[api.FactCommitsByTick].(map[int][]plumbing.Hash)
		pubs = append(pubs, m)
		publishedSize, _ = facts[api.FactTickSize].(time.Duration)
		if c.kind == "direct" {
			// Configure creates the registry; the public field is assigned afterwards
			root.TickSize = time.Duration(c.v)
		}
		return true
	}
	if !configure() {
		return []Sx{T("configure-error")}
	}
	if err := root.Initialize(repository); err != nil {
		return []Sx{T("initialize-error")}
	}
	items := []*api.TicksSinceStart{root}
	prevs := func() Sx {
		p := make([]Sx, len(items))
		for i, it := range items {
			p[i] = I(it.VerifPreviousTick())
		}
		return T("prev", p...)
	}
	// the observation at the end of an analysis: tick size, published tick size, whether every
	// branch and every captured fact still are one map, the private registry and the published one
	phaseEnd := func() []Sx {
		same := true
		for _, it := range items {
			if !sameMap(it.VerifCommits(), root.VerifCommits()) {
				same = false
			}
		}
		for _, m := range pubs {
			if m == nil || !sameMap(m, root.VerifCommits()) {
				same = false
			}
		}
		pub := pubs[len(pubs)-1]
		pubSx := T("pub", A("eq"))
		if pub == nil || !sameMap(pub, root.VerifCommits()) {
			pubSx = regSx("pub", pub)
		}
		f := []Sx{I64(int64(root.TickSize)), I64(int64(publishedSize)), B(same), regSx("reg", root.VerifCommits()), pubSx}
		if big {
			t0, _ := root.VerifTick0()
			f = append(f, prevs(), timeSx("t0", t0))
		}
		return f
	}
	for _, o := range ops {
		switch o.kind {
		case "c":
			if o.b < 0 || o.b >= len(items) {
				obs = append(obs, T("bad"))
				continue
			}
			commit := mkCommit(o)
			var res map[string]interface{}
			var err error
			msg, p := Catch(func() {
				res, err = items[o.b].Consume(map[string]interface{}{
					api.DependencyCommit:  commit,
					api.DependencyIndex:   o.idx,
					api.DependencyIsMerge: o.parents > 1,
				})
			})
			if p {
				_ = msg
				obs = append(obs, T("panic"))
				continue
			}
			if err != nil {
				obs = append(obs, T("error"))
				continue
			}
			tick := res[api.DependencyTick].(int)
			if big {
				if len(res) != 1 {
					obs = append(obs, T("error"))
					continue
				}
				obs = append(obs, I(tick))
				continue
			}
			t0, _ := items[o.b].VerifTick0()
			under := items[o.b].VerifCommits()[tick]
			us := make([]int, len(under))
			for i, h := range under {
				us[i] = unHash(h)
			}
			obs = append(obs, T("tick", I(tick), prevs(), timeSx("t0", t0), T("under", Ints(us)), I(len(res))))
		case "fork":
			if o.b < 0 || o.b >= len(items) || o.n < 0 {
				obs = append(obs, T("bad"))
				continue
			}
			first := len(items)
			for _, cl := range items[o.b].Fork(o.n) {
				items = append(items, cl.(*api.TicksSinceStart))
			}
			if big {
				obs = append(obs, T("fork", I(first)))
			} else {
				obs = append(obs, T("fork", I(first), prevs()))
			}
		case "merge":
			ok := len(o.bs) > 0
			for _, b := range o.bs {
				if b < 0 || b >= len(items) {
					ok = false
				}
			}
			if ok {
				bl := make([]api.PipelineItem, len(o.bs))
				for i, b := range o.bs {
					bl[i] = items[b]
				}
				items[o.bs[0]].Merge(bl)
			}
			if big {
				obs = append(obs, T("u"))
			} else {
				obs = append(obs, T("u", prevs()))
			}
		case "floor":
			var r time.Time
			_, p := Catch(func() { r = api.FloorTime(mkTime(o.sec, o.nsec, o.tz), time.Duration(o.d)) })
			if p {
				obs = append(obs, T("panic"))
				continue
			}
			_, off := r.Zone()
			obs = append(obs, T("time", I64(r.Unix()), I(r.Nanosecond()), I(off/60)))
		case "init":
			before := phaseEnd()
			switch o.v {
			case 1:
				// Pipeline.Initialize(facts) called again with the same facts map.  Configure has stored the
				// time.Duration under "TicksSinceStart.TickSize", which is also the key of the option
				configure()
			case 2:
				// a fresh facts map with the option set
				facts = map[string]interface{}{}
				if c.kind == "hours" {
					facts[api.ConfigTicksSinceStartTickSize] = int(c.v)
				}
				configure()
			case 3:
				// the same facts map, the option set again
				if c.kind == "hours" {
					facts[api.ConfigTicksSinceStartTickSize] = int(c.v)
				} else {
					delete(facts, api.ConfigTicksSinceStartTickSize)
				}
				configure()
			}
			if err := root.Initialize(repository); err != nil {
				obs = append(obs, T("error"))
				continue
			}
			items = []*api.TicksSinceStart{root}
			t0, _ := root.VerifTick0()
			after := T("after", I(len(root.VerifCommits())), I(len(pubs[len(pubs)-1])), I(root.VerifPreviousTick()), I64(t0.Unix()), I(t0.Nanosecond()))
			obs = append(obs, T("init", append(before, after)...))
		}
	}
	obs = append(obs, T("end", phaseEnd()...))
	return
}

// tickNs is the tick size the configuration leads to (0 = not positive / not representable).
func tickNs(cf cfg) int64 {
	switch cf.kind {
	case "hours":
		if cf.v <= 0 || cf.v > 2562047 {
			return 0
		}
		return cf.v * hourNs
	case "direct":
		if cf.v == 0 {
			return 24 * hourNs
		}
		if cf.v < 0 {
			return 0
		}
		return cf.v
	}
	return 24 * hourNs
}

// spanOK tells that no commit of the case can be 2^63 ns or more away from the start of tick 0
// (which is at most one tick size before the first commit): time.Duration does not saturate.
// Only the -sat streams may go beyond (known finding F17).
func spanOK(cf cfg, ops []op) bool {
	d := tickNs(cf)
	if d == 0 {
		return true // outside the domain of the formula oracle
	}
	const limit = int64(9000000000) // seconds; 2^63 ns = 9.22e9 s
	first := true
	var lo, hi int64
	ok := func() bool {
		if first {
			return true
		}
		span := hi - lo
		return span >= 0 && span < limit && d/1000000000+2 < limit-span
	}
	for _, o := range ops {
		if o.kind == "init" {
			// every analysis has its own start of tick 0
			if !ok() {
				return false
			}
			first = true
			continue
		}
		if o.kind != "c" {
			continue
		}
		if first || o.sec < lo {
			lo = o.sec
		}
		if first || o.sec > hi {
			hi = o.sec
		}
		first = false
	}
	return ok()
}

// emitInRange emits a generated case of a stream that must stay inside the range of time.Duration.
func emitInRange(c *Config, kind string, gen func() (cfg, []op)) {
	for try := 0; try < 50; try++ {
		cf, ops := gen()
		if spanOK(cf, ops) {
			emit(c, kind, cf, ops)
			return
		}
	}
}

func emit(c *Config, kind string, cf cfg, ops []op) {
	obs := runCase(cf, ops)
	sops := make([]Sx, len(ops))
	consumes := 0
	for i, o := range ops {
		sops[i] = o.sx()
		if o.kind == "c" {
			consumes++
		}
	}
	if isBig(ops) {
		c.Emit(T("kind", A(kind)), T("nt", B(consumes >= 2)), cf.sx(), T("big", I(1)), T("ops", sops...), T("obs", obs...))
		return
	}
	c.Emit(T("kind", A(kind)), T("nt", B(consumes >= 2)), cf.sx(), T("ops", sops...), T("obs", obs...))
}

// ---------------------------------------------------------------- generators

const hourNs = int64(time.Hour)
const zeroOff = int64(62135596800) // seconds from year 1 to 1970

var hoursChoices = []int64{1, 2, 5, 24, 24 * 7, 24 * 30}

func pickBase(c *Config, dsec int64) int64 {
	r := c.Rng
	switch r.Intn(9) {
	case 0:
		return int64(r.Intn(2000000000)) // 1970..2033
	case 1:
		return -int64(r.Intn(2000000000)) // 1906..1970
	case 2:
		return 4102444800 + int64(r.Intn(1000000000)) // after 2100
	case 3:
		return int64(r.Intn(100)) * dsec // period boundaries counted from 1970
	case 4:
		return (int64(r.Intn(800000))*dsec - zeroOff) // period boundaries counted from year 1
	case 5:
		return int64(r.Intn(200001) - 100000) // around 1970
	case 6:
		return 631152000 + int64(r.Intn(200001)-100000) // around 1990
	case 7:
		return -zeroOff + int64(r.Intn(200000)) - 100000 // around year 1
	default:
		return 1262304000 + int64(r.Intn(500000000)) // 2010..2025
	}
}

// zone offsets in minutes that are not whole hours (India, Nepal, Newfoundland, central Australia,
// Chatham, Eucla, Iran, Myanmar, Marquesas, Lord Howe, the historical Amsterdam +0:20 rounded)
var oddZones = []int{330, 345, -210, 570, 765, 525, 210, 390, -570, 630, -150, 20, -44}

func pickTz(c *Config) int {
	switch c.Rng.Intn(5) {
	case 0:
		return 0
	case 1:
		return 60 * (c.Rng.Intn(27) - 12)
	case 2:
		return 330
	case 3:
		return oddZones[c.Rng.Intn(len(oddZones))]
	default:
		return c.Rng.Intn(1681) - 840
	}
}

// delta of the next commit relative to the current one
func pickDelta(c *Config, dsec int64, monotone bool) int64 {
	r := c.Rng
	var x int64
	switch r.Intn(7) {
	case 0:
		x = 0
	case 1:
		x = int64(r.Intn(3))
	case 2:
		x = dsec - 1 + int64(r.Intn(3))
	case 3:
		x = r.Int63n(3*dsec + 1)
	case 4:
		x = r.Int63n(dsec/2 + 1)
	case 5:
		x = r.Int63n(40*dsec + 1)
	default:
		x = int64(r.Intn(7)) * dsec
	}
	if !monotone && r.Intn(3) == 0 {
		x = -x
	}
	return x
}

type builder struct {
	ops   []op
	next  int   // next hash
	idx   int   // commit index
	last  []int64 // last time on each branch
	nbr   int
}

func (b *builder) consume(c *Config, br int, hash int, sec, nsec int64, parents int) {
	b.ops = append(b.ops, op{kind: "c", b: br, idx: b.idx, hash: hash, sec: sec, nsec: nsec, parents: parents, tz: pickTz(c)})
	b.idx++
	b.last[br] = sec
}

func (b *builder) fork(br, n int) int {
	first := b.nbr
	b.ops = append(b.ops, op{kind: "fork", b: br, n: n})
	for i := 0; i < n; i++ {
		b.last = append(b.last, b.last[br])
	}
	b.nbr += n
	return first
}

// the item is initialised again: the forks are dropped, the commit index restarts at 0
func (b *builder) init(v int) {
	b.ops = append(b.ops, op{kind: "init", v: v})
	b.idx = 0
	b.nbr = 1
	b.last = b.last[:1]
}

// a history as the pipeline would run it: branch 0 is the root; the first action keeps a pristine
// clone (branch 1, as Pipeline.Run keeps rootClone for later emerging roots); forks into 2-3
// branches, different suffixes, the merge commit replayed on every merged branch, Merge.
func history(c *Config, dsec int64, monotone bool, nsecs bool) []op {
	r := c.Rng
	b := &builder{last: []int64{0}, nbr: 1, next: 1}
	base := pickBase(c, dsec)
	b.last[0] = base
	pristine := -1
	if r.Intn(2) == 0 {
		pristine = b.fork(0, 1)
	}
	ns := func() int64 {
		if nsecs && r.Intn(2) == 0 {
			return int64(r.Intn(1000000000))
		}
		return 0
	}
	live := []int{0}
	steps := 1 + r.Intn(10)
	first := true
	floorT := base
	for s := 0; s < steps; s++ {
		br := live[r.Intn(len(live))]
		switch k := r.Intn(10); {
		case k < 6 || first:
			t := b.last[br] + pickDelta(c, dsec, monotone)
			if first {
				br, t = 0, base
			}
			if monotone && t < floorT {
				t = floorT
			}
			par := 1
			if first || r.Intn(8) == 0 {
				par = 0
			}
			b.consume(c, br, b.next, t, ns(), par)
			b.next++
			first = false
		case k < 8 && b.nbr < 7:
			n := 1 + r.Intn(2)
			f := b.fork(br, n)
			for i := 0; i < n; i++ {
				live = append(live, f+i)
			}
		case k == 8 && pristine >= 0 && b.nbr < 7:
			// a new root emerges: a clone of the pristine item
			f := b.fork(pristine, 1)
			b.last[f] = base + pickDelta(c, dsec, monotone)
			if monotone {
				b.last[f] = floorT
			}
			live = append(live, f)
		default:
			if len(live) < 2 {
				continue
			}
			// merge 2..3 live branches: the merge commit is consumed on each of them
			perm := r.Perm(len(live))
			m := 2
			if len(live) > 2 && r.Intn(2) == 0 {
				m = 3
			}
			var bs []int
			var tmax int64 = -1 << 62
			for _, p := range perm[:m] {
				bs = append(bs, live[p])
				if b.last[live[p]] > tmax {
					tmax = b.last[live[p]]
				}
			}
			t := tmax + pickDelta(c, dsec, monotone)
			if monotone && t < tmax {
				t = tmax
			}
			if monotone && t < floorT {
				t = floorT
			}
			h, nsv := b.next, ns()
			b.next++
			for _, x := range bs {
				b.consume(c, x, h, t, nsv, m)
			}
			b.ops = append(b.ops, op{kind: "merge", bs: bs})
			// the pipeline deletes all but the first merged branch
			if r.Intn(2) == 0 {
				var nl []int
				for _, x := range live {
					keep := true
					for _, y := range bs[1:] {
						if x == y {
							keep = false
						}
					}
					if keep {
						nl = append(nl, x)
					}
				}
				live = nl
			}
		}
	}
	return b.ops
}

func linear(c *Config, dsec int64, n int, monotone bool) []op {
	b := &builder{last: []int64{0}, nbr: 1, next: 1}
	t := pickBase(c, dsec)
	first := t
	for i := 0; i < n; i++ {
		par := 1
		if i == 0 {
			par = 0
		}
		b.consume(c, 0, b.next, t, 0, par)
		b.next++
		t += pickDelta(c, dsec, monotone)
		if monotone && t < first {
			t = first
		}
	}
	return b.ops
}

// exhaustive small scope: every sequence of up to maxLen commits whose times are taken from a set
// of offsets around period boundaries, on three branch shapes
func exhaustive(c *Config, hours int64, base int64, maxLen int) {
	dsec := hours * 3600
	offs := []int64{-dsec - 1, -1, 0, 1, dsec - 1, dsec, 2*dsec + 1}
	n := len(offs)
	for length := 1; length <= maxLen; length++ {
		total := 1
		for i := 0; i < length; i++ {
			total *= n
		}
		for code := 0; code < total; code++ {
			ts := make([]int64, length)
			x := code
			for i := 0; i < length; i++ {
				ts[i] = base + offs[x%n]
				x /= n
			}
			for shape := 0; shape < 3; shape++ {
				if shape > 0 && length < 2 {
					continue
				}
				var ops []op
				switch shape {
				case 0: // linear
					for i, t := range ts {
						ops = append(ops, op{kind: "c", b: 0, idx: i, hash: i + 1, sec: t, parents: min(i, 1)})
					}
				case 1: // fork after the first commit, the rest alternates; the last is replayed on both
					ops = append(ops, op{kind: "c", b: 0, idx: 0, hash: 1, sec: ts[0]}, op{kind: "fork", b: 0, n: 1})
					for i := 1; i < length-1; i++ {
						ops = append(ops, op{kind: "c", b: i % 2, idx: i, hash: i + 1, sec: ts[i], parents: 1})
					}
					ops = append(ops, op{kind: "c", b: 0, idx: length - 1, hash: length, sec: ts[length-1], parents: 2},
						op{kind: "c", b: 1, idx: length, hash: length, sec: ts[length-1], parents: 2}, op{kind: "merge", bs: []int{0, 1}})
				case 2: // a second root emerges from a pristine clone
					ops = append(ops, op{kind: "fork", b: 0, n: 1})
					for i, t := range ts {
						ops = append(ops, op{kind: "c", b: i % 2, idx: i, hash: i + 1, sec: t, parents: min(i/2, 1)})
					}
				}
				emit(c, "ex", cfg{kind: "hours", v: hours}, ops)
			}
		}
	}
}

// far past / far future: spans beyond the +-292 years of time.Duration
func saturating(c *Config) (cfg, []op) {
	r := c.Rng
	hours := hoursChoices[r.Intn(len(hoursChoices))]
	anchors := []int64{-zeroOff, -zeroOff + 86400*366, -11670000000 /* 1600 */, -2208988800 /* 1900 */, 0, 631152000, 1600000000,
		9214646400 /* 2262 */, 9223372036 /* 2^63 ns after 1970 */, 9224000000, 32503680000 /* 3000 */, 253402300800, /* 10000 */
		1 << 40, 1 << 50, 1 << 60, -(1 << 40), -(1 << 50), -(1 << 60), 9223372036 - zeroOff}
	b := &builder{last: []int64{0}, nbr: 1, next: 1}
	n := 2 + r.Intn(5)
	if r.Intn(3) == 0 {
		b.fork(0, 1+r.Intn(2))
	}
	for i := 0; i < n; i++ {
		t := anchors[r.Intn(len(anchors))] + int64(r.Intn(2000001)-1000000)
		if r.Intn(4) == 0 {
			t = anchors[r.Intn(len(anchors))] + anchors[r.Intn(len(anchors))]/2
		}
		par := 1
		if i == 0 {
			par = 0
		}
		b.consume(c, r.Intn(b.nbr), b.next, t, 0, par)
		if r.Intn(4) != 0 {
			b.next++
		}
		if r.Intn(6) == 0 && b.nbr < 5 {
			b.fork(r.Intn(b.nbr), 1)
		}
	}
	return cfg{kind: "hours", v: hours}, b.ops
}

// odd tick sizes assigned directly to the public field, nanosecond times
func odd(c *Config) (cfg, []op) {
	r := c.Rng
	ds := []int64{1, 2, 3, 7, 10, 250, 1000, 1e6, 333333333, 5e8, 1e9, 15e8, 2e9, 6e10, 36e11 / 2, 54e11, 36e11, 864e11, 1e15 + 7, 1 << 62, (1 << 62) - 1}
	d := ds[r.Intn(len(ds))]
	dsec := d / 1e9
	if dsec < 1 {
		dsec = 1
	}
	b := &builder{last: []int64{0}, nbr: 1, next: 1}
	t := pickBase(c, dsec)
	n := 1 + r.Intn(6)
	for i := 0; i < n; i++ {
		par := 1
		if i == 0 {
			par = 0
		}
		var ns int64
		switch r.Intn(4) {
		case 0:
			ns = 0
		case 1:
			ns = 999999999
		case 2:
			ns = int64(r.Intn(10))
		default:
			ns = int64(r.Intn(1000000000))
		}
		b.consume(c, r.Intn(b.nbr), b.next, t, ns, par)
		if r.Intn(5) != 0 {
			b.next++
		}
		if d >= 1<<61 {
			// two such ticks already exceed the range of time.Duration
			t += r.Int63n(dsec/3) - dsec/8
		} else {
			t += pickDelta(c, dsec, false)
		}
		if r.Intn(5) == 0 && b.nbr < 4 {
			b.fork(r.Intn(b.nbr), 1)
		}
	}
	return cfg{kind: "direct", v: d}, b.ops
}

// outside the property's domain: zero, negative and overflowing tick sizes, index 0 missing or
// repeated, replayed root commits, unknown branches
func malformed(c *Config) (cfg, []op) {
	r := c.Rng
	var cf cfg
	switch r.Intn(8) {
	case 0:
		cf = cfg{kind: "hours", v: 0}
	case 1:
		cf = cfg{kind: "hours", v: -int64(1 + r.Intn(48))}
	case 2:
		cf = cfg{kind: "hours", v: 2562047 + int64(r.Intn(3))} // around the int64 overflow of hours*3.6e12
	case 3:
		cf = cfg{kind: "hours", v: int64(1) << uint(40+r.Intn(23))}
	case 4:
		cf = cfg{kind: "direct", v: -int64(1 + r.Intn(5))}
	case 5:
		cf = cfg{kind: "direct", v: 0}
	case 6:
		cf = cfg{kind: "default"}
	default:
		cf = cfg{kind: "hours", v: hoursChoices[r.Intn(len(hoursChoices))]}
	}
	dsec := int64(86400)
	b := &builder{last: []int64{0}, nbr: 1, next: 1}
	t := pickBase(c, dsec)
	n := 1 + r.Intn(7)
	for i := 0; i < n; i++ {
		br := r.Intn(b.nbr + 1)
		if br == b.nbr && r.Intn(3) != 0 {
			br = 0
		}
		o := op{kind: "c", b: br, idx: r.Intn(3), hash: 1 + r.Intn(4), sec: t, parents: r.Intn(3), tz: pickTz(c)}
		if i == 0 && r.Intn(2) == 0 {
			o.idx = 0
		}
		b.ops = append(b.ops, o)
		t += pickDelta(c, dsec, false)
		if r.Intn(4) == 0 && b.nbr < 4 {
			b.fork(r.Intn(b.nbr), r.Intn(3))
		}
		if r.Intn(6) == 0 {
			b.ops = append(b.ops, op{kind: "merge", bs: []int{r.Intn(b.nbr + 1), r.Intn(b.nbr + 1)}})
		}
	}
	return cf, b.ops
}

func floors(c *Config) (cfg, []op) {
	r := c.Rng
	var ops []op
	for i := 1 + r.Intn(4); i > 0; i-- {
		var d int64
		switch r.Intn(6) {
		case 0:
			d = hoursChoices[r.Intn(len(hoursChoices))] * hourNs
		case 1:
			d = int64(1+r.Intn(1000)) * hourNs
		case 2:
			d = 1 + r.Int63n(1<<uint(1+r.Intn(61)))
		case 3:
			d = []int64{1, 2, 5, 1e3, 5e8, 1e9, 2e9, 25e7, 125e6}[r.Intn(9)]
		case 4:
			d = -r.Int63n(1 << 40) // d <= 0: Round returns its argument
		default:
			d = int64(1+r.Intn(100000)) * 1e9
		}
		dsec := d / 1e9
		if dsec < 1 {
			dsec = 1
		}
		sec := pickBase(c, dsec)
		if r.Intn(5) == 0 {
			sec = r.Int63n(1<<60) - (1 << 59)
		}
		var ns int64
		if r.Intn(2) == 0 {
			ns = int64(r.Intn(1000000000))
		}
		ops = append(ops, op{kind: "floor", sec: sec, nsec: ns, d: d, tz: pickTz(c)})
	}
	return cfg{kind: "default"}, ops
}

func main() {
	c := Setup()
	defer c.Close()
	// TicksSinceStart.Initialize installs a logger on os.Stderr and warns about commits before 1990
	if devnull, err := os.OpenFile(os.DevNull, os.O_WRONLY, 0); err == nil {
		os.Stderr = devnull
	}
	var err error
	repository, err = git.Init(memory.NewStorage(), nil)
	if err != nil {
		panic(err)
	}
	if c.Replay != "" {
		for _, cs := range c.ReplayCases() {
			cf := cfg{kind: "default"}
			if f, ok := cs.Field("cfg"); ok {
				cf = parseCfg(f)
			}
			f, _ := cs.Field("ops")
			var ops []op
			for _, o := range f.Args() {
				ops = append(ops, parseOp(o))
			}
			kind := "replay"
			if k, ok := cs.Field("kind"); ok && len(k.Args()) == 1 && strings.HasSuffix(k.Args()[0].Atom, "-sat") {
				// a case of a saturating stream stays one (known finding F17 is keyed by the kind)
				kind = "replay-sat"
			}
			emit(c, kind, cf, ops)
		}
		return
	}
	if os.Getenv("C19_ONLY") == "scale" { // development aid: the large cases alone
		for _, s := range scaleSpecs(c) {
			scaleCase(c, s)
		}
		return
	}
	// exhaustive small scopes
	exhaustive(c, 1, 1600000000-1600000000%3600, 4)
	exhaustive(c, 24, 0, 3)
	exhaustive(c, 24, -zeroOff+86400, 3)
	exhaustive(c, 24*7, 1262304000, 3)
	if c.Thorough() {
		exhaustive(c, 24, 1577836800, 5)
		exhaustive(c, 5, 631152000, 4)
		exhaustive(c, 24*30, -86400*365, 4)
	}
	pick := func() int64 { return hoursChoices[c.Rng.Intn(len(hoursChoices))] }
	for i := c.Count(6000, 150000); i > 0; i-- {
		emitInRange(c, "lin", func() (cfg, []op) {
			h := pick()
			return cfg{kind: "hours", v: h}, linear(c, h*3600, 1+c.Rng.Intn(12), false)
		})
	}
	for i := c.Count(3000, 60000); i > 0; i-- {
		emitInRange(c, "linmono", func() (cfg, []op) {
			h := pick()
			return cfg{kind: "hours", v: h}, linear(c, h*3600, 1+c.Rng.Intn(12), true)
		})
	}
	for i := c.Count(8000, 150000); i > 0; i-- {
		emitInRange(c, "dag", func() (cfg, []op) {
			h := pick()
			return cfg{kind: "hours", v: h}, history(c, h*3600, false, false)
		})
	}
	for i := c.Count(6000, 100000); i > 0; i-- {
		emitInRange(c, "dagmono", func() (cfg, []op) {
			h := pick()
			return cfg{kind: "hours", v: h}, history(c, h*3600, true, c.Rng.Intn(4) == 0)
		})
	}
	for i := c.Count(3000, 50000); i > 0; i-- {
		cf, ops := saturating(c)
		emit(c, "far-sat", cf, ops)
	}
	for i := c.Count(3000, 50000); i > 0; i-- {
		emitInRange(c, "odd", func() (cfg, []op) { return odd(c) })
	}
	for i := c.Count(2000, 40000); i > 0; i-- {
		emitInRange(c, "malformed", func() (cfg, []op) { return malformed(c) })
	}
	for i := c.Count(3000, 60000); i > 0; i-- {
		cf, ops := floors(c)
		emit(c, "floor", cf, ops)
	}
	strengthenStreams(c)
}
