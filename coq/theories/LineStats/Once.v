(* C12, second half: under the replay-sequence predicate, DevsAnalysis attributes every commit at most
   once (exactly once when every replay has a non-empty change list or empty commits are counted), and
   the listing of CommitsAnalysis is exactly the commits replayed once. *)
From Coq Require Import List NArith Bool Lia Arith.
From Herc Require Import LineStats.Model.
Import ListNotations.
Open Scope N_scope.

(* ---------- counting replays ---------- *)
Definition has_commit (c : N) (l : list step) : bool := existsb (fun s => s_commit s =? c) l.

Lemma count_commit_app : forall c a b, count_commit c (a ++ b) = count_commit c a + count_commit c b.
Proof. induction a as [|s r IH]; intro b; [reflexivity|]. cbn [app count_commit]. rewrite IH. lia. Qed.

Lemma count_commit_rev : forall c a, count_commit c (rev a) = count_commit c a.
Proof.
  induction a as [|s r IH]; [reflexivity|]. cbn [rev]. rewrite count_commit_app, IH. cbn [count_commit]. lia.
Qed.

Lemma has_commit_count : forall c l, has_commit c l = true <-> 1 <= count_commit c l.
Proof.
  induction l as [|s r IH]; cbn [has_commit existsb count_commit].
  - split; [discriminate | lia].
  - fold (has_commit c r). destruct (s_commit s =? c); cbn [orb].
    + split; intros; [lia | reflexivity].
    + rewrite IH. split; intros; lia.
Qed.

Lemma has_commit_false_count : forall c l, has_commit c l = false <-> count_commit c l = 0.
Proof.
  intros c l. split; intro H.
  - destruct (N.eq_dec (count_commit c l) 0) as [E|E]; [exact E|].
    assert (X : has_commit c l = true) by (apply has_commit_count; lia). congruence.
  - destruct (has_commit c l) eqn:E; [|reflexivity]. apply has_commit_count in E. lia.
Qed.

Lemma in_count : forall s l, In s l -> 1 <= count_commit (s_commit s) l.
Proof.
  induction l as [|x r IH]; intro H; [contradiction|]. cbn [count_commit]. destruct H as [->|H].
  - rewrite N.eqb_refl. lia.
  - specialize (IH H). lia.
Qed.

Lemma replay_ok_in : forall l s, replay_ok l = true -> In s l ->
  s_ismerge s = (1 <? count_commit (s_commit s) l) /\
  count_commit (s_commit s) l <= N.max 1 (s_nparents s).
Proof.
  intros l s H HIn. unfold replay_ok in H. rewrite forallb_forall in H. specialize (H s HIn).
  apply andb_true_iff in H. destruct H as [H1 H2]. apply eqb_prop in H1. apply N.leb_le in H2. auto.
Qed.

(* ---------- the one-shot filter along the sequence ---------- *)
(* merges = the commits with more than one parent seen so far *)
Definition merges_inv (pre : list step) (merges : list N) : Prop :=
  forall c, mem_n c merges = existsb (fun s => (s_commit s =? c) && (1 <? s_nparents s)) pre.

Lemma should_consume_inv : forall pre merges s, merges_inv pre merges ->
  merges_inv (s :: pre) (snd (should_consume merges s)).
Proof.
  intros pre merges s H c. unfold should_consume. cbn [existsb].
  destruct (N.leb_spec (s_nparents s) 1) as [Hle|Hgt].
  - cbn [snd]. assert (E : (1 <? s_nparents s) = false) by (apply N.ltb_ge; lia).
    rewrite E, andb_false_r. cbn [orb]. apply H.
  - assert (E : (1 <? s_nparents s) = true) by (apply N.ltb_lt; lia). rewrite E, andb_true_r.
    destruct (mem_n (s_commit s) merges) eqn:M; cbn [snd].
    + destruct (N.eqb_spec (s_commit s) c) as [Heq|Hne]; cbn [orb]; [rewrite <- Heq; exact M | apply H].
    + cbn [mem_n]. rewrite H. reflexivity.
Qed.

(* what the flags of a run are, read off the sequence alone *)
Definition nonempty (s : step) : bool := negb (N.of_nat (length (s_changes s)) =? 0).
Fixpoint spec_flags (cec : bool) (pre suf : list step) : list bool :=
  match suf with
  | [] => []
  | s :: r => (negb (has_commit (s_commit s) pre) && (nonempty s || cec)) :: spec_flags cec (s :: pre) r
  end.

Lemma should_consume_first : forall pre suf s merges,
  replay_ok (rev pre ++ s :: suf) = true -> merges_inv pre merges ->
  fst (should_consume merges s) = negb (has_commit (s_commit s) pre).
Proof.
  intros pre suf s merges Hok Hinv. set (l := rev pre ++ s :: suf) in *.
  assert (Hs : In s l) by (apply in_or_app; right; left; reflexivity).
  destruct (replay_ok_in l s Hok Hs) as [_ Hk].
  assert (Hcnt : count_commit (s_commit s) l = count_commit (s_commit s) pre + 1 + count_commit (s_commit s) suf).
  { unfold l. rewrite count_commit_app, count_commit_rev. cbn [count_commit]. rewrite N.eqb_refl. lia. }
  unfold should_consume.
  destruct (N.leb_spec (s_nparents s) 1) as [Hle|Hgt]; cbn [fst].
  - (* at most one parent: replayed once, so not seen before *)
    assert (E : has_commit (s_commit s) pre = false) by (apply has_commit_false_count; lia).
    rewrite E. reflexivity.
  - rewrite Hinv.
    destruct (has_commit (s_commit s) pre) eqn:E.
    + (* seen before: every replay of it has more than one parent *)
      unfold has_commit in E. apply existsb_exists in E. destruct E as [s' [HIn' Hc']].
      assert (HIn : In s' l) by (apply in_or_app; left; apply in_rev in HIn'; exact HIn').
      apply N.eqb_eq in Hc'.
      destruct (replay_ok_in l s' Hok HIn) as [_ Hk'].
      assert (C1 : 1 <= count_commit (s_commit s) pre).
      { rewrite <- Hc'. apply in_count. exact HIn'. }
      rewrite Hc' in Hk'.
      assert (X : existsb (fun x => (s_commit x =? s_commit s) && (1 <? s_nparents x)) pre = true).
      { apply existsb_exists. exists s'. split; [exact HIn'|].
        apply andb_true_iff. split; [apply N.eqb_eq; exact Hc' | apply N.ltb_lt; lia]. }
      rewrite X. reflexivity.
    + assert (X : existsb (fun x => (s_commit x =? s_commit s) && (1 <? s_nparents x)) pre = false).
      { destruct (existsb (fun x => (s_commit x =? s_commit s) && (1 <? s_nparents x)) pre) eqn:Y; [|reflexivity].
        apply existsb_exists in Y. destruct Y as [x [HIn Hx]]. apply andb_true_iff in Hx. destruct Hx as [Hx _].
        assert (Z : has_commit (s_commit s) pre = true) by (apply existsb_exists; exists x; auto). congruence. }
      rewrite X. reflexivity.
Qed.

Lemma devs_consume_flag : forall cec st s,
  snd (devs_consume cec st s) = fst (should_consume (ds_merges st) s) && (nonempty s || cec) /\
  ds_merges (fst (devs_consume cec st s)) = snd (should_consume (ds_merges st) s).
Proof.
  intros cec st s. unfold devs_consume, nonempty.
  destruct (should_consume (ds_merges st) s) as [ok merges]. cbn [fst snd].
  destruct ok; cbn [negb andb]; [|split; reflexivity].
  destruct (N.of_nat (length (s_changes s)) =? 0); destruct cec; cbn; split; reflexivity.
Qed.

Lemma devs_flags_spec : forall cec suf pre st,
  replay_ok (rev pre ++ suf) = true -> merges_inv pre (ds_merges st) ->
  snd (devs_run_from cec st suf) = spec_flags cec pre suf.
Proof.
  induction suf as [|s r IH]; intros pre st Hok Hinv; [reflexivity|].
  cbn [devs_run_from spec_flags].
  destruct (devs_consume_flag cec st s) as [Hf Hm].
  pose proof (should_consume_first pre r s (ds_merges st) Hok Hinv) as Hfirst.
  pose proof (should_consume_inv pre (ds_merges st) s Hinv) as Hinv'.
  destruct (devs_consume cec st s) as [st1 b]. cbn [fst snd] in Hf, Hm.
  assert (Hok' : replay_ok (rev (s :: pre) ++ r) = true).
  { cbn [rev]. rewrite <- app_assoc. exact Hok. }
  rewrite <- Hm in Hinv'.
  specialize (IH (s :: pre) st1 Hok' Hinv').
  destruct (devs_run_from cec st1 r) as [st2 bs]. cbn [snd] in IH |- *.
  rewrite IH, Hf, Hfirst. reflexivity.
Qed.

(* ---------- the attributed steps ---------- *)
Fixpoint select {A : Type} (l : list A) (bs : list bool) : list A :=
  match l, bs with
  | x :: r, b :: bs' => if b then x :: select r bs' else select r bs'
  | _, _ => []
  end.

(* the replay steps at which  dd.Commits++  was executed *)
Definition attributed (cec : bool) (l : list step) : list step := select l (snd (devs_run cec l)).

Lemma select_spec_in : forall cec suf pre s, In s (select suf (spec_flags cec pre suf)) ->
  In s suf /\ has_commit (s_commit s) pre = false /\ (nonempty s || cec) = true.
Proof.
  induction suf as [|x r IH]; intros pre s H; [contradiction|].
  cbn [spec_flags select] in H.
  destruct (negb (has_commit (s_commit x) pre) && (nonempty x || cec)) eqn:E.
  - destruct H as [->|H].
    + apply andb_true_iff in E. destruct E as [E1 E2]. apply negb_true_iff in E1. repeat split; auto. left; reflexivity.
    + destruct (IH (x :: pre) s H) as [A [B C]]. repeat split; auto; [right; exact A|].
      cbn [has_commit existsb] in B. apply orb_false_iff in B. apply B.
  - destruct (IH (x :: pre) s H) as [A [B C]]. repeat split; auto; [right; exact A|].
    cbn [has_commit existsb] in B. apply orb_false_iff in B. apply B.
Qed.

Lemma select_spec_nodup : forall cec suf pre, NoDup (map s_commit (select suf (spec_flags cec pre suf))).
Proof.
  induction suf as [|x r IH]; intro pre; [constructor|].
  cbn [spec_flags select].
  destruct (negb (has_commit (s_commit x) pre) && (nonempty x || cec)); [|apply IH].
  cbn [map]. constructor; [|apply IH].
  intro HIn. apply in_map_iff in HIn. destruct HIn as [s [Hc Hs]].
  destruct (select_spec_in cec r (x :: pre) s Hs) as [_ [B _]].
  cbn [has_commit existsb] in B. apply orb_false_iff in B. destruct B as [B _].
  rewrite Hc, N.eqb_refl in B. discriminate.
Qed.

Lemma select_spec_exact : forall cec suf pre c,
  has_commit c pre = false -> has_commit c suf = true ->
  (cec = true \/ forall s, In s suf -> s_commit s = c -> s_changes s <> []) ->
  In c (map s_commit (select suf (spec_flags cec pre suf))).
Proof.
  induction suf as [|x r IH]; intros pre c Hpre Hsuf Hne; [discriminate|].
  cbn [spec_flags select].
  destruct (N.eqb_spec (s_commit x) c) as [Hc|Hc].
  - (* the first replay of c *)
    assert (E : (nonempty x || cec) = true).
    { destruct Hne as [->|Hne]; [apply orb_true_r|].
      unfold nonempty. specialize (Hne x (or_introl eq_refl) Hc).
      destruct (s_changes x); [congruence|]. reflexivity. }
    rewrite Hc, Hpre, E. cbn [negb andb map]. left. exact Hc.
  - assert (Hr : has_commit c r = true).
    { cbn [has_commit existsb] in Hsuf. apply orb_true_iff in Hsuf. destruct Hsuf as [Hx|Hr]; [|exact Hr].
      apply N.eqb_eq in Hx. contradiction. }
    assert (Hpre' : has_commit c (x :: pre) = false).
    { cbn [has_commit existsb]. apply orb_false_iff. split; [apply N.eqb_neq; exact Hc | exact Hpre]. }
    assert (Hne' : cec = true \/ forall s, In s r -> s_commit s = c -> s_changes s <> []).
    { destruct Hne as [?|Hne]; [left; assumption | right; intros s Hs; apply Hne; right; exact Hs]. }
    specialize (IH (x :: pre) c Hpre' Hr Hne').
    destruct (negb (has_commit (s_commit x) pre) && (nonempty x || cec)); [right|]; exact IH.
Qed.

Theorem devs_once : forall cec l, replay_ok l = true ->
  NoDup (map s_commit (attributed cec l)) /\
  (forall c, In c (map s_commit l) ->
     (cec = true \/ forall s, In s l -> s_commit s = c -> s_changes s <> []) ->
     In c (map s_commit (attributed cec l))) /\
  (forall s, In s (attributed cec l) -> In s l /\ (cec = true \/ s_changes s <> [])).
Proof.
  intros cec l Hok. unfold attributed, devs_run.
  rewrite (devs_flags_spec cec l [] devs0 Hok) by (intro c; reflexivity).
  split; [apply select_spec_nodup|]. split.
  - intros c HIn Hne. apply select_spec_exact; [reflexivity| |exact Hne].
    apply in_map_iff in HIn. destruct HIn as [s [Hc Hs]]. apply existsb_exists. exists s. split; [exact Hs | apply N.eqb_eq; exact Hc].
  - intros s Hs. destruct (select_spec_in cec l [] s Hs) as [A [_ C]]. split; [exact A|].
    apply orb_true_iff in C. destruct C as [C|C]; [right | left; exact C].
    unfold nonempty in C. destruct (s_changes s); [discriminate | discriminate].
Qed.

(* ---------- the counters are the attributed steps ---------- *)
Definition at_key (k : N * N) (s : step) : bool := tkey_eqb (s_tick s, s_author s) k.
Definition commits_at (ticks : list ((N * N) * devtick)) (k : N * N) : N :=
  match tick_get ticks k with Some d => dt_commits d | None => 0 end.

Lemma tkey_eqb_refl : forall k, tkey_eqb k k = true.
Proof. intros [a b]. unfold tkey_eqb. cbn. rewrite !N.eqb_refl. reflexivity. Qed.
Lemma tkey_eqb_eq : forall a b, tkey_eqb a b = true -> a = b.
Proof.
  intros [a1 a2] [b1 b2] H. unfold tkey_eqb in H. cbn in H. apply andb_true_iff in H. destruct H as [H1 H2].
  apply N.eqb_eq in H1, H2. subst. reflexivity.
Qed.

Lemma tkey_eqb_sym : forall a b, tkey_eqb a b = tkey_eqb b a.
Proof. intros [a1 a2] [b1 b2]. unfold tkey_eqb. cbn. rewrite (N.eqb_sym a1 b1), (N.eqb_sym a2 b2). reflexivity. Qed.

Lemma tick_get_set : forall l k v k', tick_get (tick_set l k v) k' = if tkey_eqb k k' then Some v else tick_get l k'.
Proof.
  induction l as [|[k0 v0] r IH]; intros k v k'.
  - cbn. destruct (tkey_eqb k k'); reflexivity.
  - cbn [tick_set]. destruct (tkey_eqb k0 k) eqn:E.
    + apply tkey_eqb_eq in E. subst k0. cbn [tick_get]. destruct (tkey_eqb k k'); reflexivity.
    + cbn [tick_get]. destruct (tkey_eqb k0 k') eqn:E'.
      * apply tkey_eqb_eq in E'. subst k'. rewrite tkey_eqb_sym, E. reflexivity.
      * apply IH.
Qed.

Lemma add_files_commits : forall fs dd, dt_commits (fold_left devs_add_file fs dd) = dt_commits dd.
Proof.
  induction fs as [|[k [lang st]] r IH]; intro dd; [reflexivity|]. cbn [fold_left]. rewrite IH. reflexivity.
Qed.

Lemma devs_consume_commits : forall cec st s k,
  commits_at (ds_ticks (fst (devs_consume cec st s))) k =
  commits_at (ds_ticks st) k + (if snd (devs_consume cec st s) && at_key k s then 1 else 0).
Proof.
  intros cec st s k. unfold devs_consume.
  destruct (should_consume (ds_merges st) s) as [ok merges].
  destruct (negb ok); [cbn; lia|].
  destruct ((N.of_nat (length (s_changes s)) =? 0) && negb cec); [cbn; lia|].
  cbn [fst snd ds_ticks andb]. unfold commits_at, at_key. rewrite tick_get_set.
  destruct (tkey_eqb (s_tick s, s_author s) k) eqn:E.
  - apply tkey_eqb_eq in E. subst k.
    destruct (s_ismerge s); [|rewrite add_files_commits]; cbn [dt_commits];
      destruct (tick_get (ds_ticks st) (s_tick s, s_author s)); cbn [dt_commits devtick0]; lia.
  - lia.
Qed.

Lemma devs_run_from_commits : forall cec l st k,
  commits_at (ds_ticks (fst (devs_run_from cec st l))) k =
  commits_at (ds_ticks st) k + N.of_nat (length (filter (at_key k) (select l (snd (devs_run_from cec st l))))).
Proof.
  induction l as [|s r IH]; intros st k.
  - cbn. lia.
  - cbn [devs_run_from]. pose proof (devs_consume_commits cec st s k) as H.
    destruct (devs_consume cec st s) as [st1 b]. cbn [fst snd] in H.
    specialize (IH st1 k). destruct (devs_run_from cec st1 r) as [st2 bs]. cbn [fst snd] in IH |- *.
    rewrite IH, H. cbn [select]. destruct b; cbn [andb].
    + cbn [filter]. destruct (at_key k s); cbn [length]; lia.
    + lia.
Qed.

(* for every replay sequence whatsoever *)
Theorem devs_commits_counter : forall cec l k,
  commits_at (devs_result cec l) k = N.of_nat (length (filter (at_key k) (attributed cec l))).
Proof.
  intros cec l k. unfold devs_result, attributed, devs_run.
  rewrite devs_run_from_commits. cbn. reflexivity.
Qed.

(* ---------- the listing ---------- *)
Lemma commits_run_from : forall l acc,
  map cs_commit (fold_left commits_consume l acc) =
  map cs_commit acc ++ map s_commit (filter (fun s => negb (s_ismerge s)) l).
Proof.
  induction l as [|s r IH]; intro acc.
  - cbn. rewrite app_nil_r. reflexivity.
  - cbn [fold_left filter]. rewrite IH. unfold commits_consume.
    destruct (s_ismerge s); cbn [negb]; [reflexivity|].
    rewrite map_app. cbn [map cs_commit]. rewrite <- app_assoc. reflexivity.
Qed.

Lemma commits_run_listing : forall l,
  map cs_commit (commits_run l) = map s_commit (filter (fun s => negb (s_ismerge s)) l).
Proof. intro l. unfold commits_run. rewrite commits_run_from. reflexivity. Qed.

Lemma count_filter_le : forall c p l, count_commit c (filter p l) <= count_commit c l.
Proof.
  induction l as [|s r IH]; [cbn; lia|]. cbn [filter]. destruct (p s); cbn [count_commit]; lia.
Qed.

Lemma nodup_of_count : forall l, (forall s, In s l -> count_commit (s_commit s) l <= 1) -> NoDup (map s_commit l).
Proof.
  induction l as [|x r IH]; intro H; [constructor|].
  cbn [map]. constructor.
  - intro HIn. apply in_map_iff in HIn. destruct HIn as [s [Hc Hs]].
    specialize (H x (or_introl eq_refl)). cbn [count_commit] in H. rewrite N.eqb_refl in H.
    pose proof (in_count s r Hs) as Hcnt. rewrite Hc in Hcnt. lia.
  - apply IH. intros s Hs. specialize (H s (or_intror Hs)). cbn [count_commit] in H. lia.
Qed.

Theorem commits_listing : forall l, replay_ok l = true ->
  NoDup (map cs_commit (commits_run l)) /\
  (forall c, In c (map cs_commit (commits_run l)) <-> count_commit c l = 1).
Proof.
  intros l Hok. rewrite commits_run_listing.
  set (p := fun s : step => negb (s_ismerge s)).
  assert (Hp : forall s, In s (filter p l) -> count_commit (s_commit s) l = 1).
  { intros s Hs. apply filter_In in Hs. destruct Hs as [Hs Hm]. unfold p in Hm. apply negb_true_iff in Hm.
    destruct (replay_ok_in l s Hok Hs) as [E _]. rewrite Hm in E. symmetry in E. apply N.ltb_ge in E.
    pose proof (in_count s l Hs). lia. }
  split.
  - apply nodup_of_count. intros s Hs. pose proof (count_filter_le (s_commit s) p l). rewrite (Hp s Hs) in H. exact H.
  - intro c. split.
    + intro HIn. apply in_map_iff in HIn. destruct HIn as [s [Hc Hs]]. rewrite <- Hc. apply Hp, Hs.
    + intro Hc. assert (Hh : has_commit c l = true) by (apply has_commit_count; lia).
      apply existsb_exists in Hh. destruct Hh as [s [Hs Hsc]]. apply N.eqb_eq in Hsc.
      apply in_map_iff. exists s. split; [exact Hsc|]. apply filter_In. split; [exact Hs|].
      unfold p. apply negb_true_iff. destruct (replay_ok_in l s Hok Hs) as [E _]. rewrite E, Hsc, Hc. reflexivity.
Qed.
