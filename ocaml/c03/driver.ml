(* C03: replay the harness trace of the real burndown.File through
   (fine)   the extracted Gallina model of NewFile / Update (node list, Len, Updater calls, panic class), and
   (coarse) the property itself: the extracted plain-array edit arr_update, the domain predicates validb /
            must_panicb and the running histogram kept from the Updater calls the implementation made. *)
open C03_model
open Conv

(* the extracted list functions are not tail recursive: a scale case of 10^6 nodes needs more than the default 8 MiB
   of stack, so the driver re-executes itself once under a larger stack limit (stdin has not been touched yet) *)
let () =
  if (try Sys.getenv "VERIF_BIGSTACK" <> "1" with Not_found -> true) then begin
    Unix.putenv "VERIF_BIGSTACK" "1";
    (try Unix.execv "/bin/sh"
           [| "/bin/sh"; "-c"; "ulimit -s 4194304 2>/dev/null || ulimit -s unlimited 2>/dev/null; exec \"$0\" \"$@\""; Sys.executable_name |]
     with _ -> ())
  end

let z = z_of_int
let zi = int_of_z

let pclass_name = function
  | PTimeNeg -> "time-neg" | PTimeBig -> "time-big" | PPosNeg -> "pos-neg" | PPosBig -> "pos-big"
  | PLenNeg -> "len-neg" | PLenBig -> "len-big" | PInvalidTree -> "invalid-tree" | PAfterEnd -> "after-end"
  | PDelAfterEnd -> "del-after-end" | PMark -> "mark" | PNil -> "nil" | PNewTime -> "new-time" | PNewLen -> "new-len"

let show_ints l = "[" ^ String.concat ";" (List.map string_of_int l) ^ "]"
let show_pairs l = "[" ^ String.concat ";" (List.map (fun (a, b) -> Printf.sprintf "%d:%d" a b) l) ^ "]"
let show_trip l = "[" ^ String.concat ";" (List.map (fun (a, b, c) -> Printf.sprintf "(%d,%d,%d)" a b c) l) ^ "]"

(* observation of one step: (panic <class>) | (ok <len> (nodes (k v)...) (lines ...) (cb (c p d)...)) *)
type obs = OPanic of string | OOk of int * (int * int) list * int list * (int * int * int) list

let obs_of_sx (s : sx) : obs =
  match tag s with
  | "panic" -> OPanic (match args s with a :: _ -> atom a | [] -> "?")
  | "ok" ->
      let a = args s in
      let ln = int_of_sx (List.nth a 0) in
      let nodes = List.map (fun n -> match list_of_sx n with [k; v] -> (int_of_sx k, int_of_sx v) | _ -> failwith "node") (args (List.nth a 1)) in
      let lines = List.map int_of_sx (args (List.nth a 2)) in
      let cbs = List.map (fun n -> match list_of_sx n with [c; p; d] -> (int_of_sx c, int_of_sx p, int_of_sx d) | _ -> failwith "cb") (args (List.nth a 3)) in
      OOk (ln, nodes, lines, cbs)
  | t -> failwith ("obs tag " ^ t)

(* the running histogram the observers keep: previousTime -> sum of deltas *)
let bump (h : (int, int) Hashtbl.t) (k : int) (d : int) =
  let v = d + (try Hashtbl.find h k with Not_found -> 0) in
  if v = 0 then Hashtbl.remove h k else Hashtbl.replace h k v
let hist_list h = List.sort compare (Hashtbl.fold (fun k v acc -> (k, v) :: acc) h [])
let count_lines (l : int list) : (int, int) Hashtbl.t =
  let h = Hashtbl.create 16 in List.iter (fun v -> bump h v 1) l; h

let model_nodes s = List.map (fun (k, v) -> (zi k, zi v)) s
let model_reps r = List.map (fun ((c, p), d) -> (zi c, zi p, zi d)) r

exception Stop

let maxu32 = 4294967295

(* ---------- the plain array of the property as an OCaml int array (large files, 10^3 .. 10^6 lines) ----------
   the same edit as the extracted arr_update (delete the range, insert ins lines stamped t), done in place with
   blit + fill; every non-scale case checks these native functions against the extracted ones (self_check) *)
type parr = { mutable a : int array; mutable n : int }
let parr_make n v = { a = Array.make (n + n / 2 + 16) v; n }
let parr_update (p : parr) t pos ins del =
  let n' = p.n + ins - del in
  if n' > Array.length p.a then begin
    let b = Array.make (n' + n' / 2 + 16) 0 in Array.blit p.a 0 b 0 p.n; p.a <- b end;
  if ins <> del then Array.blit p.a (pos + del) p.a (pos + ins) (p.n - pos - del);
  Array.fill p.a pos ins t;
  p.n <- n'
let parr_to_list p = Array.to_list (Array.sub p.a 0 p.n)
let parr_runs p =
  let res = ref [] in
  let i = ref (p.n - 1) in
  while !i >= 0 do
    let v = p.a.(!i) in let j = ref !i in
    while !j >= 0 && p.a.(!j) = v do decr j done;
    res := (v, !i - !j) :: !res; i := !j
  done; !res
let is_mark_i v = v land 16383 = 16383
let nat_in_range n t pos ins del =
  t >= 0 && t < maxu32 && pos >= 0 && ins >= 0 && del >= 0 && pos + del <= n && n + ins - del <= maxu32
let nat_must_panic n t pos ins del =
  t < 0 || t >= maxu32 || pos < 0 || pos > maxu32 || ins < 0 || del < 0 || ins > maxu32 || del > maxu32
  || (not (ins = 0 && del = 0) && (pos > n || pos + del > n))
let parr_mark_ok p t pos del =
  let ok = ref true in
  for i = pos to pos + del - 1 do let v = p.a.(i) in if is_mark_i v && v <> t then ok := false done; !ok

(* ---------- one oracle interface, three representations of the plain array ---------- *)
type oracle = {
  o_len : unit -> int;
  o_in_range : int -> int -> int -> int -> bool;
  o_valid : int -> int -> int -> int -> bool;
  o_must_panic : int -> int -> int -> int -> bool;
  o_slice : int -> int -> (int * int) list;       (* the deleted range as (value, count) runs *)
  o_update : int -> int -> int -> int -> unit;
  o_runs : unit -> (int * int) list;              (* canonical run-length form of the lines *)
}

let flat_oracle t0 n0 : oracle =
  let p = parr_make n0 t0 in
  { o_len = (fun () -> p.n);
    o_in_range = (fun t pos ins del -> nat_in_range p.n t pos ins del);
    o_valid = (fun t pos ins del -> nat_in_range p.n t pos ins del && parr_mark_ok p t pos del);
    o_must_panic = (fun t pos ins del -> nat_must_panic p.n t pos ins del);
    o_slice = (fun pos del -> List.init del (fun i -> (p.a.(pos + i), 1)));
    o_update = (fun t pos ins del -> parr_update p t pos ins del);
    o_runs = (fun () -> parr_runs p) }

(* files that cannot be materialised: the extracted run-length functions (File/Rle.v: rle_update = arr_update,
   rle_validb = validb, rle_must_panicb = must_panicb, rle_len = length on the expanded array) *)
let zruns r = List.map (fun (v, c) -> (zi v, zi c)) r
let rle_oracle t0 n0 : oracle =
  let r = ref (rle_norm [(z t0, z n0)]) in
  { o_len = (fun () -> zi (rle_len !r));
    o_in_range = (fun t pos ins del -> rle_in_rangeb (z t) (z pos) (z ins) (z del) !r);
    o_valid = (fun t pos ins del -> rle_validb (z t) (z pos) (z ins) (z del) !r);
    o_must_panic = (fun t pos ins del -> rle_must_panicb (z t) (z pos) (z ins) (z del) !r);
    o_slice = (fun pos del -> zruns (rle_slice (z pos) (z del) !r));
    o_update = (fun t pos ins del -> r := rle_update (z t) (z pos) (z ins) (z del) !r);
    o_runs = (fun () -> zruns !r) }

let show_runs l = "[" ^ String.concat ";" (List.map (fun (a, b) -> Printf.sprintf "%dx%d" a b) l) ^ "]"
let rec first_diff pos (a : (int * int) list) (b : (int * int) list) =
  match a, b with
  | [], [] -> "equal"
  | (v, c) :: _, [] -> Printf.sprintf "line %d: impl %d, array ends" pos v
  | [], (v, c) :: _ -> Printf.sprintf "line %d: impl ends, array %d" pos v
  | (v, c) :: ra, (w, d) :: rb ->
      if v <> w then Printf.sprintf "line %d: impl %d, array %d" pos v w
      else if c = d then first_diff (pos + c) ra rb
      else if c < d then first_diff (pos + c) ra ((w, d - c) :: rb)
      else first_diff (pos + d) ((v, c - d) :: ra) rb
let clip s = if String.length s > 600 then String.sub s 0 600 ^ "..." else s

(* ---------- scale cases: light observation after every operation, full observation at checkpoints ---------- *)
type sobs =
  | SPanic of string
  | SStep of int * (int * int * int) list                        (* Len, Updater calls *)
  | SChk of int * (int * int) list * (int * int) list option     (* after op#i: nodes, File.flatten as runs *)

let sobs_of_sx (s : sx) : sobs =
  match tag s with
  | "panic" -> SPanic (match args s with a :: _ -> atom a | [] -> "?")
  | "s" ->
      (match args s with
       | ln :: cbs -> SStep (int_of_sx ln, List.map (fun n -> match list_of_sx n with [c; p; d] -> (int_of_sx c, int_of_sx p, int_of_sx d) | _ -> failwith "cb") cbs)
       | [] -> failwith "s")
  | "chk" ->
      let a = args s in
      let pair n = match list_of_sx n with [k; v] -> (int_of_sx k, int_of_sx v) | _ -> failwith "pair" in
      let nodes = List.map pair (args (List.nth a 1)) in
      let runs = if List.length a > 2 then Some (List.map pair (args (List.nth a 2))) else None in
      SChk (int_of_sx (List.hd a), nodes, runs)
  | t -> failwith ("scale obs tag " ^ t)

(* per-step histogram law: the deltas reported in this step, summed per previousTime, are exactly
   -(lines of each value in the deleted range) and +ins for the tick *)
let step_hist_expected (slice : (int * int) list) t ins =
  let h = Hashtbl.create 8 in
  List.iter (fun (v, c) -> bump h v (-c)) slice;
  if ins > 0 then bump h t ins; hist_list h
let step_hist_reported cbs =
  let h = Hashtbl.create 8 in List.iter (fun (_, pv, d) -> bump h pv d) cbs; hist_list h

let judge_scale id ~t0 ~n0 ~(ops : (int * int * int * int) array) ~flat ~model (entries : sobs list) =
  let orc = if flat then flat_oracle t0 n0 else rle_oracle t0 n0 in
  let st = ref None in
  let judging = ref true in
  let idx = ref (-1) in      (* index of the last applied operation; -1 = NewFile *)
  (try
    let first = ref true in
    List.iter (fun e ->
      match e with
      | SChk (i, nodes, runs) ->
          if i <> !idx then failwith (Printf.sprintf "checkpoint index %d at %d" i !idx);
          count "checkpoints";
          let znodes = List.map (fun (k, v) -> (z k, z v)) nodes in
          if !judging then begin
            let expected = orc.o_runs () in
            let of_nodes = zruns (rle_flatten znodes) in
            let impl = match runs with Some r -> r | None -> of_nodes in
            if impl <> expected then begin
              propfail id (Printf.sprintf "scale: after op#%d lines differ from the array (%d vs %d runs): %s" i
                             (List.length impl) (List.length expected) (first_diff 0 impl expected)); judging := false end
            else if of_nodes <> expected then begin
              propfail id (Printf.sprintf "scale: after op#%d the intervals of the tree differ from the array: %s" i (first_diff 0 of_nodes expected));
              judging := false end;
            if !judging && not (wfb znodes) then
              mismatch id (Printf.sprintf "scale: after op#%d the reachable state is not well formed" i)
          end;
          (match !st with
           | Some s when model_nodes s <> nodes ->
               mismatch id (Printf.sprintf "scale: after op#%d nodes differ from the model (%d vs %d nodes)" i (List.length nodes) (List.length s)); st := None
           | _ -> ())
      | _ when !first ->
          first := false;
          (match e with
           | SPanic g -> propfail id ("scale: NewFile panics (" ^ g ^ ") on an admissible tick and length"); raise Stop
           | SStep (ln, cbs) ->
               if ln <> n0 then propfail id (Printf.sprintf "scale: NewFile: Len()=%d for a %d-line file" ln n0);
               let want = if is_mark_i t0 then [] else step_hist_expected [] t0 n0 in
               if step_hist_reported cbs <> want then propfail id ("scale: NewFile reports " ^ show_trip cbs);
               if model then
                 (match new_file (z t0) (z n0) with
                  | Ok (s, r) -> if zi (len s) <> ln || model_reps r <> cbs then mismatch id "scale: NewFile differs from the model" else st := Some s
                  | Panic _ -> mismatch id "scale: model NewFile panics")
           | SChk _ -> failwith "scale: first observation")
      | _ ->
          incr idx;
          let i = !idx in
          if i >= Array.length ops then failwith "more observations than operations";
          let (t, p, ins, del) = ops.(i) in
          let here = Printf.sprintf "scale op#%d (%d %d %d %d)" i t p ins del in
          (* ---- the property ---- *)
          if !judging then begin
            let valid = orc.o_valid t p ins del and mustp = orc.o_must_panic t p ins del in
            (match e with
             | SPanic g ->
                 if valid then propfail id (here ^ " a valid request panics (" ^ g ^ ")")
                 else if mustp then count "rejected_out_of_range" else count "panic_outside_domain"
             | SStep (ln, cbs) ->
                 if mustp then begin propfail id (here ^ " an out-of-range request is silently accepted"); judging := false end
                 else if valid then begin
                   count "valid_ops"; count "scale_ops";
                   let want = if is_mark_i t then [] else step_hist_expected (orc.o_slice p del) t ins in
                   orc.o_update t p ins del;
                   if ln <> orc.o_len () then begin
                     propfail id (here ^ Printf.sprintf " Len()=%d, the array has %d lines" ln (orc.o_len ())); judging := false end
                   else if is_mark_i t && cbs <> [] then
                     propfail id (here ^ " an operation stamped with the merge mark reports " ^ clip (show_trip cbs))
                   else if step_hist_reported cbs <> want then begin
                     propfail id (here ^ " the reported deltas change the observers' histogram by " ^ clip (show_pairs (step_hist_reported cbs))
                                  ^ ", the array's histogram changes by " ^ clip (show_pairs want)); judging := false end
                 end else begin count "outside_domain"; judging := false end
             | SChk _ -> ())
          end;
          (* ---- the model ---- *)
          (match !st with
           | None -> ()
           | Some s ->
               (match update (z t) (z p) (z ins) (z del) s, e with
                | Panic cl, SPanic g -> if pclass_name cl <> g then mismatch id (here ^ Printf.sprintf " panic class: impl=%s model=%s" g (pclass_name cl))
                | Panic cl, _ -> mismatch id (here ^ " model panics (" ^ pclass_name cl ^ "), implementation does not"); st := None
                | Ok _, SPanic g -> mismatch id (here ^ " implementation panics (" ^ g ^ "), model does not"); st := None
                | Ok (s', r), SStep (ln, cbs) ->
                    if zi (len s') <> ln then begin mismatch id (here ^ " Len differs from the model"); st := None end
                    else if model_reps r <> cbs then begin
                      mismatch id (here ^ " updater calls: impl=" ^ clip (show_trip cbs) ^ " model=" ^ clip (show_trip (model_reps r))); st := None end
                    else begin count "steps"; st := Some s' end
                | _ -> ()));
          (match e with SPanic _ -> raise Stop | _ -> ())) entries
  with Stop -> ())


let () =
  iter_cases (fun id c ->
    if field_opt "script" c <> None then begin
      (* a scale case: light observations after every operation, full ones at checkpoints *)
      let t0 = int_of_sx (List.hd (args (field "t0" c))) and n0 = int_of_sx (List.hd (args (field "n0" c))) in
      let ops = Array.of_list (List.map (fun o -> match ints_of_sx o with [t; p; i; d] -> (t, p, i, d) | _ -> failwith "op") (args (field "script" c))) in
      let flag name = match field_opt name c with Some f -> int_of_sx (List.hd (args f)) <> 0 | None -> true in
      let flat = flag "flat" && n0 <= 50000000 in
      count (if flat then "scale_cases" else "scale_cases_run_length");
      if flag "model" then count "scale_cases_with_model";
      judge_scale id ~t0 ~n0 ~ops ~flat ~model:(flag "model") (List.map sobs_of_sx (args (field "obs" c)))
    end else
    let t0 = int_of_sx (List.hd (args (field "t0" c))) and n0 = int_of_sx (List.hd (args (field "n0" c))) in
    let ops = List.map (fun o -> match ints_of_sx o with [t; p; i; d] -> (t, p, i, d) | _ -> failwith "op") (args (field "ops" c)) in
    let obs = List.map obs_of_sx (args (field "obs" c)) in
    let huge = n0 > 100000 || List.exists (fun (_, _, ins, _) -> ins > 1000000 && ins <= maxu32) ops in
    (try
      (* ---- NewFile ---- *)
      let ob0, obs = match obs with o :: r -> (o, r) | [] -> failwith "no NewFile observation" in
      let new_in_domain = t0 >= 0 && t0 <= maxu32 && n0 >= 0 && n0 <= maxu32 in
      let st = ref [] in
      (* plain array, kept as OCaml ints; handed to the extracted functions as Z lists *)
      let arr = ref [] in
      let hobs = Hashtbl.create 16 in        (* accumulated from the implementation's Updater calls *)
      let hexp = Hashtbl.create 16 in        (* what the array says they must have accumulated *)
      (match new_file (z t0) (z n0), ob0 with
       | Panic cl, OPanic g ->
           if pclass_name cl <> g then mismatch id (Printf.sprintf "NewFile panic class: impl=%s model=%s" g (pclass_name cl));
           if new_in_domain then propfail id "NewFile panics on an admissible tick and length";
           count "newfile_panic"; raise Stop
       | Panic cl, OOk _ -> mismatch id ("NewFile: model panics " ^ pclass_name cl ^ ", implementation does not"); raise Stop
       | Ok _, OPanic g ->
           if new_in_domain then propfail id ("NewFile panics (" ^ g ^ ") on an admissible tick and length")
           else mismatch id ("NewFile: implementation panics " ^ g ^ ", model does not");
           raise Stop
       | Ok (s, r), OOk (ln, nodes, lines, cbs) ->
           List.iter (fun (_, p, d) -> bump hobs p d) cbs;
           if new_in_domain then begin
             if huge then begin
               (* files (or insertions) too long to materialise line by line: the property is judged on the
                  run-length array (extracted rle_update / rle_validb / rle_must_panicb, File/Rle.v) *)
               count "huge_file"; arr := [];
               let entries = List.concat (List.mapi (fun i o -> match o with
                 | OPanic g -> [SPanic g]
                 | OOk (ln, nodes, _, cbs) -> [SStep (ln, cbs); SChk (i - 1, nodes, None)]) (ob0 :: obs)) in
               judge_scale id ~t0 ~n0 ~ops:(Array.of_list ops) ~flat:false ~model:false entries
             end else begin
               arr := List.init n0 (fun _ -> t0);
               if ln <> n0 then propfail id (Printf.sprintf "NewFile: Len()=%d for a %d-line file" ln n0)
               else if lines <> !arr then propfail id ("NewFile: lines " ^ show_ints lines);
               if not (is_mark (z t0)) then bump hexp t0 n0;
               if hist_list hobs <> hist_list hexp then
                 propfail id ("NewFile: reported deltas give histogram " ^ show_pairs (hist_list hobs) ^ " expected " ^ show_pairs (hist_list hexp))
             end
           end else count "newfile_outside_domain";
           if model_nodes s <> nodes then mismatch id ("NewFile nodes: impl=" ^ show_pairs nodes ^ " model=" ^ show_pairs (model_nodes s))
           else if zi (len s) <> ln then mismatch id "NewFile Len"
           else if model_reps r <> cbs then mismatch id ("NewFile updater calls: impl=" ^ show_trip cbs ^ " model=" ^ show_trip (model_reps r));
           st := s;
           if not new_in_domain then begin
             (* e.g. a negative length: the tree is not well formed; only the correspondence is followed *)
             arr := []
           end);
      let in_domain = ref (new_in_domain && not huge) in
      (* self-check of the driver's native array (used alone on scale cases) and of the run-length oracle *)
      let sp = parr_make (if !in_domain then n0 else 0) t0 in
      let ro = rle_oracle t0 (if !in_domain then n0 else 0) in
      if List.length obs > List.length ops then failwith "more observations than operations";
      List.iteri (fun i ob ->
        let (t, p, ins, del) = List.nth ops i in
        let here = Printf.sprintf "op#%d (%d %d %d %d)" i t p ins del in
        let zarr = List.map z !arr in
        (* ---- coarse: the property, judged on the implementation's own outputs ---- *)
        if !in_domain then begin
          let valid = validb (z t) (z p) (z ins) (z del) zarr in
          let inr = in_rangeb (z t) (z p) (z ins) (z del) zarr in
          let mustp = must_panicb (z t) (z p) (z ins) (z del) zarr in
          if (nat_in_range sp.n t p ins del && parr_mark_ok sp t p del) <> valid || nat_must_panic sp.n t p ins del <> mustp
             || ro.o_valid t p ins del <> valid || ro.o_must_panic t p ins del <> mustp then
            failwith (Printf.sprintf "case %d: self-check of the native / run-length domain predicates failed" id);
          (match ob with
           | OPanic g ->
               if valid then propfail id (here ^ " a valid request panics (" ^ g ^ ")")
               else if mustp then count "rejected_out_of_range"
               else count "panic_outside_domain"
           | OOk (ln, _, lines, cbs) ->
               if mustp then propfail id (here ^ " an out-of-range request is silently accepted")
               else if valid then begin
                 count "valid_ops";
                 let arr' = List.map zi (arr_update (z t) (z p) (z ins) (z del) zarr) in
                 parr_update sp t p ins del; ro.o_update t p ins del;
                 if parr_to_list sp <> arr' || ro.o_runs () <> parr_runs sp then
                   failwith (Printf.sprintf "case %d: self-check of the native / run-length array edit failed" id);
                 if ln <> List.length arr' then propfail id (here ^ Printf.sprintf " Len()=%d, the array has %d lines" ln (List.length arr'))
                 else if lines <> arr' then propfail id (here ^ " lines differ from the array: impl=" ^ show_ints lines ^ " array=" ^ show_ints arr')
                 else begin
                   if is_mark (z t) then begin
                     count "mark_ops";
                     if cbs <> [] then propfail id (here ^ " an operation stamped with the merge mark reports " ^ show_trip cbs)
                   end else begin
                     List.iter (fun (_, pv, d) -> bump hobs pv d) cbs;
                     (* expected change of the histogram: - deleted lines, + inserted lines *)
                     let rec drop n l = if n <= 0 then l else match l with [] -> [] | _ :: r -> drop (n - 1) r in
                     let rec take n l = if n <= 0 then [] else match l with [] -> [] | x :: r -> x :: take (n - 1) r in
                     List.iter (fun v -> bump hexp v (-1)) (take del (drop p !arr));
                     if ins > 0 then bump hexp t ins;
                     if hist_list hobs <> hist_list hexp then
                       propfail id (here ^ " running histogram from the reported deltas " ^ show_pairs (hist_list hobs)
                                    ^ " differs from the array's " ^ show_pairs (hist_list hexp) ^ " calls=" ^ show_trip cbs)
                   end;
                   if ins = 0 && del = 0 then count "noop_ops";
                   if del > 0 && ins > 0 then count "replace_ops" else if del > 0 then count "delete_ops" else if ins > 0 then count "insert_ops"
                 end;
                 arr := arr'
               end else if not inr && ins = 0 && del = 0 then begin
                 (* an empty request beyond the end: accepted by the implementation although the position is out of
                    range (known finding F18; generated only by the kinds *-emptybeyond); nothing may change *)
                 count "noop_beyond_end";
                 propfail id ("[empty-request-beyond-end] " ^ here ^ Printf.sprintf " an empty request (ins = del = 0) at position %d beyond the end (Len %d) is accepted without a panic" p (List.length !arr));
                 if lines <> !arr then propfail id (here ^ " an empty request changed the lines") ;
                 if cbs <> [] then propfail id (here ^ " an empty request reported deltas")
               end else begin
                 (* in range except for the uint32 side condition or the mark protocol: outside the domain *)
                 count "outside_domain"; in_domain := false
               end)
        end;
        (* ---- fine: the model ---- *)
        (match update (z t) (z p) (z ins) (z del) !st, ob with
         | Panic cl, OPanic g ->
             count ("panic_" ^ g);
             if pclass_name cl <> g then mismatch id (here ^ Printf.sprintf " panic class: impl=%s model=%s" g (pclass_name cl));
             raise Stop
         | Panic cl, OOk _ -> mismatch id (here ^ " model panics (" ^ pclass_name cl ^ "), implementation does not"); raise Stop
         | Ok _, OPanic g -> mismatch id (here ^ " implementation panics (" ^ g ^ "), model does not"); raise Stop
         | Ok (s', r), OOk (ln, nodes, _, cbs) ->
             if model_nodes s' <> nodes then begin
               mismatch id (here ^ " nodes: impl=" ^ show_pairs nodes ^ " model=" ^ show_pairs (model_nodes s')); raise Stop end
             else if zi (len s') <> ln then begin mismatch id (here ^ " Len"); raise Stop end
             else if model_reps r <> cbs then begin
               mismatch id (here ^ " updater calls: impl=" ^ show_trip cbs ^ " model=" ^ show_trip (model_reps r)); raise Stop end;
             if !in_domain && not (wfb s') then mismatch id (here ^ " reachable state is not well formed: " ^ show_pairs nodes);
             count "steps";
             st := s')) obs
    with Stop -> ()))
