// Round 4 of the execution stream: the CONTENT of the values a history is made of (docs/STRENGTHEN_BRIEF.md, R4-1 .. R4-6).
//
//   - time (R4-3): tmode % 100 >= 7 are committer dates that the earlier modes (all within a few days of 2017-07-14) never
//     reached: 7 a few commits dated 2100-01-01, 8 a few commits dated 36 hours after the moment the harness runs, 9 every
//     commit in the future of the wall clock, 10 the ends of the domain (1970-01-01 00:00:00 and :01, 2^31-1, 2^31, 2^32-1,
//     2^32, 9999-12-31) with ties, 11 commits alternately one hour before and one hour after the present moment.
//     Run must replay a commit whatever its date; nothing may depend on time.Now().
//   - tmode / 100 = 1 (zone mode): committer dates carry non-zero zone offsets (+14:00, -12:00, +05:45, -03:30 ..), the author
//     date differs from the committer date (earlier, later, ten years off), author and committer are different people and
//     their names / e-mails hold invalid UTF-8, U+FFFD, a BOM, tabs, NBSP, case variants of one name (R4-1).
//   - twins (R4-2): two commits of the history - the parents of a merge, two roots, siblings, a merge and its parent - whose
//     genuine SHA-1 hashes agree in their first k hex digits (k = 1, 2, 4, 7, 8); the messages carry a nonce that is searched
//     (birthday search over both commits when neither descends from the other).
package main

import (
	"crypto/sha1"
	"fmt"
	"io/ioutil"
	"math/rand"
	"sort"
	"sync"
	"time"

	"gopkg.in/src-d/go-git.v4/plumbing"
	"gopkg.in/src-d/go-git.v4/plumbing/object"
	. "verifharness/lib"
	pl "verifharness/planlib"
	"verifharness/synth"
)

// numTimeModes: 0 growing (one minute apart), 1..6 planlib.TimesFor, 7..11 the modes of extraTimes.
const numTimeModes = 12

const firstExtraTime = 7

var (
	unix2100 = time.Date(2100, 1, 1, 0, 0, 0, 0, time.UTC).Unix()
	unix9999 = time.Date(9999, 12, 31, 23, 59, 59, 0, time.UTC).Unix()
)

// extraTimes gives absolute committer dates (Unix seconds) for the modes >= 7.
func extraTimes(mode, n int, r *rand.Rand, now int64) []int64 {
	ts := make([]int64, n)
	for i := range ts {
		ts[i] = pl.TimeBase + 60*int64(i)
	}
	some := func(f func(i int) int64) {
		hit := false
		for i := range ts {
			if r.Intn(3) == 0 {
				ts[i] = f(i)
				hit = true
			}
		}
		if !hit && n > 0 {
			i := r.Intn(n)
			ts[i] = f(i)
		}
	}
	switch mode {
	case 7:
		some(func(i int) int64 { return unix2100 + 60*int64(i) })
	case 8:
		some(func(i int) int64 { return now + 36*3600 + int64(i) })
	case 9:
		for i := range ts {
			ts[i] = now + 86400 + 60*int64(i)
			if r.Intn(4) == 0 {
				ts[i] = now + 86400 + 60*int64(n-i)
			}
		}
	case 10:
		ends := []int64{0, 1, 1<<31 - 1, 1 << 31, 1<<32 - 1, 1 << 32, unix9999, pl.TimeBase}
		for i := range ts {
			ts[i] = ends[r.Intn(len(ends))]
		}
	default:
		for i := range ts {
			ts[i] = now - 3600 + int64(i)
			if (i+r.Intn(2))%2 == 0 {
				ts[i] = now + 3600 + int64(i)
			}
		}
	}
	return ts
}

var zones = []*time.Location{time.UTC, time.FixedZone("", 14*3600), time.FixedZone("", -12*3600), time.FixedZone("", 5*3600+45*60),
	time.FixedZone("", -(3*3600 + 30*60)), time.FixedZone("", 3600), time.FixedZone("", -60)}

// names that a normalisation (case folding, trimming, UTF-8 sanitising) would make equal occur side by side
var oddNames = []string{"u", "U", "\xffu", "\ufffdu", "\xc3", "\ufeffu", "u\tv", "u\u00a0", "\u3000u", "u\u2028", "u\x00v", "u v",
	"\xed\xa0\x80u", "\xc0\xafu"}
var oddMails = []string{"u@x", "U@X", "1+u@users.noreply.github.com", "u@users.noreply.github.com", "u\xff@x", "u\ufffd@x", "\ufeffu@x", "u@x\t"}

// signature fills the people and dates of commit i.
func signature(spec *synth.CommitSpec, i, zmode int, when time.Time, r *rand.Rand) {
	spec.AuthorName, spec.AuthorEmail, spec.AuthorWhen = "u", "u@x", when
	if zmode == 0 {
		return
	}
	cw := when.In(zones[r.Intn(len(zones))])
	aw := cw
	switch r.Intn(5) {
	case 0:
		aw = cw.Add(-time.Hour)
	case 1:
		aw = cw.Add(26 * time.Hour) // the author date after the committer date
	case 2:
		aw = cw.AddDate(-10, 0, 0)
	case 3:
		aw = cw.AddDate(80, 0, 0) // an author date in the future, whatever the committer date is
	}
	spec.AuthorWhen = aw.In(zones[r.Intn(len(zones))])
	spec.CommitterWhen = cw
	spec.AuthorName, spec.AuthorEmail = oddNames[r.Intn(len(oddNames))], oddMails[r.Intn(len(oddMails))]
	spec.CommitterName, spec.CommitterEmail = oddNames[r.Intn(len(oddNames))], oddMails[r.Intn(len(oddMails))]
}

// ---------------------------------------------------------------------------------------------
// twins: commits whose real hashes share a prefix

type twin struct{ A, B, K int } // commits A < B of the graph, K hex digits

var (
	treeOnce sync.Once
	treeHash plumbing.Hash
)

// theTree is the tree every commit of this harness carries (one file).
func theTree() plumbing.Hash {
	treeOnce.Do(func() {
		_, cs := synth.BuildRepo([]synth.CommitSpec{{AuthorName: "u", AuthorEmail: "u@x", AuthorWhen: time.Unix(pl.TimeBase, 0),
			Message: "t", Files: theFiles}})
		treeHash = cs[0].TreeHash
	})
	return treeHash
}

var theFiles = []synth.FileSpec{{Path: "f", Data: []byte("x\n")}}

// encodeCommit mirrors synth.BuildRepoFunc: the bytes of the commit object ("commit <len>\0" + body).
func encodeCommit(c synth.CommitSpec, parents []plumbing.Hash) []byte {
	cn, ce, cw := c.CommitterName, c.CommitterEmail, c.CommitterWhen
	if cn == "" && ce == "" {
		cn, ce = c.AuthorName, c.AuthorEmail
	}
	if cw.IsZero() {
		cw = c.AuthorWhen
	}
	cm := &object.Commit{
		Author:    object.Signature{Name: c.AuthorName, Email: c.AuthorEmail, When: c.AuthorWhen},
		Committer: object.Signature{Name: cn, Email: ce, When: cw},
		Message:   c.Message, TreeHash: theTree(), ParentHashes: parents}
	o := &plumbing.MemoryObject{}
	if err := cm.Encode(o); err != nil {
		panic(err)
	}
	rd, _ := o.Reader()
	body, _ := ioutil.ReadAll(rd)
	return append([]byte(fmt.Sprintf("commit %d\x00", len(body))), body...)
}

const nonceTag = "nonce="

func withNonce(msg string) string { return msg + " " + nonceTag + "00000000" }

// nonceAt is the offset of the eight nonce digits in an encoded commit whose message came from withNonce.
func nonceAt(raw []byte) int {
	for i := len(raw) - len(nonceTag) - 8; i >= 0; i-- {
		if string(raw[i:i+len(nonceTag)]) == nonceTag {
			return i + len(nonceTag)
		}
	}
	panic("no nonce in the commit")
}

const hexDigits = "0123456789abcdef"

func setNonce(raw []byte, at int, x uint32) {
	for j := 7; j >= 0; j-- {
		raw[at+j] = hexDigits[x&15]
		x >>= 4
	}
}

func prefixOf(sum [20]byte, k int) uint32 {
	v := uint32(sum[0])<<24 | uint32(sum[1])<<16 | uint32(sum[2])<<8 | uint32(sum[3])
	if k >= 8 {
		return v
	}
	return v >> uint(4*(8-k))
}

// commonHex is the number of leading hex digits two hashes share.
func commonHex(a, b plumbing.Hash) int {
	sa, sb := a.String(), b.String()
	k := 0
	for k < len(sa) && sa[k] == sb[k] {
		k++
	}
	return k
}

// twinMessages searches nonces so that the hashes of the twin commits share K hex digits and returns the specifications
// with the final messages.  specs are the commits in writing order (parents index earlier ones); off = number of
// commits outside the analysed set that precede commit 0 of the graph.
func twinMessages(specs []synth.CommitSpec, off int, twins []twin, anc func(a, b int) bool) {
	n := len(specs)
	hs := make([]plumbing.Hash, n)
	hashFrom := func(from int) {
		for i := from; i < n; i++ {
			ps := make([]plumbing.Hash, len(specs[i].Parents))
			for j, p := range specs[i].Parents {
				ps[j] = hs[p]
			}
			hs[i] = plumbing.Hash(sha1.Sum(encodeCommit(specs[i], ps)))
		}
	}
	hashFrom(0)
	sorted := append([]twin(nil), twins...)
	sort.SliceStable(sorted, func(i, j int) bool { return sorted[i].B < sorted[j].B })
	raw := func(i int) ([]byte, int) {
		specs[i].Message = withNonce(specs[i].Message)
		ps := make([]plumbing.Hash, len(specs[i].Parents))
		for j, p := range specs[i].Parents {
			ps[j] = hs[p]
		}
		b := encodeCommit(specs[i], ps)
		return b, nonceAt(b)
	}
	fix := func(i int, x uint32) {
		m := []byte(specs[i].Message)
		setNonce(m, len(m)-8, x)
		specs[i].Message = string(m)
	}
	for _, t := range sorted {
		a, b, k := off+t.A, off+t.B, t.K
		if a == b || k <= 0 {
			continue
		}
		if k > 8 {
			k = 8
		}
		if anc(t.A, t.B) {
			// B descends from A: A keeps its hash, B alone is searched (16^k attempts; at most 4 digits)
			if k > 4 {
				k = 4
			}
			want := prefixOf([20]byte(hs[a]), k)
			rb, at := raw(b)
			for x := uint32(0); ; x++ {
				setNonce(rb, at, x)
				if prefixOf(sha1.Sum(rb), k) == want {
					fix(b, x)
					break
				}
			}
			hashFrom(b)
			continue
		}
		ra, ata := raw(a)
		// B does not descend from A: its bytes do not depend on A's message, both are searched at once (birthday search)
		rb, atb := raw(b)
		seenA, seenB := map[uint32]uint32{}, map[uint32]uint32{}
		for x := uint32(0); ; x++ {
			setNonce(ra, ata, x)
			pa := prefixOf(sha1.Sum(ra), k)
			if y, ok := seenB[pa]; ok {
				fix(a, x)
				fix(b, y)
				break
			}
			seenA[pa] = x
			setNonce(rb, atb, x)
			pb := prefixOf(sha1.Sum(rb), k)
			if y, ok := seenA[pb]; ok {
				fix(a, y)
				fix(b, x)
				break
			}
			seenB[pb] = x
		}
		hashFrom(a)
	}
}

// mergesOf lists the commits with at least two distinct parents inside the set.
func mergesOf(ps [][]int) []int {
	var ms []int
	for c, p := range ps {
		for _, q := range p {
			if q != p[0] {
				ms = append(ms, c)
				break
			}
		}
	}
	return ms
}

// twinsFor chooses the pairs of one case: the parents of its merges (what a set of parents keyed too coarsely confuses),
// and sometimes two arbitrary commits (roots, siblings, a commit and its descendant).
func twinsFor(r rnd, g pl.Graph, k int, long bool) []twin {
	ps := g.Parents()
	var ts []twin
	add := func(a, b int) {
		if a > b {
			a, b = b, a
		}
		if a != b {
			kk := k
			if len(ts) > 0 && kk > 4 && !long {
				kk = 4 // one long search per case in the quick tier
			}
			ts = append(ts, twin{a, b, kk})
		}
	}
	ms := mergesOf(ps)
	for i, m := range ms {
		if i >= 2 && r.Intn(2) == 0 {
			continue
		}
		var d []int // distinct parents
		for _, q := range ps[m] {
			dup := false
			for _, x := range d {
				dup = dup || x == q
			}
			if !dup {
				d = append(d, q)
			}
		}
		i0 := r.Intn(len(d))
		i1 := (i0 + 1 + r.Intn(len(d)-1)) % len(d)
		add(d[i0], d[i1])
	}
	if g.N >= 2 && (len(ts) == 0 || r.Intn(3) == 0) {
		a := r.Intn(g.N)
		add(a, (a+1+r.Intn(g.N-1))%g.N)
	}
	if len(ts) > 4 {
		ts = ts[:4]
	}
	return ts
}

var twinDigits = []int{1, 2, 4, 7, 8}

// twinStreams: kinds twins-ex<n> (every DAG on <= 5 commits that has a merge: the parents of its merges share 4 hex digits -
// thorough: 8) and twins (multi-root / random / wide histories, 1 .. 8 hex digits), x distance x options x timestamps.
func twinStreams(c *Config, ins *[]caseIn, flush func()) {
	r := c.Rng
	for n := 3; n <= 5; n++ {
		for m := 0; m < pl.NumMasks(n); m++ {
			g := pl.FromParents(pl.DagFromMask(n, m), pl.Identity(n))
			if len(mergesOf(g.Parents())) == 0 {
				continue
			}
			k := 4
			if c.Thorough() || m%41 == 0 {
				k = 8
			}
			*ins = append(*ins, caseIn{Kind: fmt.Sprintf("twins-ex%d", n), G: g, Dist: m % 4, Salt: r.Intn(1 << 20), Opts: (m / 4) % 4,
				TMode: (m / 16) % numTimeModes, Twins: twinsFor(r, g, k, c.Thorough())})
		}
	}
	flush()
	for i := c.Count(600, 20000); i > 0; i-- {
		var g pl.Graph
		switch r.Intn(4) {
		case 0:
			g = pl.RandomGraph(c.Rng, 14)
		case 1:
			ps := pl.WideGraph(c.Rng, 14)
			g = pl.FromParents(ps, pl.Identity(len(ps)))
			g.Order = randOrder(r, g.N)
		default:
			g = rootsGraph(r, 1+r.Intn(4))
		}
		k := twinDigits[r.Intn(len(twinDigits))]
		if k >= 7 && !c.Thorough() && r.Intn(3) != 0 {
			k = []int{3, 5, 6}[r.Intn(3)]
		}
		*ins = append(*ins, caseIn{Kind: "twins", G: g, Dist: r.Intn(4), Salt: r.Intn(1 << 20), Opts: r.Intn(4), TMode: tm(r), Twins: twinsFor(r, g, k, c.Thorough())})
		if len(*ins) >= 2048 {
			flush()
		}
	}
	flush()
}
