(* C18 - specification side: what "the sums of the inputs after re-indexing" means, as executable
   functions over the INPUTS (filter-and-sum, no accumulation), and the boolean oracles the replay driver
   evaluates on the outputs of the real Go code.  Definitions only. *)
From Coq Require Import List ZArith Bool.
From Herc Require Import Combine.Model.
Import ListNotations.
Open Scope Z_scope.

(* ---------- sums over association lists ---------- *)
Section Sums.
  Context {K V : Type} (eqb : K -> K -> bool) (w : V -> Z).
  (* the weight stored under key k (all entries with that key; a Go map has at most one) *)
  Fixpoint asum (k : K) (m : list (K * V)) : Z :=
    match m with
    | [] => 0
    | (k', v) :: r => (if eqb k k' then w v else 0) + asum k r
    end.
  Fixpoint atotal (m : list (K * V)) : Z :=
    match m with
    | [] => 0
    | (_, v) :: r => w v + atotal r
    end.
  Definition wopt (o : option V) : Z := match o with Some v => w v | None => 0 end.
End Sums.

Definition idZ (z : Z) : Z := z.

Fixpoint keys_nodup {K V} (eqb : K -> K -> bool) (m : list (K * V)) : bool :=
  match m with
  | [] => true
  | (k, _) :: r => negb (existsb (fun e => eqb k (fst e)) r) && keys_nodup eqb r
  end.

Fixpoint sumZ (l : list Z) : Z := match l with [] => 0 | x :: r => x + sumZ r end.

Definition nthZ {A} (l : list A) (i : Z) (d : A) : A := if i <? 0 then d else nth (Z.to_nat i) l d.

Fixpoint seqZ (start : Z) (n : nat) : list Z :=
  match n with O => [] | S n' => start :: seqZ (start + 1) n' end.

(* ---------- developer statistics ---------- *)
Inductive lsf := LAdded | LRemoved | LChanged.
Definition ls_get (k : lsf) (s : LineStats) : Z :=
  match k with LAdded => ls_added s | LRemoved => ls_removed s | LChanged => ls_changed s end.
Inductive field := FCommits | FLine (k : lsf) | FLang (l : name) (k : lsf).
(* one figure of a DevTick *)
Definition msum (f : field) (s : DevTick) : Z :=
  match f with
  | FCommits => dt_commits s
  | FLine k => ls_get k (dt_ls s)
  | FLang l k => asum name_eqb (ls_get k) l (dt_langs s)
  end.

(* the merged developer index an input developer is sent to (-1 where the Go code panics) *)
Definition newdev0 (people : table) (rd : list name) (d : Z) : Z :=
  match reindex_dev people rd d with Ok n => n | _ => -1 end.

(* Sum over the entries (t', d, s) of an input with t' + off = t and newdev d = k *)
Fixpoint dd_sum_to (f : field) (people : table) (rd : list name) (k : Z) (dd : devmap) : Z :=
  match dd with
  | [] => 0
  | (d, s) :: r => (if newdev0 people rd d =? k then msum f s else 0) + dd_sum_to f people rd k r
  end.
Fixpoint in_sum (f : field) (people : table) (rd : list name) (off t k : Z) (tm : tickmap) : Z :=
  match tm with
  | [] => 0
  | (t', dd) :: r => (if t' + off =? t then dd_sum_to f people rd k dd else 0) + in_sum f people rd off t k r
  end.
(* the figure stored in a result for tick t and developer k *)
Definition out_cell (f : field) (t k : Z) (tm : tickmap) : Z :=
  asum Z.eqb (asum Z.eqb (msum f) k) t tm.
(* the figure summed over all ticks and developers *)
Definition dv_total (f : field) (tm : tickmap) : Z := atotal (atotal (msum f)) tm.

Definition dv_maps_ok (tm : tickmap) : bool :=
  keys_nodup Z.eqb tm &&
  forallb (fun e => keys_nodup Z.eqb (snd e) &&
                    forallb (fun e' => keys_nodup name_eqb (dt_langs (snd e'))) (snd e)) tm.

Definition tm_langs (tm : tickmap) : list name :=
  flat_map (fun e => flat_map (fun e' => map fst (dt_langs (snd e'))) (snd e)) tm.
Definition all_fields (langs : list name) : list field :=
  [FCommits; FLine LAdded; FLine LRemoved; FLine LChanged] ++
  flat_map (fun l => [FLang l LAdded; FLang l LRemoved; FLang l LChanged]) langs.
Definition tm_keys (tm : tickmap) : list (Z * Z) :=
  flat_map (fun e => map (fun e' => (fst e, fst e')) (snd e)) tm.
Definition in_keys (people : table) (rd : list name) (off : Z) (tm : tickmap) : list (Z * Z) :=
  flat_map (fun e => map (fun e' => (fst e + off, newdev0 people rd (fst e'))) (snd e)) tm.

(* oracle on an OUTPUT [out] (of the Go code or of the model) *)
Definition dv_conserve_b (people : table) (merged : list name) (r1 r2 : DevsResult) (o1 o2 : Z)
           (out : DevsResult) : bool :=
  let fields := all_fields (tm_langs (dr_ticks r1) ++ tm_langs (dr_ticks r2) ++ tm_langs (dr_ticks out)) in
  let keys := tm_keys (dr_ticks out) ++ in_keys people (dr_people r1) o1 (dr_ticks r1)
                      ++ in_keys people (dr_people r2) o2 (dr_ticks r2) in
  dv_maps_ok (dr_ticks out) &&
  forallb (fun f => dv_total f (dr_ticks out) =? dv_total f (dr_ticks r1) + dv_total f (dr_ticks r2)) fields &&
  forallb (fun f => forallb (fun tk =>
       out_cell f (fst tk) (snd tk) (dr_ticks out) =?
       in_sum f people (dr_people r1) o1 (fst tk) (snd tk) (dr_ticks r1) +
       in_sum f people (dr_people r2) o2 (fst tk) (snd tk) (dr_ticks r2)) keys) fields.

(* ---------- couples ---------- *)
Definition fidx0 (ftab : table) (fdict : list name) (f : Z) : Z :=
  match file_index ftab fdict f with Ok i => i | _ => -1 end.
Definition pidx0 (people : table) (rd merged : list name) (p : Z) : Z :=
  match people_index people rd merged p with Ok i => i | _ => -1 end.
(* developer index used for PeopleFiles (no "missing developer" row there) *)
Definition pfidx0 (people : table) (rd : list name) (p : Z) : Z :=
  match idx rd p with Ok s => Final (lookup0 people s) | _ => -1 end.

Fixpoint row_sum_to (ri : Z -> Z) (b : Z) (r : row) : Z :=
  match r with
  | [] => 0
  | (c, v) :: rest => (if ri c =? b then v else 0) + row_sum_to ri b rest
  end.
(* Sum over the cells (i, c) of an input matrix with ri i = a and ri c = b *)
Fixpoint rows_sum (ri : Z -> Z) (a b : Z) (rows : list row) (i : Z) : Z :=
  match rows with
  | [] => 0
  | r :: rest => (if ri i =? a then row_sum_to ri b r else 0) + rows_sum ri a b rest (i + 1)
  end.
Definition out_get (rows : list row) (a b : Z) : Z := asum Z.eqb idZ b (nthZ rows a []).

(* the merged file indices developer w touched according to an input *)
Fixpoint pf_members (pi : Z -> Z) (fi : Z -> Z) (w : Z) (pf : list (list Z)) (i : Z) : list Z :=
  match pf with
  | [] => []
  | fs :: rest => (if pi i =? w then map fi fs else []) ++ pf_members pi fi w rest (i + 1)
  end.

Fixpoint position (s : name) (l : list name) (i : Z) : option Z :=
  match l with
  | [] => None
  | x :: r => if name_eqb s x then Some i else position s r (i + 1)
  end.
(* FilesLines by file name (0 for a file the result does not have) *)
Definition lines_of (files : list name) (fl : list Z) (name : name) : Z :=
  match position name files 0 with Some i => nthZ fl i 0 | None => 0 end.

(* re-indexing of a file index BY NAME: the position, in the merged file list, of the name the input
   result has at index f (-1 where there is none) *)
Definition name_index (mfiles files : list name) (f : Z) : Z :=
  match idx files f with Ok s => default (-1) (position s mfiles 0) | _ => -1 end.

Fixpoint strictly_sorted (l : list Z) : bool :=
  match l with
  | [] => true
  | x :: r => match r with [] => true | y :: _ => (x <? y) && strictly_sorted r end
  end.
Definition same_set (a b : list Z) : bool :=
  forallb (fun x => existsb (Z.eqb x) b) a && forallb (fun x => existsb (Z.eqb x) a) b.
Fixpoint str_nodup (l : list name) : bool :=
  match l with [] => true | x :: r => negb (existsb (name_eqb x) r) && str_nodup r end.
Definition str_subset (a b : list name) : bool := forallb (fun x => existsb (name_eqb x) b) a.

Definition row_keys (rows : list row) : list Z := flat_map (map fst) rows.

(* oracle on an OUTPUT of couples MergeResults.  The file re-indexing is judged BY NAME:
   position of the name in the output's own file list. *)
Definition cp_sum_b (people : table) (merged : list name) (r1 r2 out : CouplesResult) : bool :=
  let mfiles := cr_files out in
  let fi1 := name_index mfiles (cr_files r1) in
  let fi2 := name_index mfiles (cr_files r2) in
  let pi1 := pidx0 people (cr_people r1) merged in
  let pi2 := pidx0 people (cr_people r2) merged in
  let nf := lenZ mfiles in
  let np := lenZ merged in
  let frange := seqZ 0 (length mfiles) in
  let prange := seqZ 0 (S (length merged)) in
  (* the file list is the duplicate-free union of the two file lists *)
  str_nodup mfiles && str_subset (cr_files r1) mfiles && str_subset (cr_files r2) mfiles &&
  str_subset mfiles (cr_files r1 ++ cr_files r2) &&
  (* line counts by name *)
  (lenZ (cr_fl out) =? nf) &&
  forallb (fun name => lines_of mfiles (cr_fl out) name =?
                       lines_of (cr_files r1) (cr_fl r1) name + lines_of (cr_files r2) (cr_fl r2) name) mfiles &&
  (* files matrix *)
  (lenZ (cr_fm out) =? nf) && forallb (keys_nodup Z.eqb) (cr_fm out) &&
  forallb (fun c => (0 <=? c) && (c <? nf)) (row_keys (cr_fm out)) &&
  forallb (fun a => forallb (fun b =>
     out_get (cr_fm out) a b =? rows_sum fi1 a b (cr_fm r1) 0 + rows_sum fi2 a b (cr_fm r2) 0) frange) frange &&
  (* people matrix, with the extra row and column of the unmatched developer *)
  (lenZ (cr_pm out) =? np + 1) && forallb (keys_nodup Z.eqb) (cr_pm out) &&
  forallb (fun c => (0 <=? c) && (c <=? np)) (row_keys (cr_pm out)) &&
  forallb (fun a => forallb (fun b =>
     out_get (cr_pm out) a b =? rows_sum pi1 a b (cr_pm r1) 0 + rows_sum pi2 a b (cr_pm r2) 0) prange) prange &&
  (* people files = union, sorted, without duplicates *)
  (lenZ (cr_pf out) =? np) &&
  forallb (fun w =>
     let got := nthZ (cr_pf out) w [] in
     strictly_sorted got &&
     same_set got (pf_members (pfidx0 people (cr_people r1)) fi1 w (cr_pf r1) 0 ++
                   pf_members (pfidx0 people (cr_people r2)) fi2 w (cr_pf r2) 0)) (seqZ 0 (length merged)).

(* ---------- burndown: which input developers make up a merged developer ---------- *)
(* the positions of [rd] that the identity table sends to merged developer w *)
Definition members (people : table) (rd : list name) (w : Z) : list Z :=
  filter (fun i => Final (lookup0 people (nthZ rd i nil)) =? w) (seqZ 0 (length rd)).
Definition opt_list (o : option Z) : list Z := match o with Some i => [i] | None => [] end.
Fixpoint list_eqb (a b : list Z) : bool :=
  match a, b with
  | [], [] => true
  | x :: a', y :: b' => (x =? y) && list_eqb a' b'
  | _, _ => false
  end.
(* merged developer w's history is computed from exactly its members *)
Definition sel_exact_b (people : table) (rd1 rd2 merged : list name) (w : Z) : bool :=
  let sel := selected people (nthZ merged w nil) in
  list_eqb (opt_list (fst sel)) (members people rd1 w) &&
  list_eqb (opt_list (snd sel)) (members people rd2 w).

(* [m] is the history of the input developers [mem] of one result: none -> the empty matrix (a nil
   DenseHistory), one -> that developer's history.  (Two or more members of one result cannot be expressed
   with the two-argument mergeMatrices at all.) *)
Definition hist_of (ph : list matrix) (mem : list Z) (m : matrix) : Prop :=
  (mem = [] /\ m = []) \/ (exists i, mem = [i] /\ idx ph i = Ok m).

(* every input identity is spelled exactly like the merged identity it belongs to *)
Definition literal_b (people : table) (rd merged : list name) : bool :=
  forallb (fun s => name_eqb (nthZ merged (Final (lookup0 people s)) nil) s) rd.

(* well-formedness of the identity table (the assumptions about MergeReversedDictsIdentities that the
   selection theorems use; the driver evaluates this on the table of every real call) *)
Definition entry_ok (rd1 rd2 merged : list name) (e : name * MI) : bool :=
  let m := snd e in
  (0 <=? Final m) && (Final m <? lenZ merged) &&
  ((First m =? -1) || ((0 <=? First m) && (First m <? lenZ rd1) && name_eqb (nthZ rd1 (First m) nil) (fst e))) &&
  ((Second m =? -1) || ((0 <=? Second m) && (Second m <? lenZ rd2) && name_eqb (nthZ rd2 (Second m) nil) (fst e))).
Definition has_first (people : table) (s : name) : bool :=
  match lookup people s with Some m => 0 <=? First m | None => false end.
Definition has_second (people : table) (s : name) : bool :=
  match lookup people s with Some m => 0 <=? Second m | None => false end.
Definition has_member (people : table) (rd1 rd2 : list name) (w : Z) : bool :=
  nonempty (members people rd1 w) || nonempty (members people rd2 w).
Definition wf_table_b (people : table) (rd1 rd2 merged : list name) : bool :=
  keys_nodup name_eqb people && forallb (entry_ok rd1 rd2 merged) people &&
  forallb (has_first people) rd1 && forallb (has_second people) rd2 &&
  str_nodup rd1 && str_nodup rd2 && str_nodup merged &&
  forallb (has_member people rd1 rd2) (seqZ 0 (length merged)).

(* interaction matrix: sums over the members, columns 0 and 1 kept, column 2+k re-indexed *)
Definition cellZ (m : matrix) (i c : Z) : Z := nthZ (nthZ m i []) c 0.
Definition pm_spec_cell (people : table) (rd1 rd2 : list name) (pm1 pm2 : matrix) (w c : Z) : Z :=
  let part rd pm :=
      sumZ (map (fun i =>
                   if c <? 2 then cellZ pm i c
                   else sumZ (map (fun k => cellZ pm i (2 + k)) (members people rd (c - 2))))
                (members people rd w)) in
  part rd1 pm1 + part rd2 pm2.
(* an interaction matrix with one row of n + 2 cells for each of the n developers *)
Definition rect_b (n : nat) (pm : matrix) : bool :=
  Nat.eqb (length pm) n && forallb (fun r => Nat.eqb (length r) (n + 2)) pm.
Definition pm_rows_b (people : table) (merged : list name) (r1 r2 : BurndownResult) (out : matrix) : bool :=
  let nm := length merged in
  (lenZ out =? Z.of_nat nm) &&
  forallb (fun w => (lenZ (nthZ out w []) =? Z.of_nat nm + 2) &&
                    forallb (fun c => cellZ out w c =?
                                      pm_spec_cell people (br_people r1) (br_people r2) (br_pm r1) (br_pm r2) w c)
                            (seqZ 0 (nm + 2))) (seqZ 0 nm).

(* ---------- the stand-in for mergeMatrices used by the replay ----------
   The harness gives every input history the shape [[v]] with v a distinct power of two and identical
   sampling = granularity = 1, so that the real mergeMatrices adds the two values into its last row.
   [code] reads that sum back; [code_merge] is the corresponding instance of the opaque [mergeM]. *)
Definition code (m : matrix) : Z := sumZ (last m []).
Definition code_merge (m1 m2 : matrix) : matrix := [[code m1 + code m2]].
(* expected code of merged developer w: its members' codes *)
Definition expected_code (people : table) (rd1 rd2 : list name) (ph1 ph2 : list matrix) (w : Z) : Z :=
  sumZ (map (fun i => code (nthZ ph1 i [])) (members people rd1 w)) +
  sumZ (map (fun i => code (nthZ ph2 i [])) (members people rd2 w)).

(* ---------- common summary ---------- *)
Definition common_b (c1 c2 out : Common) : bool :=
  (c_begin out =? Z.min (c_begin c1) (c_begin c2)) &&
  (c_end out =? Z.max (c_end c1) (c_end c2)) &&
  (c_commits out =? c_commits c1 + c_commits c2) &&
  (c_runtime out =? c_runtime c1 + c_runtime c2).
