CONFIG = dict(
        level='proof',
        streams=[dict(harness='c08', driver='c08', shrink_field='ops')],
        rule='three streams on the REAL objects, each case an operation list (Consume on copy i / Fork(n) of copy i) with a snapshot of EVERY '
             'copy after EVERY operation. bd / bdex: leaves.BurndownAnalysis (people tracking on/off, TrackFiles on/off), populated by 1-4 commits, forked 1-3 ways '
             'repeatedly (up to 6 live copies, forks of forks), then real Consume calls with fabricated dependencies (insertions, deletions, '
             'modifications with edit scripts, renames, binary flips, merge-mode commits, time going backwards; 30 % of the cases also carry '
             'irregular input: wrong lengths, double inserts, renames over tracked files, untracked paths) on random copies; bdex = one file of 3 '
             'lines, 3 copies, every sequence of 2 commits out of a 3 copies x 9 changes alphabet, 2 (quick) / 4 (thorough) people x TrackFiles modes. rb / rbex: '
             'rbtree.Allocator.Clone + RBTree.CloneShallow of 1-4 trees, then Insert / DeleteWithKey / Erase / CloneDeep / NewRBTree / further '
             'clones on random sides; rbex = tree {1,2,3}, two sides, every sequence of 3 operations out of 2 sides x 7 operations. pl: '
             'plumbing.TreeDiff, BlobCache, TicksSinceStart (tick 1 h / 24 h / 7 d) forked 1-3 ways on synthetic in-memory repositories (nested '
             'paths, identical blobs under several paths, merge commits, commits that are not children of the previous one, committer time '
             'going backwards, one commit replayed on two copies), different children consumed on different copies in interleaved order, each '
             'output recorded next to the output of a fresh never forked instance fed with the same branch-local commits. '
             'Non-trivial = at least one Fork and at least one later mutation (bd: Consume; rb: Insert/Delete/Erase; pl: two Consume); '
             'distinct = distinct configuration + operation list (+ commit list).',
        exhaustive_note='bdex: 3 copies x 9 changes, all 729 two-commit sequences x 2 configurations (thorough: 4); rbex: 2 sides x 7 operations, all 2744 three-operation sequences',
        assumptions=[
            'the split of every item into a private and a shared part (coq/theories/Fork/Model.v, table in docs/C08.md) was made by reading '
            'each Fork method; that the Go Fork really copies the private part is NOT a theorem (heap aliasing is not expressible in Gallina): '
            'it is what the correspondence check observes, copy by copy, after every step',
            'of fileHistories (TrackFiles on) only the set of paths that have a history is modelled (that is what handleRename reads); the '
            'history objects bound to the per-file updaters are shared by design and not modelled; the error and cycle branches of the '
            'rename-chain walk in handleRename are transcribed from the code but were never reached by the generators; a tracked file is '
            'modelled by its flattened line array (that File.Update refines the array operation is C03)',
            'go-git DiffTree on the synthetic repositories is compared with a path-wise tree diff (no renames, no mode changes: C20 covers those)',
            'after an error or panic of Consume the Go object is half-updated: the case stops there; the snapshot of the OTHER copies is still compared',
        ],
        trusted_base=[
            'hand-written Gallina model coq/theories/Fork/Model.v: generic branch machinery (private/shared split, fork, step_on, run, solo) and '
            'one instance per way of forking found in /repo (BurndownAnalysis.Consume with handleInsertion/Deletion/Modification/Rename on '
            'flattened files, allocator + trees as in-order lists, TreeDiff, BlobCache, TicksSinceStart), tied to the code by the replay of '
            'every harness case',
            'read-only accessors /repo/leaves/verif_c08.go, /repo/internal/plumbing/verif_c08.go, re-exports /repo/verifapi/c08/c08.go (build tag '
            'verif), and the existing internal/rbtree/verif_hooks.go (VerifSnapshot), internal/burndown/verif_hooks.go (VerifFlatten)',
            'harness/synth (synthetic repositories); go-git, diffmatchpatch types are used, not verified',
        ],
        level_text='Coq theorems for EVERY item (generic item interface, all fork arities, all operation sequences on any subset of the copies): '
                   'C08_frame (the private state of copy j is unchanged by any run that does not consume on j), C08_fork_copies (each new copy '
                   'starts equal to the origin; existing copies and the shared state untouched), C08_shared_only (what copy j reports afterwards '
                   'is a function of its old private state and the new shared state only; the shared parts are the enumerated records), '
                   'C08_twin (+ instances for TreeDiff, BlobCache, allocator, TicksSinceStart, the chained plumbing pipeline: inside any '
                   'interleaving every copy answers exactly like a private never-forked instance), C08_lineage_twin (the same for copies made by '
                   'forks of forks: every copy is in the state of a fresh instance that consumed its lineage - the harness oracle), C08_burndown_files, '
                   'C08_same_item_shares_everything; all closed under the global context. The aliasing half of the property is carried by '
                   'the correspondence check: every copy of the real objects is compared with its own independent model state after every '
                   'step, and three implementation-only oracles (sibling unchanged, fork copy equals origin, copy = private twin) judge the '
                   'Go outputs directly. Level: proof + correspondence; partial for the aliasing clause.',
        level_note='PARTIAL by nature: the model is isolated by construction (one value per copy), so the theorems make the private/shared '
                   'enumeration explicit and checked but cannot show that the Go Fork methods copy what the model calls private; that is '
                   'established only for the generated scenarios (exhaustive small scopes + seeded random), by snapshotting every copy after '
                   'every operation. Modelled rather than verified: reflect-based ForkCopyPipelineItem, Allocator.Clone, CloneShallow/CloneDeep, '
                   'go-git, diffmatchpatch. Not modelled: the content of fileHistories, hibernation of forked allocators (C09), Merge (C07). '
                   'Observations recorded in docs/C08.md: BlobCache.Fork does not copy the logger (a forked BlobCache panics with a nil '
                   'dereference where the original logs an error); whether BlobCache.Fork copies or shares the cache MAP is unobservable '
                   '(Consume replaces the map, never writes to it); BurndownAnalysis.mergedFiles is shared by pointer after Fork but every '
                   'write is preceded by a replacement, so it behaves as private.',
        technique='machine-checked proof in Coq of frame / fork / shared-only / private-twin theorems over a generic item interface with one '
                  'Gallina instance per built-in way of forking + correspondence replay of every copy after every step with extracted models '
                  'and implementation-only isolation oracles',
    )
