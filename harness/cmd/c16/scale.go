// Scale stream of the C16 harness: LARGE commit lists (10^3 .. 10^5, thorough 10^6) and many developers.
//
//	scale-few     n commits over p names x q e-mails (p, q around 2^k: 15/16/17, 255/256/257), ASCII case flips by position;
//	              from 10^5 commits on the trace carries (gen few n p q) instead of the list (same rule in the driver);
//	              names and e-mails periodic in the commit number with coprime periods -> everything merges
//	scale-chain   commit i has name n_i and e-mail e_i, commit i+1 repeats the name or the e-mail of commit i:
//	              ONE developer with about n/2 names and n/2 e-mails (description of 10^2..10^5 parts); the model
//	              re-sorts the lists once per key, so 10^4 and more carry (nomodel 1)
//	scale-many    d different developers (name i, e-mail i), each seen twice in mixed case; d straddles 2^8, 2^12,
//	              2^16 and AuthorMissing = 2^18-2 (thorough): an index equal to AuthorMissing is a legitimate
//	              developer there.  From 2^16 on the case carries (nomodel 1): the association lists of the model are
//	              quadratic, the driver judges such cases with its own hash-based statement of the property; from 2^17 on
//	              the harness judges (judgeHere) and the trace carries (gen many d) and the verdict.
//	scale-mailmap a .mailmap of m lines (80, 900, thorough 2700) in groups "Name_g <p_g@x> <c_g_j@x>" plus
//	              e-mail-only groups, commits from the mapped and the canonical addresses and from strangers
package main

import (
	"fmt"
	"sort"
	"strings"

	"gopkg.in/src-d/hercules.v10/verifapi/c16"

	. "verifharness/lib"
)

func emitScale(c *Config, kind string, g *gcase, nomodel bool) {
	cs := make([]Sx, len(g.sigs))
	for i, s := range g.sigs {
		cs[i] = L(str(s.name), str(s.email))
	}
	fields := []Sx{T("kind", A(kind)), T("nt", B(true)), T("exact", B(g.exact)), T("commits", cs...)}
	if g.mailmap != nil {
		fields = append(fields, T("mailmap", str(*g.mailmap)))
	}
	if nomodel {
		fields = append(fields, T("nomodel", I(1)))
	}
	fields = append(fields, run(g))
	c.Emit(fields...)
}

// caseFlip upper-cases the ASCII letters of s at the positions j with (k + j) mod 3 = 0
func caseFlip(k int, s string) string {
	b := []byte(s)
	for j, ch := range b {
		if (k+j)%3 == 0 && ch >= 'a' && ch <= 'z' {
			b[j] = ch - 32
		}
	}
	return string(b)
}

// fewSigs is the deterministic commit list (gen few n p q); the replay driver builds the same list.
func fewSigs(n, p, q int) []sig {
	sigs := make([]sig, n)
	for i := range sigs {
		sigs[i] = sig{caseFlip(i, fmt.Sprintf("%dname", i%p)), caseFlip(i+1, fmt.Sprintf("%dm@x.org", (i*7+i/p)%q))}
	}
	return sigs
}

func emitFew(c *Config, n, p, q int, exact bool) {
	g := &gcase{exact: exact, sigs: fewSigs(n, p, q)}
	if n < 100000 {
		emitScale(c, "scale-few", g, false)
		return
	}
	// 10^5 and more commits: the trace carries the parameters, not the list
	c.Emit(T("kind", A("scale-few")), T("nt", B(true)), T("exact", B(exact)), T("gen", A("few"), I(n), I(p), I(q)), run(g))
}

func scaleFew(c *Config, n, p, q int, exact bool) { emitFew(c, n, p, q, exact) }

func scaleChain(c *Config, n int, nomodel bool) {
	sigs := make([]sig, n)
	for i := range sigs {
		sigs[i] = sig{fmt.Sprintf("N%d", (i+1)/2), fmt.Sprintf("e%d@X", i/2)}
	}
	// descending / shuffled variants break the chain into pieces that join later
	switch c.Rng.Intn(3) {
	case 1:
		for i, j := 0, n-1; i < j; i, j = i+1, j-1 {
			sigs[i], sigs[j] = sigs[j], sigs[i]
		}
	case 2:
		c.Rng.Shuffle(n, func(i, j int) { sigs[i], sigs[j] = sigs[j], sigs[i] })
	}
	emitScale(c, "scale-chain", &gcase{sigs: sigs}, nomodel)
}

func manySigs(d int) []sig {
	sigs := make([]sig, 0, 2*d)
	for i := 0; i < d; i++ {
		sigs = append(sigs, sig{fmt.Sprintf("dev%d", i), fmt.Sprintf("D%d@x", i)})
	}
	for i := d - 1; i >= 0; i-- {
		sigs = append(sigs, sig{fmt.Sprintf("DEV%d", i), fmt.Sprintf("d%d@X", i)})
	}
	return sigs
}

func scaleMany(c *Config, d int, exact bool) {
	g := &gcase{exact: exact, sigs: manySigs(d)}
	if d < 1<<17 {
		emitScale(c, "scale-many", g, d >= 1<<14)
		return
	}
	// 2^17 developers and more: the dictionaries would make a trace line of 10^7 tokens; the property is judged here
	// and the trace carries the verdict
	c.Emit(T("kind", A("scale-many")), T("nt", B(true)), T("exact", B(exact)), T("gen", A("many"), I(d)), T("obs", judgeHere(g)))
}

// judgeHere states the first half of the property on the outputs of one execution with Go maps: every author in
// range, same lower-cased e-mail (signature) -> same developer, the keys of PeopleDict are exactly the lower-cased
// names and e-mails (signatures) in use, every description is the set of keys of its developer (names and e-mails of
// these cases are disjoint and bar-free).
func judgeHere(g *gcase) Sx {
	verdict := T("verdict", A("ok"))
	bad := func(what string, i int) { verdict = T("verdict", A("fail"), A(what), I(i)) }
	_, p := Catch(func() {
		d := &c16.Detector{ExactSignatures: g.exact}
		if err := d.Initialize(nil); err != nil {
			panic(err)
		}
		commits := commitsOf(g)
		d.GeneratePeopleDict(commits)
		n := len(d.ReversedPeopleDict)
		seen := map[string]int{}
		used := map[string]bool{}
		for i, cm := range commits {
			res, err := d.Consume(map[string]interface{}{c16.DependencyCommit: cm})
			if err != nil {
				panic(err)
			}
			a := res[c16.DependencyAuthor].(int)
			if a < 0 || a >= n {
				bad("total", i)
				return
			}
			k := strings.ToLower(cm.Author.Email)
			if g.exact {
				k = strings.ToLower(cm.Author.String())
				used[k] = true
			} else {
				used[k] = true
				used[strings.ToLower(cm.Author.Name)] = true
			}
			if v, ok := d.PeopleDict[k]; ok && v != a { // Consume = the dictionary lookup, e-mail (signature) first
				bad("consume", i)
				return
			}
			if b, ok := seen[k]; ok && b != a {
				bad("same-email", i)
				return
			}
			seen[k] = a
		}
		if len(used) != len(d.PeopleDict) {
			bad("description-keys", len(d.PeopleDict))
			return
		}
		keys := make([][]string, n)
		for k, v := range d.PeopleDict {
			if !used[k] || v < 0 || v >= n {
				bad("description-keys", v)
				return
			}
			keys[v] = append(keys[v], k)
		}
		for v, desc := range d.ReversedPeopleDict {
			parts := []string{desc}
			if !g.exact {
				parts = strings.Split(desc, "|")
			}
			sort.Strings(parts)
			sort.Strings(keys[v])
			if strings.Join(parts, "|") != strings.Join(keys[v], "|") {
				bad("description", v)
				return
			}
		}
	})
	if p {
		return T("verdict", A("fail"), A("panic"), I(0))
	}
	return verdict
}

func scaleMailmap(c *Config, groups, perGroup, commits int) {
	var lines []string
	var addrs []sig
	for g := 0; g < groups; g++ {
		name := fmt.Sprintf("Name %d", g)
		if g%3 == 2 {
			name = "" // e-mail-only group
		}
		p := fmt.Sprintf("p%d@x", g)
		addrs = append(addrs, sig{name, p})
		for j := 0; j < perGroup; j++ {
			cm := fmt.Sprintf("c%d.%d@x", g, j)
			lines = append(lines, mline{toN: name, toE: p, fromE: cm}.render())
			addrs = append(addrs, sig{fmt.Sprintf("Name %d", (g+j)%groups), cm})
		}
	}
	c.Rng.Shuffle(len(lines), func(i, j int) { lines[i], lines[j] = lines[j], lines[i] })
	sigs := make([]sig, commits)
	for i := range sigs {
		if c.Rng.Intn(10) == 0 {
			sigs[i] = sig{fmt.Sprintf("stranger%d", c.Rng.Intn(20)), fmt.Sprintf("s%d@y", c.Rng.Intn(20))}
		} else {
			a := addrs[c.Rng.Intn(len(addrs))]
			sigs[i] = sig{mixCase(c, a.name), mixCase(c, a.email)}
		}
	}
	txt := strings.Join(lines, "\n") + "\n"
	emitScale(c, "scale-mailmap", &gcase{sigs: sigs, mailmap: &txt, runs: 1}, false)
}

func scaleStreams(c *Config) {
	// quick: a few seconds in total
	scaleFew(c, 1000, 15, 17, false)
	scaleFew(c, 1000, 16, 16, true)
	scaleFew(c, 10000, 17, 15, false)
	scaleFew(c, 10000, 255, 257, false)
	scaleFew(c, 10000, 16, 17, true)
	scaleFew(c, 100000, 33, 31, false)
	scaleFew(c, 100000, 8, 9, true)
	scaleChain(c, 255, false)
	scaleChain(c, 513, false)
	for _, d := range []int{255, 256, 257, 1000} {
		scaleMany(c, d, d%2 == 0)
	}
	scaleMailmap(c, 20, 4, 1000)
	scaleMailmap(c, 100, 9, 10000)
	if !c.Thorough() {
		return
	}
	scaleFew(c, 100000, 257, 255, false)
	scaleFew(c, 100000, 64, 63, true)
	scaleFew(c, 1000000, 1023, 1025, false)
	scaleFew(c, 1000000, 64, 65, true)
	scaleChain(c, 1000, false)
	scaleChain(c, 1025, false)
	scaleChain(c, 10000, true)
	scaleChain(c, 100000, true)
	for _, d := range []int{4095, 4096, 4097, 1<<16 - 1, 1 << 16, 1<<16 + 1, 1<<18 - 3, 1<<18 - 2, 1<<18 - 1, 1 << 18, 1<<18 + 1} {
		scaleMany(c, d, false)
	}
	scaleMany(c, 1<<18+1, true)
	scaleMailmap(c, 300, 9, 30000)
}
