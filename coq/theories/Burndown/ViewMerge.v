(* MergeProofs.v for a view: what File.Merge / BurndownAnalysis.Merge of the replayed branches of a merge commit
   book in the history of one file or of one developer: exactly the kept lines born at the merge commit. *)
From Coq Require Import List ZArith Lia Bool Permutation.
From Herc Require Import Burndown.Base Burndown.Dense Burndown.Lifetimes Burndown.LifetimesFacts Burndown.AncFacts
  Burndown.Analysis Burndown.SparseFacts Burndown.AnalysisFacts Burndown.Replay Burndown.HunkProofs
  Burndown.LinearProofs Burndown.StepProofs Burndown.CommitProofs Burndown.MergeProofs
  Burndown.FrameFacts Burndown.ViewFacts Burndown.ViewStep.
Import ListNotations.
Open Scope Z_scope.

(* ---------- sums over keys, the summand depending on the key ---------- *)
Lemma sum2_absent {X} (w : Z -> X -> Z) k : forall paths : list (Z * X), ~ In k (map fst paths) ->
  sum_z (map (fun pl => if fst pl =? k then w (fst pl) (snd pl) else 0) paths) = 0.
Proof.
  induction paths as [|[p seq] paths IH]; intros Hn; [reflexivity|]. cbn [map fst snd] in *. rewrite sum_z_cons.
  destruct (Z.eqb_spec p k); [exfalso; apply Hn; left; auto|]. rewrite IH; [lia|]. intros H; apply Hn; right; auto.
Qed.

Lemma sum2_single {X} (w : Z -> X -> Z) k : forall paths : list (Z * X), NoDup (map fst paths) ->
  sum_z (map (fun pl => if fst pl =? k then w (fst pl) (snd pl) else 0) paths) =
  match aget paths k with Some seq => w k seq | None => 0 end.
Proof.
  induction paths as [|[p seq] paths IH]; intros Hnd; [reflexivity|].
  inversion Hnd as [|? ? Hn Hnd']; subst. cbn [map fst snd aget]. rewrite sum_z_cons.
  destruct (Z.eqb_spec p k) as [->|Hne].
  - rewrite sum2_absent by exact Hn. lia.
  - rewrite IH by exact Hnd'. lia.
Qed.

Lemma sum2_keys {X} (w : Z -> X -> Z) (paths : list (Z * X)) : NoDup (map fst paths) -> forall ks : list Z, NoDup ks ->
  sum_z (map (fun k => match aget paths k with Some seq => w k seq | None => 0 end) ks) =
  sum_z (map (fun pl => if memz (fst pl) ks then w (fst pl) (snd pl) else 0) paths).
Proof.
  intros Hp. induction ks as [|k ks IH]; intros Hnd.
  - cbn [map memz existsb]. symmetry. induction paths as [|x l IHl]; [reflexivity|]. cbn [map]. rewrite sum_z_cons, IHl; [reflexivity|].
    inversion Hp; auto.
  - inversion Hnd as [|? ? Hn Hnd']; subst. cbn [map]. rewrite sum_z_cons, (IH Hnd').
    rewrite <- (sum2_single w k paths Hp).
    assert (E : forall (f g : Z * X -> Z) l, sum_z (map f l) + sum_z (map g l) = sum_z (map (fun x => f x + g x) l)).
    { intros f g l. induction l as [|x l IHl]; [reflexivity|]. cbn [map]. rewrite !sum_z_cons. lia. }
    rewrite E. f_equal. apply map_ext. intros [p seq]. cbn [fst snd]. unfold memz. cbn [existsb].
    destruct (Z.eqb_spec p k) as [->|Hne]; cbn [orb].
    + assert (existsb (Z.eqb k) ks = false).
      { destruct (existsb (Z.eqb k) ks) eqn:Ee; auto. apply existsb_exists in Ee. destruct Ee as (y & Hy & Ey).
        apply Z.eqb_eq in Ey. subst. tauto. }
      rewrite H. lia.
    + lia.
Qed.

Lemma F2_in_l {X Y} (R : X -> Y -> Prop) xs ys x : Forall2 R xs ys -> In x xs -> exists y, In y ys /\ R x y.
Proof. induction 1; cbn; [tauto|]. intros [->|H']; [eauto|]. destruct (IHForall2 H') as (y0 & ? & ?). eauto. Qed.
Lemma F2_in_r {X Y} (R : X -> Y -> Prop) xs ys y : Forall2 R xs ys -> In y ys -> exists x, In x xs /\ R x y.
Proof. induction 1; cbn; [tauto|]. intros [->|H']; [eauto|]. destruct (IHForall2 H') as (x0 & ? & ?). eauto. Qed.

Section VMerge.
  Variable h : hist.
  Variable cf : cfg.
  Variable aidx : list Z.
  Hypothesis Hcf : conflict_free h = true.
  Hypothesis Hmark : forall c, 0 <= c < ncommits h -> tick_of h c < mark.
  Hypothesis Haidx : forall c, 0 <= znth 0 aidx c.
  Notation A := (ancs h).
  Notation valf := (val h cf aidx).
  Variable vw : view cf.
  Notation V := (v_proj vw).
  Notation kp := (v_kp vw).
  Variable keep : Z * line -> bool.
  Hypothesis link2 : forall p seq l, In (p, seq) (h_paths h) -> In l seq -> kp p (valf l) = keep (p, l).

  (* the lines born at a commit carry the value of that commit *)
  Lemma ins_count p seq c : In (p, seq) (h_paths h) ->
    (if kp p (pack cf (znth 0 aidx c) (tick_of h c)) then count (fun l => l_born l =? c) seq else 0) =
    count (fun l => keep (p, l) && (l_born l =? c)) seq.
  Proof.
    intros Hin. set (t := pack cf (znth 0 aidx c) (tick_of h c)). destruct (kp p t) eqn:Ek.
    - apply count_ext_in. intros l Hl. destruct (Z.eqb_spec (l_born l) c) as [Eb|]; [|rewrite andb_false_r; reflexivity].
      rewrite <- (link2 p seq l Hin Hl). unfold val. rewrite Eb. fold t. rewrite Ek. reflexivity.
    - symmetry. unfold count. rewrite (filter_ext_in _ (fun _ => false)); [clear; induction seq; cbn; auto|].
      intros l Hl. destruct (Z.eqb_spec (l_born l) c) as [Eb|]; [|apply andb_false_r].
      rewrite <- (link2 p seq l Hin Hl). unfold val. rewrite Eb. fold t. rewrite Ek. reflexivity.
  Qed.

  Variable m : Z.
  Hypothesis Hm : 0 <= m < ncommits h.
  Variable ls : list Z.
  Hypothesis HU : forall a, ancb A m a = (a =? m) || existsb (fun l => ancb A l a) ls.
  Hypothesis Hnew : forall l, In l ls -> ancb A l m = false.
  Hypothesis Hrange : forall l, In l ls -> 0 <= l < ncommits h.
  Hypothesis Hkill : forall pl, In pl (all_lines h) -> l_killer (snd pl) <> m.
  Notation dayvf := (dayv h cf aidx m).
  Notation tMf := (tM cf aidx m).
  Notation born_m := (fun x : line => l_born x =? m).

  Lemma file_merge_spec_v p seq (fs : list file) s f' s' fl :
    In (p, seq) (h_paths h) -> ls <> [] ->
    Forall2 (fun l f => f_vals f = map (nv tMf (aliveb A l) valf) (filter (aliveb A m) seq)) ls fs ->
    match fs with f0 :: others => file_merge cf dayvf f0 others s | [] => Err POther end = Ok (f', s') ->
    match fs with f0 :: _ => fok (v_flt vw) s (f_hist f0) fl | [] => True end ->
    forall P, wsum P (V s') = wsum P (V s) + feff cf P fl dayvf dayvf (count born_m seq).
  Proof.
    intros Hp Hne HF E Hfok.
    destruct (file_merge_spec h cf aidx Hcf Hmark Haidx m Hm ls HU Hnew Hrange Hkill p seq fs s f' s' Hp Hne HF E) as (_ & M2 & _).
    destruct fs as [|f0 others]; [discriminate|]. unfold file_merge in E.
    destruct (merge_others (f_vals f0) (map f_vals others)) as [vals| |]; try discriminate.
    destruct (resolve_marks cf (f_hist f0) dayvf vals s) as [[r s1]| |] eqn:E1; try discriminate.
    injection E as _ <-. rewrite <- (map_id vals) in E1.
    destruct (resolve_marks_map cf _ _ (fun x : Z => x) vals s r s1 E1) as (_ & G2 & _).
    destruct (resolve_marks_v cf V (v_flt vw) (v_law vw) _ fl _ (fun x : Z => x) vals s r s1 E1 Hfok) as [_ W].
    destruct (dayv_facts h cf aidx Hcf Hmark Haidx m Hm) as [Hdn Hdt].
    assert (Ecnt : count (fun x : Z => is_mark x) vals = count born_m seq).
    { pose proof (G2 (fun _ _ => true)) as Ga. pose proof (M2 (fun _ _ => true)) as Ma. rewrite Ga in Ma.
      unfold eff in Ma. rewrite Hdn in Ma. lia. }
    intros P. rewrite W, Ecnt. reflexivity.
  Qed.

  Lemma merge_keys_spec_v : forall keys D all s all' s',
    NoDup (map fst keys) ->
    (forall kv, In kv keys -> memz (fst kv) D = false /\ snd kv = true /\
                 exists seq, In (fst kv, seq) (h_paths h) /\ path_exists A m seq = true) ->
    ls <> [] -> Forall2 (mid h cf aidx m D) ls all ->
    merge_keys cf dayvf keys all s = Ok (all', s') ->
    NI s -> (forall b, In b all -> hgood cf s (b_files b)) ->
    forall P, wsum P (V s') = wsum P (V s) +
               sum_z (map (fun kv => feff cf P (kp (fst kv)) dayvf dayvf (count born_m (seq_of h (fst kv)))) keys).
  Proof.
    induction keys as [|[p v] keys IH]; intros D all s all' s' Hnd Hk Hne HF E HNI Hhg.
    - cbn in E. injection E as <- <-. intros P. cbn. lia.
    - destruct (Hk (p, v) (or_introl eq_refl)) as (HD & Hv & seq & Hp & Hex). cbn [fst snd] in *. subst v.
      cbn [merge_keys] in E.
      pose proof (some_files_all h cf aidx m p seq D Hp HD Hex ls all HF) as HFs.
      inversion Hnd as [|? ? Hnotin Hnd']; subst.
      destruct (some_files (map (fun b => aget (b_files b) p) all)) as [|f0 others] eqn:Efs.
      { exfalso. apply Hne. remember ls as ls0 eqn:Els in HFs. remember (@nil file) as e eqn:Ee in HFs.
        destruct HFs; [congruence|discriminate]. }
      destruct (file_merge cf dayvf f0 others s) as [[f' s1]| |] eqn:Em; try discriminate.
      (* the handle of the first copy *)
      assert (Hf0 : exists b0, In b0 all /\ aget (b_files b0) p = Some f0).
      { assert (Hin : In (Some f0) (map (fun b => aget (b_files b) p) all)) by (apply some_files_in; rewrite Efs; left; reflexivity).
        apply in_map_iff in Hin. destruct Hin as (b0 & E0 & Hb0). eauto. }
      destruct Hf0 as (b0 & Hb0 & Ef0).
      destruct (hgood_get cf s _ p f0 (Hhg b0 Hb0) Ef0) as [Hh1 Hh2].
      assert (Hfok : fok (v_flt vw) s (f_hist f0) (kp p)) by (intros x; apply (v_link vw); auto).
      pose proof (file_merge_spec_v p seq (f0 :: others) s f' s1 (kp p) Hp Hne HFs Em Hfok) as MV.
      (* the one-key run, to reuse the structural result *)
      set (all1 := map (fun b => with_files b (aset (b_files b) p f')) all) in *.
      assert (E1k : merge_keys cf dayvf [(p, true)] all s = Ok (all1, s1)).
      { cbn [merge_keys]. rewrite Efs, Em. reflexivity. }
      assert (Hk1 : forall kv, In kv [(p, true)] -> memz (fst kv) D = false /\ snd kv = true /\
                 exists seq, In (fst kv, seq) (h_paths h) /\ path_exists A m seq = true).
      { intros kv [<-|[]]. cbn [fst snd]. split; auto. split; auto. exists seq. auto. }
      assert (Hnd1 : NoDup (map fst [(p, true)])) by (cbn; constructor; [intros []|constructor]).
      destruct (merge_keys_spec h cf aidx Hcf Hmark Haidx m Hm ls HU Hnew Hrange Hkill [(p, true)] D all s all1 s1 Hnd1 Hk1 Hne HF E1k)
        as (HF1 & _).
      cbn [fold_left fst] in HF1.
      destruct (merge_keys_hgood cf _ _ _ _ _ _ E1k Hhg) as [Hsn Hhg1].
      assert (HNI1 : NI s1) by (apply (proj2 (same_names_ext _ _ Hsn)); exact HNI).
      assert (Hk' : forall kv, In kv keys -> memz (fst kv) (p :: D) = false /\ snd kv = true /\
                 exists seq, In (fst kv, seq) (h_paths h) /\ path_exists A m seq = true).
      { intros kv Hin. destruct (Hk kv (or_intror Hin)) as (K1 & K2 & K3). split; [|auto].
        unfold memz in *. cbn [existsb]. rewrite K1, orb_false_r. apply Z.eqb_neq. intros Eq. apply Hnotin.
        rewrite <- Eq. apply in_map. exact Hin. }
      pose proof (IH (p :: D) all1 s1 all' s' Hnd' Hk' Hne HF1 E HNI1 Hhg1) as RV.
      intros P. rewrite RV, MV. cbn [map fst]. rewrite sum_z_cons, (seq_of_in h Hcf p seq Hp). lia.
  Qed.

  Hypothesis Hsub : forall l, In l ls -> forall seq, old_exists A (Some l) seq = true -> path_exists A m seq = true.

  Theorem analysis_merge_spec_v all s all' s' : ls <> [] -> Forall2 (replayed h cf aidx m) ls all ->
    analysis_merge cf all s = Ok (all', s') ->
    NI s -> (forall b, In b all -> hgood cf s (b_files b)) ->
    forall P, wsum P (V s') = wsum P (V s) + contribK h keep P m.
  Proof.
    intros Hne HF E HNI Hhg. unfold analysis_merge in E.
    destruct all as [|me rest]; [exfalso; apply Hne; remember ls as ls0 in HF; remember (@nil branch) as e in HF; destruct HF; [congruence|discriminate]|].
    set (keys := fold_left (fun ks b => merged_keys ks (b_merged b)) (me :: rest) []) in *.
    assert (Hday : pack cf (b_mauthor me) (b_tick me) = dayvf).
    { remember ls as ls0 in HF. remember (me :: rest) as al in HF. destruct HF as [|l0 b0 ? ? Hr _]; [discriminate|].
      injection Heqal as -> _. destruct Hr as (_ & _ & -> & ->). reflexivity. }
    rewrite Hday in E.
    destruct (keys_ok h m ls (me :: rest) [] (NoDup_nil _) (fun kv (H : In kv []) => match H with end)) as (K1 & K2 & K3).
    { intros b Hb kv Hkv. destruct (F2_in_r _ _ _ b HF Hb) as (l & Hl & (_ & Em & _)).
      rewrite Em in Hkv. apply merged_after_in in Hkv. destruct Hkv as [[]|(Ev & seq & Hs & Ht)].
      split; auto. exists l, seq. auto. }
    fold keys in K1, K2, K3.
    assert (Hcover : forall l p seq, In l ls -> In (p, seq) (h_paths h) -> touched A (Some l) m seq = true -> In p (map fst keys)).
    { intros l p seq Hl Hp Ht. destruct (F2_in_l _ _ _ l HF Hl) as (b & Hb & (_ & Em & _)).
      destruct (merged_after_cover h m l (h_paths h) [] p seq Hp Ht) as [v Hv]. rewrite <- Em in Hv.
      destruct (K3 p) as [v' Hv']; [right; eauto|]. apply aget_in in Hv'. change p with (fst (p, v')). apply in_map. exact Hv'. }
    destruct (merge_keys cf dayvf keys (me :: rest) s) as [[all1 s1]| |] eqn:Em; try discriminate.
    assert (Es' : s' = s1) by (destruct all1; injection E as _ <-; reflexivity). subst s'.
    assert (Hkc : forall kv, In kv keys -> memz (fst kv) [] = false /\ snd kv = true /\
                 exists seq, In (fst kv, seq) (h_paths h) /\ path_exists A m seq = true).
    { intros kv Hkv. split; [reflexivity|]. destruct (K2 kv Hkv) as (Ev & l & seq & Hl & Hp & Ht). split; auto.
      exists seq. split; auto. eapply (touched_exists h m ls Hsub); eauto. }
    assert (HF0 : Forall2 (mid h cf aidx m []) ls (me :: rest)).
    { clear - HF. induction HF as [|l b ? ? Hr HF IH]; constructor; auto. destruct Hr as [Hg _]. intros pl Hin. cbn. apply Hg. exact Hin. }
    pose proof (merge_keys_spec_v keys [] (me :: rest) s all1 s1 K1 Hkc Hne HF0 Em HNI Hhg) as RV.
    intros P. rewrite RV. f_equal. unfold contribK.
    destruct (dayv_facts h cf aidx Hcf Hmark Haidx m Hm) as [Hdn Hdt].
    assert (Ed : count (fun pl => keep pl && ((l_killer (snd pl) =? m) && P (tick_of h m) (birth_tick h (snd pl)))) (all_lines h) = 0).
    { unfold count. rewrite (filter_ext_in _ (fun _ => false)); [clear; induction (all_lines h); cbn; auto|].
      intros pl Hin. destruct (Z.eqb_spec (l_killer (snd pl)) m) as [Ek|]; [exfalso; eapply Hkill; eauto|apply andb_false_r]. }
    rewrite Ed, Z.sub_0_r.
    set (Wp := fun (p : Z) (seq : list line) => count (fun l => keep (p, l) && (l_born l =? m)) seq).
    assert (Eeach : forall kv, In kv keys ->
              feff cf P (kp (fst kv)) dayvf dayvf (count born_m (seq_of h (fst kv))) =
              if P (tick_of h m) (tick_of h m) then match aget (h_paths h) (fst kv) with Some seq => Wp (fst kv) seq | None => 0 end else 0).
    { intros kv Hkv. destruct (K2 kv Hkv) as (_ & l & seq & Hl & Hp & _).
      rewrite (seq_of_in h Hcf _ seq Hp).
      assert (Eag : aget (h_paths h) (fst kv) = Some seq).
      { pose proof (seq_of_in h Hcf _ seq Hp) as Es. unfold seq_of, aget_d in Es.
        destruct (aget (h_paths h) (fst kv)) as [seq'|] eqn:Ea.
        - rewrite Es. reflexivity.
        - exfalso. pose proof (paths_nodup h Hcf) as Hndp. clear - Hp Ea.
          induction (h_paths h) as [|[q sq] r IHr]; [destruct Hp|]. cbn [aget] in Ea.
          destruct (Z.eqb_spec q (fst kv)); [discriminate|]. destruct Hp as [E0|Hp]; [injection E0 as -> _; congruence|auto]. }
      rewrite Eag. unfold feff, eff. rewrite Hdn, Hdt.
      pose proof (ins_count (fst kv) seq m Hp) as Hic. fold (dayv h cf aidx m) in Hic. fold (Wp (fst kv) seq) in Hic.
      destruct (P (tick_of h m) (tick_of h m)); destruct (kp (fst kv) dayvf); auto; lia. }
    rewrite (map_ext_in _ _ keys Eeach).
    destruct (P (tick_of h m) (tick_of h m)).
    - rewrite (count_all_lines h (fun pl => keep pl && (l_born (snd pl) =? m))).
      transitivity (sum_z (map (fun k => match aget (h_paths h) k with Some seq => Wp k seq | None => 0 end) (map fst keys))).
      { rewrite map_map. reflexivity. }
      rewrite (sum2_keys Wp (h_paths h) (paths_nodup h Hcf) (map fst keys) K1).
      f_equal. apply map_ext_in. intros [p seq] Hin. cbn [fst snd].
      destruct (memz p (map fst keys)) eqn:Emk; [reflexivity|].
      symmetry. unfold Wp, count. rewrite (filter_ext_in _ (fun _ => false)); [clear; induction seq; cbn; auto|].
      intros x Hx. destruct (Z.eqb_spec (l_born x) m) as [Eb|]; [|apply andb_false_r]. exfalso.
      destruct ls as [|l0 ls0] eqn:Els; [congruence|].
      assert (Hin0 : In l0 ls) by (rewrite Els; left; auto).
      rewrite <- Els in *.
      pose proof (born_touched h Hcf m Hm ls HU Hnew Hrange Hkill l0 p seq x Hin0 Hin Hx Eb) as Ht.
      pose proof (Hcover l0 p seq Hin0 Hin Ht) as Hk. apply memz_in_iff in Hk. congruence.
    - clear. induction keys; cbn; auto.
  Qed.
End VMerge.
