(* The replay of a commit in NORMAL mode on a branch that holds the lines of its last commit:
   afterwards the branch holds the lines of the new commit, every line carrying (author, tick) of its birth,
   and the global history received exactly births(c) and deaths(c).   (Spike lemmas consume_good /
   consume_reports, now about the concrete analysis model.) *)
From Coq Require Import List ZArith Lia Bool.
From Herc Require Import Burndown.Base Burndown.Dense Burndown.Lifetimes Burndown.LifetimesFacts Burndown.AncFacts
  Burndown.Analysis Burndown.SparseFacts Burndown.AnalysisFacts Burndown.Replay Burndown.HunkProofs
  Burndown.LinearProofs Burndown.StepProofs.
Import ListNotations.
Open Scope Z_scope.

Lemma count_app' {A} (f : A -> bool) l1 l2 : count f (l1 ++ l2) = count f l1 + count f l2.
Proof. apply count_app. Qed.

Lemma count_map {A B} (g : A -> B) (f : B -> bool) l : count f (map g l) = count (fun x => f (g x)) l.
Proof. induction l as [|x l IH]; [reflexivity|]. cbn [map]. rewrite !count_cons, IH. reflexivity. Qed.

Section Commit.
  Variable h : hist.
  Variable cf : cfg.
  Variable aidx : list Z.
  Hypothesis Hcf : conflict_free h = true.
  Hypothesis Hmark : forall c, 0 <= c < ncommits h -> tick_of h c < mark.
  Hypothesis Haidx : forall c, 0 <= znth 0 aidx c.
  Notation A := (ancs h).

  Definition val (l : line) : Z := pack cf (znth 0 aidx (l_born l)) (tick_of h (l_born l)).

  (* what commit c contributes to a weighted sum of the global history *)
  Definition contrib (P : Z -> Z -> bool) (c : Z) : Z :=
    (if P (tick_of h c) (tick_of h c) then count (fun pl => l_born (snd pl) =? c) (all_lines h) else 0)
    - count (fun pl => (l_killer (snd pl) =? c) && P (tick_of h c) (birth_tick h (snd pl))) (all_lines h).

  (* the commit gives birth to or kills some line *)
  Definition event (c : Z) : bool :=
    existsb (fun pl => (l_born (snd pl) =? c) || (l_killer (snd pl) =? c)) (all_lines h).

  Definition bgood (last : option Z) (b : branch) : Prop :=
    forall pl, In pl (h_paths h) ->
      pgood (old_exists A last (snd pl)) (old_alive A last) val (b_files b) (fst pl) (snd pl).

  Lemma commits_ok : commits_okb h = true.
  Proof. destruct (cf_parts h Hcf); auto. Qed.

  Lemma paths_nodup : NoDup (map fst (h_paths h)).
  Proof.
    pose proof Hcf as H0. unfold conflict_free in H0. apply andb_prop in H0. destruct H0 as [H0 _].
    apply andb_prop in H0. destruct H0 as [H0 _]. apply andb_prop in H0. destruct H0 as [_ H0].
    apply DenseProofs.nodup_zb_NoDup. exact H0.
  Qed.

  Lemma in_all_lines p seq l : In (p, seq) (h_paths h) -> In l seq -> In (p, l) (all_lines h).
  Proof.
    intros Hp Hl. unfold all_lines. apply in_flat_map. exists (p, seq). split; auto.
    cbn [fst snd]. apply in_map. exact Hl.
  Qed.

  (* the facts about a line that conflict_free provides *)
  Lemma line_facts p seq l : In (p, seq) (h_paths h) -> In l seq ->
    0 <= l_born l < ncommits h /\
    (l_killer l = -1 \/
     (0 <= l_killer l < ncommits h /\ ancb A (l_killer l) (l_born l) = true /\ l_killer l <> l_born l)).
  Proof.
    intros Hp Hl. pose proof (line_ok h Hcf (p, l) (in_all_lines _ _ _ Hp Hl)) as Hk. cbn [snd] in Hk.
    unfold line_okb, in_range in Hk. apply andb_prop in Hk. destruct Hk as [Hb Hk]. split; [lia|].
    apply orb_prop in Hk. destruct Hk as [Hk|Hk]; [left; lia|right].
    apply andb_prop in Hk. destruct Hk as [Hk Htk]. apply andb_prop in Hk. destruct Hk as [Hk _].
    apply andb_prop in Hk. destruct Hk as [Hk Hne].
    apply andb_prop in Hk. destruct Hk as [Hr Ha]. apply negb_true_iff, Z.eqb_neq in Hne.
    split; [lia|]. split; auto.
  Qed.

  Lemma val_nomark p seq l : In (p, seq) (h_paths h) -> In l seq -> is_mark (val l) = false /\ tp cf (val l) = tick_of h (l_born l).
  Proof.
    intros Hp Hl. destruct (line_facts p seq l Hp Hl) as [Hb _].
    pose proof (tick_nonneg h Hcf _ Hb). pose proof (Hmark _ Hb). unfold mark in *.
    unfold val. rewrite is_mark_pack, tp_pack by (auto; lia). split; auto. apply Z.eqb_neq. unfold mark. lia.
  Qed.

  Section Step.
    Variables (last : option Z) (c : Z).
    Hypothesis Hc : 0 <= c < ncommits h.
    Hypothesis Hlast : match last with Some l => 0 <= l < ncommits h | None => True end.
    Definition anc_last (a : Z) : bool := match last with Some l => ancb A l a | None => false end.
    Hypothesis H1 : forall a, ancb A c a = (a =? c) || anc_last a.
    Hypothesis H2 : anc_last c = false.

    Lemma old_alive_eq l : old_alive A last l =
      anc_last (l_born l) && negb ((0 <=? l_killer l) && anc_last (l_killer l)).
    Proof. unfold old_alive, anc_last, aliveb. destruct last eqn:El; reflexivity. Qed.

    Lemma anc_last_trans k a : anc_last k = true -> ancb A k a = true -> anc_last a = true.
    Proof.
      unfold anc_last. pose proof Hlast as Hl. destruct last as [l|] eqn:El; [|discriminate]. intros E1 E2.
      apply (ancb_trans h commits_ok l k a); auto.
    Qed.

    (* alive at c = born at c, or alive before and not killed by c *)
    Lemma alive_c p seq l : In (p, seq) (h_paths h) -> In l seq ->
      aliveb A c l = (l_born l =? c) || (old_alive A last l && negb (l_killer l =? c)).
    Proof.
      intros Hp Hl. destruct (line_facts p seq l Hp Hl) as [Hb Hk]. rewrite old_alive_eq. unfold aliveb.
      rewrite (H1 (l_born l)). destruct (Z.eqb_spec (l_born l) c) as [Eb|Nb].
      - cbn [orb andb]. destruct Hk as [Hk|(Hkr & Hka & Hkn)].
        + rewrite Hk. change (0 <=? -1) with false. reflexivity.
        + destruct (Z.leb_spec 0 (l_killer l)); [|lia]. cbn [andb]. rewrite (H1 (l_killer l)).
          destruct (Z.eqb_spec (l_killer l) c); [congruence|]. cbn [orb].
          destruct (anc_last (l_killer l)) eqn:Ea; [|reflexivity].
          rewrite Eb in Hka. rewrite (anc_last_trans _ _ Ea Hka) in H2. discriminate.
      - cbn [orb]. destruct Hk as [Hk|(Hkr & Hka & Hkn)].
        + rewrite Hk. change (0 <=? -1) with false. cbn [andb negb]. destruct (Z.eqb_spec (-1) c); [lia|].
          cbn [negb]. rewrite !andb_true_r. reflexivity.
        + destruct (Z.leb_spec 0 (l_killer l)); [|lia]. cbn [andb]. rewrite (H1 (l_killer l)).
          destruct (Z.eqb_spec (l_killer l) c); cbn [orb negb]; [rewrite !andb_false_r|rewrite andb_true_r]; reflexivity.
    Qed.

    Lemma ins_iff p seq l : In (p, seq) (h_paths h) -> In l seq ->
      negb (old_alive A last l) && aliveb A c l = (l_born l =? c).
    Proof.
      intros Hp Hl. rewrite (alive_c p seq l Hp Hl). destruct (Z.eqb_spec (l_born l) c) as [Eb|Nb].
      - rewrite old_alive_eq, Eb, H2. reflexivity.
      - cbn [orb]. destruct (old_alive A last l); reflexivity.
    Qed.

    Lemma del_iff p seq l : In (p, seq) (h_paths h) -> In l seq ->
      old_alive A last l && negb (aliveb A c l) = (l_killer l =? c).
    Proof.
      intros Hp Hl. rewrite (alive_c p seq l Hp Hl). destruct (line_facts p seq l Hp Hl) as [Hb Hk].
      destruct (Z.eqb_spec (l_killer l) c) as [Ek|Nk].
      - destruct Hk as [Hk|(Hkr & Hka & Hkn)]; [lia|].
        assert (Hold : old_alive A last l = true).
        { rewrite old_alive_eq. rewrite Ek in *. rewrite H2, andb_false_r. cbn [negb]. rewrite andb_true_r.
          rewrite (H1 (l_born l)) in Hka. destruct (Z.eqb_spec (l_born l) c); [congruence|]. exact Hka. }
        rewrite Hold. destruct (Z.eqb_spec (l_born l) c); [congruence|]. reflexivity.
      - destruct (old_alive A last l) eqn:Eo; [|reflexivity]. cbn [andb negb]. rewrite orb_true_r. reflexivity.
    Qed.

    Lemma exists_mono seq : old_exists A last seq = true -> path_exists A c seq = true.
    Proof.
      unfold old_exists, path_exists. intros E. destruct last as [l0|] eqn:El; [|discriminate].
      apply existsb_exists in E. destruct E as (l & Hl & E). apply existsb_exists. exists l. split; auto.
      rewrite H1. unfold anc_last. rewrite El. cbn beta in E. rewrite E. apply orb_true_r.
    Qed.

    Lemma count_flat_paths (f : line -> bool) :
      sum_z (map (fun pl => count f (snd pl)) (h_paths h)) = count (fun pl => f (snd pl)) (all_lines h).
    Proof.
      unfold all_lines. induction (h_paths h) as [|[p seq] r IH]; [reflexivity|].
      cbn [map flat_map fst snd]. rewrite sum_z_cons, count_app, IH, count_map. reflexivity.
    Qed.

    Lemma count_filter {X} (f g : X -> bool) l : count g (filter f l) = count (fun x => f x && g x) l.
    Proof.
      induction l as [|x l IH]; [reflexivity|]. cbn [filter]. rewrite count_cons. destruct (f x); cbn [andb].
      - rewrite count_cons, IH. reflexivity.
      - rewrite IH. reflexivity.
    Qed.

    Lemma effs_vals P t p seq : In (p, seq) (h_paths h) -> is_mark t = false -> forall ls, (forall l, In l ls -> In l seq) ->
      effs cf P t (map val ls) = - count (fun l => P (tp cf t) (birth_tick h l)) ls.
    Proof.
      intros Hp Ht. induction ls as [|l ls IH]; intros Hls; [reflexivity|].
      cbn [map]. unfold effs in *. cbn [map]. rewrite sum_z_cons, IH by (intros; apply Hls; right; auto).
      rewrite count_cons. destruct (val_nomark p seq l Hp (Hls l (or_introl eq_refl))) as [Hm Htp].
      unfold eff. rewrite Hm, Ht, Htp. unfold birth_tick. destruct (P (tp cf t) (tick_of h (l_born l))); lia.
    Qed.

    Lemma effs_dead P t : is_mark t = false -> tp cf t = tick_of h c -> forall paths, (forall pl, In pl paths -> In pl (h_paths h)) ->
      effs cf P t (flat_map (fun pl => deadv (old_alive A last) (aliveb A c) val (snd pl)) paths) =
      - sum_z (map (fun pl => count (fun l => (l_killer l =? c) && P (tick_of h c) (birth_tick h l)) (snd pl)) paths).
    Proof.
      intros Ht Htp. induction paths as [|[p seq] r IH]; intros Hsub; [reflexivity|].
      cbn [flat_map map snd]. rewrite effs_app, sum_z_cons, IH by (intros; apply Hsub; right; auto).
      assert (Hp : In (p, seq) (h_paths h)) by (apply Hsub; left; auto).
      unfold deadv. rewrite (effs_vals P t p seq Hp Ht) by (intros l Hl; apply filter_In in Hl; tauto).
      rewrite count_filter, Htp.
      rewrite (count_ext_in _ (fun l => (l_killer l =? c) && P (tick_of h c) (birth_tick h l)) seq); [lia|].
      intros l Hl. rewrite (del_iff p seq l Hp Hl). reflexivity.
    Qed.

    Lemma existsb_count {X} (f : X -> bool) l : existsb f l = (0 <? count f l).
    Proof.
      induction l as [|x l IH]; [reflexivity|]. cbn [existsb]. rewrite count_cons, IH.
      pose proof (count_nonneg f l). destruct (f x); cbn [orb]; [symmetry; apply Z.ltb_lt; lia|].
      destruct (Z.ltb_spec 0 (count f l)), (Z.ltb_spec 0 (0 + count f l)); auto; lia.
    Qed.

    Lemma pflag_event p seq : In (p, seq) (h_paths h) ->
      pflag A last c val seq = existsb (fun x => (l_born x =? c) || (l_killer x =? c)) seq.
    Proof.
      intros Hp. unfold pflag.
      assert (EI : cntI (old_alive A last) (aliveb A c) seq = count (fun x => l_born x =? c) seq).
      { unfold cntI. apply count_ext_in. intros x Hx. apply (ins_iff p seq x Hp Hx). }
      assert (ED : Z.of_nat (length (deadv (old_alive A last) (aliveb A c) val seq)) = count (fun x => l_killer x =? c) seq).
      { unfold deadv, count. rewrite map_length. f_equal. f_equal. apply filter_ext_in. intros x Hx. apply (del_iff p seq x Hp Hx). }
      assert (Esplit : existsb (fun x => (l_born x =? c) || (l_killer x =? c)) seq =
                       (0 <? count (fun x => l_born x =? c) seq + count (fun x => l_killer x =? c) seq)).
      { rewrite existsb_count. pose proof (count_nonneg (fun x => l_born x =? c) seq). pose proof (count_nonneg (fun x => l_killer x =? c) seq).
        induction seq as [|x r IH]; [reflexivity|]. rewrite !count_cons in *.
        assert (In (p, r) (h_paths h) -> True) by auto.
        clear IH. pose proof (count_nonneg (fun x => l_born x =? c) r). pose proof (count_nonneg (fun x => l_killer x =? c) r).
        pose proof (count_nonneg (fun x0 => (l_born x0 =? c) || (l_killer x0 =? c)) r).
        assert (Hle : count (fun x0 => (l_born x0 =? c) || (l_killer x0 =? c)) r = 0 <->
                      count (fun x => l_born x =? c) r + count (fun x => l_killer x =? c) r = 0).
        { clear. induction r as [|y r IH]; [cbn; tauto|]. rewrite !count_cons.
          pose proof (count_nonneg (fun x => l_born x =? c) r). pose proof (count_nonneg (fun x => l_killer x =? c) r).
          pose proof (count_nonneg (fun x0 => (l_born x0 =? c) || (l_killer x0 =? c)) r).
          destruct (l_born y =? c), (l_killer y =? c); cbn [orb]; lia. }
        destruct (l_born x =? c), (l_killer x =? c); cbn [orb];
        destruct (Z.ltb_spec 0 (1 + count (fun x0 => (l_born x0 =? c) || (l_killer x0 =? c)) r));
        destruct (Z.ltb_spec 0 (0 + count (fun x0 => (l_born x0 =? c) || (l_killer x0 =? c)) r));
        try lia;
        match goal with |- _ = (0 <? ?e) => destruct (Z.ltb_spec 0 e) end; auto; try lia. }
      destruct (old_exists A last seq) eqn:Eo, (path_exists A c seq) eqn:En.
      - rewrite EI, ED, Esplit. reflexivity.
      - rewrite (exists_mono seq Eo) in En. discriminate.
      - (* a new path: some line is born at c *)
        symmetry. unfold path_exists in En. apply existsb_exists in En. destruct En as (x & Hx & Ex).
        apply existsb_exists. exists x. split; auto.
        rewrite H1 in Ex. apply orb_prop in Ex. destruct Ex as [Ex|Ex].
        + rewrite Ex. reflexivity.
        + exfalso. unfold old_exists in Eo. unfold anc_last in Ex. destruct last as [l0|] eqn:El; [|discriminate].
          assert (existsb (fun l => ancb A l0 (l_born l)) seq = true) by (apply existsb_exists; eauto).
          unfold path_exists in Eo. congruence.
      - (* absent: no line of the path is born at c or killed by c *)
        symmetry. destruct (existsb (fun x => (l_born x =? c) || (l_killer x =? c)) seq) eqn:Ee; [|reflexivity].
        apply existsb_exists in Ee. destruct Ee as (x & Hx & Ex). exfalso.
        apply orb_prop in Ex. destruct Ex as [Ex|Ex].
        + pose proof (ins_iff p seq x Hp Hx) as Hi. rewrite Ex in Hi. apply andb_prop in Hi. destruct Hi as [_ Ha].
          pose proof (new_not_exists A c seq En x Hx). congruence.
        + pose proof (del_iff p seq x Hp Hx) as Hd. rewrite Ex in Hd. apply andb_prop in Hd. destruct Hd as [Ha _].
          pose proof (old_not_exists A last seq Eo x Hx). congruence.
    Qed.

    Theorem consume_good b s b' s' :
      bgood last b ->
      consume cf (znth 0 aidx c) (tick_of h c) false (changes_of h A last c) b s = Ok (b', s') ->
      bgood (Some c) b' /\ (forall P, wsum P (s_gh s') = wsum P (s_gh s) + contrib P c) /\
      (forall T, gh_ok T (s_gh s) -> tick_of h c <= T -> gh_ok T (s_gh s')) /\
      (forall x, In x (keys (s_gh s')) <-> In x (keys (s_gh s)) \/ (event c = true /\ x = tick_of h c)).
    Proof.
      intros Hg E. unfold consume in E.
      set (b1 := on_new_tick (mkBranch (b_files b) (b_merged b) (b_mauthor b) (tick_of h c) (b_prev b))) in *.
      destruct (handle_changes cf (znth 0 aidx c) (changes_of h A last c) b1 s) as [[b2 s2]| |] eqn:E2; try discriminate.
      injection E as <- <-. unfold changes_of in E2.
      assert (Hb1t : b_tick b1 = tick_of h c) by reflexivity.
      destruct (paths_step cf A last c val (znth 0 aidx c) (h_paths h) b1 s b2 s2 paths_nodup) as (Q1 & Q2 & Q3 & Q4 & Q5 & Q6 & Q7 & Q8); auto.
      { intros pl Hin. apply exists_mono. }
      rewrite Hb1t in *.
      set (t := pack cf (znth 0 aidx c) (tick_of h c)) in *.
      pose proof (tick_nonneg h Hcf c Hc) as Ht0. pose proof (Hmark c Hc) as Htm.
      assert (Htn : is_mark t = false).
      { unfold t. rewrite is_mark_pack by (auto; unfold mark in *; lia). apply Z.eqb_neq. lia. }
      assert (Htt : tp cf t = tick_of h c) by (unfold t; apply tp_pack; auto; unfold mark in *; lia).
      split; [|split; [|split]].
      - intros [p seq] Hin. specialize (Q1 (p, seq) Hin). cbn [fst snd] in *. unfold pgood in *.
        change (old_exists A (Some c) seq) with (path_exists A c seq).
        destruct (path_exists A c seq); [|exact Q1]. destruct Q1 as [hd Q1]. exists hd. cbn [b_files]. rewrite Q1.
        f_equal. f_equal. change (old_alive A (Some c)) with (aliveb A c).
        apply map_ext_in. intros l Hl. apply filter_In in Hl. destruct Hl as [Hl Hn].
        unfold nv. destruct (old_alive A last l) eqn:Eo; [reflexivity|].
        pose proof (ins_iff p seq l Hin Hl) as Hi. rewrite Eo, Hn in Hi. cbn in Hi. symmetry in Hi. apply Z.eqb_eq in Hi.
        unfold val, t. rewrite Hi. reflexivity.
      - intros P. cbn [s_gh]. rewrite Q4. unfold contrib.
        (* insertions *)
        assert (EI : sum_z (map (fun pl => cntI (old_alive A last) (aliveb A c) (snd pl)) (h_paths h)) =
                     count (fun pl => l_born (snd pl) =? c) (all_lines h)).
        { rewrite <- (count_flat_paths (fun l => l_born l =? c)). f_equal. apply map_ext_in. intros [p seq] Hin.
          cbn [snd]. unfold cntI. apply count_ext_in. intros l Hl. apply (ins_iff p seq l Hin Hl). }
        rewrite EI. unfold eff at 1. rewrite Htn, Htt.
        (* deletions *)
        assert (ED : effs cf P t (flat_map (fun pl => deadv (old_alive A last) (aliveb A c) val (snd pl)) (h_paths h)) =
                     - count (fun pl => (l_killer (snd pl) =? c) && P (tick_of h c) (birth_tick h (snd pl))) (all_lines h)).
        { rewrite <- (count_flat_paths (fun l => (l_killer l =? c) && P (tick_of h c) (birth_tick h l))).
          apply effs_dead; auto. }
        rewrite ED. lia.
      - intros T Hok HT. cbn [s_gh]. apply Q5; auto.
        + intros _. rewrite Htt. lia.
        + intros _ [p seq] l Hin Hl Ho _. cbn [snd] in Hl. destruct (val_nomark p seq l Hin Hl) as [_ Hv].
          rewrite Hv, Htt. destruct (line_facts p seq l Hin Hl) as [Hb _].
          split; [apply (tick_nonneg h Hcf); auto|]. apply (anc_ticks h Hcf); auto.
          rewrite H1. rewrite old_alive_eq in Ho. apply andb_prop in Ho. destruct Ho as [Ho _]. rewrite Ho.
          apply orb_true_r.
      - assert (Hnm : is_mark t = false -> forall pl l, In pl (h_paths h) -> In l (snd pl) -> old_alive A last l = true -> is_mark (val l) = false).
        { intros _ [p seq] l Hin Hl _. exact (proj1 (val_nomark p seq l Hin Hl)). }
        destruct (Q8 Hnm) as [_ K]. specialize (K Htn). cbn [s_gh]. intros x. rewrite (K x), Htt.
        assert (Eev : existsb (fun pl => pflag A last c val (snd pl)) (h_paths h) = event c).
        { unfold event, all_lines. clear - H1 H2 Hc Hlast Hcf Hmark Haidx.
          assert (G : forall paths, (forall pl, In pl paths -> In pl (h_paths h)) ->
                    existsb (fun pl => pflag A last c val (snd pl)) paths =
                    existsb (fun pl => (l_born (snd pl) =? c) || (l_killer (snd pl) =? c))
                            (flat_map (fun pl => map (fun l => (fst pl, l)) (snd pl)) paths)).
          { induction paths as [|[p seq] r IH]; intros Hsub; [reflexivity|].
            cbn [existsb flat_map fst snd]. rewrite existsb_app, IH by (intros; apply Hsub; right; auto).
            f_equal. rewrite (pflag_event p seq (Hsub (p, seq) (or_introl eq_refl))).
            clear. induction seq as [|x r IH]; [reflexivity|]. cbn [map existsb snd]. rewrite IH. reflexivity. }
          apply G. auto. }
        rewrite Eev. tauto.
    Qed.
  End Step.
End Commit.
