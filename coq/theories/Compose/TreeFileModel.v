(* Composition C03 on C05, part 2: File.Update (internal/burndown/file.go) written against the C05 TREE
   model exactly as file.go uses the rbtree API - definitions only, no proofs.

   C03's model (File/Model.v) works on the in-order node list and models FindLE, Prev, Next, Insert,
   DeleteWithIterator, the in-place key rewrites, Min, Max and Len as list operations.  Here the same
   function is transcribed once more, block for block, on the recursive red-black tree of
   RBTree/Model.v; TreeFileSim.v proves that the two transcriptions agree.

     Go                                      here
     tree.Len(), tree.Min(), tree.Max()      tsize, min_id, it_max                       (RBTree/Model.v)
     tree.FindLE(k)                          it_find_le k                                (findGE + doPrev)
     iter.Item()                             it_item    (nil at Limit / NegativeLimit)
     iter.Next(), iter.Prev()                it_next, it_prev  (doNext / doPrev, as Model.step ONext / OPrev)
     tree.Insert(Item{k, v})                 t_insert   (RBTree.Model.insert; no-op + Iterator{} when k exists)
     tree.DeleteWithIterator(iter)           t_delete   (doDelete of the node, as Model.step ODeleteIt)
     iter.Item().Key = k                     set_key    (Compose/TreeFileKeys.v: map_keys)
     iter.Limit(), prev.NegativeLimit()      it =? limit, it =? neg_limit

   An iterator is a node id (arena index); 0 is Limit, 2^32-1 is NegativeLimit.  The index malloc()
   hands out for a new node is a choice: [alloc] maps the tree at the time of the call to the index
   (the theorems quantify over every alloc that returns a valid index that is not live; a just-freed
   index may be reused, as the real allocator does).

   Results: TOk, TPanic c (a panic of file.go, same classes as the list model), TAssert (a doAssert of
   rbtree.go fails), TUnspec (outside the model: an iterator that points at no node of the tree,
   doDelete on a tree that is not red-black, loop fuel exhausted - the fuel is the number of nodes
   plus one and TreeFileSim.v shows it is never exhausted). *)
From Coq Require Import List ZArith Bool.
Import ListNotations.
From Herc Require Import RBTree.Model File.Model Compose.TreeFileKeys.
Open Scope Z_scope.

Inductive tres (A : Type) :=
| TOk (a : A)
| TPanic (c : pclass)
| TAssert
| TUnspec.
Arguments TOk {A} a.
Arguments TPanic {A} c.
Arguments TAssert {A}.
Arguments TUnspec {A}.

Definition bind {A B : Type} (x : tres A) (f : A -> tres B) : tres B :=
  match x with TOk a => f a | TPanic c => TPanic c | TAssert => TAssert | TUnspec => TUnspec end.
Notation "x <- e ;; f" := (bind e (fun x => f)) (at level 61, e at next level, right associativity).

(* ---------- the rbtree API as file.go uses it ---------- *)

(* Iterator.Item(): nil at both limits *)
Definition it_item (it : Z) (tr : tree) : tres (option (Z * Z)) :=
  if (it =? limit) || (it =? neg_limit) then TOk None
  else match item_of it tr with Some n => TOk (Some n) | None => TUnspec end.

(* *iter.Item(), iter.Item().Key, iter.Item().Value: a nil dereference panics *)
Definition deref (it : Z) (tr : tree) : tres (Z * Z) :=
  o <- it_item it tr ;; match o with Some n => TOk n | None => TPanic PNil end.

Definition it_next (it : Z) (tr : tree) : tres Z :=
  if it =? limit then TAssert
  else if it =? neg_limit then TOk (min_id tr)
  else match next_in it tr limit with Some n => TOk n | None => TUnspec end.

Definition it_prev (it : Z) (tr : tree) : tres Z :=
  if it =? neg_limit then TAssert
  else if it =? limit then TOk (it_max tr)
  else match prev_in it tr neg_limit with Some n => TOk n | None => TUnspec end.

Definition t_delete (it : Z) (tr : tree) : tres tree :=
  if (it =? limit) || (it =? neg_limit) then TAssert
  else match item_of it tr with
       | None => TUnspec
       | Some (k, _) => match delete_key k tr with DDone tr' => TOk tr' | _ => TUnspec end
       end.

(* tree.Insert: the new tree and the returned iterator (Iterator{} = 0 when the key exists) *)
Definition t_insert (alloc : tree -> Z) (k v : Z) (tr : tree) : tree * Z :=
  let '(tr', _, it) := RBTree.Model.insert (alloc tr) k v tr in (tr', it).

Definition t_find_le (k : Z) (tr : tree) : tres Z :=
  match it_find_le k tr with Some n => TOk n | None => TUnspec end.

(* ---------- for ; !iter.Limit(); iter = iter.Next() { iter.Item().Key = uint32(int(iter.Item().Key) + d) } ---------- *)
Fixpoint tshift_loop (fuel : nat) (d : Z) (iter : Z) (tr : tree) : tres tree :=
  match fuel with
  | O => TUnspec
  | S f =>
      if iter =? limit then TOk tr
      else
        n <- deref iter tr ;;
        let tr' := set_key iter (u32 (fst n + d)) tr in
        nx <- it_next iter tr' ;;
        tshift_loop f d nx tr'
  end.

Definition loop_fuel (tr : tree) : nat := S (length (ids tr)).

(* ---------- the "simple case with insertions only" ---------- *)
Definition tins_only (alloc : tree -> Z) (t pos ins : Z) (origin : Z * Z) (iter : Z) (tr : tree) : tres tree :=
  let adv := (fst origin <? u32 pos)
             || ((snd origin =? u32 t) && ((pos =? 0) || (u32 pos =? fst origin))) in
  it1 <- (if adv then it_next iter tr else TOk iter) ;;
  (* iter.Item().Key += uint32(insLength): uint32 arithmetic *)
  tr1 <- tshift_loop (loop_fuel tr) (u32 ins) it1 tr ;;
  if negb (snd origin =? u32 t) then
    let tr2 := fst (t_insert alloc (u32 pos) (u32 t) tr1) in
    if fst origin <? u32 pos then TOk (fst (t_insert alloc (u32 (pos + ins)) (snd origin) tr2))
    else TOk tr2
  else TOk tr1.

(* ---------- the "delete nodes" loop ----------
   Result: (origin, iter, tree, Updater calls). *)
Fixpoint tdel_loop (fuel : nat) (t pos ins del : Z) (origin prevOrigin : Z * Z) (iter : Z) (tr : tree)
         (reps : list (Z * Z * Z)) : tres ((Z * Z) * Z * tree * list (Z * Z * Z)) :=
  match fuel with
  | O => TUnspec
  | S f =>
      node <- it_item iter tr ;;                       (* node := iter.Item() *)
      nextIter <- it_next iter tr ;;                   (* nextIter := iter.Next() *)
      if nextIter =? limit then
        match node with
        | None => TPanic PNil
        | Some nd => if pos + del >? fst nd then TPanic PDelAfterEnd else TOk (origin, iter, tr, reps)
        end
      else
        nx <- deref nextIter tr ;;
        match node with
        | None => TPanic PNil
        | Some nd =>
          let delta := Z.min (fst nx) (pos + del) - Z.max (fst nd) pos in
          if (delta =? 0) && (ins =? 0) && (fst origin =? u32 pos) && (snd prevOrigin =? snd nd) then
            (* origin = *node; tree.DeleteWithIterator(iter); iter = nextIter; then delta <= 0: break *)
            tr' <- t_delete iter tr ;;
            TOk (nd, nextIter, tr', reps)
          else if delta <=? 0 then TOk (origin, iter, tr, reps)
          else
            match update_time t (snd nd) (- delta) with
            | Panic c => TPanic c
            | Ok r =>
              if fst nd >=? u32 pos then
                tr' <- t_delete iter tr ;;               (* origin = *node; tree.DeleteWithIterator(iter) *)
                tdel_loop f t pos ins del nd prevOrigin nextIter tr' (reps ++ r)
              else tdel_loop f t pos ins del origin prevOrigin nextIter tr (reps ++ r)
            end
        end
  end.

(* ---------- "prepare for the keys update" ----------
   Result: (iter, tree, origin, previous) - previous is the POINTER iter.Item() of the rolled-back
   iterator, kept as the iterator it was taken from (None: the variable stays nil). *)
Definition tprepare (alloc : tree -> Z) (t pos ins del : Z) (origin1 : Z * Z) (iter : Z) (tr : tree)
  : tres (Z * tree * (Z * Z) * option Z) :=
  if (ins >? 0) && (negb (snd origin1 =? u32 t) || (fst origin1 >=? u32 pos)) then
    r <- deref iter tr ;;
    if (snd r =? u32 t) && (fst r - del =? pos) then
      prev <- it_prev iter tr ;;
      keep <- (if prev =? neg_limit then TOk true
               else p <- deref prev tr ;; TOk (negb (snd p =? u32 t))) ;;
      if keep : bool then TOk (iter, set_key iter (u32 pos) tr, (fst origin1, u32 t), None)
      else tr' <- t_delete iter tr ;; TOk (prev, tr', (fst origin1, u32 t), None)
    else
      let '(tr', it') := t_insert alloc (u32 pos) (u32 t) tr in TOk (it', tr', origin1, None)
  else
    prev <- it_prev iter tr ;;
    TOk (prev, tr, origin1, Some prev).

(* ---------- "update the keys of all subsequent nodes" and the final conditional Insert ---------- *)
Definition tfinish (alloc : tree -> Z) (t pos ins del : Z) (prevOrigin : Z * Z) (previous : option Z)
           (iter : Z) (tr : tree) (origin2 : Z * Z) : tres tree :=
  let delta := ins - del in
  tr3 <- (if delta =? 0 then TOk tr
          else nx <- it_next iter tr ;; tshift_loop (loop_fuel tr) delta nx tr) ;;
  let okey := if negb (delta =? 0) && (fst origin2 >? u32 pos) then fst origin2 + delta else fst origin2 in
  if ins >? 0 then
    if negb (snd origin2 =? u32 t) then TOk (fst (t_insert alloc (u32 (pos + ins)) (snd origin2) tr3))
    else if pos =? 0 then TOk (fst (t_insert alloc (u32 pos) (u32 t) tr3)) else TOk tr3
  else
    (* previous != nil && previous.Value != origin.Value, read through the pointer now *)
    pv <- (match previous with
           | None => TOk false
           | Some p => o <- it_item p tr3 ;;
                       TOk (match o with Some n => negb (snd n =? snd origin2) | None => false end)
           end) ;;
    if ((pos >? okey) && pv) || ((pos =? okey) && negb (snd origin2 =? snd prevOrigin)) || (pos =? 0)
    then TOk (fst (t_insert alloc (u32 pos) (snd origin2) tr3)) else TOk tr3.

(* ---------- everything after iter := tree.FindLE(uint32(pos)) ---------- *)
Definition tupdate_body (alloc : tree -> Z) (t pos ins del : Z) (iter : Z) (origin prevOrigin : Z * Z) (tr : tree)
  : tres (tree * list (Z * Z * Z)) :=
  match (if ins >? 0 then update_time t t ins else Ok []) with
  | Panic c => TPanic c
  | Ok reps0 =>
    if del =? 0 then tr' <- tins_only alloc t pos ins origin iter tr ;; TOk (tr', reps0)
    else
      x <- tdel_loop (loop_fuel tr) t pos ins del origin prevOrigin iter tr reps0 ;;
      let '(origin1, iter1, tr1, reps1) := x in
      y <- tprepare alloc t pos ins del origin1 iter1 tr1 ;;
      let '(iter2, tr2, origin2, previous) := y in
      tr3 <- tfinish alloc t pos ins del prevOrigin previous iter2 tr2 origin2 ;;
      TOk (tr3, reps1)
  end.

(* the state-dependent guards, FindLE, origin and prevOrigin *)
Definition tupdate_core (alloc : tree -> Z) (t pos ins del : Z) (tr : tree) : tres (tree * list (Z * Z * Z)) :=
  (* tree.Len() < 2 && tree.Min().Item().Key != 0 *)
  bad <- (if tsize tr <? 2 then m <- deref (min_id tr) tr ;; TOk (negb (fst m =? 0)) else TOk false) ;;
  if bad : bool then TPanic PInvalidTree else
  mx <- deref (it_max tr) tr ;;
  if u32 pos >? fst mx then TPanic PAfterEnd else
  iter <- t_find_le (u32 pos) tr ;;
  origin <- deref iter tr ;;
  prevIter <- it_prev iter tr ;;
  pit <- it_item prevIter tr ;;
  let prevOrigin := match pit with Some p => p | None => origin end in
  tupdate_body alloc t pos ins del iter origin prevOrigin tr.

(* func (file *File) Update(time int, pos int, insLength int, delLength int) on file.tree *)
Definition tupdate (alloc : tree -> Z) (t pos ins del : Z) (tr : tree) : tres (tree * list (Z * Z * Z)) :=
  if t <? 0 then TPanic PTimeNeg else
  if t >=? MaxU32 then TPanic PTimeBig else
  if pos <? 0 then TPanic PPosNeg else
  if pos >? MaxU32 then TPanic PPosBig else
  if (ins <? 0) || (del <? 0) then TPanic PLenNeg else
  if (ins >? MaxU32) || (del >? MaxU32) then TPanic PLenBig else
  if Z.lor ins del =? 0 then TOk (tr, []) else
  tupdate_core alloc t pos ins del tr.

(* ---------- NewFile and operation sequences ---------- *)
Definition tnew_file (alloc : tree -> Z) (t len : Z) : tres (tree * list (Z * Z * Z)) :=
  match update_time t t len with
  | Panic c => TPanic c
  | Ok reps =>
    if (t <? 0) || (t >? MaxU32) then TPanic PNewTime else
    if len >? MaxU32 then TPanic PNewLen else
    let tr0 := if len >? 0 then fst (t_insert alloc 0 (u32 t) E) else E in
    TOk (fst (t_insert alloc (u32 len) TreeEnd tr0), reps)
  end.

Fixpoint trun (alloc : tree -> Z) (ops : list (Z * Z * Z * Z)) (tr : tree) (reps : list (Z * Z * Z))
  : tres (tree * list (Z * Z * Z)) :=
  match ops with
  | [] => TOk (tr, reps)
  | (t, pos, ins, del) :: ops' =>
      x <- tupdate alloc t pos ins del tr ;;
      let '(tr', r) := x in trun alloc ops' tr' (reps ++ r)
  end.

Definition trun_file (alloc : tree -> Z) (t0 n0 : Z) (ops : list (Z * Z * Z * Z)) : tres (tree * list (Z * Z * Z)) :=
  x <- tnew_file alloc t0 n0 ;; let '(tr, r) := x in trun alloc ops tr r.

(* the tracker state a tree stands for: its in-order (key, value) items *)
Definition kv (e : Z * Z * Z) : Z * Z := (snd (fst e), snd e).
