Require Extraction.
Require Import ExtrOcamlBasic.
From Herc Require Import Base.Conv Plumbing.IdStr Plumbing.Identity Plumbing.IdentityMerge Plumbing.IdentityMailmap.
Extraction "c16_model.ml" conv_anchor gen_ascii consume_ascii total_ok_ascii same_email_ok_ascii
  description_ok_ascii consume_ok_ascii nobarb merge_identities merge_literal merge_domb
  mtotal_okb mpointers_okb mcomponents_okb munion_okb str_eqb
  lower_ascii generate_people_dict generate_people_dict_mm consume sig_string total_okb same_email_okb
  description_okb description_mm_okb consume_okb mm_domb parse_mailmap id_order.
