package main

// Third-round streams (semantic corners):
//
//	prefixes   blacklists of 2..6 path prefixes that are nested, overlapping, duplicated, empty, not terminated by a
//	           slash, or whole file names, in any order, with files whose paths sort on both sides of every prefix;
//	strictsub  FailOnMissingSubmodules = true: submodules registered in successive commits, at paths that sort
//	           before and after ".gitmodules", under filters that drop the ".gitmodules" change itself;
//	reuse      a second analysis on the same items: a history is replayed, a branch is re-initialised (Initialize),
//	           then an UNRELATED history (another root) is replayed on it - it must be accepted and listed as a
//	           first commit (finding F24, repaired by 3598ee8: Initialize used to keep previousCommit) - and the
//	           branch goes on, forks, and is re-initialised again.

import (
	"fmt"
	"math/rand"
	"sort"
	"strings"

	. "verifharness/lib"
)

// ---------------------------------------------------------------------------------------------
// prefixes

// nestedPrefixes draws the blacklist and the universe of paths that goes with it.
func nestedPrefixes(rng *rand.Rand) (skip []string, universe []string) {
	bases := []string{"src/gen/", "lib/", "d/", "pkg/mod", "a", "src/", "docs/api/"}
	tails := []string{"legacy/", "l", "m/", "z", "a/b/", "legacy/x.go", "legacy"}
	seen := map[string]bool{}
	uni := map[string]bool{}
	add := func(p string) {
		skip = append(skip, p)
		seen[p] = true
	}
	around := func(p string) {
		// files inside the prefix and files that sort directly before and behind it
		if strings.HasSuffix(p, "/") {
			stem := p[:len(p)-1]
			uni[p+"a.go"], uni[p+"proto.go"], uni[p+"zz.go"] = true, true, true
			uni[stem+".go"], uni[stem+"0.go"] = true, true
		} else if p != "" {
			uni[p+".go"], uni[p+"/a.go"], uni[p+"z.go"] = true, true, true
			uni[p[:len(p)-1]+".go"] = true
		}
	}
	for k := 1 + rng.Intn(2); k > 0; k-- {
		p := bases[rng.Intn(len(bases))]
		if !seen[p] {
			add(p)
		}
		around(p)
		if rng.Intn(4) > 0 {
			q := p + tails[rng.Intn(len(tails))]
			if !seen[q] {
				add(q)
			}
			around(q)
			switch rng.Intn(3) {
			case 0: // a second extension of the same prefix
				q2 := p + tails[rng.Intn(len(tails))]
				if !seen[q2] {
					add(q2)
				}
				around(q2)
			case 1: // three levels
				q3 := q + []string{"x/", "old", "k/"}[rng.Intn(3)]
				if !seen[q3] {
					add(q3)
				}
				around(q3)
			}
		}
	}
	if rng.Intn(3) == 0 {
		p := []string{"zz/", "README", "x.go", "src/gen/types.go", "src/g"}[rng.Intn(5)]
		if !seen[p] {
			add(p)
		}
		around(p)
	}
	if rng.Intn(6) == 0 && len(skip) > 0 {
		skip = append(skip, skip[rng.Intn(len(skip))]) // a duplicate
	}
	if rng.Intn(12) == 0 {
		add("")
	}
	for len(skip) < 2 {
		p := []string{"zz/", "q/", "src/gen/legacy/"}[rng.Intn(3)]
		if !seen[p] {
			add(p)
			around(p)
		}
	}
	if len(skip) > 6 {
		skip = skip[:6]
	}
	switch rng.Intn(4) {
	case 0:
		sort.Strings(skip)
	case 1:
		sort.Sort(sort.Reverse(sort.StringSlice(skip)))
	default:
		rng.Shuffle(len(skip), func(i, j int) { skip[i], skip[j] = skip[j], skip[i] })
	}
	for _, p := range []string{"README.md", "main.go", "zzz.go", "src/main.go"} {
		uni[p] = true
	}
	for p := range uni {
		if !strings.Contains(p, "//") && !strings.HasPrefix(p, "/") && !strings.HasPrefix(p, ".") {
			universe = append(universe, p)
		}
	}
	sort.Strings(universe)
	return
}

func prefixCase(rng *rand.Rand) caseT {
	skip, uni := nestedPrefixes(rng)
	cfg := cfgT{blacklist: true, skip: skip}
	switch rng.Intn(6) {
	case 0:
		cfg.regex = sp(`\.go$`)
	case 1:
		cfg.langs = []string{"all"}
	}
	if rng.Intn(3) == 0 {
		// the item is configured with another list first (re-use: Configure twice, then Initialize)
		cfg.decoy, _ = nestedPrefixes(rng)
	}
	k := 3 + rng.Intn(4)
	parents := randomParents(rng, k, rng.Intn(3) > 0, false)
	states := make([]tstate, k)
	commits := make([]commitT, k)
	for c := range parents {
		var t tstate
		if len(parents[c]) == 0 {
			t = tstate{}
			for _, p := range uni {
				if rng.Intn(2) == 0 {
					t.put(p, fstate{modeReg, fmt.Sprintf("v%d\n", rng.Intn(4))})
				}
			}
		} else {
			t = states[parents[c][rng.Intn(len(parents[c]))]].clone()
			for n := 1 + rng.Intn(5); n > 0; n-- {
				p := uni[rng.Intn(len(uni))]
				if _, ok := t[p]; ok && rng.Intn(3) == 0 {
					delete(t, p)
				} else {
					t.put(p, fstate{[]int{modeReg, modeReg, modeExec}[rng.Intn(3)], fmt.Sprintf("v%d\n", rng.Intn(4))})
				}
			}
		}
		states[c] = t
		commits[c] = commitT{parents: parents[c], files: t.files()}
	}
	return caseT{kind: "prefixes", cfg: cfg, commits: commits, ops: plan(parents)}
}

// ---------------------------------------------------------------------------------------------
// strictsub

// submodule paths on both sides of ".gitmodules" in go-git's tree order, in directories and at the top level
var subPaths = []string{".ci/tools", ".build/x", "+ext/y", "-vendored", ".gitmodule", ".a", // before
	".gitmodulesx", ".hidden/s", "libs/a", "libs/b", "src/third", "third_party/x", "sub", "zlib"} // behind

func strictCase(rng *rand.Rand) caseT {
	cfg := cfgT{skip: []string{}, failMissing: true}
	// filters that drop the .gitmodules change while submodule entries pass
	switch rng.Intn(8) {
	case 0, 1:
		cfg.regex = sp(`^(src|libs|\.ci|\.build|third_party)/`)
	case 2:
		cfg.regex = sp(`^[^.]|^\.[a-fh-z]`) // everything but paths that begin with ".g"
	case 3:
		cfg.blacklist, cfg.skip = true, []string{".gitmodules"}
	case 4:
		cfg.blacklist, cfg.skip = true, []string{".git", "docs/"}
	case 5:
		cfg.regex = sp(`s`)
	}
	k := 4 + rng.Intn(5)
	parents := randomParents(rng, k, rng.Intn(3) > 0, false)
	type st struct {
		subs  map[string]int // registered submodules -> revision
		files tstate
	}
	states := make([]st, k)
	commits := make([]commitT, k)
	for c := range parents {
		s := st{subs: map[string]int{}, files: tstate{}}
		if len(parents[c]) == 0 {
			s.files["README.md"] = fstate{modeReg, "v0\n"}
			s.files["src/main.go"] = fstate{modeReg, "package a\n"}
			if rng.Intn(3) == 0 {
				s.subs[subPaths[rng.Intn(len(subPaths))]] = 0
			}
		} else {
			base := states[parents[c][rng.Intn(len(parents[c]))]]
			for p, v := range base.subs {
				s.subs[p] = v
			}
			s.files = base.files.clone()
			for n := 1 + rng.Intn(3); n > 0; n-- {
				switch r := rng.Intn(10); {
				case r < 5: // register another submodule (or re-register / bump one)
					p := subPaths[rng.Intn(len(subPaths))]
					if _, ok := s.subs[p]; ok {
						s.subs[p]++
					} else {
						s.subs[p] = rng.Intn(3)
					}
				case r == 5 && len(s.subs) > 0: // remove one
					var ps []string
					for p := range s.subs {
						ps = append(ps, p)
					}
					sort.Strings(ps)
					delete(s.subs, ps[rng.Intn(len(ps))])
				case r == 6 && len(s.subs) > 0: // bump one
					var ps []string
					for p := range s.subs {
						ps = append(ps, p)
					}
					sort.Strings(ps)
					s.subs[ps[rng.Intn(len(ps))]]++
				default: // an ordinary file
					p := []string{"src/main.go", "README.md", "libs/util.go", ".ci/run.sh", "docs/x.md"}[rng.Intn(5)]
					s.files[p] = fstate{modeReg, fmt.Sprintf("v%d\n", rng.Intn(5))}
				}
			}
		}
		states[c] = s
		t := s.files.clone()
		var names []string
		for p, v := range s.subs {
			// a submodule directory replaces files below it and the other way round
			t.put(p, fstate{modeSub, fmt.Sprintf("s%d", v)})
			names = append(names, p)
		}
		var reg []string
		for _, p := range names {
			if f, ok := t[p]; ok && f.mode == modeSub {
				reg = append(reg, p)
			}
		}
		sort.Strings(reg)
		if rng.Intn(3) == 0 {
			rng.Shuffle(len(reg), func(i, j int) { reg[i], reg[j] = reg[j], reg[i] })
		}
		if len(reg) > 0 || rng.Intn(2) == 0 {
			// .gitmodules lists exactly the submodules of the commit
			t[".gitmodules"] = fstate{modeReg, gitmodules(reg)}
		}
		commits[c] = commitT{parents: parents[c], files: t.files()}
	}
	ops := plan(parents)
	if rng.Intn(6) == 0 {
		// Initialize in the middle of the replay: the branch goes on with a child of its last commit (first listing)
		at := 2 + rng.Intn(len(ops)-1)
		if at > len(ops) {
			at = len(ops)
		}
		ops = append(ops[:at:at], append([]opT{{kind: "init", b: 0}}, ops[at:]...)...)
	}
	return caseT{kind: "strictsub", cfg: cfg, commits: commits, ops: ops}
}

// reuseCase: two or three independent histories in one repository, replayed one after the other on the same items
func reuseCase(rng *rand.Rand) caseT {
	cfg := stableCfg(rng)
	if rng.Intn(4) == 0 {
		skip, _ := nestedPrefixes(rng)
		cfg.blacklist, cfg.skip = true, skip
	}
	noSubFlip = restrictsLanguages(cfg)
	defer func() { noSubFlip = false }()
	var parents [][]int
	var ops []opT
	ops = append(ops, opT{kind: "fork", b: 0, n: 1}) // branch 1: a clone that has consumed nothing
	nb := 2
	cur := 0 // the branch that carries the analysis
	for part, nparts := 0, 2+rng.Intn(2); part < nparts; part++ {
		base := len(parents)
		k := 1 + rng.Intn(4)
		for j := 0; j < k; j++ {
			if j == 0 {
				parents = append(parents, nil)
			} else {
				parents = append(parents, []int{base + j - 1})
			}
			ops = append(ops, opT{kind: "consume", b: cur, c: base + j})
		}
		if part == nparts-1 {
			break
		}
		switch rng.Intn(5) {
		case 0: // the next analysis runs on a fork of the branch (a forked BlobCache has no logger until Initialize)
			ops = append(ops, opT{kind: "fork", b: cur, n: 1})
			cur = nb
			nb++
		case 1: // an attempt without Initialize: the unrelated root must be refused, then the re-use proper
			ops = append(ops, opT{kind: "consume", b: cur, c: base + k})
		}
		ops = append(ops, opT{kind: "init", b: cur})
		if rng.Intn(4) == 0 {
			ops = append(ops, opT{kind: "init", b: cur}) // twice in a row
		}
	}
	// the last commit once more on the pristine clone (first listing there as well)
	if rng.Intn(2) == 0 {
		ops = append(ops, opT{kind: "consume", b: 1, c: len(parents) - 1})
	}
	return caseT{kind: "reuse", cfg: cfg, commits: history(rng, parents), ops: ops}
}

func round3(c *Config) {
	for i := c.Count(400, 4000); i > 0; i-- {
		emit(c, reuseCase(c.Rng))
	}
	for i := c.Count(800, 8000); i > 0; i-- {
		emit(c, prefixCase(c.Rng))
	}
	for i := c.Count(800, 8000); i > 0; i-- {
		emit(c, strictCase(c.Rng))
	}
}
