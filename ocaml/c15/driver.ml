(* C15: replay the harness trace through the extracted Gallina model of toposort.go.

   Nodes are integers in the trace.  When the case carries a name table (names (bytes) (bytes) ...), the
   strings the Go code saw are those names and the model is run on the RANK of each name in plain byte
   order (the order sort.Strings implements; the proofs are about integer node ids with < standing for it).
   Everything below the parsing works on ranks; messages show the trace's node indices again.

   Several graphs: a case has four graph slots 0..3, all starting as NewGraph().  An operation written
   (at g <op>) is applied to slot g, a bare operation to slot 0; (copy s d) is slots[d] = slots[s].Copy();
   (sortd) is Toposort called on the graph ITSELF (it consumes the edges it walks), where (sort) sorts a
   copy.  The model is a pure value, so the copy of a graph is the same model state once more; every slot has
   its own model state, its own mirror (deep copy on `copy`) and is judged against them after every
   operation.  The post-state of (sortd) is fst (Model.toposort st); on the mirror: every node of the
   returned list loses its outgoing edges.  A slot whose state cannot be known any more (Toposort panicked,
   the model result is SortPanic / SortUnspec / SortFuel, the destructive sort was outside the domain and
   could not be compared, or its result was wrong) is marked lost: operations on it are only counted
   (ops_on_lost_graph) until a copy from a known slot overwrites it.

   Two judges:
   * the extracted model + extracted oracles (wfb, cycle_ok), for every case with at most
     VERIF_C15_MODEL_LIMIT primitive operations (the model's association lists are quadratic);
   * an independent linear-time oracle on a mirror of the graph (hash tables): order validity, acyclicity by
     Kahn counting, cycle validity, existence of a cycle through the seed by reachability.  It judges the
     scale family beyond the model's reach, and on every smaller case it is cross-checked against the
     extracted oracles (a disagreement is reported as a MISMATCH: one of the two is wrong). *)
open C15_model
open Conv

let model_limit = try int_of_string (Sys.getenv "VERIF_C15_MODEL_LIMIT") with _ -> 2500

(* ---------- tail-recursive helpers (cases have up to 10^6 elements) ---------- *)
let map_tr f l = List.rev (List.rev_map f l)
let ints_tr s = map_tr int_of_sx (list_of_sx s)

(* ---------- names ---------- *)
let string_of_bytes (s : sx) : string =
  let l = list_of_sx s in
  let b = Bytes.create (List.length l) in
  List.iteri (fun i x -> Bytes.set b i (Char.chr (int_of_sx x land 255))) l;
  Bytes.to_string b

(* primitive operations in rank space *)
type prim = PAddNode of int | PAddEdge of int * int | PRmEdge of int * int | PReindex of int

let wrap v m = if m > 0 then v mod m else v

(* ---------- the independent mirror ---------- *)
type mirror = {
  nodes : (int, unit) Hashtbl.t;
  edges : (int * int, unit) Hashtbl.t;          (* exactly the pairs (a, b) with b a key of outputs[a] *)
  dirty : (int, unit) Hashtbl.t;                (* lost an edge, not re-indexed since *)
  mutable valid : bool;                         (* every operation so far satisfied valid_ops (Reach.v) *)
  mutable adj : (int, int list) Hashtbl.t option; (* adjacency, rebuilt lazily after a mutation *)
}

let mirror_new () = { nodes = Hashtbl.create 64; edges = Hashtbl.create 64; dirty = Hashtbl.create 8; valid = true; adj = None }

(* Graph.Copy on the mirror: independent tables *)
let mirror_copy (m : mirror) = { nodes = Hashtbl.copy m.nodes; edges = Hashtbl.copy m.edges; dirty = Hashtbl.copy m.dirty; valid = m.valid; adj = None }

let nslots = 4

let mirror_apply (m : mirror) (p : prim) =
  m.adj <- None;
  match p with
  | PAddNode a -> if a < 0 then m.valid <- false; if not (Hashtbl.mem m.nodes a) then Hashtbl.replace m.nodes a ()
  | PAddEdge (a, b) ->
      (* op_ok (Reach.v): b is a node and a -> b is not yet an edge (also when a is unknown and the call is a no-op) *)
      if not (Hashtbl.mem m.nodes b) || Hashtbl.mem m.edges (a, b) then m.valid <- false;
      if Hashtbl.mem m.nodes a then Hashtbl.replace m.edges (a, b) ()
  | PRmEdge (a, b) ->
      if not (Hashtbl.mem m.edges (a, b)) then m.valid <- false;
      if Hashtbl.mem m.nodes a then begin Hashtbl.remove m.edges (a, b); Hashtbl.replace m.dirty a () end
  | PReindex a -> Hashtbl.remove m.dirty a

let mirror_adj (m : mirror) : (int, int list) Hashtbl.t =
  match m.adj with
  | Some a -> a
  | None ->
      let a = Hashtbl.create (2 * Hashtbl.length m.nodes + 1) in
      Hashtbl.iter (fun (x, y) () -> Hashtbl.replace a x (y :: (try Hashtbl.find a x with Not_found -> []))) m.edges;
      m.adj <- Some a; a

let succs adj x = try Hashtbl.find adj x with Not_found -> []

(* what a destructive Toposort that returned the list l did to the edge set: every node it emitted lost its
   outgoing edges (on failure the nodes that were never emitted keep theirs) *)
let mirror_consume (m : mirror) (l : int list) =
  let adj = mirror_adj m in
  List.iter (fun a -> List.iter (fun b -> Hashtbl.remove m.edges (a, b)) (succs adj a)) l;
  m.adj <- None

(* Kahn counting: acyclic iff every node can be removed *)
let mirror_acyclic (m : mirror) : bool =
  let adj = mirror_adj m in
  let indeg = Hashtbl.create (2 * Hashtbl.length m.nodes + 1) in
  Hashtbl.iter (fun n () -> Hashtbl.replace indeg n 0) m.nodes;
  Hashtbl.iter (fun (_, y) () -> Hashtbl.replace indeg y (1 + try Hashtbl.find indeg y with Not_found -> 0)) m.edges;
  let q = Queue.create () in
  Hashtbl.iter (fun n d -> if d = 0 then Queue.add n q) indeg;
  let removed = ref 0 in
  while not (Queue.is_empty q) do
    let n = Queue.pop q in
    incr removed;
    List.iter (fun y -> let d = Hashtbl.find indeg y - 1 in Hashtbl.replace indeg y d; if d = 0 then Queue.add y q) (succs adj n)
  done;
  !removed = Hashtbl.length indeg

(* a permutation of the node set in which every edge points forward *)
let order_ok_sets (nnodes : int) (is_node : int -> bool) (iter_edges : (int -> int -> unit) -> unit) (l : int list) : bool =
  let pos = Hashtbl.create (2 * nnodes + 1) in
  let ok = ref true in
  List.iteri (fun i n -> if Hashtbl.mem pos n || not (is_node n) then ok := false; Hashtbl.replace pos n i) l;
  if Hashtbl.length pos <> nnodes then ok := false;
  if !ok then iter_edges (fun a b ->
    match Hashtbl.find_opt pos a, Hashtbl.find_opt pos b with
    | Some i, Some j when i < j -> ()
    | _ -> ok := false);
  !ok

let mirror_order_ok (m : mirror) (l : int list) : bool =
  order_ok_sets (Hashtbl.length m.nodes) (Hashtbl.mem m.nodes) (fun f -> Hashtbl.iter (fun (a, b) () -> f a b) m.edges) l

(* c = seed :: r with edges seed -> r1 -> ... -> rk -> seed *)
let mirror_cycle_ok (m : mirror) (seed : int) (c : int list) : bool =
  match c with
  | x :: r when x = seed ->
      let rec go prev = function
        | [] -> Hashtbl.mem m.edges (prev, seed)
        | y :: r' -> Hashtbl.mem m.edges (prev, y) && go y r' in
      go x r
  | _ -> false

(* is the seed reachable from one of its children? *)
let mirror_cycle_exists (m : mirror) (seed : int) : bool =
  let adj = mirror_adj m in
  let seen = Hashtbl.create 64 in
  let q = Queue.create () in
  let found = ref false in
  List.iter (fun y -> Queue.add y q) (succs adj seed);
  while not !found && not (Queue.is_empty q) do
    let n = Queue.pop q in
    if n = seed then found := true
    else if not (Hashtbl.mem seen n) then begin
      Hashtbl.replace seen n ();
      List.iter (fun y -> Queue.add y q) (succs adj n)
    end
  done;
  !found

(* ---------- one case ---------- *)
let () =
  iter_cases (fun id c ->
    (* names -> ranks *)
    (* the empty name in the table: outside the property's domain (a child list with a hole) the Go code touches the node ""
       through the zero value of its slot array, the model touches [nobody]: such sorts are not compared *)
    let has_empty = match field_opt "names" c with
      | Some f -> List.exists (fun x -> string_of_bytes x = "") (args f) | None -> false in
    if has_empty then count "cases_with_empty_name";
    let to_rank, of_rank, names_txt =
      match field_opt "names" c with
      | None -> (fun i -> i), (fun r -> r), ""
      | Some f ->
          let tab = Array.of_list (List.map string_of_bytes (args f)) in
          let n = Array.length tab in
          let idx = Array.init n (fun i -> i) in
          Array.stable_sort (fun i j -> compare tab.(i) tab.(j)) idx;   (* String compare = byte order *)
          let rk = Array.make n 0 in
          Array.iteri (fun r i -> rk.(i) <- r) idx;
          Array.iteri (fun r i -> if r > 0 && tab.(idx.(r - 1)) = tab.(i) then failwith "duplicate name in the table") idx;
          (* the empty string is a name like any other (rank 0); the model's [nobody] = -1 is no rank at all *)
          let shown = Buffer.create 64 in
          Array.iteri (fun i s -> if Buffer.length shown < 600 then Buffer.add_string shown
            (let e = String.escaped s in Printf.sprintf " %d=\"%s\"" i (if String.length e > 60 then String.sub e 0 60 ^ "..." else e))) tab;
          (fun i -> if i < 0 then i else if i >= n then failwith "node index outside the name table" else rk.(i)),
          (fun r -> if r < 0 || r >= n then r else idx.(r)),
          " names:" ^ Buffer.contents shown in
    let show_r l = "[" ^ String.concat ";" (List.map (fun r -> string_of_int (of_rank r)) (if List.length l > 40 then List.filteri (fun i _ -> i < 40) l else l))
                   ^ (if List.length l > 40 then Printf.sprintf ";...(%d)" (List.length l) else "") ^ "]" in
    let ops_sx = Array.of_list (args (field "ops" c)) in
    let obs = Array.of_list (args (field "obs" c)) in
    if Array.length ops_sx <> Array.length obs then failwith "ops/obs length";
    let arg s i = int_of_sx (List.nth (args s) i) in
    (* (at g <op>) = <op> on graph slot g; a bare operation is on slot 0 *)
    let unwrap s = if tag s = "at" then (arg s 0, List.nth (args s) 1) else (0, s) in
    let multi = Array.exists (fun s -> tag s = "at" || tag s = "copy") ops_sx in
    let bulk_count s = match tag (snd (unwrap s)) with
      | "addnodes" | "reindexes" -> arg (snd (unwrap s)) 1
      | "addedges" | "rmedges" -> arg (snd (unwrap s)) 2
      | _ -> 1 in
    let total = Array.fold_left (fun acc s -> acc + bulk_count s) 0 ops_sx in
    let use_model = total <= model_limit in
    count (if use_model then "cases_model" else "cases_oracle_only");
    if multi then count "cases_several_graphs";
    let st = Array.make nslots empty in
    let mir = Array.init nslots (fun _ -> mirror_new ()) in
    let wfb_cache = Array.make nslots None in
    let lost = Array.make nslots false in
    let z r = z_of_int r in
    let slot_ok g = if g < 0 || g >= nslots then failwith "graph slot out of range" in
    let wfb_now g = match wfb_cache.(g) with Some b -> b | None -> let b = wfb st.(g) in wfb_cache.(g) <- Some b; b in
    (* one primitive mutating operation on both sides; returns the model's output when the model runs *)
    let prim g (p : prim) : out option =
      mirror_apply mir.(g) p; wfb_cache.(g) <- None;
      if use_model then begin
        let o = match p with
          | PAddNode a -> OAddNode (z a) | PAddEdge (a, b) -> OAddEdge (z a, z b)
          | PRmEdge (a, b) -> ORemoveEdge (z a, z b) | PReindex a -> OReindex (z a) in
        let (st', outs) = run st.(g) [o] in
        st.(g) <- st'; Some (List.hd outs)
      end else None in
    let query g (o : op) : out option =
      if use_model then Some (List.hd (snd (run st.(g) [o]))) else None in
    Array.iteri (fun i s0 ->
      let ob = obs.(i) in
      let (g, s) = unwrap s0 in
      slot_ok g;
      let here () = Printf.sprintf "op#%d %s%s" i (string_of_sx s0) (if multi then Printf.sprintf " [graph %d]" g else "") in
      let r k = to_rank (arg s k) in
      let obs_int () = int_of_sx (List.hd (args ob)) in
      let shape () = mismatch id (here () ^ " observation shape " ^ (let t = string_of_sx ob in if String.length t > 200 then String.sub t 0 200 else t)) in
      if tag s = "copy" then begin
        (* slots[d] = slots[s].Copy(): the model state is a value, the copy is the same state once more *)
        let sr = arg s 0 and d = arg s 1 in
        slot_ok sr; slot_ok d;
        count "copies";
        (match tag ob with
         | "u" ->
             if sr <> d then begin
               st.(d) <- st.(sr); mir.(d) <- mirror_copy mir.(sr); wfb_cache.(d) <- wfb_cache.(sr); lost.(d) <- lost.(sr)
             end
         | "panic" ->
             (* the harness leaves the target as it was *)
             if lost.(sr) then count "ops_on_lost_graph"
             else propfail id (Printf.sprintf "op#%d %s Copy of graph %d panics" i (string_of_sx s0) sr ^ names_txt)
         | _ -> shape ())
      end else if lost.(g) then count "ops_on_lost_graph"
      else
      match tag s with
      | "addnode" ->
          (match prim g (PAddNode (r 0)), tag ob with
           | Some (RBool b), "b" -> if b <> bool_of_sx (List.hd (args ob)) then mismatch id (here () ^ " bool")
           | None, "b" -> ()
           | _ -> shape ())
      | "addedge" ->
          (match prim g (PAddEdge (r 0, r 1)), tag ob with
           | Some (RInt v), "i" -> if int_of_z v <> obs_int () then mismatch id (here () ^ " int")
           | None, "i" -> ()
           | _ -> shape ())
      | "rmedge" ->
          (match prim g (PRmEdge (r 0, r 1)), tag ob with
           | Some (RBool b), "b" -> if b <> bool_of_sx (List.hd (args ob)) then mismatch id (here () ^ " bool")
           | None, "b" -> ()
           | _ -> shape ())
      | "reindex" ->
          (match prim g (PReindex (r 0)), tag ob with
           | (Some RUnit | None), "u" -> ()
           | _ -> shape ())
      | "addnodes" | "reindexes" ->
          let from, cnt, step, md = arg s 0, arg s 1, arg s 2, arg s 3 in
          let agg = ref 0 in
          for k = 0 to cnt - 1 do
            let a = to_rank (wrap (from + k * step) md) in
            match prim g (if tag s = "addnodes" then PAddNode a else PReindex a) with
            | Some (RBool true) -> incr agg
            | _ -> ()
          done;
          (match tag s, tag ob with
           | "addnodes", "agg" -> if use_model && !agg <> obs_int () then mismatch id (here () ^ Printf.sprintf " number of new nodes: model=%d" !agg)
           | "reindexes", "u" -> ()
           | _ -> shape ())
      | "addedges" | "rmedges" ->
          let a0, b0, cnt, sa, sb, md = arg s 0, arg s 1, arg s 2, arg s 3, arg s 4, arg s 5 in
          let agg = ref 0 in
          for k = 0 to cnt - 1 do
            let a = to_rank (wrap (a0 + k * sa) md) and b = to_rank (wrap (b0 + k * sb) md) in
            match prim g (if tag s = "addedges" then PAddEdge (a, b) else PRmEdge (a, b)) with
            | Some (RInt v) -> agg := !agg + int_of_z v
            | Some (RBool true) -> incr agg
            | _ -> ()
          done;
          (match tag ob with
           | "agg" -> if use_model && !agg <> obs_int () then mismatch id (here () ^ Printf.sprintf " aggregate of the results: model=%d" !agg)
           | _ -> shape ())
      | "children" | "parents" ->
          (match query g (if tag s = "children" then OChildren (z (r 0)) else OParents (z (r 0))), tag ob with
           | Some (RList l), "l" ->
               let gl = map_tr to_rank (ints_tr (List.hd (args ob))) in
               (* children: sorted by NAME = ascending rank; parents: the harness sorted the node indices, compare as sets *)
               let gl = if tag s = "parents" then List.sort compare gl else gl in
               if List.map int_of_z l <> gl then mismatch id (here () ^ " list model=" ^ show_r (List.map int_of_z l) ^ " impl=" ^ show_r gl)
           | None, "l" ->
               (* independent: exactly the mirror's neighbours; children in ascending rank *)
               let gl = map_tr to_rank (ints_tr (List.hd (args ob))) in
               let want = Hashtbl.fold (fun (a, b) () acc -> if tag s = "children" then (if a = r 0 then b :: acc else acc)
                                                            else (if b = r 0 then a :: acc else acc)) mir.(g).edges [] in
               let want = List.sort compare want in
               let gl = if tag s = "parents" then List.sort compare gl else gl in
               count "neighbour_lists_checked_by_mirror";
               if want <> gl then mismatch id (here () ^ " neighbour list differs from the mirror: impl=" ^ show_r gl)
           | _ -> shape ())
      | "sort" | "sortd" ->
          (* (sort): Toposort on copies of the graph (x5) and on 3 graphs rebuilt from the slot's operation history;
             (sortd): Toposort on the graph itself, once.  Both are judged in the same way; (sortd) then moves the slot
             to the state the destructive sort leaves behind. *)
          let destructive = tag s = "sortd" in
          let clean = ref true in
          let mismatch id t = clean := false; mismatch id t in
          let propfail id t = clean := false; propfail id t in
          let mi = mir.(g) in
          let dom_model = use_model && wfb_now g in
          let dom_mirror = mi.valid && Hashtbl.length mi.dirty = 0 in
          if dom_mirror && use_model && not dom_model then
            mismatch id (here () ^ " a valid, clean operation sequence but wfb = false (contradicts C15_domain_reached: model or mirror wrong)");
          let mpost = if use_model then Some (toposort st.(g)) else None in
          let mres = match mpost with Some (_, x) -> Some x | None -> None in
          (match tag ob with
           | "sorted" | "panic" -> ()
           | "nondet" when not destructive -> ()
           | _ -> shape ());
          if destructive then count "sortd";
          if not dom_model && not dom_mirror then begin
            (* outside the property's domain (duplicate edges, unknown endpoints, missing re-index):
               only the correspondence with the model is checked *)
            count "sorts_outside_domain";
            (match mres, tag ob with
             | _, _ when has_empty -> clean := false; count "sorts_outside_domain_empty_name_unjudged"
             | None, _ -> count "sorts_outside_domain_unjudged"
             | Some SortUnspec, _ -> count "sort_unspec"
             | Some SortPanic, "panic" -> count "sort_panic"
             | Some (SortOk (ml, mok)), "sorted" ->
                 if bool_of_sx (List.nth (args ob) 0) <> mok || map_tr to_rank (ints_tr (List.nth (args ob) 1)) <> List.map int_of_z ml
                 then mismatch id (here () ^ " (outside domain) result differs: model=" ^ show_r (List.map int_of_z ml))
             | _, "nondet" -> count "sort_nondet_outside_domain"
             | _ -> mismatch id (here () ^ " (outside domain) result kind differs"))
          end else begin
            count "sorts";
            if not use_model then count "sorts_oracle_only";
            (* one answer (sorted ok (list)) against the property oracles; fine = also the exact order against the model *)
            let judge_sorted (ob : sx) (fine : bool) (which : string) =
                 let gok = bool_of_sx (List.nth (args ob) 0) in
                 let gl = map_tr to_rank (ints_tr (List.nth (args ob) 1)) in
                 if fine then (if gok then count "sort_success" else count "sort_failure");
                 (* acyclicity: the model's answer (C15_success_iff_acyclic) and/or the mirror's Kahn count *)
                 let acyc_model = match mres with
                   | Some (SortOk (_, mok)) when dom_model -> Some mok
                   | Some _ when dom_model -> if fine then mismatch id (here () ^ " model result is not SortOk inside the domain"); None
                   | _ -> None in
                 let acyc_mirror = if dom_mirror || not use_model then Some (mirror_acyclic mi) else None in
                 (match acyc_model, acyc_mirror with
                  | Some a, Some b when a <> b && dom_mirror -> if fine then mismatch id (here () ^ " independent acyclicity oracle disagrees with the model")
                  | _ -> ());
                 let acyclic = match acyc_model, acyc_mirror with Some a, _ -> a | None, Some b -> b | None, None -> failwith "no judge" in
                 (* order validity: on the model state's node and edge sets when the model runs, else on the mirror's *)
                 let valid_order =
                   if use_model then begin
                     let edges_iter f = List.iter (fun (n, m) -> List.iter (fun (ch, _) -> f (int_of_z n) (int_of_z ch)) m) st.(g).outs in
                     let nodeset = Hashtbl.create 64 in
                     List.iter (fun (n, _) -> Hashtbl.replace nodeset (int_of_z n) ()) st.(g).outs;
                     let v = order_ok_sets (Hashtbl.length nodeset) (Hashtbl.mem nodeset) edges_iter gl in
                     if dom_mirror && v <> mirror_order_ok mi gl then mismatch id (here () ^ " independent order oracle disagrees with the one on the model state");
                     v
                   end else mirror_order_ok mi gl in
                 if gok && not valid_order then
                   propfail id (here () ^ which ^ " success reported but the order is not a topological order of all nodes: " ^ show_r gl ^ names_txt)
                 else if gok <> acyclic then
                   propfail id (here () ^ which ^ Printf.sprintf " success=%b but the graph is %s" gok (if acyclic then "acyclic" else "cyclic") ^ names_txt)
                 else if fine then (match mres with
                   | Some (SortOk (ml, _)) when dom_model ->
                       (* fine: the deterministic order (ties between ready nodes broken by byte order of the names) *)
                       let ml = List.map int_of_z ml in
                       if gl <> ml then mismatch id (here () ^ " order differs: impl=" ^ show_r gl ^ " model=" ^ show_r ml ^ names_txt)
                   | _ -> ()) in
            (match tag ob with
             | "nondet" ->
                 (* two different answers: each is judged on its own first (a wrong answer says more than "they differ") *)
                 List.iteri (fun k x -> match tag x with
                   | "sorted" -> judge_sorted x false (if k = 0 then " (answer on a copy of the graph)" else " (answer of a later run)")
                   | "panic" -> propfail id (here () ^ " Toposort panics on a graph of the domain (one of the repeated runs)" ^ names_txt)
                   | _ -> ()) (args ob);
                 let t = string_of_sx ob in
                 propfail id (here () ^ " Toposort answers differ between runs on equal graphs (same operation sequence"
                              ^ (if multi then "; copies of the graph and graphs rebuilt from the operation history of this graph, through the graphs it was copied from" else "") ^ "): "
                              ^ (if String.length t > 700 then String.sub t 0 700 ^ "..." else t) ^ names_txt)
             | "panic" -> propfail id (here () ^ " Toposort panics on a graph of the domain" ^ names_txt)
             | "sorted" -> judge_sorted ob true ""
             | _ -> ())
          end;
          if destructive then begin
            (* the state the destructive sort leaves behind.  It is known when the implementation's answer was
               judged and found right: with the model, the model's own post-state (its result was compared equal);
               without, only inside the domain.  Otherwise the slot is lost. *)
            let known = !clean && tag ob = "sorted" &&
              (if use_model then (match mres with Some (SortOk _) -> true | _ -> false) else dom_mirror) in
            if known then begin
              (match mpost with Some (st', _) -> st.(g) <- st' | None -> ());
              mirror_consume mi (map_tr to_rank (ints_tr (List.nth (args ob) 1)));
              wfb_cache.(g) <- None
            end else begin
              count "graphs_lost";
              lost.(g) <- true
            end
          end
      | "cycle" ->
          let seed = r 0 in
          if tag ob = "hang" then begin
            count "cycle_hangs";
            propfail id (here () ^ " FindCycle did not return: it allocated 1.5 GiB or ran for 20 s + 100 us per element of the case (the walk back through the parent map does not end)" ^ names_txt)
          end else begin
          (match tag ob with "cycle" -> () | _ -> shape ());
          if use_model && is_node st.(g) nobody then
            (* the empty name is FindCycle's sentinel; a graph that has it as a node is outside the domain *)
            count "cycles_outside_domain"
          else begin
            (* C15_cycle_real / C15_cycle_found / C15_cycle_emptiness_any_order hold for every state in which
               the empty name is not a node (no rank condition), so the oracle is applied there *)
            count (if not use_model then "cycles_oracle_only" else if wfb_now g then "cycles" else "cycles_dirty_state");
            let gc = map_tr to_rank (ints_tr (List.hd (args ob))) in
            let m_empty = match query g (OCycle (z seed)) with Some (RCycleEmpty e) -> Some e | Some _ -> failwith "cycle result" | None -> None in
            let exists_mirror = mirror_cycle_exists mir.(g) seed in
            (match m_empty with
             | Some e when e = exists_mirror -> mismatch id (here () ^ " independent reachability oracle disagrees with the model on the existence of a cycle through the seed")
             | _ -> ());
            let exists = match m_empty with Some e -> not e | None -> exists_mirror in
            if gc <> [] then begin
              count "cycle_nonempty";
              let ok_mirror = mirror_cycle_ok mir.(g) seed gc in
              let ok = if use_model then begin
                  let v = cycle_ok st.(g) (z seed) (List.map z gc) in
                  if v <> ok_mirror then mismatch id (here () ^ " independent cycle oracle disagrees with the extracted cycle_ok");
                  v end else ok_mirror in
              if not ok then
                propfail id (here () ^ " FindCycle returned something that is not a cycle through the seed: " ^ show_r gc ^ names_txt)
              else if not exists then mismatch id (here () ^ " model finds no cycle through the seed but the implementation returned a valid one (contradicts C15_cycle_emptiness_any_order: model unfaithful)")
            end else if exists then
              propfail id (here () ^ " a cycle through the seed exists but FindCycle returned nothing" ^ names_txt)
          end end
      | t -> failwith ("unknown op " ^ t)) ops_sx)
