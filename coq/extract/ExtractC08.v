Require Extraction.
Require Import ExtrOcamlBasic.
From Herc Require Import Base.Conv Fork.Model.
Extraction "c08_model.ml" conv_anchor bd_init bd_do rb_init rb_do rb_used pl_init pl_do.
