(* C15: the combined statements, in the form in which coq/props/C15.v restates them. *)
From Coq Require Import List ZArith Lia Bool Permutation.
From Herc Require Import Toposort.Model Toposort.Paths Toposort.Refine Toposort.Reach Toposort.Cycle.
Import ListNotations.
Open Scope Z_scope.

(* ---------- Toposort on a state of the domain ---------- *)
Theorem sort_success_iff_acyclic s : wfb s = true ->
  ((exists L, snd (toposort s) = SortOk L true) <-> acyclic s).
Proof.
  intros H. split.
  - intros (L & E). exact (state_sort_success_acyclic s H L E).
  - apply state_sort_complete. exact H.
Qed.

Theorem sort_correct s : wfb s = true ->
  exists L ok, snd (toposort s) = SortOk L ok /\
    (ok = true <-> acyclic s) /\
    (ok = true -> Permutation L (node_list s) /\ forall a b, has_edge s a b = true -> before a b L).
Proof.
  intros H. destruct (state_sort_total s H) as (L & ok & E). exists L, ok. split; [exact E|]. split.
  - split.
    + intros ->. exact (state_sort_success_acyclic s H L E).
    + intros Hac. destruct (state_sort_complete s H Hac) as (L' & E'). rewrite E in E'. congruence.
  - intros ->. exact (state_sort_sound s H L E).
Qed.

(* ---------- wfb-level preservation (for clients that build graphs themselves) ---------- *)
Theorem wfb_empty : wfb empty = true.
Proof. reflexivity. Qed.

Theorem wfb_add_node s n : wfb s = true -> wfb (fst (add_node s n)) = true.
Proof. intros H. apply wfb_spec. apply WFd_add_node. apply wfb_spec. exact H. Qed.

Theorem wfb_add_edge s a b : wfb s = true -> is_node s b = true -> has_edge s a b = false ->
  wfb (fst (add_edge s a b)) = true.
Proof. intros H Hb He. apply wfb_spec. apply WFd_add_edge; [apply wfb_spec; exact H|exact Hb|exact He]. Qed.

Theorem wfb_remove_reindex s a b : wfb s = true -> has_edge s a b = true ->
  wfb (reindex (fst (remove_edge s a b)) a) = true.
Proof.
  intros H He. apply wfb_spec. unfold WF.
  pose proof (WFd_reindex [a] _ a (WFd_remove_edge [] s a b (proj1 (wfb_spec s) H) He)) as Hr.
  cbn [remove] in Hr. destruct (Z.eq_dec a a); [exact Hr|contradiction].
Qed.

(* ---------- every valid operation sequence ---------- *)
Theorem run_sort_correct ops : valid_ops empty ops = true -> dirty [] ops = [] ->
  forall s, s = fst (run empty ops) ->
  exists L ok, snd (step s OSort) = RSort (SortOk L ok) /\
    (ok = true <-> acyclic s) /\
    (ok = true -> Permutation L (node_list s) /\ forall a b, has_edge s a b = true -> before a b L).
Proof.
  intros Hv Hd s ->. destruct (sort_correct _ (reach_wfb ops Hv Hd)) as (L & ok & E & H1 & H2).
  exists L, ok. cbn [step snd]. rewrite E. auto.
Qed.

Theorem run_cycle_correct ops : valid_ops empty ops = true ->
  forall s, s = fst (run empty ops) ->
  forall ord, (forall n l, Permutation (ord n l) l) -> forall seed,
    (find_cycle ord s seed <> [] <-> spath s seed seed) /\
    (find_cycle ord s seed <> [] ->
       cycle_ok s seed (find_cycle ord s seed) = true /\
       exists r, find_cycle ord s seed = seed :: r /\ is_walk s (seed :: r ++ [seed])).
Proof.
  intros Hv s -> ord Hord seed. pose proof (reach_nobody ops Hv) as Hn. split.
  - apply find_cycle_nonempty_iff; assumption.
  - intros Hne. pose proof (find_cycle_real_perm ord Hord _ seed Hn Hne) as Hok. split; [exact Hok|].
    apply cycle_ok_spec. exact Hok.
Qed.

(* what the replay driver compares: emptiness of the implementation's answer against the model run
   with the identity order; justified for every iteration order of Go's maps *)
Theorem cycle_emptiness_any_order ord : (forall n l, Permutation (ord n l) l) ->
  forall s seed, is_node s nobody = false ->
  (find_cycle ord s seed = [] <-> find_cycle id_ord s seed = []).
Proof.
  intros Hord s seed Hn. apply find_cycle_empty_indep; [exact Hord| |exact Hn].
  intros n l. apply Permutation_refl.
Qed.

(* a cyclic graph: Toposort reports failure and FindCycle started on a node of a cycle returns one *)
Theorem cyclic_reported_and_found s : wfb s = true -> is_node s nobody = false ->
  forall seed, spath s seed seed ->
  (exists L, snd (toposort s) = SortOk L false) /\
  forall ord, (forall n l, Permutation (ord n l) l) ->
    exists r, find_cycle ord s seed = seed :: r /\ is_walk s (seed :: r ++ [seed]).
Proof.
  intros H Hn seed Hp. split.
  - apply state_sort_cyclic; [exact H|]. intros Hac. exact (Hac seed Hp).
  - intros ord Hord. apply cycle_ok_spec. apply find_cycle_real_perm; [exact Hord|exact Hn|].
    apply find_cycle_found; assumption.
Qed.

Print Assumptions sort_correct.
Print Assumptions run_sort_correct.
Print Assumptions run_cycle_correct.
Print Assumptions cyclic_reported_and_found.
