Require Extraction.
Require Import ExtrOcamlBasic.
From Herc Require Import Base.Conv Plumbing.Ticks Plumbing.TicksLife.
Extraction "c19_model.ml" conv_anchor time_of_unix configure init_sys step run lineages consumed spec_t0 spec_tick tick_chain chain_verdicts
  nondecreasing reg_count listed shape mono_times replays_ok elapsed_ticks alone floor_ok floor_time in_range
  z_pack z_unpack ticks times consume_branch consume_branch_fast reg_get only_consumed reconfigure_same_facts.
