(* Code block "delete nodes": the loop of File.Update characterised by the partition of the right part
   into deleted nodes (keys < pos+del) and survivors, with the "fuse the boundary node" special case, the
   end-of-file panic, and the Updater calls it makes as a function of the visited nodes. *)
From Coq Require Import List ZArith Lia Bool.
Import ListNotations.
From Herc Require Import File.Model File.Spec File.NodeLists File.Locate.
Open Scope Z_scope.

Lemma last_default_irrel {A} (l : list A) d d' : l <> [] -> last l d = last l d'.
Proof.
  induction l as [|x l IH]; intros H; [congruence|].
  destruct l as [|y l]; auto. simpl in *. apply IH. congruence.
Qed.
Lemma last_cons_ne {A} (x : A) l d d' : l <> [] -> last (x :: l) d = last l d'.
Proof. intros H. destruct l; [congruence|]. simpl. apply (last_default_irrel (a :: l)). congruence. Qed.

(* ---------- updateTime ---------- *)
(* a previous value that carries the merge mark must be the operation's own tick *)
Definition compat (t v : Z) : Prop := is_mark v = true -> v = t.

(* the Updater calls of one updateTime(t, v, d) that does not panic *)
Definition rep (t v d : Z) : list delta_rec :=
  if is_mark v then [] else if is_mark t then [] else [(t, v, d)].

Lemma update_time_compat t v d : compat t v -> update_time t v d = Ok (rep t v d).
Proof.
  unfold compat, update_time, rep. intros H. destruct (is_mark v) eqn:E.
  - rewrite (H eq_refl), Z.eqb_refl. reflexivity.
  - destruct (is_mark t); reflexivity.
Qed.

Lemma compat_dec t v : {compat t v} + {is_mark v = true /\ v <> t}.
Proof.
  unfold compat. destruct (is_mark v) eqn:E.
  - destruct (Z.eq_dec v t); [left; auto|right; auto].
  - left. discriminate.
Qed.

Lemma update_time_conflict t v d : is_mark v = true -> v <> t -> update_time t v d = Panic PMark.
Proof.
  intros Hm Hne. unfold update_time. rewrite Hm.
  replace (t =? v) with false by (symmetry; apply Z.eqb_neq; auto). reflexivity.
Qed.

Lemma update_time_self t d : update_time t t d = Ok (rep t t d).
Proof. apply update_time_compat. intros _. reflexivity. Qed.

Lemma rep_mark t v d : is_mark t = true -> rep t v d = [].
Proof. unfold rep. intros ->. destruct (is_mark v); reflexivity. Qed.

Lemma rep_plain t v d : is_mark t = false -> compat t v -> rep t v d = [(t, v, d)].
Proof.
  unfold rep, compat. intros Ht Hc. destruct (is_mark v) eqn:E.
  - rewrite <- (Hc eq_refl) in Ht. congruence.
  - rewrite Ht. reflexivity.
Qed.

(* the deltas reported by the deletion loop, as a function of the visited nodes *)
Fixpoint rep_list (t P Q : Z) (cur : node) (rest : list node) : list delta_rec :=
  match rest with
  | [] => []
  | nxt :: rest' =>
      if fst cur <? Q
      then rep t (snd cur) (- (Z.min (fst nxt) Q - Z.max (fst cur) P)) ++ rep_list t P Q nxt rest'
      else []
  end.

(* every node the loop reports on is compatible with the tick *)
Fixpoint compat_list (t Q : Z) (cur : node) (rest : list node) : Prop :=
  match rest with
  | [] => True
  | nxt :: rest' => if fst cur <? Q then compat t (snd cur) /\ compat_list t Q nxt rest' else True
  end.

Section Loop.
Variables (t P ins del : Z).
Hypothesis Hdel : 0 < del.
Hypothesis HP32 : 0 <= P <= MaxU32.
Let Q := P + del.

Definition special (origin prevOrigin sh : node) (S' : list node) : bool :=
  (fst sh =? Q) && (ins =? 0) && (fst origin =? P) && (snd prevOrigin =? snd sh)
  && match S' with [] => false | _ => true end.

Lemma del_loop_unfold origin prevOrigin lefts cur nxt rest' reps :
  del_loop t P ins del origin prevOrigin lefts cur (nxt :: rest') reps =
    let delta := Z.min (fst nxt) (P + del) - Z.max (fst cur) P in
    if (delta =? 0) && (ins =? 0) && (fst origin =? P) && (snd prevOrigin =? snd cur) then
      Ok (cur, lefts, nxt :: rest', reps)
    else if delta <=? 0 then Ok (origin, lefts, cur :: nxt :: rest', reps)
    else
      match update_time t (snd cur) (- delta) with
      | Panic c => Panic c
      | Ok r =>
        let reps' := reps ++ r in
        if fst cur >=? P then del_loop t P ins del cur prevOrigin lefts nxt rest' reps'
        else del_loop t P ins del origin prevOrigin (lefts ++ [cur]) nxt rest' reps'
      end.
Proof. cbn [del_loop]. rewrite (u32_id P HP32). reflexivity. Qed.

(* a deletion that runs past the end of the file panics (whatever the marks) *)
Lemma tail_loop_panic : forall rest cur origin prevOrigin lefts reps,
  inc (fst cur) rest -> P < fst cur -> drop_lt Q (cur :: rest) = [] ->
  exists c, del_loop t P ins del origin prevOrigin lefts cur rest reps = Panic c.
Proof.
  induction rest as [|nxt rest' IH]; intros cur origin prevOrigin lefts reps Hinc Hcur Hdrop.
  - destruct cur as [ck cv]. simpl in *. destruct (Z.ltb_spec ck Q); [|discriminate].
    destruct (Z.gtb_spec (P + del) ck); [eauto|]. exfalso; unfold Q in *; lia.
  - destruct cur as [ck cv]. destruct nxt as [nk nv]. destruct Hinc as [Hn Hinc].
    rewrite del_loop_unfold. cbn [fst snd] in *.
    change (drop_lt Q ((ck, cv) :: (nk, nv) :: rest')) with
      (if ck <? Q then drop_lt Q ((nk, nv) :: rest') else (ck, cv) :: (nk, nv) :: rest') in Hdrop.
    destruct (Z.ltb_spec ck Q) as [Hlt|Hge]; [|discriminate].
    assert (Hd : Z.min nk (P + del) - Z.max ck P > 0) by (unfold Q in *; lia).
    set (dlt := Z.min nk (P + del) - Z.max ck P) in *.
    replace (dlt =? 0) with false by (symmetry; apply Z.eqb_neq; lia).
    replace (dlt <=? 0) with false by (symmetry; apply Z.leb_gt; lia).
    cbn [andb]. destruct (update_time t cv (- dlt)) as [r|c]; [|eauto].
    replace (ck >=? P) with true by (symmetry; apply Z.geb_le; lia).
    apply IH; auto. simpl; lia.
Qed.

(* deleting a line that carries the merge mark with another tick panics *)
Lemma tail_loop_conflict : forall rest cur origin prevOrigin lefts reps,
  inc (fst cur) rest -> P < fst cur -> ~ compat_list t Q cur rest ->
  exists c, del_loop t P ins del origin prevOrigin lefts cur rest reps = Panic c.
Proof.
  induction rest as [|nxt rest' IH]; intros cur origin prevOrigin lefts reps Hinc Hcur Hn.
  - exfalso. apply Hn. exact I.
  - destruct cur as [ck cv]. destruct nxt as [nk nv]. destruct Hinc as [Hnk Hinc].
    rewrite del_loop_unfold. cbn [fst snd compat_list] in *.
    destruct (Z.ltb_spec ck Q) as [Hlt|Hge]; [|exfalso; apply Hn; exact I].
    assert (Hd : Z.min nk (P + del) - Z.max ck P > 0) by (unfold Q in *; lia).
    set (dlt := Z.min nk (P + del) - Z.max ck P) in *.
    replace (dlt =? 0) with false by (symmetry; apply Z.eqb_neq; lia).
    replace (dlt <=? 0) with false by (symmetry; apply Z.leb_gt; lia).
    cbn [andb]. destruct (compat_dec t cv) as [Hc|[Hm Hne]].
    + rewrite (update_time_compat t cv _ Hc). cbv zeta.
      replace (ck >=? P) with true by (symmetry; apply Z.geb_le; lia).
      apply IH; [exact Hinc | simpl; lia | intros H; apply Hn; split; auto].
    + rewrite (update_time_conflict t cv _ Hm Hne). eexists; reflexivity.
Qed.

Lemma first_loop_conflict : forall R ok ov prevOrigin L reps,
  ok <= P -> inc ok R -> first_gt P R -> ~ compat_list t Q (ok, ov) R ->
  exists c, del_loop t P ins del (ok, ov) prevOrigin L (ok, ov) R reps = Panic c.
Proof.
  intros R ok ov prevOrigin L reps Hok Hinc Hgt Hn.
  destruct R as [|[nk nv] R']; [exfalso; apply Hn; exact I|].
  simpl in Hgt. destruct Hinc as [Hnk Hinc]. rewrite del_loop_unfold. cbn [fst snd compat_list] in *.
  replace (ok <? Q) with true in Hn by (symmetry; apply Z.ltb_lt; unfold Q; lia).
  assert (Hd : Z.min nk (P + del) - Z.max ok P > 0) by lia.
  set (dlt := Z.min nk (P + del) - Z.max ok P) in *.
  replace (dlt =? 0) with false by (symmetry; apply Z.eqb_neq; lia).
  replace (dlt <=? 0) with false by (symmetry; apply Z.leb_gt; lia).
  cbn [andb]. destruct (compat_dec t ov) as [Hc|[Hm Hne]].
  - rewrite (update_time_compat t ov _ Hc). cbv zeta.
    destruct (ok >=? P);
      (apply tail_loop_conflict; [exact Hinc | simpl; lia | intros H; apply Hn; split; auto]).
  - rewrite (update_time_conflict t ov _ Hm Hne). eexists; reflexivity.
Qed.

(* tail phase: every examined node starts after P *)
Lemma tail_loop : forall rest cur origin prevOrigin lefts reps sh S',
  inc (fst cur) rest -> P < fst cur -> drop_lt Q (cur :: rest) = sh :: S' ->
  compat_list t Q cur rest ->
  del_loop t P ins del origin prevOrigin lefts cur rest reps =
    Ok (if match take_lt Q (cur :: rest) with [] => special origin prevOrigin sh S' | _ => false end
        then (sh, lefts, S', reps ++ rep_list t P Q cur rest)
        else (last (take_lt Q (cur :: rest)) origin, lefts, sh :: S', reps ++ rep_list t P Q cur rest)).
Proof.
  induction rest as [|nxt rest' IH]; intros cur origin prevOrigin lefts reps sh S' Hinc Hcur Hdrop Hcompat.
  - (* cur is the last node *)
    destruct cur as [ck cv]. simpl in *. destruct (Z.ltb_spec ck Q); [discriminate|].
    inversion Hdrop; subst sh S'. simpl.
    destruct (Z.gtb_spec (P + del) ck); [exfalso; unfold Q in *; lia|].
    rewrite app_nil_r. unfold special. simpl. rewrite !andb_false_r. reflexivity.
  - destruct cur as [ck cv]. destruct nxt as [nk nv]. destruct Hinc as [Hn Hinc].
    rewrite del_loop_unfold. cbn [fst snd] in *.
    change (drop_lt Q ((ck, cv) :: (nk, nv) :: rest')) with
      (if ck <? Q then drop_lt Q ((nk, nv) :: rest') else (ck, cv) :: (nk, nv) :: rest') in Hdrop.
    change (take_lt Q ((ck, cv) :: (nk, nv) :: rest')) with
      (if ck <? Q then (ck, cv) :: take_lt Q ((nk, nv) :: rest') else []).
    cbn [rep_list compat_list fst snd] in *.
    destruct (Z.ltb_spec ck Q) as [Hlt|Hge].
    + (* cur is deleted *)
      destruct Hcompat as [Hcv Hcompat].
      assert (Hd : Z.min nk (P + del) - Z.max ck P > 0) by (unfold Q in *; lia).
      fold Q. set (dlt := Z.min nk Q - Z.max ck P) in *.
      replace (Z.min nk (P + del) - Z.max ck P) with dlt in * by reflexivity.
      replace (dlt =? 0) with false by (symmetry; apply Z.eqb_neq; lia).
      replace (dlt <=? 0) with false by (symmetry; apply Z.leb_gt; lia).
      cbn [andb]. rewrite (update_time_compat t cv (- dlt) Hcv). cbv zeta.
      replace (ck >=? P) with true by (symmetry; apply Z.geb_le; lia).
      rewrite (IH (nk, nv) (ck, cv) prevOrigin lefts (reps ++ rep t cv (- dlt)) sh S' Hinc ltac:(simpl; lia) Hdrop Hcompat).
      rewrite <- app_assoc.
      destruct (take_lt Q ((nk, nv) :: rest')) as [|d0 D'] eqn:ET.
      * (* next node is the survivor: special cannot fire since origin.k = ck > P *)
        unfold special. cbn [fst snd]. replace (ck =? P) with false by (symmetry; apply Z.eqb_neq; lia).
        rewrite !andb_false_r. cbn [andb]. reflexivity.
      * f_equal. f_equal. f_equal. f_equal. symmetry. apply last_cons_ne. congruence.
    + (* cur survives: delta <= 0 *)
      inversion Hdrop; subst sh S'.
      assert (Hd : Z.min nk (P + del) - Z.max ck P = Q - ck) by (unfold Q in *; lia).
      rewrite Hd. rewrite app_nil_r.
      unfold special. cbn [fst snd last]. rewrite andb_true_r.
      replace (Q - ck =? 0) with (ck =? Q)
        by (destruct (Z.eqb_spec ck Q), (Z.eqb_spec (Q - ck) 0); auto; exfalso; lia).
      destruct ((ck =? Q) && (ins =? 0) && (fst origin =? P) && (snd prevOrigin =? cv)); [reflexivity|].
      replace (Q - ck <=? 0) with true by (symmetry; apply Z.leb_le; lia). reflexivity.
Qed.

Lemma first_loop_panic : forall R ok ov prevOrigin L reps,
  ok <= P -> inc ok R -> first_gt P R -> drop_lt Q R = [] ->
  exists c, del_loop t P ins del (ok, ov) prevOrigin L (ok, ov) R reps = Panic c.
Proof.
  intros R ok ov prevOrigin L reps Hok Hinc Hgt Hdrop.
  destruct R as [|[nk nv] R'].
  - simpl. destruct (Z.gtb_spec (P + del) ok); [eauto|]. exfalso; lia.
  - simpl in Hgt. destruct Hinc as [Hn Hinc]. rewrite del_loop_unfold. cbn [fst snd].
    assert (Hd : Z.min nk (P + del) - Z.max ok P > 0) by lia.
    set (dlt := Z.min nk (P + del) - Z.max ok P) in *.
    replace (dlt =? 0) with false by (symmetry; apply Z.eqb_neq; lia).
    replace (dlt <=? 0) with false by (symmetry; apply Z.leb_gt; lia).
    cbn [andb]. destruct (update_time t ov (- dlt)) as [r|c]; [|eauto]. cbv zeta.
    destruct (ok >=? P); apply tail_loop_panic; auto; simpl; lia.
Qed.

Lemma first_loop : forall R ok ov prevOrigin L reps sh S',
  ok <= P -> inc ok R -> first_gt P R -> drop_lt Q R = sh :: S' ->
  compat_list t Q (ok, ov) R ->
  del_loop t P ins del (ok, ov) prevOrigin L (ok, ov) R reps =
    Ok (if match take_lt Q R with [] => special (ok, ov) prevOrigin sh S' | _ => false end
        then (sh, (if ok <? P then L ++ [(ok, ov)] else L), S', reps ++ rep_list t P Q (ok, ov) R)
        else (last (take_lt Q R) (ok, ov), (if ok <? P then L ++ [(ok, ov)] else L), sh :: S',
              reps ++ rep_list t P Q (ok, ov) R)).
Proof.
  intros R ok ov prevOrigin L reps sh S' Hok Hinc Hgt Hdrop Hcompat.
  destruct R as [|[nk nv] R'].
  - simpl in Hdrop. discriminate.
  - simpl in Hgt. destruct Hinc as [Hn Hinc]. rewrite del_loop_unfold. cbn [fst snd].
    cbn [rep_list compat_list fst snd] in *.
    assert (HokQ : ok < Q) by (unfold Q; lia).
    replace (ok <? Q) with true in * by (symmetry; apply Z.ltb_lt; lia).
    destruct Hcompat as [Hcv Hcompat].
    assert (Hd : Z.min nk (P + del) - Z.max ok P > 0) by lia.
    fold Q. set (dlt := Z.min nk Q - Z.max ok P) in *.
    replace (Z.min nk (P + del) - Z.max ok P) with dlt in * by reflexivity.
    replace (dlt =? 0) with false by (symmetry; apply Z.eqb_neq; lia).
    replace (dlt <=? 0) with false by (symmetry; apply Z.leb_gt; lia).
    cbn [andb]. rewrite (update_time_compat t ov (- dlt) Hcv). cbv zeta.
    destruct (Z.geb_spec ok P) as [Hge|Hlt].
    + replace (ok <? P) with false by (symmetry; apply Z.ltb_ge; lia).
      rewrite (tail_loop R' (nk, nv) (ok, ov) prevOrigin L (reps ++ rep t ov (- dlt)) sh S' Hinc ltac:(simpl; lia) Hdrop Hcompat).
      rewrite <- app_assoc. reflexivity.
    + replace (ok <? P) with true by (symmetry; apply Z.ltb_lt; lia).
      rewrite (tail_loop R' (nk, nv) (ok, ov) prevOrigin (L ++ [(ok, ov)]) (reps ++ rep t ov (- dlt)) sh S' Hinc ltac:(simpl; lia) Hdrop Hcompat).
      rewrite <- app_assoc. reflexivity.
Qed.

End Loop.
