(* C09: replay the harness trace through the extracted model of Run with Hibernate / Boot actions.

   The abstract analysis item of the model is instantiated with the free term algebra of its
   operations (hash-consed to ints): the state of a branch is the term of the Consume / Fork / Merge
   calls that produced it.  What the model cannot know - the arena size of a state and the length of
   the temp file written for it - is read from the implementation's own Hibernate calls (recorded by
   the wrapper item); the temp-file names and the injected faults become the model's I/O oracle and
   adversary.  Everything else (which calls happen at which step, in memory / on disk / not at all,
   which files exist before every step, the outcome of the run and its error class) is predicted by
   the model and compared (MISMATCH).  The property oracles (PROPFAIL) judge the implementation's
   outputs: result equal to the run without hibernation, no temp file left after a successful run,
   under a fault an error or the same result, never success when the model proves an error. *)
open C09_model
open Conv

(* ---- hash-consed terms ---- *)
type node = Init | Cons of int * int * bool * int | Clone of int | Merge of int * int list
let tbl : (node, int) Hashtbl.t = Hashtbl.create 256
let mk (x : node) : int =
  match Hashtbl.find_opt tbl x with
  | Some i -> i
  | None -> let i = Hashtbl.length tbl in Hashtbl.add tbl x i; i

let size_tbl : (int, int) Hashtbl.t = Hashtbl.create 64     (* term -> arena size *)
let len_tbl : (int, int) Hashtbl.t = Hashtbl.create 64      (* term -> length of its temp file *)

let zeros n = let rec go acc n = if n <= 0 then acc else go (0 :: acc) (n - 1) in go [] n

(* The extracted list functions (length, firstn, app) are not tail recursive and the files of the scale family have
   10^5 .. 10^6 bytes: run with an unlimited stack (re-exec once through the shell; if that is not possible the
   large cases fall back to the coarse oracles, see [fine_limit]). *)
let big_stack =
  match Sys.getenv_opt "C09_DRIVER_STACK" with
  | Some "unlimited" -> true
  | Some _ -> false
  | None ->
      (try
         Unix.putenv "C09_DRIVER_STACK" "trying";
         let self = Sys.executable_name in
         Unix.execv "/bin/sh" [| "/bin/sh"; "-c";
           "if ulimit -s unlimited 2>/dev/null; then C09_DRIVER_STACK=unlimited; else C09_DRIVER_STACK=default; fi; export C09_DRIVER_STACK; exec \"$0\" \"$@\"";
           self |]
       with _ -> false)
let fine_limit = if big_stack then 3_000_000 else 150_000

let the_ops : (int, int, int, int, int) ops = {
  size = (fun s -> match Hashtbl.find_opt size_tbl s with
                   | Some z -> z_of_int z
                   | None -> failwith "the model hibernates a state whose arena size was not observed");
  compress = (fun s -> s);
  decompress = (fun h -> h);
  strip = (fun h -> h);
  encode = (fun h -> match Hashtbl.find_opt len_tbl h with
                     | Some l -> zeros l
                     | None -> failwith "the model writes a temp file where the implementation wrote none");
  (* the specification of Deserialize assumed by the theorems: the complete file decodes, a proper
     prefix does not *)
  decode = (fun k bytes -> match Hashtbl.find_opt len_tbl k with
                           | Some l when List.length bytes >= l -> Some k
                           | _ -> None);
  consume = (fun c i m s -> Ok (mk (Cons (int_of_n c, int_of_n i, m, s))));
  clone = (fun s -> mk (Clone s));
  merge = (fun ss -> Ok (List.mapi (fun i _ -> mk (Merge (i, ss))) ss));
  finalize = (fun s -> Ok s);
  init = mk Init;
}

(* ---- parsing ---- *)
let action_of_sx (s : sx) : action =
  let items k = List.map (fun x -> z_of_int (int_of_sx x)) (list_of_sx (List.nth (args s) k)) in
  let split = function b :: r -> (b, r) | [] -> failwith "plan action without items" in
  match tag s with
  | "c" -> ACommit (fst (split (items 1)), n_of_int (int_of_sx (List.nth (args s) 0)))
  | "f" -> let (b, r) = split (items 0) in AFork (b, r)
  | "m" -> let (b, r) = split (items 0) in AMerge (b, r)
  | "e" -> AEmerge (fst (split (items 0)))
  | "d" -> ADelete (fst (split (items 0)))
  | "h" -> let (b, r) = split (items 0) in AHibernate (b, r)
  | "b" -> let (b, r) = split (items 0) in ABoot (b, r)
  | t -> failwith ("unknown plan action " ^ t)

let items_of = function
  | AHibernate (b, r) | ABoot (b, r) -> List.map int_of_z (b :: r)
  | _ -> []

let ecls_name = function
  | ECreate -> "create" | EClose -> "close" | EWrite -> "write" | EOpen -> "open" | ERead -> "read"
  | ERemove -> "remove" | ENameCollision -> "collision" | EItem _ -> "item"

let show_event = function
  | EvHibStay (b, z) -> Printf.sprintf "hib-stay(b%d,size %d)" (int_of_z b) (int_of_z z)
  | EvHibMem (b, z) -> Printf.sprintf "hib-mem(b%d,size %d)" (int_of_z b) (int_of_z z)
  | EvHibDisk (b, z, n, l) -> Printf.sprintf "hib-disk(b%d,size %d,file %d,len %d)" (int_of_z b) (int_of_z z) (int_of_n n) (int_of_nat l)
  | EvHibFail (b, z, e) -> Printf.sprintf "hib-fail(b%d,size %d,%s)" (int_of_z b) (int_of_z z) (ecls_name e)
  | EvBootNop b -> Printf.sprintf "boot-nop(b%d)" (int_of_z b)
  | EvBootMem b -> Printf.sprintf "boot-mem(b%d)" (int_of_z b)
  | EvBootDisk (b, n) -> Printf.sprintf "boot-disk(b%d,file %d)" (int_of_z b) (int_of_n n)
  | EvBootFail (b, n, e) -> Printf.sprintf "boot-fail(b%d,file %d,%s)" (int_of_z b) (int_of_n n) (ecls_name e)

(* a recorded Hibernate / Boot call of the implementation *)
type call = { kind : string; cstep : int; inst : int; before : int; after : int;
              file : (int * int) option; err : string option; tracked : int (* -1: not recorded *) }

let call_of_sx (s : sx) : call =
  let a = args s in
  let i k = int_of_sx (List.nth a k) in
  let f = List.nth a 4 in
  let file = match tag f with
    | "file" -> (match args f with
                 | [x; y] -> Some (int_of_sx x, int_of_sx y)
                 | [x] -> Some (int_of_sx x, -1)
                 | _ -> failwith "file")
    | _ -> None in
  let r = List.nth a 5 in
  let err = match tag r with "err" -> Some (atom (List.hd (args r))) | _ -> None in
  let tracked = match List.filter (fun x -> tag x = "files") a with
    | f :: _ -> int_of_sx (List.hd (args f))
    | [] -> -1 in
  { kind = tag s; cstep = i 0; inst = i 1; before = i 2; after = i 3; file; err; tracked }

(* the implementation's call in the vocabulary of the model's events *)
let show_call (b : int) (c : call) : string =
  match c.kind, c.err, c.file with
  | "hib", Some e, _ -> Printf.sprintf "hib-fail(b%d,size %d,%s)" b c.before e
  | "hib", None, Some (id, len) -> Printf.sprintf "hib-disk(b%d,size %d,file %d,len %d)" b c.before id len
  | "hib", None, None ->
      if c.before > 0 && c.after = 0 then Printf.sprintf "hib-mem(b%d,size %d)" b c.before
      else Printf.sprintf "hib-stay(b%d,size %d)" b c.before
  | _, Some e, Some (id, _) -> Printf.sprintf "boot-fail(b%d,file %d,%s)" b id e
  | _, Some e, None -> Printf.sprintf "boot-fail(b%d,nofile,%s)" b e
  | _, None, Some (id, _) -> Printf.sprintf "boot-disk(b%d,file %d)" b id
  | _, None, None ->
      if c.before = 0 && c.after > 0 then Printf.sprintf "boot-mem(b%d)" b else Printf.sprintf "boot-nop(b%d)" b

let show_listing l = "[" ^ String.concat ";" (List.map (fun (n, s) -> Printf.sprintf "%d:%d" n s) l) ^ "]"

let () =
  if big_stack then count "driver_runs_with_unlimited_stack";
  iter_cases (fun id c ->
    Hashtbl.reset size_tbl; Hashtbl.reset len_tbl;
    let geti t = int_of_sx (List.hd (args (field t c))) in
    let kind = atom (List.hd (args (field "kind" c))) in
    let cfg = { thr = z_of_int (geti "thr"); disk = geti "disk" <> 0 } in
    let wrapped = geti "wrap" <> 0 in
    let fault = atom (List.hd (args (field "fault" c))) in
    let obs = field "obs" c in
    let outcome t = let o = List.hd (args (field t obs)) in (tag o, atom (List.hd (args o))) in
    let base = outcome "base" and res = outcome "res" in
    let plan = List.map action_of_sx (list_of_sx (List.hd (args (field "plan" obs)))) in
    let plan0 = List.map action_of_sx (list_of_sx (List.hd (args (field "plan0" obs)))) in
    let events = args (field "events" obs) in
    let listings = List.map (fun l -> List.map (fun e -> match ints_of_sx e with [a; b] -> (a, b) | _ -> failwith "listing") (list_of_sx l))
        (args (field "listings" obs)) in
    let final = List.map (fun e -> match ints_of_sx e with [a; b] -> (a, b) | _ -> failwith "final") (list_of_sx (List.hd (args (field "final" obs)))) in
    let plansame = int_of_sx (List.hd (args (field "plansame" obs))) <> 0 in
    count ("kind_" ^ kind);
    (* the largest temp file of the case (directory listings) *)
    let max_file = List.fold_left (fun m l -> List.fold_left (fun m (_, z) -> max m z) m l) 0 (final :: listings) in
    if max_file >= 1 lsl 16 then count "cases_with_temp_file_over_64KiB";
    if max_file >= 1 lsl 18 then count "cases_with_temp_file_over_256KiB";
    if max_file >= 1 lsl 20 then count "cases_with_temp_file_over_1MiB";
    let multi_boot = List.exists (function ABoot (_, _ :: _) -> true | _ -> false) in
    count (if wrapped then "runs_with_recording_wrapper" else "runs_with_bare_item");
    (match field_opt "baseretry" obs with
     | Some f when int_of_sx (List.hd (args f)) > 0 -> count "baseline_rerun_to_match_the_base_plan"
     | _ -> ());
    (* round 3: a branch that tracks no file (every text file deleted or turned binary) while its arena is not empty is
       hibernated and booted again (wrapper only: the calls are recorded) *)
    List.iter (fun e -> match tag e with
        | "hib" | "boot" ->
            let cl = call_of_sx e in
            if cl.tracked = 0 && cl.err = None then begin
              if cl.kind = "hib" && cl.before > 0 && cl.after = 0 then
                count (if cl.file <> None then "hibernate_to_disk_of_branch_tracking_no_file" else "hibernate_in_memory_of_branch_tracking_no_file");
              if cl.kind = "boot" && cl.before = 0 && cl.after > 0 then count "boot_of_branch_tracking_no_file"
            end
        | "vfile" ->
            (* the victim of an every-length truncation: (vfile step id size arena gaps offset-of-the-last-payload) *)
            (match List.map int_of_sx (args e), List.filter (fun x -> tag x = "len") (args (field "fault" c)) with
             | [_; _; size; _; gaps; last7], l :: _ ->
                 let len = int_of_sx (List.hd (args l)) in
                 if gaps > 0 then count "truncall_victim_has_free_nodes";
                 if len = last7 && last7 < size then count "truncall_cut_exactly_at_start_of_last_payload";
                 if len = size - 1 then count "truncall_cut_last_byte";
                 if len = 0 then count "truncall_victim_files"
             | _ -> ())
        | _ -> ()) events;

    (* ------------------------------------------------------------------ property oracles *)
    let show (k, d) = k ^ ":" ^ d in
    (* kind rerun: the same BurndownAnalysis instance went through a prior Initialize + Run.  [exposed]: that prior run used
       on-disk hibernation and FAILED, so the instance went into Initialize holding the name of a temp file (finding F23,
       fixed by 964ac9a: Initialize did not reset it); a failure of such a case carries the narrow tag below.  The model starts
       every run from a fresh item, so the fine correspondence of the second run checks the re-initialisation as well. *)
    let prior = field_opt "prior" c in
    let prior_res = match field_opt "priorres" obs with
      | Some f -> (match args f with o :: n :: _ -> Some ((tag o, atom (List.hd (args o))), int_of_sx n) | _ -> None)
      | None -> None in
    let exposed = match prior, prior_res with
      | Some p, Some ((k, _), _) -> k <> "ok" && int_of_sx (List.hd (args (field "disk" p))) <> 0
      | _ -> false in
    (match prior, prior_res with
     | Some p, Some ((k, _), left) ->
         count ("rerun_prior_" ^ k);
         if left > 0 then count "rerun_prior_left_temp_files";
         if field_opt "hist" p <> None then count "rerun_prior_on_another_history";
         if exposed then count "rerun_after_failed_disk_run"
     | _ -> ());
    if exposed && res <> base && res <> ("panic", "crash") && res <> ("panic", "hang") then
      propfail id (Printf.sprintf "reuse-after-failed-disk-run: a BurndownAnalysis instance whose previous run failed while branches slept on disk (%s) is initialized and run again (distance %d, threshold %d, disk %d, no fault) and gives %s; a fresh instance without hibernation gives %s (does Initialize reset hibernatedFileName? Boot must not read the temp file of the previous run)"
                     (match prior_res with Some (r, n) -> Printf.sprintf "outcome %s, %d temp file(s) left" (show r) n | None -> "?")
                     (geti "dist") (geti "thr") (geti "disk") (show res) (show base))
    else
    if res = ("panic", "hang") then
      propfail id (Printf.sprintf "the run with hibernation (distance %d, threshold %d, disk %d, fault %s) does not return within the time limit of the harness (the largest run of the family takes well under a minute)"
                     (geti "dist") (geti "thr") (geti "disk") fault)
    else if res = ("panic", "crash") then
      (* written by the supervisor of the harness: the process died during this run *)
      propfail id (Printf.sprintf "the process dies during the run with hibernation (distance %d, threshold %d, disk %d, fault %s): a panic in a goroutine started by Hibernate / Boot, which the caller of Run cannot recover (a run without hibernation of the same history was not what crashed)"
                     (geti "dist") (geti "thr") (geti "disk") fault)
    else if fault = "none" then begin
      if res <> base then
        propfail id (Printf.sprintf "the run with hibernation (distance %d, threshold %d, disk %d) gives %s, the run without gives %s"
                       (geti "dist") (geti "thr") (geti "disk") (show res) (show base))
    end else begin
      (match res with
       | ("ok", _) when res <> base ->
           propfail id (Printf.sprintf "under fault %s the run succeeds with a different result: %s instead of %s" fault (show res) (show base))
       | ("panic", _) when res <> base ->
           propfail id (Printf.sprintf "under fault %s the run panics (%s) instead of returning an error" fault (show res))
       | _ -> ())
    end;
    (* round 4, kind oddir: the configured hibernation directory has an unusual name (white space at the ends, BOM, invalid
       UTF-8, case, trailing slash ...); it exists, is empty and writable, so the run is an ordinary run without fault (judged
       above); the directories that a normalisation of the name would lead to, and the parent, must never hold a file *)
    (match field_opt "baseany" obs with Some _ -> count "baseline_matched_by_result_only_no_run_on_the_same_base_plan_found" | None -> ());
    (match field_opt "tickh" c with Some t -> count (Printf.sprintf "option_tick_size_%dh" (int_of_sx (List.hd (args t)))) | None -> ());
    (match field_opt "hdir" c with
     | Some hd ->
         count "option_odd_directory_name";
         (match field_opt "twin" hd with Some t when int_of_sx (List.hd (args t)) <> 0 -> count "odd_directory_with_normalised_twins" | _ -> ());
         (match field_opt "stray" obs with
          | Some f when int_of_sx (List.hd (args f)) > 0 ->
              propfail id (Printf.sprintf "hibernation files were written outside the configured directory %s: %d file(s) seen in a sibling directory whose name is a normalisation of the configured name (or in the parent)"
                             (match field_opt "shown" hd with Some x -> atom (List.hd (args x)) | None -> "?") (int_of_sx (List.hd (args f))))
          | _ -> ())
     | None -> ());
    (* round 4, kind picked: an octopus merge with a hibernate action between the replay of the merge commit on some parent
       and the merge action (the plan shows it: a Hibernate after a Commit of the same commit index as a later Commit) *)
    if kind = "picked" then begin
      let rec scan seen_merge_commit = function
        | [] -> false
        | AHibernate _ :: _ when seen_merge_commit -> true
        | AMerge _ :: r -> scan false r
        | ACommit (_, ci) :: r -> scan (seen_merge_commit || List.exists (function ACommit (_, cj) -> cj = ci | _ -> false) r) r
        | _ :: r -> scan seen_merge_commit r in
      if scan false plan then count "picked_branch_sleeps_between_merge_replay_and_merge"
    end;
    if fst res = "ok" && final <> [] then
      propfail id ("temporary hibernation files remain after a successful run: " ^ show_listing final);
    count ("outcome_" ^ fst res);

    (* ------------------------------------------------------------------ the plan *)
    if not plansame then mismatch id "the plan announced by Run differs from insertHibernateBoot(base plan)";
    let lc = lifecycle_ok_h plan in
    if not lc then mismatch id "the executed plan violates the branch lifecycle (C04 predicate lifecycle_ok_h)";
    if erase_hb plan = plan0 then count "base_plan_equal" else count "base_plan_differs";
    if List.exists is_hb plan then count "plans_with_hibernation";
    if multi_boot plan then count "plans_with_multi_branch_boot";
    if List.length plan > 100 then count "plans_over_100_steps";
    if List.length plan > 200 then count "plans_over_200_steps";
    (match List.filter (fun x -> tag x = "opts") (args c) with
     | o :: _ -> List.iter (fun x -> if int_of_sx (List.hd (args x)) <> 0 then count ("option_" ^ tag x)) (args o)
     | [] -> ());

    (* ------------------------------------------------------------------ damaged file must surface (also for the bare item)
       C09_faults_damaged_file_surfaces: every temp file in the (fresh) directory belongs to a sleeping branch, the
       lifecycle forces its Boot, and Boot of a missing file / a proper prefix fails.  Judged from the tamper events
       and the directory listing alone, so it needs neither the wrapper nor the stepped model. *)
    let tamper_evs = List.filter (fun e -> tag e = "tamper") events in
    List.iter (fun e ->
        let stp = int_of_sx (List.hd (args e)) in
        let before = match List.nth_opt listings stp with Some l -> l | None -> [] in
        let victims = List.tl (args e) in
        let single = List.exists (fun x -> tag x = "victim" && int_of_sx (List.hd (args x)) > 0) (args (field "fault" c)) in
        if single then count "tamper_one_victim_file";
        let damaged = List.filter_map (fun t -> match tag t, args t with
            | "rm", [n] -> Some (int_of_sx n, "removed")
            | "trunc", (n :: k :: _) ->
                let n = int_of_sx n and k = int_of_sx k in
                (match List.assoc_opt n before with
                 | Some old when k < old -> Some (n, Printf.sprintf "truncated from %d to %d bytes" old k)
                 | _ -> None)
            | _ -> None) victims in
        (* which position does the victim have in the boot action that reads it back? (wrapper only) *)
        (match damaged, List.nth_opt plan stp with
         | [ (n, _) ], Some (ABoot (_, _ :: _) as a) when wrapped ->
             let calls = List.filter_map (fun e -> match tag e with "hib" -> Some (call_of_sx e) | _ -> None) events in
             let owner = List.filter_map (fun cl -> match cl.file with
                 | Some (f, _) when f = n ->
                     let here = List.filter (fun c2 -> c2.cstep = cl.cstep) calls in
                     let rec idx j = function [] -> None | c2 :: r -> if c2 == cl then Some j else idx (j + 1) r in
                     (match idx 0 here, List.nth_opt plan cl.cstep with
                      | Some j, Some ha -> List.nth_opt (items_of ha) j
                      | _ -> None)
                 | _ -> None) calls in
             (match List.rev owner with
              | b :: _ ->
                  let its = items_of a in
                  let rec pos j = function [] -> -1 | x :: r -> if x = b then j else pos (j + 1) r in
                  let j = pos 0 its in
                  if j >= 0 then count (if j = List.length its - 1 then "victim_is_last_branch_of_multi_boot"
                                        else "victim_is_not_last_branch_of_multi_boot")
              | [] -> ())
         | _ -> ());
        if damaged <> [] && lc && fst res = "ok" then
          propfail id (Printf.sprintf "before plan step %d temp file %s and the run still succeeds (%s): the damaged file was read back without an error or never read"
                         stp (String.concat ", " (List.map (fun (n, w) -> Printf.sprintf "%d was %s" n w) damaged)) (show res))
      ) tamper_evs;

    (* ------------------------------------------------------------------ fine correspondence *)
    if wrapped && lc && max_file > fine_limit then count "fine_correspondence_skipped_large_file";
    if wrapped && lc && max_file <= fine_limit && res <> ("panic", "crash") && res <> ("panic", "hang") then begin
      let calls = List.filter_map (fun e -> match tag e with "hib" | "boot" -> Some (call_of_sx e) | _ -> None) events in
      (* oracle: one entry per call that touches the disk, in call order *)
      let entries = List.filter_map (fun cl ->
          match cl.kind, cl.file, cl.err with
          | "hib", Some (fid, _), None -> Some { io_name = n_of_int fid; io_result = IoOk }
          | "hib", _, Some "create" -> Some { io_name = n_of_int (100000 + cl.cstep); io_result = IoFail O }
          | "hib", _, Some _ -> Some { io_name = n_of_int (100000 + cl.cstep); io_result = IoFail (S (S O)) }
          | "boot", Some _, _ -> Some { io_name = N0; io_result = IoOk }
          | _ -> None) calls in
      let entries = Array.of_list entries in
      let io (i : nat) = let k = int_of_nat i in
        if k < Array.length entries then entries.(k) else { io_name = n_of_int (200000 + k); io_result = IoOk } in
      (* adversary *)
      let tampers = List.filter_map (fun e -> if tag e = "tamper" then
          Some (int_of_sx (List.hd (args e)),
                List.map (fun t -> match tag t, args t with
                    | "rm", [n] -> TRemove (n_of_int (int_of_sx n))
                    | "trunc", [n; k] -> TTrunc (n_of_int (int_of_sx n), nat_of_int (int_of_sx k))
                    | _ -> failwith "tamper") (List.tl (args e)))
        else None) events in
      if tampers <> [] then count "tamper_fired";
      let adv (i : nat) = try List.assoc (int_of_nat i) tampers with Not_found -> [] in
      (* step the model; before a Hibernate step learn sizes and file lengths from the calls *)
      let st = ref (start []) in
      let done_ = ref [] in
      let stopped = ref None in
      let rec go i rest =
        match rest with
        | [] -> ()
        | a :: rest' ->
            (* directory before step i *)
            (if i < List.length listings then
               let ml = List.sort compare (List.map (fun (n, bs) -> (int_of_n n, List.length bs)) !st.fs) in
               let rl = List.sort compare (List.nth listings i) in
               if ml <> rl then mismatch id (Printf.sprintf "step %d: directory holds %s, the model expects %s" i (show_listing rl) (show_listing ml)));
            (match a with
             | AHibernate _ ->
                 let here = List.filter (fun cl -> cl.cstep = i && cl.kind = "hib") calls in
                 List.iteri (fun j b ->
                     match List.nth_opt here j, tget (z_of_int b) !st.br with
                     | Some cl, Some (Awake s) ->
                         (match Hashtbl.find_opt size_tbl s with
                          | Some z when z <> cl.before ->
                              mismatch id (Printf.sprintf "step %d: branches with the same history have arena sizes %d and %d" i z cl.before)
                          | _ -> Hashtbl.replace size_tbl s cl.before);
                         (match cl.file with Some (_, len) when len >= 0 -> Hashtbl.replace len_tbl s len | _ -> ())
                     | _ -> ()) (items_of a)
             | _ -> ());
            let (r, st') = step the_ops cfg io adv !done_ rest' a !st in
            st := st';
            (match r with
             | Ok _ -> done_ := a :: !done_; go (i + 1) rest'
             | Panic p -> stopped := Some (i, "panic")
             | Err e -> stopped := Some (i, "err:" ^ ecls_name e))
      in
      go 0 plan;
      (* calls: the implementation's against the model's *)
      let mevs = List.rev_map show_event !st.evs in
      let per_step = Hashtbl.create 16 in
      let ievs = List.map (fun cl ->
          let j = try Hashtbl.find per_step (cl.cstep, cl.kind) with Not_found -> 0 in
          Hashtbl.replace per_step (cl.cstep, cl.kind) (j + 1);
          let b = match List.nth_opt plan cl.cstep with
            | Some a -> (match List.nth_opt (items_of a) j with Some b -> b | None -> -1)
            | None -> -1 in
          show_call b cl) calls in
      List.iter (fun _ -> count "hibernate_boot_calls") calls;
      if mevs <> ievs then begin
        let rec first i a b = match a, b with
          | x :: a', y :: b' -> if x = y then first (i + 1) a' b' else Printf.sprintf "call #%d: implementation %s, model %s" i y x
          | [], y :: _ -> Printf.sprintf "call #%d: implementation %s, model has no further call" i y
          | x :: _, [] -> Printf.sprintf "call #%d: model %s, implementation has no further call" i x
          | [], [] -> "" in
        mismatch id ("Hibernate/Boot calls differ at " ^ first 0 mevs ievs)
      end;
      (* Boot is called on the very instance that was hibernated *)
      let asleep : (int, int) Hashtbl.t = Hashtbl.create 8 in
      Hashtbl.reset per_step;
      List.iter (fun cl ->
          let j = try Hashtbl.find per_step (cl.cstep, cl.kind) with Not_found -> 0 in
          Hashtbl.replace per_step (cl.cstep, cl.kind) (j + 1);
          match List.nth_opt plan cl.cstep with
          | Some a -> (match List.nth_opt (items_of a) j with
              | Some b -> if cl.kind = "hib" then Hashtbl.replace asleep b cl.inst
                  else (match Hashtbl.find_opt asleep b with
                      | Some i when i <> cl.inst -> mismatch id (Printf.sprintf "step %d: Boot of branch %d reaches another item instance than its Hibernate" cl.cstep b)
                      | _ -> ())
              | None -> ())
          | None -> ()) calls;
      (* outcome *)
      let mres = match !stopped with
        | Some (_, r) -> r
        | None -> (match C09_model.finish the_ops !st with Ok _ -> "ok" | Panic _ -> "panic" | Err e -> "err:" ^ ecls_name e) in
      let ires = match res with
        | ("ok", _) -> "ok"
        | ("panic", _) -> "panic"
        | ("err", _) ->
            (match List.rev calls with
             | cl :: _ -> (match cl.err with Some e -> "err:" ^ e | None -> "err:?")
             | [] -> "err:?")
        | _ -> "?" in
      (match !stopped with Some (_, r) when String.length r > 3 && String.sub r 0 3 = "err" -> count "model_predicts_io_error" | _ -> ());
      if mres <> ires then begin
        if ires = "ok" && String.length mres > 3 && String.sub mres 0 3 = "err" then
          propfail id (Printf.sprintf "the run succeeds although the model proves an I/O failure (%s) under fault %s: a failed or truncated read went unnoticed" mres fault)
        else mismatch id (Printf.sprintf "outcome: implementation %s, model %s" ires mres)
      end;
      (* directory after the run *)
      let ml = List.sort compare (List.map (fun (n, bs) -> (int_of_n n, List.length bs)) !st.fs) in
      if ml <> List.sort compare final then
        mismatch id (Printf.sprintf "directory after the run: %s, model %s" (show_listing final) (show_listing ml));
      (* the extracted run as a whole agrees with the stepped run, and erasure holds on this plan *)
      (match !stopped with
       | None ->
           let (r1, st1) = run the_ops cfg io adv plan [] in
           let (r0, _) = run the_ops cfg io (fun _ -> []) (erase_hb plan) [] in
           if st1.evs <> !st.evs then mismatch id "extracted run and stepped run differ";
           if r1 <> r0 then mismatch id "model: run p differs from run (erase_hb p) although all I/O succeeded (contradicts C09_erasure)"
       | Some _ -> ())
    end)
