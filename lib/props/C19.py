CONFIG = dict(
        level='proof',
        streams=[dict(harness='c19', driver='c19', shrink_field='ops')],
        rule='operation sequences on the real plumbing.TicksSinceStart: Configure (hours / default / TickSize assigned), Initialize, then '
             'Consume of fabricated commits (hash, committer time incl. zone and a different author time, number of parents, index) on '
             'any branch, Fork into 1-3 clones, Merge, plus direct calls of FloorTime. Streams: ex = every sequence of <=4 (1 h) / <=3 '
             '(24 h at 1970 and at year 1, 7 d) commits with times from 7 offsets around period boundaries x 3 branch shapes; lin/linmono = '
             'one branch, <=12 commits; dag/dagmono = pristine root clone, forks, different suffixes, merge commits replayed on 2-3 '
             'branches, Merge, emerging roots (dagmono: committer times monotone along every history); far-sat = times from year 1 to year '
             '3.6e10 (spans beyond +-292 years; the only stream, with corpus-sat/replay-sat, that leaves the range of time.Duration); odd = tick sizes 1 ns .. 2^62 ns with nanosecond times; malformed = tick size 0 / '
             'negative / overflowing, index 0 missing or repeated, replayed root commits, unknown branches; floor = FloorTime alone. '
             'Strengthening round: an (init v) operation initialises the SAME item again and drops the forks (v=0 Initialize only; Configure + '
             'Initialize with v=1 the facts map of the previous Configure as it is, v=2 a fresh facts map, v=3 the same map with the option '
             'set again), and the registry is read twice at the end of every analysis: the private map and the map captured from '
             'facts[TicksSinceStart.Commits] right after Configure, which is what a downstream item holds. '
             'exlife = every pair of analyses of <=2 commits x 4 init variants x same/fresh hashes; life = 2-4 analyses (lin / dag shaped, '
             'possibly empty) on one item; tz = committer zones 0, whole hours, +-30 and +-45 minute zones (+05:30, +05:45, -03:30, +09:30, '
             '+12:45, +08:45, -09:30, ...), zone changes along the history, x tick sizes 1 h .. 30 d and 30 min / 45 min / 90 min / 7 h / 13 h / 25 h / 36 h / 1 s / 1001 ms, '
             'times around period boundaries counted in UTC and in local wall-clock time, FloorTime on the same instants; straddle = tick '
             'VALUES at c-1, c, c+1 for c = 2^8, 2^10, 2^15, 2^16, 2^24, 2^31, 2^32; scale-* = a LARGE analysis followed by (init v) and a '
             'second (short / the same history again / a second large one) and third analysis on the same item: scale-asc n = 1000, 1023, '
             '1024, 1025 (x3 init variants, 1 h / 24 h / 7 d), 1026, 1100 (30 d), 2000 (1 h, 90 min), 10^4 distinct ticks; scale-walk 2000 / 10^4 commits of a random '
             'walk; scale-desc 1025 / 2000 and scale-onetick 1023 / 1100 / 2100 commits under ONE tick (onetick: monotone times, a merge '
             'commit replayed n entries deep); scale-period period numbers periodic with 63, 64, 65, 1023, 1024, 1025; scale-branches 255, '
             '256, 257, 1000 branches alive with pairwise merges; scale-chain a chain of 1100 forks; thorough: 32769, 65537, 10^5 (x2 '
             'analyses) distinct ticks, 10^5-commit walks, 10^4 commits under one tick, 10^4 branches, 1000 branches x 100 commits, chain of '
             '3000.  Cases with more than 300 operations or 40 clones are recorded compactly (tick per Consume; previousTick of every '
             'branch, tick0 and both registries at the end of every analysis) and judged with the indexed model / segment-wise oracles. '
             'Tick sizes 1 h, 2 h, 5 h, 24 h, 7 d, 30 d. Non-trivial = at least 2 Consume calls; distinct = distinct configuration + '
             'operation list.',
        exhaustive_note='all sequences of up to 4 commits (tick 1 h) and up to 3 commits (24 h at 1970, 24 h at year 1, 7 d) whose times are taken from '
                        '{-d-1, -1, 0, +1, d-1, d, 2d+1} s around a period boundary, on 3 branch shapes (linear; fork after the first commit with '
                        'the last commit replayed on both branches and Merge; second root from a pristine clone); thorough: up to 5 commits; '
                        'exlife: every pair of analyses on one item of up to 2 commits each (times from {-1, 0, d-1, d} s around a boundary, the second '
                        'analysis 5 periods later) x 4 ways of initialising again x same / fresh hashes (24 h; thorough also 1 h and 7 d)',
        assumptions=[
            'times are modelled as unbounded integers of nanoseconds since Go\'s zero time; exact while the int64 second counter of time.Time does '
            'not overflow (the harness stays within |unix seconds| <= 2^60, i.e. year +-3.6e10)',
            'Go int is 64 bit (the tick is int(Duration/Duration))',
            'committer times carry no monotonic clock reading (true of parsed and of fabricated commits)',
            'the formula theorems (C19_start, C19_tick_history, C19_commit_alone, C19_registry_exactly_once) assume the call pattern of Pipeline.Run: '
            'the first consumed commit has index 0 on an existing branch and no other Consume has index 0; tick size > 0',
            'known finding F17: beyond +-2^63 ns (about 292.47 years) between the start of tick 0 and a commit Time.Sub saturates and the tick is '
            'max(prev, (2^63-1) ns quot d), not the number of elapsed periods (C19_tick, C19_tick_refuted_beyond_292_years); the replay judges '
            'every tick against the exact formula and reports such steps as PROPFAIL "[duration-saturation] ..."; only the -sat streams '
            'generate such spans, every other stream is kept inside the range by the generator (spanOK)',
        ],
        trusted_base=[
            'hand-written Gallina model coq/theories/Plumbing/Ticks.v of internal/plumbing/ticks.go (Configure, Initialize, Consume, Fork via '
            'ForkCopyPipelineItem, NoopMerger.Merge, FloorTime) and of time.Time.Round/After/Add/Sub and int64 Duration arithmetic, tied to the '
            'code by the replay of every harness case (tick, previousTick of every branch, tick0, commits[tick] after every step; registry at the end)',
            'Go package time itself is modelled, not verified',
            'read-only accessors internal/plumbing/verif_c19.go and re-exports verifapi/c19/c19.go (build tag verif)',
            'lifecycle: Initialize (again) is modelled as the return to init_sys (new zero tick0, previousTick 0, registry emptied in place), so '
            'every analysis between two initialisations is one model run; Configure with the facts map of the previous Configure is modelled by '
            'reconfigure_same_facts (the option key "TicksSinceStart.TickSize" is also the key of the published fact, the int assertion fails, '
            'the tick size falls back to 24 h); both are tied to the code by the replay of the life / exlife / scale streams',
            'large cases: the driver keeps the model registry in a hash table and hands the extracted consume_branch_fast (= consume_branch, '
            'C19_consume_fast) the one entry it touches, builds the branch histories itself and judges them in segments '
            '(C19_history_in_segments); on every third small case the indexed model, histories and oracles are compared with the plain '
            'extracted step / lineages / oracles and must agree',
        ],
        level_text='Coq theorems over all operation sequences of the Gallina model of TicksSinceStart: C19_floor (FloorTime = greatest multiple of d '
                   'from the zero time not after t), C19_tick (tick = max(prev, (t - t0) quot d), = max(prev, floor((t - t0)/d)) inside the '
                   'range of time.Duration, saturated outside, = prev for commits not after t0), C19_monotone (all inputs), C19_previous_tick, '
                   'C19_start / C19_tick_history / C19_commit_alone / C19_registry_exactly_once (runs shaped like Pipeline.Run), '
                   'C19_registry_listed, C19_registry_only_consumed (the registry lists nothing but the commits of the current analysis, each under a tick it was given; oracle: C19_only_consumed_oracle) and C19_registry_scan (all inputs), C19_tick_refuted_beyond_292_years (witness of finding F17); all closed under the global context. The model is replayed against '
                   'the real code on every run.',
        level_note='Proved about the model, tied to the Go code by correspondence only. Modelled rather than verified: package time (Round, Sub '
                   'saturation, Add), reflect-based ForkCopyPipelineItem (shallow copy: tick0 pointer and commits map shared, previousTick and '
                   'TickSize copied). Outside the range of time.Duration (more than about 292 years between the first commit\'s period and a '
                   'commit) the tick is NOT the number of elapsed periods: known finding F17, proved as C19_tick_refuted_beyond_292_years, reported by '
                   'the replay as [duration-saturation] from the -sat streams, not repaired. '
                   'With non-monotone committer times a replayed merge commit can be listed under two different ticks '
                   '(C19_example_replay_under_two_ticks); a commit without parents that is consumed twice is listed twice. '
                   'Lifecycle: Initialize again = return to the initial state with the registry emptied in place (modelled, replayed); Configure '
                   'again with the facts map of the previous Configure falls back to the 24 h default because option and fact share the key '
                   '"TicksSinceStart.TickSize" (modelled as reconfigure_same_facts, observed on the code, outside the statement of C19).',
        technique='machine-checked proof in Coq over a Gallina model (invariants over all Consume/Fork/Merge sequences with ghost branch histories) '
                  '+ model/implementation correspondence replay with extracted oracles',
    )
