(* C11, the chain line counter -> diff -> burndown consumer, for one modification of a tracked file. *)
From Coq Require Import List ZArith Bool Arith Lia.
From Herc Require Import Plumbing.LineCount Plumbing.LineCountProofs Plumbing.Script Plumbing.ScriptProofs.
Import ListNotations.

(* FileDiff.Consume reports len(src), len(dst) of DiffLinesToRunes on the (possibly stripped) blobs; [ds] is
   whatever the diff engine returned, provided the validator accepts it.  The tracked file has CountLines(old blob)
   lines (handleInsertion created it so, or the previous modification left it so: that is the invariant).
   Outside the class of finding F9 the consumer accepts and leaves a file of CountLines(new blob) lines. *)
Theorem modification_chain : forall {V : Type} (v : V) (ws : bool) (a b : bytes) (ds : script) (file : list V),
  textb a = true -> textb b = true ->
  (ws = false \/ (last_blank a = false /\ last_blank b = false)) ->
  file_diff_ok ws a b ds = true ->
  count_lines a = Lines (length file) ->
  exists file', handle_modification v (diff_loc ws a) (diff_loc ws b) file ds = HmOk file'
                /\ count_lines b = Lines (length file') /\ file' = relabel v ds file.
Proof.
  intros V v ws a b ds file Ta Tb Hws Hok Hfile.
  assert (Ha : count_lines a = Lines (diff_loc ws a)) by (apply diff_loc_agrees; tauto).
  assert (Hb : count_lines b = Lines (diff_loc ws b)) by (apply diff_loc_agrees; tauto).
  assert (L : length file = length (split_lines (strip ws a))).
  { rewrite Hfile in Ha. injection Ha as ->. reflexivity. }
  destruct (consumer_accepts list_eqb v _ _ file ds list_eqb_spec Hok L) as (file' & E & Lf & R).
  exists file'. unfold diff_loc. rewrite E. repeat split; [|exact R].
  rewrite Hb. unfold diff_loc. now rewrite Lf.
Qed.

(* With WhitespaceIgnore the chain breaks on the blobs of finding F9: the diff "é\n" -> "é\n" (after stripping)
   is valid, the file has CountLines = 2 lines, and handleModification answers "internal integrity error src". *)
Theorem modification_chain_refuted :
  exists (a b : bytes) (ds : script) (file : list bool),
    textb a = true /\ textb b = true /\ file_diff_ok true a b ds = true /\
    count_lines a = Lines (length file) /\
    handle_modification true (diff_loc true a) (diff_loc true b) file ds = HmErr IntegritySrc.
Proof.
  exists f9_witness, [195; 169; 10]%Z, [(Equal, 1)], [false; false]. vm_compute. repeat split; reflexivity.
Qed.

(* ---------------------------------------------------------------- the property-level oracle [spec_ok] *)

Lemma spec_ok_mapped : forall ws a b ds,
  spec_ok ws a b ds = lines_script_ok (map (strip ws) (split_lines a)) (map (strip ws) (split_lines b)) ds.
Proof. intros. unfold spec_ok, line_eq, lines_script_ok. apply (script_ok_map list_eqb (strip ws)). Qed.

(* On every pair of blobs outside the class of finding F9, judging the diff against the lines of the stripped blobs
   (what the implementation feeds into the engine) is the same as judging it against the property. *)
Theorem spec_ok_file_diff_ok : forall ws a b ds,
  (ws = false \/ (last_blank a = false /\ last_blank b = false)) ->
  spec_ok ws a b ds = file_diff_ok ws a b ds.
Proof.
  intros ws a b ds H. rewrite spec_ok_mapped. unfold file_diff_ok.
  destruct ws; cbn [strip].
  - destruct H as [H|[Ha Hb]]; [discriminate|]. now rewrite !split_lines_strip.
  - now rewrite !map_id.
Qed.

(* What the property demands, for every configuration: whatever script the implementation reports, if the oracle
   accepts it (with the line totals of the unstripped blobs) then the consumer accepts it, and the file keeps
   CountLines(blob) lines. *)
Theorem spec_chain : forall {V : Type} (v : V) (ws : bool) (a b : bytes) (ds : script) (file : list V),
  textb a = true -> textb b = true ->
  spec_ok ws a b ds = true ->
  count_lines a = Lines (length file) ->
  exists file', handle_modification v (length (split_lines a)) (length (split_lines b)) file ds = HmOk file'
                /\ count_lines b = Lines (length file') /\ file' = relabel v ds file.
Proof.
  intros V v ws a b ds file Ta Tb Hok Hfile.
  rewrite spec_ok_mapped in Hok.
  assert (L : length file = length (map (strip ws) (split_lines a))).
  { rewrite (count_split a Ta) in Hfile. injection Hfile as Hf. rewrite map_length. congruence. }
  destruct (consumer_accepts list_eqb v _ _ file ds list_eqb_spec Hok L) as (file' & E & Lf & R).
  rewrite !map_length in *. exists file'. rewrite E. repeat split; [|exact R].
  rewrite (count_split b Tb). now rewrite Lf.
Qed.

(* the repaired stripWhitespace (candidate fix of F9) restores the chain for every pair of text blobs *)
Theorem modification_chain_fixed : forall {V : Type} (v : V) (a b : bytes) (ds : script) (file : list V),
  textb a = true -> textb b = true ->
  lines_script_ok (split_lines (strip_whitespace_fixed a)) (split_lines (strip_whitespace_fixed b)) ds = true ->
  count_lines a = Lines (length file) ->
  exists file', handle_modification v (length (split_lines (strip_whitespace_fixed a)))
                  (length (split_lines (strip_whitespace_fixed b))) file ds = HmOk file'
                /\ count_lines b = Lines (length file').
Proof.
  intros V v a b ds file Ta Tb Hok Hfile.
  assert (L : length file = length (split_lines (strip_whitespace_fixed a))).
  { rewrite (strip_fixed_agrees a Ta) in Hfile. now injection Hfile. }
  destruct (consumer_accepts list_eqb v _ _ file ds list_eqb_spec Hok L) as (file' & E & Lf & _).
  exists file'. split; [exact E|]. rewrite (strip_fixed_agrees b Tb). now rewrite Lf.
Qed.
