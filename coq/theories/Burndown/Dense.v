(* Executable model of BurndownAnalysis.groupSparseHistory (leaves/burndown.go), written block for block.

   sparseHistory = map[int]map[int]int64  is an association list  tick -> (birth tick -> delta).
   The outer keys are sorted by the Go code (sort.Ints); the inner map is iterated by a Go `range`
   in an unspecified order: the inner list is taken in the order given, so a theorem that holds for
   every sparse history holds for every iteration order.
   Go's `/` on int truncates towards zero: Z.quot.  Indexing is checked: out of range = Panic.

   The row allocation is a parameter so that the code before the repair
   "fix: groupSparseHistory allocated one row per band instead of per sample" can be stated too:
     alloc_fixed  samples bands = samples rows of bands zeros                    (the code today)
     alloc_old    samples bands = the first `bands` rows allocated, the others nil (the old code)    *)
From Coq Require Import List ZArith Lia Bool.
From Herc Require Import Burndown.Base.
Import ListNotations.
Open Scope Z_scope.


Notation sparse := (list (Z * list (Z * Z))) (only parsing).
Notation dense := (list (list Z)) (only parsing).

(* ---------- small list helpers ---------- *)
Fixpoint insert_sorted (x : Z) (l : list Z) : list Z :=
  match l with
  | [] => [x]
  | y :: r => if x <=? y then x :: l else y :: insert_sorted x r
  end.
Definition sort_z (l : list Z) : list Z := fold_right insert_sorted [] l.

Fixpoint last_z (l : list Z) (d : Z) : Z :=
  match l with [] => d | [x] => x | _ :: r => last_z r d end.

(* checked read / write at a Go index *)
Definition get_at {A} (l : list A) (i : Z) : option A :=
  if i <? 0 then None else nth_error l (Z.to_nat i).

Fixpoint set_nat {A} (l : list A) (i : nat) (x : A) : list A :=
  match l, i with
  | [], _ => []
  | _ :: r, O => x :: r
  | y :: r, S j => y :: set_nat r j x
  end.
Definition set_at {A} (l : list A) (i : Z) (x : A) : option (list A) :=
  if i <? 0 then None
  else if Nat.ltb (Z.to_nat i) (length l) then Some (set_nat l (Z.to_nat i) x) else None.

Fixpoint lookup_tick (H : sparse) (t : Z) : list (Z * Z) :=
  match H with
  | [] => []
  | (t', row) :: r => if t' =? t then row else lookup_tick r t
  end.

(* copy(dst, src): min(len dst, len src) elements *)
Fixpoint copy_row (dst src : list Z) : list Z :=
  match dst, src with
  | _ :: d, s :: r => s :: copy_row d r
  | _, _ => dst
  end.

Definition alloc_fixed (samples bands : Z) : dense :=
  repeat (repeat 0 (Z.to_nat bands)) (Z.to_nat samples).
Definition alloc_old (samples bands : Z) : dense :=
  repeat (repeat 0 (Z.to_nat bands)) (Z.to_nat (Z.min samples bands)) ++
  repeat [] (Z.to_nat (samples - Z.min samples bands)).

(* for i := prevsi + 1; i <= si; i++ { copy(result[i], state) } ; n = si - prevsi iterations *)
Fixpoint copy_forward (res : dense) (state : list Z) (i : Z) (n : nat) : option dense :=
  match n with
  | O => Some res
  | S n' =>
      match get_at res i with
      | None => None
      | Some dst =>
          match set_at res i (copy_row dst state) with
          | None => None
          | Some res' => copy_forward res' state (i + 1) n'
          end
      end
  end.

(* for t, value := range history[tick] { sample[t/Granularity] += value }   (sample aliases result[si]) *)
Fixpoint add_row (G : Z) (sample : list Z) (row : list (Z * Z)) : option (list Z) :=
  match row with
  | [] => Some sample
  | (t, v) :: r =>
      match get_at sample (Z.quot t G) with
      | None => None
      | Some old =>
          match set_at sample (Z.quot t G) (old + v) with
          | None => None
          | Some s' => add_row G s' r
          end
      end
  end.

Fixpoint gsh_loop (G S : Z) (H : sparse) (ticks : list Z) (prevsi : Z) (res : dense) : option dense :=
  match ticks with
  | [] => Some res
  | tick :: rest =>
      let si := Z.quot tick S in
      let step1 :=
        if prevsi <? si then
          match get_at res prevsi with
          | None => None
          | Some state =>
              match copy_forward res state (prevsi + 1) (Z.to_nat (si - prevsi)) with
              | None => None
              | Some r => Some (r, si)
              end
          end
        else Some (res, prevsi) in
      match step1 with
      | None => None
      | Some (res1, prevsi1) =>
          match get_at res1 si with
          | None => None
          | Some sample =>
              match add_row G sample (lookup_tick H tick) with
              | None => None
              | Some sample' =>
                  match set_at res1 si sample' with
                  | None => None
                  | Some res2 => gsh_loop G S H rest prevsi1 res2
                  end
              end
          end
      end
  end.

Definition gsh_gen (alloc : Z -> Z -> dense) (G S : Z) (H : sparse) (lastTick : Z) : result (dense * Z) :=
  match H with
  | [] => Panic PEmptyHistory
  | _ =>
      let ticks := sort_z (map fst H) in
      let maxt := last_z ticks 0 in
      let go (ticks : list Z) (last : Z) : result (dense * Z) :=
        let samples := Z.quot last S + 1 in
        let bands := Z.quot last G + 1 in
        match gsh_loop G S H ticks 0 (alloc samples bands) with
        | None => Panic PIndex
        | Some res => Ok (res, last)
        end in
      if 0 <=? lastTick then
        if maxt <? lastTick then go (ticks ++ [lastTick]) lastTick
        else if lastTick <? maxt then Panic PTicksCorruption
        else go ticks lastTick
      else go ticks maxt
  end.

Definition group_sparse_history := gsh_gen alloc_fixed.
Definition group_sparse_history_old := gsh_gen alloc_old.

(* ---------- the specification side ---------- *)

(* sum of the deltas of one inner map that fall into band b *)
Definition row_band_sum (G b : Z) (row : list (Z * Z)) : Z :=
  sum_z (map (fun tv => if Z.quot (fst tv) G =? b then snd tv else 0) row).

(* the cell the dense matrix must hold: all deltas booked at ticks of samples <= s, births in band b *)
Definition spec_cell (G S : Z) (H : sparse) (s b : Z) : Z :=
  sum_z (map (fun tr => if Z.quot (fst tr) S <=? s then row_band_sum G b (snd tr) else 0) H).

Definition cell (M : dense) (s b : Z) : Z :=
  match get_at M s with
  | None => 0
  | Some row => match get_at row b with None => 0 | Some v => v end
  end.

(* well-formed input: tick keys unique and non-negative, birth ticks within 0..last *)
Definition sparse_wfb (H : sparse) (last : Z) : bool :=
  forallb (fun tr => (0 <=? fst tr) && (fst tr <=? last) &&
                     forallb (fun tv => (0 <=? fst tv) && (fst tv <=? last)) (snd tr)) H.
