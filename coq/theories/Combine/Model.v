(* C18 - combining results.  Executable model of
     leaves/devs.go     DevsAnalysis.MergeResults
     leaves/couples.go  CouplesAnalysis.MergeResults
     leaves/burndown.go BurndownAnalysis.MergeResults   (mergeMatrices is an opaque argument)
     internal/core/pipeline.go  CommonAnalysisResult.Merge
     internal/plumbing/identity/identity.go  MergeReversedDictsLiteral
   as the code is written today.  Definitions only; the proofs are in the other files of this directory.

   Conventions.
   * A Go string is the list of its bytes ([name] = list Z).  The Go code uses strings only as map keys here.
   * A Go map is an association list; iteration over an input map is iteration over the list in the given
     order (the harness gives sorted order; all theorems hold for every order).
   * The table returned by identity.MergeReversedDictsIdentities is NOT modelled here (that is C16): it is an
     argument [people : list (name * MI)] together with the merged list [merged].  A lookup of a missing
     key yields the Go zero value {0,0,0}, exactly as [people[key]] does in Go.
   * A Go run-time panic (index out of range, integer divide by zero, write to a nil map) is [Panic];
     the [error] value returned for different tick sizes is [TickErr].
   * Go [int]/[int64] are unbounded [Z] (no result of the merge comes near 2^63 in the domain that is
     exercised; the wrap-around of sums is not modelled). *)
From Coq Require Import List ZArith Bool.
Import ListNotations.
Open Scope Z_scope.

Inductive result (A : Type) : Type :=
| Ok (a : A)
| Panic
| TickErr.
Arguments Ok {A} a.
Arguments Panic {A}.
Arguments TickErr {A}.

Definition bind {A B} (r : result A) (f : A -> result B) : result B :=
  match r with Ok a => f a | Panic => Panic | TickErr => TickErr end.
Notation "x <- e ; k" := (bind e (fun x => k)) (at level 61, e at next level, right associativity).

(* Go strings: byte lists, compared with == *)
Notation name := (list Z) (only parsing).
Fixpoint name_eqb (a b : name) : bool :=
  match a, b with
  | [], [] => true
  | x :: a', y :: b' => (x =? y) && name_eqb a' b'
  | _, _ => false
  end.

Definition lenZ {A} (l : list A) : Z := Z.of_nat (length l).

(* l[i] of Go *)
Definition idx {A} (l : list A) (i : Z) : result A :=
  if i <? 0 then Panic
  else match nth_error l (Z.to_nat i) with Some a => Ok a | None => Panic end.

Fixpoint set_nth {A} (l : list A) (n : nat) (v : A) : option (list A) :=
  match l, n with
  | [], _ => None
  | _ :: r, O => Some (v :: r)
  | a :: r, S n' => match set_nth r n' v with Some r' => Some (a :: r') | None => None end
  end.

(* l[i] = v of Go *)
Definition list_set {A} (l : list A) (i : Z) (v : A) : result (list A) :=
  if i <? 0 then Panic
  else match set_nth l (Z.to_nat i) v with Some l' => Ok l' | None => Panic end.

Definition default {A} (d : A) (o : option A) : A := match o with Some a => a | None => d end.

(* ---------- association lists = Go maps ---------- *)
Section AMap.
  Context {K V : Type} (eqb : K -> K -> bool).
  Fixpoint aget (m : list (K * V)) (k : K) : option V :=
    match m with
    | [] => None
    | (k', v) :: r => if eqb k k' then Some v else aget r k
    end.
  (* m[k] = f(m[k]) ; a new key goes to the end, an existing key keeps its place *)
  Fixpoint aupd (m : list (K * V)) (k : K) (f : option V -> V) : list (K * V) :=
    match m with
    | [] => [(k, f None)]
    | (k', v) :: r => if eqb k k' then (k', f (Some v)) :: r else (k', v) :: aupd r k f
    end.
End AMap.

(* monadic left fold *)
Fixpoint foldM {A B} (f : B -> A -> result B) (l : list A) (b : B) : result B :=
  match l with
  | [] => Ok b
  | a :: r => b' <- f b a; foldM f r b'
  end.

(* for i, a := range l *)
Fixpoint foldMi {A B} (f : B -> Z -> A -> result B) (l : list A) (i : Z) (b : B) : result B :=
  match l with
  | [] => Ok b
  | a :: r => b' <- f b i a; foldMi f r (i + 1) b'
  end.

Fixpoint mapM {A B} (f : A -> result B) (l : list A) : result (list B) :=
  match l with
  | [] => Ok []
  | a :: r => b <- f a; bs <- mapM f r; Ok (b :: bs)
  end.

(* ---------- identity.MergedIndex and the tables ---------- *)
Record MI := mkMI { Final : Z; First : Z; Second : Z }.
Definition MI0 := mkMI 0 0 0.
Definition table := list (name * MI).
Definition lookup (t : table) (s : name) : option MI := aget name_eqb t s.
Definition lookup0 (t : table) (s : name) : MI := default MI0 (lookup t s).

(* identity.MergeReversedDictsLiteral *)
Definition lit_step1 (people : table) (i : Z) (pid : name) : result table :=
  Ok (aupd name_eqb people pid (fun _ => mkMI (lenZ people) i (-1))).
Definition lit_step2 (people : table) (i : Z) (pid : name) : result table :=
  Ok (aupd name_eqb people pid (fun o => match o with
                                           | None => mkMI (lenZ people) (-1) i
                                           | Some ptrs => mkMI (Final ptrs) (First ptrs) i
                                           end)).
Definition lit_fill (mrd : list name) (e : name * MI) : result (list name) :=
  list_set mrd (Final (snd e)) (fst e).
Definition literal_merge (rd1 rd2 : list name) : result (table * list name) :=
  p1 <- foldMi lit_step1 rd1 0 [];
  p2 <- foldMi lit_step2 rd2 0 p1;
  mrd <- foldM lit_fill p2 (repeat nil (length p2));
  Ok (p2, mrd).

(* ---------- core.CommonAnalysisResult ---------- *)
(* c_items: the key set of RunTimePerItem (None = nil map); the float values are not modelled *)
Record Common := mkC { c_begin : Z; c_end : Z; c_commits : Z; c_runtime : Z; c_items : option (list name) }.

Fixpoint union_keys (a b : list name) : list name :=
  match b with
  | [] => a
  | k :: r => union_keys (if existsb (name_eqb k) a then a else a ++ [k]) r
  end.

Definition common_merge (car other : Common) : result Common :=
  if (c_end car =? 0) || (c_begin other =? 0) then Panic
  else
    let b := if c_begin other <? c_begin car then c_begin other else c_begin car in
    let e := if c_end other >? c_end car then c_end other else c_end car in
    items <- match c_items other, c_items car with
             | None, x => Ok x
             | Some [], x => Ok x
             | Some (_ :: _), None => Panic              (* assignment to an entry in a nil map *)
             | Some ks, Some mine => Ok (Some (union_keys mine ks))
             end;
    Ok (mkC b e (c_commits car + c_commits other) (c_runtime car + c_runtime other) items).

(* ---------- time: items.FloorTime over time.Unix(begin, 0) ---------- *)
(* nanoseconds since Go's zero time (1 Jan of year 1, UTC) *)
Definition unix_to_abs (s : Z) : Z := (s + 62135596800) * 1000000000.
(* time.Round rounds to a multiple of d counted from the zero time and returns t itself when d <= 0 *)
Definition floor_time (t d : Z) : Z := if d <=? 0 then t else (t / d) * d.
Definition tick_offsets (b1 b2 d : Z) : result (Z * Z) :=
  let t01 := floor_time (unix_to_abs b1) d in
  let t02 := floor_time (unix_to_abs b2) d in
  let t0 := if t02 <? t01 then t02 else t01 in
  if d =? 0 then Panic                                     (* integer divide by zero *)
  else Ok (Z.quot (t01 - t0) d, Z.quot (t02 - t0) d).

(* ---------- leaves/devs.go ---------- *)
Definition AuthorMissing : Z := 262142.
Record LineStats := mkLS { ls_added : Z; ls_removed : Z; ls_changed : Z }.
Definition ls0 := mkLS 0 0 0.
Definition ls_add (a b : LineStats) : LineStats :=
  mkLS (ls_added a + ls_added b) (ls_removed a + ls_removed b) (ls_changed a + ls_changed b).
Record DevTick := mkDT { dt_commits : Z; dt_ls : LineStats; dt_langs : list (name * LineStats) }.
Definition dt0 := mkDT 0 ls0 [].
Definition devmap := list (Z * DevTick).
Definition tickmap := list (Z * devmap).
Record DevsResult := mkDR { dr_ticks : tickmap; dr_people : list name; dr_ticksize : Z }.

Definition lang_add (langs : list (name * LineStats)) (e : name * LineStats) : list (name * LineStats) :=
  aupd name_eqb langs (fst e) (fun o => ls_add (default ls0 o) (snd e)).
Definition dt_add (acc stats : DevTick) : DevTick :=
  mkDT (dt_commits acc + dt_commits stats) (ls_add (dt_ls acc) (dt_ls stats))
       (fold_left lang_add (dt_langs stats) (dt_langs acc)).

Definition reindex_dev (people : table) (rd : list name) (dev : Z) : result Z :=
  if dev =? AuthorMissing then Ok dev
  else s <- idx rd dev; Ok (Final (lookup0 people s)).

Definition merge_dev (people : table) (rd : list name) (newdd : devmap) (e : Z * DevTick) : result devmap :=
  nd <- reindex_dev people rd (fst e);
  Ok (aupd Z.eqb newdd nd (fun o => dt_add (default dt0 o) (snd e))).

Definition merge_tick (people : table) (rd : list name) (off : Z) (newticks : tickmap) (e : Z * devmap)
  : result tickmap :=
  let t := fst e + off in
  ndd <- foldM (merge_dev people rd) (snd e) (default [] (aget Z.eqb newticks t));
  Ok (aupd Z.eqb newticks t (fun _ => ndd)).

Definition devs_merge (people : table) (merged : list name) (r1 r2 : DevsResult) (c1 c2 : Common)
  : result DevsResult :=
  if negb (dr_ticksize r1 =? dr_ticksize r2) then TickErr
  else
    offs <- tick_offsets (c_begin c1) (c_begin c2) (dr_ticksize r1);
    nt1 <- foldM (merge_tick people (dr_people r1) (fst offs)) (dr_ticks r1) [];
    nt2 <- foldM (merge_tick people (dr_people r2) (snd offs)) (dr_ticks r2) nt1;
    Ok (mkDR nt2 merged (dr_ticksize r1)).

(* ---------- leaves/couples.go ---------- *)
Definition row := list (Z * Z).               (* map[int]int64 *)
Record CouplesResult := mkCR {
  cr_pm : list row;        (* PeopleMatrix *)
  cr_pf : list (list Z);   (* PeopleFiles *)
  cr_fm : list row;        (* FilesMatrix *)
  cr_fl : list Z;          (* FilesLines *)
  cr_files : list name;
  cr_people : list name }.

Definition row_add (m : row) (k v : Z) : row := aupd Z.eqb m k (fun o => default 0 o + v).

Fixpoint insert_sorted (x : Z) (l : list Z) : list Z :=
  match l with
  | [] => [x]
  | y :: r => if x <=? y then x :: l else y :: insert_sorted x r
  end.
Definition sort_Z (l : list Z) : list Z := fold_right insert_sorted [] l.
Definition set_add (x : Z) (l : list Z) : list Z := if existsb (Z.eqb x) l then l else l ++ [x].

Definition files_lines (ftab : table) (fl1 fl2 : list Z) (name : name) : result Z :=
  let idxs := lookup0 ftab name in
  a <- (if First idxs >=? 0 then idx fl1 (First idxs) else Ok 0);
  b <- (if Second idxs >=? 0 then idx fl2 (Second idxs) else Ok 0);
  Ok (a + b).

Definition add_people_files (people ftab : table) (rd fdict : list name)
           (dicts : list (list Z)) (pi : Z) (fs : list Z) : result (list (list Z)) :=
  s <- idx rd pi;
  let i := Final (lookup0 people s) in
  m <- idx dicts i;
  m' <- foldM (fun m f => name <- idx fdict f; Ok (set_add (Final (lookup0 ftab name)) m)) fs m;
  list_set dicts i m'.

Definition people_index (people : table) (rd merged : list name) (pi : Z) : result Z :=
  if pi <? lenZ rd then s <- idx rd pi; Ok (Final (lookup0 people s)) else Ok (lenZ merged).

Definition add_people (people : table) (rd merged : list name)
           (rows : list row) (pi : Z) (pc : row) : result (list row) :=
  i <- people_index people rd merged pi;
  m <- idx rows i;
  m' <- foldM (fun m e => oi <- people_index people rd merged (fst e); Ok (row_add m oi (snd e))) pc m;
  list_set rows i m'.

Definition file_index (ftab : table) (fdict : list name) (f : Z) : result Z :=
  name <- idx fdict f; Ok (Final (lookup0 ftab name)).

Definition add_files (ftab : table) (fdict : list name)
           (rows : list row) (fi : Z) (fc : row) : result (list row) :=
  i <- file_index ftab fdict fi;
  m <- idx rows i;
  m' <- foldM (fun m e => oi <- file_index ftab fdict (fst e); Ok (row_add m oi (snd e))) fc m;
  list_set rows i m'.

Definition couples_merge (people : table) (merged : list name) (r1 r2 : CouplesResult) : result CouplesResult :=
  lm <- literal_merge (cr_files r1) (cr_files r2);
  let ftab := fst lm in
  let mfiles := snd lm in
  fl <- mapM (files_lines ftab (cr_fl r1) (cr_fl r2)) mfiles;
  d1 <- foldMi (add_people_files people ftab (cr_people r1) (cr_files r1)) (cr_pf r1) 0
               (repeat [] (length merged));
  d2 <- foldMi (add_people_files people ftab (cr_people r2) (cr_files r2)) (cr_pf r2) 0 d1;
  p1 <- foldMi (add_people people (cr_people r1) merged) (cr_pm r1) 0 (repeat [] (S (length merged)));
  p2 <- foldMi (add_people people (cr_people r2) merged) (cr_pm r2) 0 p1;
  f1 <- foldMi (add_files ftab (cr_files r1)) (cr_fm r1) 0 (repeat [] (length mfiles));
  f2 <- foldMi (add_files ftab (cr_files r2)) (cr_fm r2) 0 f1;
  Ok (mkCR p2 (map sort_Z d2) f2 fl mfiles merged).

(* ---------- leaves/burndown.go ---------- *)
Definition matrix := list (list Z).          (* DenseHistory *)
Record BurndownResult := mkBR {
  br_global : matrix;
  br_ph : list matrix;     (* PeopleHistories *)
  br_pm : matrix;          (* PeopleMatrix: [people][people + 2] *)
  br_people : list name;
  br_ticksize : Z;
  br_sampling : Z;
  br_granularity : Z }.

Definition nonempty {A} (l : list A) : bool := match l with [] => false | _ => true end.
Definition zeros (n : nat) : list Z := repeat 0 n.

(* what the goroutine of merged developer [key] selects: indices into the two PeopleHistories *)
Definition selected (people : table) (key : name) : option Z * option Z :=
  let ptrs := lookup0 people key in
  (if First ptrs >=? 0 then Some (First ptrs) else None,
   if Second ptrs >=? 0 then Some (Second ptrs) else None).

Definition pick (ph : list matrix) (o : option Z) : result matrix :=
  match o with None => Ok [] | Some i => idx ph i end.

(* take the first two cells of a row: row[:2] (rows built by the harness have cap = len) *)
Definition first2 (r : list Z) : result (Z * Z) :=
  match r with a :: b :: _ => Ok (a, b) | _ => Panic end.

Section Burndown.
  (* BurndownAnalysis.mergeMatrices with everything but the two matrices fixed
     (granularities, samplings, tick size, c1, c2 are the same in every call of one MergeResults) *)
  Variable mergeM : matrix -> matrix -> matrix.

  Definition bd_history (people : table) (ph1 ph2 : list matrix) (key : name) : result matrix :=
    let sel := selected people key in
    m1 <- pick ph1 (fst sel);
    m2 <- pick ph2 (snd sel);
    Ok (mergeM m1 m2).

  (* branch: len(bar2.PeopleMatrix) == 0 *)
  Definition bd_pm_extend (pm1 : matrix) (n1 nm : nat) : matrix :=
    let ext := map (fun r => r ++ zeros (nm - n1)) pm1 in
    if nonempty pm1 then ext ++ repeat (zeros (nm + 2)) (nm - n1) else ext.

  (* for j, val := range row[2:] { merged[mi][2+Final(rd[j])] (=|+=) val } *)
  Definition bd_row_cells (people : table) (rd : list name) (assign : bool)
             (tail : list Z) (mrow : list Z) : result (list Z) :=
    foldMi (fun mrow j val =>
              s <- idx rd j;
              let c := 2 + Final (lookup0 people s) in
              old <- idx mrow c;
              list_set mrow c (if assign then val else old + val)) tail 0 mrow.

  Definition bd_pm_row (people : table) (rd : list name) (assign : bool) (pm : matrix)
             (rows : matrix) (i : Z) (key : name) : result matrix :=
    let mi := Final (lookup0 people key) in
    src <- idx pm i;
    h <- first2 src;
    mrow <- idx rows mi;
    m0 <- idx mrow 0;
    m1 <- idx mrow 1;
    mrow <- list_set mrow 0 (if assign then fst h else m0 + fst h);
    mrow <- list_set mrow 1 (if assign then snd h else m1 + snd h);
    mrow <- bd_row_cells people rd assign (skipn 2 src) mrow;
    list_set rows mi mrow.

  Definition bd_people_matrix (people : table) (merged : list name) (r1 r2 : BurndownResult) : result matrix :=
    if nonempty (br_pm r2) then
      let nm := length merged in
      rows <- foldMi (bd_pm_row people (br_people r1) true (br_pm r1)) (br_people r1) 0
                     (repeat (zeros (nm + 2)) nm);
      foldMi (bd_pm_row people (br_people r2) false (br_pm r2)) (br_people r2) 0 rows
    else Ok (bd_pm_extend (br_pm r1) (length (br_people r1)) (length merged)).

  Definition DefaultTickSize : Z := 24 * 3600 * 1000000000.

  Definition bd_merge (people : table) (merged : list name) (r1 r2 : BurndownResult) : result BurndownResult :=
    if negb (br_ticksize r1 =? br_ticksize r2) then TickErr
    else
      let ts := if br_ticksize r1 =? 0 then DefaultTickSize else br_ticksize r1 in
      let sampling := if br_sampling r1 <? br_sampling r2 then br_sampling r1 else br_sampling r2 in
      let granularity := if br_granularity r1 <? br_granularity r2 then br_granularity r1 else br_granularity r2 in
      let global := if nonempty (br_global r1) || nonempty (br_global r2)
                    then mergeM (br_global r1) (br_global r2) else [] in
      if nonempty merged then
        ph <- (if nonempty (br_ph r1) || nonempty (br_ph r2)
               then mapM (bd_history people (br_ph r1) (br_ph r2)) merged else Ok []);
        pm <- bd_people_matrix people merged r1 r2;
        Ok (mkBR global ph pm merged ts sampling granularity)
      else Ok (mkBR global [] [] merged ts sampling granularity).
End Burndown.

(* ---------- the candidate repair of finding F8 (docs/C18-F8-candidate.patch) ----------
   NOT the code of /repo today: kept here so that the replay driver can be switched to it (driver argument
   "repaired" or C18_MODEL=repaired) the moment the repair is committed.  The theorems about it are in
   Repaired.v, none of them is listed in props/C18.v. *)
Definition add_member (people : table) (members : list (list Z)) (i : Z) (key : name) : result (list (list Z)) :=
  let mi := Final (lookup0 people key) in
  l <- idx members mi;
  list_set members mi (l ++ [i]).
Definition members_of (people : table) (rd : list name) (nm : nat) : result (list (list Z)) :=
  foldMi (add_member people) rd 0 (repeat [] nm).

Fixpoint add_row (a b : list Z) : list Z :=
  match a, b with
  | [], _ => b
  | _, [] => a
  | x :: a', y :: b' => (x + y) :: add_row a' b'
  end.
Fixpoint add_matrix (s h : matrix) : matrix :=
  match s, h with
  | [], _ => h
  | _, [] => s
  | r :: s', q :: h' => add_row r q :: add_matrix s' h'
  end.
(* sumDenseHistories *)
Definition sum_hist (ph : list matrix) (indices : list Z) : result matrix :=
  foldM (fun sum i => if i >=? lenZ ph then Ok sum else h <- idx ph i; Ok (add_matrix sum h)) indices [].

Section Repaired.
  Variable mergeM : matrix -> matrix -> matrix.

  Definition bd_history_repaired (ph1 ph2 : list matrix) (mem1 mem2 : list (list Z)) (w : Z) : result matrix :=
    i1 <- idx mem1 w;
    i2 <- idx mem2 w;
    m1 <- sum_hist ph1 i1;
    m2 <- sum_hist ph2 i2;
    Ok (mergeM m1 m2).

  Fixpoint seqZm (start : Z) (n : nat) : list Z :=
    match n with O => [] | S n' => start :: seqZm (start + 1) n' end.

  Definition bd_people_matrix_repaired (people : table) (merged : list name) (r1 r2 : BurndownResult) : result matrix :=
    if nonempty (br_pm r2) then
      let nm := length merged in
      rows <- foldMi (bd_pm_row people (br_people r1) false (br_pm r1)) (br_people r1) 0
                     (repeat (zeros (nm + 2)) nm);
      foldMi (bd_pm_row people (br_people r2) false (br_pm r2)) (br_people r2) 0 rows
    else Ok (bd_pm_extend (br_pm r1) (length (br_people r1)) (length merged)).

  Definition bd_merge_repaired (people : table) (merged : list name) (r1 r2 : BurndownResult) : result BurndownResult :=
    if negb (br_ticksize r1 =? br_ticksize r2) then TickErr
    else
      let ts := if br_ticksize r1 =? 0 then DefaultTickSize else br_ticksize r1 in
      let sampling := if br_sampling r1 <? br_sampling r2 then br_sampling r1 else br_sampling r2 in
      let granularity := if br_granularity r1 <? br_granularity r2 then br_granularity r1 else br_granularity r2 in
      let global := if nonempty (br_global r1) || nonempty (br_global r2)
                    then mergeM (br_global r1) (br_global r2) else [] in
      if nonempty merged then
        mem1 <- members_of people (br_people r1) (length merged);
        mem2 <- members_of people (br_people r2) (length merged);
        ph <- (if nonempty (br_ph r1) || nonempty (br_ph r2)
               then mapM (bd_history_repaired (br_ph r1) (br_ph r2) mem1 mem2) (seqZm 0 (length merged)) else Ok []);
        pm <- bd_people_matrix_repaired people merged r1 r2;
        Ok (mkBR global ph pm merged ts sampling granularity)
      else Ok (mkBR global [] [] merged ts sampling granularity).
End Repaired.
