(* C01, the edge of the proved domain: PATH DELETION on a DAG.

   In the declarative history of Lifetimes.v a path exists in commit c as soon as one of its lines is born in the
   ancestry of c ([path_exists]) - and from then on in every descendant ([path_exists_mono] below): a file whose
   lines are all killed stays in the tree as an empty file.  So [conflict_free] histories never delete a path, the
   canonical change lists of Replay.v never contain [CDelete], and [handle_deletion] of Analysis.v is never run by
   the theorems C01_global_sparse / C01_matrix / C01_files / ... (FrameFacts.v, ViewStep.v: [no_delete]).

   This file extends the declarative history by path deletions, keeps the ground truth (it depends on line
   lifetimes only: the commit that deletes a file is the killer of all its lines) and runs the SAME analysis model
   on it.  [conflict_free_pd] is the reading of the property's domain ("each line introduced by one commit, removed
   by at most one commit, every merge the clean union of its parents") for histories with deletions:

     D1  a deleting commit has exactly one parent, the file is present there, all lines alive there are killed by it;
     D2  every commit that gives birth to or kills a line of a deleted file is an ancestor of the deleting commit
         (nobody touches the file concurrently: a merge never sees "changed on one side, deleted on the other");
     D3  in every commit the files that are present have pairwise different path names (a path that was deleted may
         be re-created: a NEW file identity with the same name).

   The model exhibits the failure observed on the Go code: [matrix_refuted_with_path_deletion]
   (handleDeletion's `tick = 0` when deletions[name] is not set - the re-creation cleared it - books the deletion
   of the old lines a second time, at tick 0).  Definitions, the witness (closed by vm_compute) and the
   monotonicity lemma; nothing here is used by the proofs of the conflict-free domain. *)
From Coq Require Import List ZArith Lia Bool.
From Herc Require Import Burndown.Base Burndown.Dense Burndown.Lifetimes Burndown.Analysis Burndown.Replay Burndown.Linear
  Burndown.AncFacts.
Import ListNotations.
Open Scope Z_scope.

(* ---------- conflict_free histories never delete a path ---------- *)
Lemma path_exists_mono (h : hist) (c a : Z) (seq : list line) :
  conflict_free h = true -> 0 <= c < ncommits h -> ancb (ancs h) c a = true ->
  path_exists (ancs h) a seq = true -> path_exists (ancs h) c seq = true.
Proof.
  intros Hcf Hc Hca E.
  assert (Hok : commits_okb h = true).
  { unfold conflict_free in Hcf. repeat (apply andb_prop in Hcf; destruct Hcf as [Hcf ?]). assumption. }
  unfold path_exists in *. apply existsb_exists in E. destruct E as (l & Hl & E).
  apply existsb_exists. exists l. split; [exact Hl|]. cbn beta in *.
  eapply (ancb_trans h Hok); eauto.
Qed.

(* ---------- histories with path deletions ---------- *)
Record pdhist := mkPD {
  pd_h : hist;                   (* the line sequences, keyed by FILE IDENTITY *)
  pd_names : list (Z * Z);       (* identity -> path name (default: the identity itself) *)
  pd_dels : list (Z * Z)         (* (identity, commit that deletes the file) *)
}.

Definition pd_name (pd : pdhist) (id : Z) : Z := aget_d id (pd_names pd) id.
Definition deleted_at (pd : pdhist) (A : list (list bool)) (c id : Z) : bool :=
  existsb (fun e => (fst e =? id) && ancb A c (snd e)) (pd_dels pd).
Definition present (pd : pdhist) (A : list (list bool)) (c id : Z) (seq : list line) : bool :=
  path_exists A c seq && negb (deleted_at pd A c id).
Definition present_opt (pd : pdhist) (A : list (list bool)) (at_ : option Z) (id : Z) (seq : list line) : bool :=
  match at_ with None => false | Some o => present pd A o id seq end.

(* ---------- the domain ---------- *)
Definition del_okb (pd : pdhist) (A : list (list bool)) (e : Z * Z) : bool :=
  let h := pd_h pd in
  let id := fst e in let d := snd e in
  let seq := aget_d [] (h_paths h) id in
  in_range (ncommits h) d &&
  match parents_of h d with
  | [p] =>
      present pd A p id seq &&
      forallb (fun l =>
                 (* D1 *) (negb (aliveb A p l) || (l_killer l =? d)) && negb (l_born l =? d) &&
                 (* D2 *) ancb A d (l_born l) && ((l_killer l =? -1) || ancb A d (l_killer l))) seq
  | _ => false
  end.

Definition names_distinct_at (pd : pdhist) (A : list (list bool)) (c : Z) : bool :=
  nodup_zb (map (fun pl => pd_name pd (fst pl))
                (filter (fun pl => present pd A c (fst pl) (snd pl)) (h_paths (pd_h pd)))).

Definition pd_okb (pd : pdhist) : bool :=
  let h := pd_h pd in
  let A := ancs h in
  nodup_zb (map fst (pd_dels pd)) &&
  forallb (del_okb pd A) (pd_dels pd) &&
  forallb (names_distinct_at pd A) (zrange (ncommits h)).

Definition conflict_free_pd (pd : pdhist) : bool := conflict_free (pd_h pd) && pd_okb pd.

(* ---------- the canonical changes, per path NAME ---------- *)
Fixpoint dedup_z (l : list Z) : list Z :=
  match l with
  | [] => []
  | x :: r => if existsb (Z.eqb x) r then dedup_z r else x :: dedup_z r
  end.
Definition pd_all_names (pd : pdhist) : list Z :=
  rev (dedup_z (rev (map (fun pl => pd_name pd (fst pl)) (h_paths (pd_h pd))))).

Definition find_present (pd : pdhist) (A : list (list bool)) (at_ : option Z) (n : Z) : option (Z * list line) :=
  find (fun pl => (pd_name pd (fst pl) =? n) && present_opt pd A at_ (fst pl) (snd pl)) (h_paths (pd_h pd)).

Definition lenz {X} (l : list X) : Z := Z.of_nat (length l).

Definition change_of_name (pd : pdhist) (A : list (list bool)) (last : option Z) (c : Z) (n : Z) : list change :=
  match find_present pd A last n, find_present pd A (Some c) n with
  | None, None => []
  | None, Some (_, seq) => [CInsert n (lenz (content A c seq))]
  | Some (_, seq), None => [CDelete n (lenz (filter (old_alive A last) seq))]
  | Some (i, seq), Some (j, seq') =>
      let oldn := lenz (filter (old_alive A last) seq) in
      if i =? j then
        if forallb (fun l => match lstatus A last c l with LDel | LIns => false | _ => true end) seq then []
        else [CModify n oldn (lenz (content A c seq)) (hunks A last c seq 0 0 0)]
      else
        (* another file under the same name: every old line deleted, every new line inserted *)
        let newn := lenz (content A c seq') in
        [CModify n oldn newn [(DDel, oldn); (DIns, newn)]]
  end.

Definition changes_of_pd (pd : pdhist) (A : list (list bool)) (last : option Z) (c : Z) : list change :=
  flat_map (change_of_name pd A last c) (pd_all_names pd).

Definition run_hist_pd (cf : cfg) (pd : pdhist) (aidx : list Z) (plan : list action) : result world :=
  let h := pd_h pd in
  run cf (fun c => znth 0 aidx c) (tick_of h) (changes_of_pd pd (ancs h)) plan.

(* without deletions and with the default names this is the replay of Replay.v *)
Definition pd_plain (h : hist) : pdhist := mkPD h [] [].

(* ---------- the witness ----------
   0 = R   : f (identity 0) = 3 lines, h (identity 1) = 1 line         tick 0
   1 = A   : child of R, deletes f                                     tick 1
   2 = B   : child of R, adds a line to h                              tick 1
   3 = A2  : child of A, re-creates the path f (identity 2), 2 lines   tick 2
   4 = M   = merge (A, B)                                              tick 2
   5 = M2  = merge (M, A2)                                             tick 2
   ground truth, G = S = 1:  rows [4; 0; 0], [1; 1; 0], [1; 1; 2]  (4 lines at HEAD).
   The plan is the one Pipeline.Run executed on this history (harness replay, corpus/C01): A2 is consumed before the
   merge commit M is replayed on B's branch, so deletions[f] has been cleared by the re-creation. *)
Definition wit_h : hist := mkHist [[]; [0]; [0]; [1]; [1; 2]; [4; 3]] [0; 1; 1; 2; 2; 2] [0; 0; 0; 0; 0; 0]
  [(0, [mkLine 0 0 1; mkLine 1 0 1; mkLine 2 0 1]); (1, [mkLine 3 0 (-1); mkLine 4 2 (-1)]);
   (2, [mkLine 5 3 (-1); mkLine 6 3 (-1)])].
Definition wit_pd : pdhist := mkPD wit_h [(0, 0); (1, 1); (2, 0)] [(0, 1)].
Definition wit_plan : list action :=
  [AEmerge 1; ACommit 0 1; AFork 1 [2]; ACommit 1 1; AFork 1 [3]; ACommit 2 2; ACommit 3 3;
   ACommit 4 1; ACommit 4 2; AMerge [1; 2]; ADelete 1; ACommit 5 3; ACommit 5 2; AMerge [3; 2]].

Lemma matrix_refuted_with_path_deletion :
  exists (pd : pdhist) (plan : list action) (cf : cfg) (aidx : list Z) (G S : Z) (w : world) (M : list (list Z)) (last : Z),
    conflict_free_pd pd = true /\
    forallb (fun c => tick_of (pd_h pd) c <? mark) (zrange (ncommits (pd_h pd))) = true /\
    plan_okb (pd_h pd) plan = true /\
    run_hist_pd cf pd aidx plan = Ok w /\
    1 <= G /\ 1 <= S /\
    group_sparse_history G S (s_gh (w_shared w)) (-1) = Ok (M, last) /\
    M <> truth_project (pd_h pd) G S /\
    nonneg_matrix M = false /\
    truth_project (pd_h pd) G S = [[4; 0; 0]; [1; 1; 0]; [1; 1; 2]] /\ M = [[1; 0; 0]; [-2; 1; 0]; [-2; 1; 2]].
Proof.
  exists wit_pd, wit_plan, (mkCfg 0 false), [0; 0; 0; 0; 0; 0], 1, 1.
  destruct (run_hist_pd (mkCfg 0 false) wit_pd [0; 0; 0; 0; 0; 0] wit_plan) as [w| |] eqn:E;
    [|vm_compute in E; discriminate|vm_compute in E; discriminate].
  exists w.
  vm_compute in E. injection E as <-.
  eexists. eexists.
  repeat split; try (vm_compute; reflexivity); try lia.
  vm_compute. discriminate.
Qed.

(* the same history without the re-creation (A2 and M2 dropped) is analysed correctly by the model: the flag
   deletions[f] set by A is still there when the merge commit is replayed on B's branch *)
Definition ctl_h : hist := mkHist [[]; [0]; [0]; [1; 2]] [0; 1; 1; 2] [0; 0; 0; 0]
  [(0, [mkLine 0 0 1; mkLine 1 0 1]); (1, [mkLine 2 0 (-1); mkLine 3 2 (-1)])].
Definition ctl_pd : pdhist := mkPD ctl_h [(0, 0); (1, 1)] [(0, 1)].
Definition ctl_plan : list action :=
  [AEmerge 1; ACommit 0 1; AFork 1 [2]; ACommit 1 1; ACommit 2 2; ACommit 3 1; ACommit 3 2; AMerge [1; 2]].

Lemma path_deletion_control :
  conflict_free_pd ctl_pd = true /\ plan_okb ctl_h ctl_plan = true /\
  match run_hist_pd (mkCfg 0 false) ctl_pd [0; 0; 0; 0] ctl_plan with
  | Ok w => group_sparse_history 1 1 (s_gh (w_shared w)) (-1) = Ok (truth_project ctl_h 1 1, 1)
  | _ => False
  end.
Proof. vm_compute. auto. Qed.
