(* C08: replay the harness trace through the extracted Gallina model of Fork/Model.v.

   Two kinds of judgement per step:
   PROPFAIL (the implementation's own outputs violate the property, no model involved):
     - a step on copy i changed the recorded private state of a copy j <> i (frame),
     - a copy made by Fork does not start equal to its origin, or Fork changed an existing copy,
     - (pl) the output of a copy differs from the output of its private, never forked twin.
   MISMATCH (fine correspondence): the recorded state of EVERY copy, the shared accumulators and the
     outputs differ from what the model computes with one independent state per copy. *)
open C08_model
open Conv

let z = z_of_int
let zi s = z_of_int (int_of_sx s)
let ints l = "(" ^ String.concat " " (List.map string_of_int l) ^ ")"
let str = string_of_sx

(* "=" stands for "textually identical to the previous snapshot of the same copy" *)
let resolve (prev : string array) (cur : sx list) : string array =
  Array.of_list (List.mapi (fun k s -> match s with
    | A "=" -> if k < Array.length prev then prev.(k) else "?"
    | s -> str s) cur)

(* the frame / fork-copies oracles on the implementation's snapshots alone *)
let frame_oracle id here what (prev : string array) (cur : string array) (touched : int option) =
  if Array.length cur <> Array.length prev then
    propfail id (Printf.sprintf "%s the number of %s changed from %d to %d" here what (Array.length prev) (Array.length cur))
  else
    Array.iteri (fun k s ->
      if Some k <> touched then begin
        count "frame_checks";
        if s <> prev.(k) then
          propfail id (Printf.sprintf "%s changed %s %d, which it does not run on: before %s after %s" here what k prev.(k) s)
      end) cur

(* the same with a set of copies that take part in the operation; "x" marks a copy that was not read *)
let frame_oracle_set id here what (prev : string array) (cur : string array) (touched : int -> bool) =
  if Array.length cur <> Array.length prev then
    propfail id (Printf.sprintf "%s the number of %s changed from %d to %d" here what (Array.length prev) (Array.length cur))
  else
    Array.iteri (fun k s ->
      if not (touched k) then begin
        count "frame_checks";
        if s <> prev.(k) then
          propfail id (Printf.sprintf "%s changed %s %d, which takes no part in it: before %s after %s" here what k prev.(k) s)
      end) cur

let fork_oracle id here what (prev : string array) (cur : string array) (origin : int) (n : int) =
  let lp = Array.length prev in
  if Array.length cur <> lp + n then
    propfail id (Printf.sprintf "%s: %d %s after forking %d from %d" here (Array.length cur) what n lp)
  else
    Array.iteri (fun k s ->
      if k < lp then begin
        count "frame_checks";
        if s <> prev.(k) then propfail id (Printf.sprintf "%s changed the existing %s %d: before %s after %s" here what k prev.(k) s)
      end else begin
        count "fork_copy_checks";
        if s <> prev.(origin) then
          propfail id (Printf.sprintf "%s: new %s %d does not start equal to its origin %d: origin %s copy %s" here what k origin prev.(origin) s)
      end) cur

(* an operation or a snapshot that did not terminate (the harness gives up after 20 s and ends the run) *)
let hang_check id here (ob : sx) : bool =
  let r = List.hd (args (field "r" ob)) in
  if (match r with A "hang" -> true | L [A "hang"] -> true | _ -> false) then begin
    mismatch id (here ^ " did not return (harness watchdog)"); true end
  else if field_opt "hang" ob <> None then begin
    propfail id (here ^ ": afterwards the snapshot of the copies did not terminate (a copy can no longer report its state)"); true end
  else false

(* ------------------------------------------------------------------------------------------ *)
(* bd *)

let bd_change (s : sx) : change =
  let a = Array.of_list (args s) in
  match tag s with
  | "ins" -> CIns (zi a.(0), zi a.(1), bool_of_sx a.(2))
  | "del" -> CDel (zi a.(0), zi a.(1), bool_of_sx a.(2))
  | "mod" ->
      let ds = List.map (fun d ->
        let k = (match tag d with "e" -> DEq | "i" -> DIns | "d" -> DDel | t -> failwith ("edit " ^ t)) in
        (k, zi (List.hd (args d)))) (list_of_sx a.(8)) in
      CMod (zi a.(0), zi a.(1), zi a.(2), bool_of_sx a.(3), zi a.(4), bool_of_sx a.(5), zi a.(6), zi a.(7), ds)
  | t -> failwith ("change " ^ t)

let bd_act (s : sx) : bd_op act * int =
  let a = Array.of_list (args s) in
  match tag s with
  | "fork" -> (AFork (nat_of_int (int_of_sx a.(0)), nat_of_int (int_of_sx a.(1))), int_of_sx a.(0))
  | "consume" ->
      let chs = List.map bd_change (List.tl (List.tl (List.tl (List.tl (args s))))) in
      (AStep (nat_of_int (int_of_sx a.(0)), BCommit (zi a.(1), zi a.(2), bool_of_sx a.(3), chs)), int_of_sx a.(0))
  | t -> failwith ("op " ^ t)

(* rle: the tracked files of the large cases are recorded run-length encoded, (id (value count) ...) *)
let rle_str (a : int list) : string =
  let b = Buffer.create 256 in
  let rec go v n = function
    | [] -> if n > 0 then Buffer.add_string b (Printf.sprintf " (%d %d)" v n)
    | x :: tl -> if n > 0 && x = v then go v (n + 1) tl
                 else begin (if n > 0 then Buffer.add_string b (Printf.sprintf " (%d %d)" v n)); go x 1 tl end in
  go 0 0 a; Buffer.contents b

let bd_priv_str ?(rle = false) (p : bd_priv) : string =
  Printf.sprintf "%d %d %d (mf%s) (files%s)" (int_of_z p.bp_tick) (int_of_z p.bp_prev_tick) (int_of_z p.bp_merged_author)
    (String.concat "" (List.map (fun (k, b) -> Printf.sprintf " (%d %d)" (int_of_z k) (if b then 1 else 0)) p.bp_merged_files))
    (String.concat "" (List.map (fun (k, a) ->
       if rle then " (" ^ string_of_int (int_of_z k) ^ rle_str (List.map int_of_z a) ^ ")"
       else " (" ^ String.concat " " (List.map string_of_int (int_of_z k :: List.map int_of_z a)) ^ ")") p.bp_files))

(* the observed copy without the allocator use count, which the array model does not have *)
let bd_obs_priv_str (s : string) : string =
  match parse_sx s with
  | L (A "c" :: _used :: rest) -> String.concat " " (List.map str rest)
  | _ -> s

let acc_str tagname (m : (z list * z) list) : string =
  let l = List.filter (fun (_, d) -> d <> 0) (List.map (fun (k, d) -> (List.map int_of_z k, int_of_z d)) m) in
  let l = List.sort compare l in
  "(" ^ tagname ^ String.concat "" (List.map (fun (k, d) -> " " ^ ints (k @ [d])) l) ^ ")"

let bd_shared_str (s : bd_shared) : string =
  Printf.sprintf "(sh %s %s %s (dels%s) (ren%s) (fh%s))" (acc_str "g" s.bs_global) (acc_str "ph" s.bs_people) (acc_str "mx" s.bs_matrix)
    (String.concat "" (List.map (fun k -> " " ^ string_of_int (int_of_z k)) s.bs_deletions))
    (String.concat "" (List.map (fun (k, v) -> Printf.sprintf " (%d %d)" (int_of_z k) (int_of_z v)) s.bs_renames))
    (String.concat "" (List.map (fun k -> " " ^ string_of_int (int_of_z k)) s.bs_filehist))

(* a hibernated copy is recorded as (hib mem|disk <crc> <bytes>): the image of its compressed arena *)
let is_hib (s : string) : bool = String.length s >= 5 && String.sub s 0 5 = "(hib "

let bd_case id c =
  let people = bool_of_sx (List.hd (args (field "people" c))) in
  let track = (match field_opt "track" c with Some t -> bool_of_sx (List.hd (args t)) | None -> false) in
  let rle = (match field_opt "rle" c with Some t -> bool_of_sx (List.hd (args t)) | None -> false) in
  (* the largest cases (10^6 lines: the extracted take / drop go through unary nat; 2^16 files: association lists) are
     judged by the implementation-only oracles alone *)
  let nomodel = (match field_opt "nomodel" c with Some t -> bool_of_sx (List.hd (args t)) | None -> false) in
  if nomodel then count "cases_without_model";
  let ops = args (field "ops" c) and obs = args (field "obs" c) in
  let pf0 = !n_propfail in
  let st = ref bd_init in
  let prev = ref [| "(c 0 0 0 262142 (mf) (files))" |] in
  (* what every copy reported when it was last awake: a hibernated copy is in that state *)
  let logical = ref (Array.copy !prev) in
  let forks = ref 0 in
  let stop = ref false in
  List.iteri (fun i ob ->
    if not !stop then begin
      let opsx = List.nth ops i in
      let here = Printf.sprintf "op#%d %s" i (str opsx) in
      if hang_check id here ob then stop := true else begin
      let r = atom (List.hd (args (field "r" ob))) in
      let cur = resolve !prev (args (field "copies" ob)) in
      let log' = Array.mapi (fun k s -> if is_hib s then (if k < Array.length !logical then !logical.(k) else "?") else s) cur in
      let kind = tag opsx in
      if kind = "hib" || kind = "boot" then begin
        (* Hibernate / Boot: memory management.  The model of both is the identity. *)
        let target = int_of_sx (List.hd (args opsx)) in
        count (if kind = "hib" then "hibernations" else "boots");
        if r = "skip" then frame_oracle id here "copy" !prev cur None
        else begin
          frame_oracle id here "copy" !prev cur (Some target);
          if target < Array.length cur && target < Array.length !prev then begin
            let s = cur.(target) in
            (match r with
             | "ok" when kind = "hib" ->
                 if is_hib s then count "hibernated_images"
                 else if s <> !prev.(target) then
                   propfail id (Printf.sprintf "%s: Hibernate changed what copy %d reports: before %s after %s" here target !prev.(target) s)
             | "ok" ->
                 if is_hib s then
                   mismatch id (Printf.sprintf "%s: copy %d is still hibernated after Boot" here target)
                 else begin
                   count "boot_checks";
                   if s <> !logical.(target) then
                     propfail id (Printf.sprintf "%s: copy %d reports another state after Boot than before it was hibernated (a private instance reports the same): before %s after %s"
                                    here target !logical.(target) s)
                 end
             | _ ->
                 let what = Printf.sprintf "%s: %s of copy %d fails (%s); a private, never forked instance hibernates and boots without error" here
                              (if kind = "hib" then "Hibernate" else "Boot") target r in
                 if !forks > 0 then propfail id what else mismatch id what)
          end
        end;
        let failed = (r = "err" || r = "panic") in
        let mp = Array.of_list !st.privs in
        if nomodel then ()
        else if Array.length mp = Array.length log' then
          Array.iteri (fun k s ->
            if not (failed && k = target) then begin
              count "copy_states_compared";
              let ms = bd_priv_str ~rle mp.(k) and os = bd_obs_priv_str s in
              if ms <> os then mismatch id (Printf.sprintf "%s copy %d: implementation %s model %s" here k os ms)
            end) log'
        else mismatch id (Printf.sprintf "%s: %d copies, model has %d" here (Array.length cur) (Array.length mp));
        prev := cur; logical := log';
        if failed then stop := true
      end else begin
      let (a, target) = bd_act opsx in
      (* --- the property, on the implementation's snapshots --- *)
      (match a, r with
        | AFork (_, n), "fork" -> incr forks; count "forks"; fork_oracle id here "copy" !prev cur target (int_of_nat n)
        | AStep _, ("ok" | "err" | "panic") -> count "steps"; frame_oracle id here "copy" !prev cur (Some target)
        | _, _ -> frame_oracle id here "copy" !prev cur None);
      (* --- the model --- *)
      let failed = (r = "err" || r = "panic") in
      if nomodel then begin prev := cur; logical := log'; if failed then stop := true end else begin
      let (st', out) = bd_do people track a !st in
      (match out, r with
       | Some BOk, "ok" | Some BErr, "err" | Some BPanic, "panic" | None, ("fork" | "skip") -> ()
       | _, _ -> mismatch id (Printf.sprintf "%s result: implementation %s, model %s" here r
                   (match out with Some BOk -> "ok" | Some BErr -> "err" | Some BPanic -> "panic" | None -> "none")));
      let mp = Array.of_list st'.privs in
      if Array.length mp <> Array.length cur then
        mismatch id (Printf.sprintf "%s: %d copies, model has %d" here (Array.length cur) (Array.length mp))
      else
        Array.iteri (fun k s ->
          if not (failed && k = target) then begin
            count "copy_states_compared";
            let ms = bd_priv_str ~rle mp.(k) and os = bd_obs_priv_str s in
            if ms <> os then mismatch id (Printf.sprintf "%s copy %d: implementation %s model %s" here k os ms)
          end) log';
      if not failed then begin
        let ms = bd_shared_str st'.shd and os = str (field "sh" ob) in
        if ms <> os then mismatch id (Printf.sprintf "%s shared accumulators: implementation %s model %s" here os ms);
        List.iteri (fun k f -> if not (bool_of_sx f) then
          mismatch id (Printf.sprintf "%s copy %d does not see the same shared accumulators as the origin" here k)) (args (field "shsame" ob))
      end;
      st := st'; prev := cur; logical := log';
      if failed then stop := true
      end
      end
      end
    end) obs;
  if List.length obs < List.length ops && not !stop && !n_propfail = pf0 then
    mismatch id "fewer observations than operations without a failure"

(* ------------------------------------------------------------------------------------------ *)
(* rb *)

let rb_act (s : sx) : rb_op act * int =
  let a = Array.of_list (List.map int_of_sx (args s)) in
  let n = nat_of_int in
  match tag s with
  | "fork" -> (AFork (n a.(0), n a.(1)), a.(0))
  | "new" -> (AStep (n a.(0), RNew), a.(0))
  | "ins" -> (AStep (n a.(0), RInsert (n a.(1), z a.(2), z a.(3))), a.(0))
  | "del" -> (AStep (n a.(0), RDelete (n a.(1), z a.(2))), a.(0))
  | "erase" -> (AStep (n a.(0), RErase (n a.(1))), a.(0))
  | "deep" -> (AStep (n a.(0), RDeep (n a.(1))), a.(0))
  | t -> failwith ("op " ^ t)

let rb_side_str (p : rb_priv) : string =
  "(s " ^ string_of_int (int_of_z (rb_used p)) ^
  String.concat "" (List.map (fun t ->
    " (t" ^ String.concat "" (List.map (fun (k, v) -> Printf.sprintf " (%d %d)" (int_of_z k) (int_of_z v)) t)
    ^ Printf.sprintf " (len %d))" (List.length t)) p.rp_trees) ^ ")"

let rb_case id c =
  let ops = args (field "ops" c) and obs = args (field "obs" c) in
  let pf0 = !n_propfail and mm0 = !n_mismatch in
  let st = ref rb_init in
  let prev = ref [| "(s 0)" |] in
  let stop = ref false in
  List.iteri (fun i ob ->
    let opsx = List.nth ops i in
    let here = Printf.sprintf "op#%d %s" i (str opsx) in
    let (a, target) = rb_act opsx in
    if !stop then () else if hang_check id here ob then stop := true else
    let r = atom (List.hd (args (field "r" ob))) in
    let cur = resolve !prev (args (field "sides" ob)) in
    let arena = Array.of_list (List.map bool_of_sx (args (field "arena" ob))) in
    (match a, r with
     | AFork (_, n), "fork" -> count "forks"; fork_oracle id here "side" !prev cur target (int_of_nat n)
     | AStep _, ("0" | "1" | "panic") -> count "steps"; frame_oracle id here "side" !prev cur (Some target)
     | _, _ -> frame_oracle id here "side" !prev cur None);
    (* the arena (storage and gaps) of every side the operation does not run on must be bit-identical *)
    Array.iteri (fun k same ->
      let touched = (match a, r with AStep _, ("0" | "1" | "panic") -> k = target | _ -> false) in
      if k < Array.length !prev && not touched && not same then
        propfail id (Printf.sprintf "%s changed the arena (storage or gaps) of side %d, which it does not run on" here k)) arena;
    let (st', out) = rb_do a !st in
    (match out, r with
     | Some true, "1" | Some false, "0" | None, ("fork" | "skip") -> ()
     | _, _ -> mismatch id (Printf.sprintf "%s result: implementation %s" here r));
    let mp = Array.of_list st'.privs in
    if Array.length mp <> Array.length cur then
      mismatch id (Printf.sprintf "%s: %d sides, model has %d" here (Array.length cur) (Array.length mp))
    else
      Array.iteri (fun k s ->
        count "copy_states_compared";
        let ms = rb_side_str mp.(k) in
        if ms <> s then mismatch id (Printf.sprintf "%s side %d: implementation %s model %s" here k s ms)) cur;
    st := st'; prev := cur) obs;
  if List.length obs < List.length ops && !n_propfail = pf0 && !n_mismatch = mm0 then
    mismatch id "fewer observations than operations without a finding"

(* ------------------------------------------------------------------------------------------ *)
(* pl *)

let pl_commit (s : sx) : commit =
  let a = Array.of_list (args s) in
  { c_id = zi a.(0); c_parents = zs_of_sx a.(1); c_time = zi a.(2);
    c_tree = List.map (fun e -> match e with L [p; b] -> (zi p, zi b) | _ -> failwith "tree entry") (list_of_sx a.(3)) }

let tchange_str = function
  | TIns (p, b) -> Printf.sprintf "(ins %d 0 %d)" (int_of_z p) (int_of_z b)
  | TDel (p, b) -> Printf.sprintf "(del %d %d 0)" (int_of_z p) (int_of_z b)
  | TMod (p, f, t) -> Printf.sprintf "(mod %d %d %d)" (int_of_z p) (int_of_z f) (int_of_z t)

let pl_case id c =
  let size = (match field_opt "ssize" c with
    | Some f -> z (int_of_sx (List.hd (args f)))                           (* round 4: tick sizes given in seconds *)
    | None -> z (3600 * int_of_sx (List.hd (args (field "size" c))))) in   (* hours -> seconds *)
  let commits = List.map pl_commit (args (field "commits" c)) in
  let find cid = List.find_opt (fun cm -> int_of_z cm.c_id = cid) commits in
  let ops = args (field "ops" c) and obs = args (field "obs" c) in
  let mm0 = !n_mismatch in
  let stop = ref false in
  let st = ref pl_init in
  let prev = ref [| "(p -1 0 () 0)" |] in
  let t0_set = ref false in
  List.iteri (fun i ob ->
    let opsx = List.nth ops i in
    let here = Printf.sprintf "op#%d %s" i (str opsx) in
    let a = Array.of_list (List.map int_of_sx (args opsx)) in
    let target = a.(0) in
    if !stop then () else if hang_check id here ob then stop := true else
    let r = List.hd (args (field "r" ob)) and twin = List.hd (args (field "twin" ob)) in
    let cur = resolve !prev (args (field "copies" ob)) in
    let act = (match tag opsx, tag r with
      | "fork", "fork" -> Some (AFork (nat_of_int a.(0), nat_of_int a.(1)))
      | "consume", ("ok" | "err" | "panic") ->
          (match find a.(1) with Some cm -> Some (AStep (nat_of_int a.(0), (cm, z a.(2)))) | None -> None)
      | _, _ -> None) in
    (* --- the property, on the implementation's outputs --- *)
    (match act with
     | Some (AFork (_, n)) -> count "forks"; fork_oracle id here "copy" !prev cur target (int_of_nat n)
     | Some (AStep _) ->
         count "steps"; frame_oracle id here "copy" !prev cur (Some target);
         count "twin_checks";
         if str r <> str twin then
           propfail id (Printf.sprintf "%s: the copy answers %s but a private, never forked instance fed with the same branch-local commits answers %s"
                          here (str r) (str twin))
     | None -> frame_oracle id here "copy" !prev cur None);
    (* --- the model --- *)
    (match act with
     | None -> ()
     | Some act ->
       let (st', out) = pl_do size act !st in
       (match act with AStep (_, (_, ix)) when int_of_z ix = 0 && tag r = "ok" -> t0_set := true | _ -> ());
       (match out, tag r with
        | None, "fork" -> ()
        | Some o, "err" -> if o.po_changes <> None then mismatch id (here ^ " implementation refuses the commit, the model does not")
        | Some o, "ok" ->
            (match o.po_changes with
             | None -> mismatch id (here ^ " the model refuses the commit, the implementation does not")
             | Some l ->
                 let ms = "(changes" ^ String.concat "" (List.map (fun x -> " " ^ tchange_str x) l) ^ ")" in
                 let os = str (field "changes" r) in
                 if ms <> os then mismatch id (Printf.sprintf "%s changes: implementation %s model %s" here os ms);
                 let mk = List.map int_of_z o.po_cache in
                 let ok = List.map (fun e -> int_of_sx (List.hd (list_of_sx e))) (args (field "cache" r)) in
                 if mk <> ok then mismatch id (Printf.sprintf "%s cache keys: implementation %s model %s" here (ints ok) (ints mk));
                 if !t0_set then begin
                   let ot = int_of_sx (List.hd (args (field "tick" r))) in
                   if ot <> int_of_z o.po_tick then mismatch id (Printf.sprintf "%s tick: implementation %d model %d" here ot (int_of_z o.po_tick))
                 end else count "ticks_outside_domain")
        | _, t -> mismatch id (Printf.sprintf "%s result shape %s" here t));
       st := st');
    let mp = Array.of_list !st.privs in
    if Array.length mp <> Array.length cur then
      mismatch id (Printf.sprintf "%s: %d copies, model has %d" here (Array.length cur) (Array.length mp))
    else
      Array.iteri (fun k s ->
        count "copy_states_compared";
        match parse_sx s with
        | L [A "p"; pt; pc; keys; ptick] ->
            let p = mp.(k) in
            let tree_ok = (match p.pp_td.tp_tree, int_of_sx pt with
              | None, -1 -> true
              | Some t, cid when cid > 0 -> (match find cid with Some cm -> cm.c_tree = t | None -> false)
              | _, _ -> false) in
            if not tree_ok then mismatch id (Printf.sprintf "%s copy %d: previous tree differs (implementation: tree of commit %s)" here k (str pt));
            if int_of_sx pc <> int_of_z p.pp_td.tp_commit then
              mismatch id (Printf.sprintf "%s copy %d: previous commit %s, model %d" here k (str pc) (int_of_z p.pp_td.tp_commit));
            if ints_of_sx keys <> List.map int_of_z p.pp_bc then
              mismatch id (Printf.sprintf "%s copy %d: blob cache %s, model %s" here k (str keys) (ints (List.map int_of_z p.pp_bc)));
            if !t0_set && int_of_sx ptick <> int_of_z p.pp_tk then
              mismatch id (Printf.sprintf "%s copy %d: previousTick %s, model %d" here k (str ptick) (int_of_z p.pp_tk))
        | _ -> mismatch id (Printf.sprintf "%s copy %d: snapshot shape %s" here k s)) cur;
    if !t0_set then begin
      let sh = field "sh" ob in
      let ms = Printf.sprintf "(sh %d (%s))" (int_of_z !st.shd.ts_tick0)
        (String.concat " " (List.map (fun (t, l) -> Printf.sprintf "(%d %s)" (int_of_z t) (ints (List.map int_of_z l))) !st.shd.ts_commits)) in
      if ms <> str sh then mismatch id (Printf.sprintf "%s shared tick0/registry: implementation %s model %s" here (str sh) ms)
    end;
    List.iteri (fun k f -> if not (bool_of_sx f) then
      mismatch id (Printf.sprintf "%s copy %d does not see the same tick0/registry as the origin" here k)) (args (field "shsame" ob));
    prev := cur) obs;
  if List.length obs < List.length ops && !n_mismatch = mm0 then mismatch id "fewer observations than operations without a finding"


(* ------------------------------------------------------------------------------------------ *)
(* run: Pipeline.Run observed as an operation list over instance numbers (harness/cmd/c08run) *)

(* the snapshot lists of this stream are sparse: (k snapshot) for the instances whose snapshot changed; an instance
   that is not listed is unchanged (or no longer read, its branch being deleted) *)
let resolve_sparse (prev : string array) (n : int) (cur : sx list) : string array =
  let a = Array.init n (fun k -> if k < Array.length prev then prev.(k) else "?") in
  List.iter (fun e -> match e with
    | L [k; s] -> let k = int_of_sx k in if k >= 0 && k < n then a.(k) <- str s
    | _ -> ()) cur;
  a

let run_case id c =
  let size = z (3600 * int_of_sx (List.hd (args (field "size" c)))) in
  let commits = List.map pl_commit (args (field "commits" c)) in
  let find cid = List.find_opt (fun cm -> int_of_z cm.c_id = cid) commits in
  let o = field "obs" c in
  let status = atom (List.hd (args (field "run" o))) in
  let ops = args (field "xops" o) and obs = args (field "xobs" o) in
  let pf0 = !n_propfail and mm0 = !n_mismatch in
  List.iter (fun a -> mismatch id ("harness: " ^ str a)) (args (field "anomaly" o));
  let st = ref pl_init in
  let prev = ref [| "(p -1 0 () 0)" |] in
  let prevm = ref [| "(m 0 0 0)" |] in
  let prevb = ref [||] in
  let logical = ref [||] in
  let first_bd = ref true in
  let t0_set = ref false in
  let forks = ref 0 in
  let stop = ref false in
  List.iteri (fun i ob ->
    let opsx = List.nth ops i in
    let here = Printf.sprintf "op#%d %s" i (str opsx) in
    let a = Array.of_list (List.map int_of_sx (args opsx)) in
    let target = a.(0) in
    let kind = tag opsx in
    if !stop then () else begin
    let r = List.hd (args (field "r" ob)) and twin = List.hd (args (field "twin" ob)) in
    let nn = Array.of_list (List.map int_of_sx (args (field "n" ob))) in
    let cur = resolve_sparse !prev nn.(0) (args (field "copies" ob)) in
    let curm = resolve_sparse !prevm nn.(1) (args (field "prs" ob)) in
    let bl = args (field "bds" ob) in
    if !first_bd then begin
      (* the burndown item is optional: the first snapshot of its first instance is the reference *)
      first_bd := false;
      (match List.find_opt (fun e -> match e with L [A "0"; _] -> true | _ -> false) bl with
       | Some (L [_; s0]) when nn.(2) > 0 -> prevb := [| str s0 |]
       | _ -> prevb := [||]);
      logical := Array.copy !prevb
    end;
    let curb = resolve_sparse !prevb nn.(2) bl in
    let logb = Array.mapi (fun k s -> if is_hib s then (if k < Array.length !logical then !logical.(k) else "?") else s) curb in
    let has_bd = Array.length curb > 0 in
    let parts = (match kind with "merge" -> Array.to_list a | _ -> [target]) in
    let in_parts k = List.mem k parts in
    let act = (match kind, tag r with
      | "fork", "fork" -> Some (AFork (nat_of_int a.(0), nat_of_int a.(1)))
      | "consume", ("ok" | "err" | "panic") ->
          (match find a.(1) with Some cm -> Some (AStep (nat_of_int a.(0), (cm, z a.(2)))) | None -> None)
      | _, _ -> None) in
    (* --- the property, on the implementation's outputs --- *)
    (match kind with
     | "fork" ->
         incr forks; count "forks";
         fork_oracle id here "instance (TreeDiff, BlobCache, TicksSinceStart)" !prev cur target a.(1);
         fork_oracle id here "probe" !prevm curm target a.(1);
         if has_bd then fork_oracle id here "burndown instance" !prevb curb target a.(1)
     | "consume" ->
         count "steps";
         frame_oracle id here "instance (TreeDiff, BlobCache, TicksSinceStart)" !prev cur (Some target);
         frame_oracle id here "probe" !prevm curm (Some target);
         if has_bd then frame_oracle id here "burndown instance" !prevb curb (Some target);
         if tag twin <> "skip" then begin
           count "twin_checks";
           if str r <> str twin then
             propfail id (Printf.sprintf "%s: the branch answers %s but private, never forked instances fed with the same commits answer %s"
                            here (str r) (str twin))
         end;
         (* the branch of the plan is served by an instance that has consumed exactly the commits of the branch *)
         (match field_opt "lin" ob, field_opt "hist" ob with
          | Some l, Some m ->
              count "lineage_checks";
              let ls = String.concat " " (List.map str (args l)) and ms = String.concat " " (List.map str (args m)) in
              if ls <> ms then
                propfail id (Printf.sprintf "%s: branch %s of the plan consists of the commits (%s) so far, but the instance that is given this commit has consumed (%s): the branch is not served by a private instance"
                               here (str (List.hd (args (field "branch" ob)))) ls ms)
          | _, _ -> ());
         (match field_opt "lin" ob, field_opt "mem" ob with
          | Some l, Some m ->
              count "probe_lineage_checks";
              let ls = String.concat " " (List.map str (args l)) and ms = String.concat " " (List.map str (args m)) in
              if ls <> ms then
                propfail id (Printf.sprintf "%s: branch %s of the plan consists of the commits (%s) so far, but the by-value probe that is handed this commit remembers (%s): the branch is not served by a private instance"
                               here (str (List.hd (args (field "branch" ob)))) ls ms)
          | _, _ -> ());
         (match field_opt "saw" ob, tag r with
          | Some sw, "ok" ->
              let s = List.map int_of_sx (args sw) in
              let t = int_of_sx (List.hd (args (field "tick" r))) in
              let nch = List.length (args (field "changes" r)) and nca = List.length (args (field "cache" r)) in
              if s <> [t; nch; nca] then
                propfail id (Printf.sprintf "%s: the probe of the branch was handed tick %d, %d changes, %d blobs; the items of its branch produced tick %d, %d changes, %d blobs"
                               here (List.nth s 0) (List.nth s 1) (List.nth s 2) t nch nca)
          | _, _ -> ())
     | "merge" ->
         count "merges";
         frame_oracle_set id here "instance (TreeDiff, BlobCache, TicksSinceStart)" !prev cur in_parts;
         frame_oracle_set id here "probe" !prevm curm in_parts;
         if has_bd then frame_oracle_set id here "burndown instance" !prevb curb in_parts
     | "hib" | "boot" ->
         count (if kind = "hib" then "hibernations" else "boots");
         frame_oracle id here "instance (TreeDiff, BlobCache, TicksSinceStart)" !prev cur None;
         frame_oracle id here "probe" !prevm curm None;
         frame_oracle id here "burndown instance" !prevb curb (Some target);
         if target < Array.length curb && target < Array.length !prevb then begin
           let s = curb.(target) in
           (match tag r with
            | "ok" when kind = "hib" ->
                if is_hib s then count "hibernated_images"
                else if s <> !prevb.(target) then
                  propfail id (Printf.sprintf "%s: Hibernate changed what burndown instance %d reports: before %s after %s" here target !prevb.(target) s)
            | "ok" ->
                if is_hib s then mismatch id (Printf.sprintf "%s: burndown instance %d is still hibernated after Boot" here target)
                else begin
                  count "boot_checks";
                  if s <> !logical.(target) then
                    propfail id (Printf.sprintf "%s: burndown instance %d reports another state after Boot than before it was hibernated (a private instance reports the same): before %s after %s"
                                   here target !logical.(target) s)
                end
            | t ->
                let what = Printf.sprintf "%s: %s of burndown instance %d fails (%s); a private, never forked instance hibernates and boots without error" here
                             (if kind = "hib" then "Hibernate" else "Boot") target t in
                if !forks > 1 then propfail id what else mismatch id what)
         end
     | k -> mismatch id (here ^ ": unknown operation"));
    (* --- the model of the plumbing items --- *)
    (match act with
     | None -> ()
     | Some act ->
       let (st', out) = pl_do size act !st in
       (match act with AStep (_, (_, ix)) when int_of_z ix = 0 && tag r = "ok" -> t0_set := true | _ -> ());
       (match out, tag r with
        | None, "fork" -> ()
        | Some o, "err" -> if o.po_changes <> None then mismatch id (here ^ " implementation refuses the commit, the model does not")
        | Some o, "ok" ->
            (match o.po_changes with
             | None -> mismatch id (here ^ " the model refuses the commit, the implementation does not")
             | Some l ->
                 let ms = "(changes" ^ String.concat "" (List.map (fun x -> " " ^ tchange_str x) l) ^ ")" in
                 let os = str (field "changes" r) in
                 if ms <> os then mismatch id (Printf.sprintf "%s changes: implementation %s model %s" here os ms);
                 let mk = List.map int_of_z o.po_cache in
                 let ok = List.map (fun e -> int_of_sx (List.hd (list_of_sx e))) (args (field "cache" r)) in
                 if mk <> ok then mismatch id (Printf.sprintf "%s cache keys: implementation %s model %s" here (ints ok) (ints mk));
                 if !t0_set then begin
                   let ot = int_of_sx (List.hd (args (field "tick" r))) in
                   if ot <> int_of_z o.po_tick then mismatch id (Printf.sprintf "%s tick: implementation %d model %d" here ot (int_of_z o.po_tick))
                 end else count "ticks_outside_domain")
        | _, t -> mismatch id (Printf.sprintf "%s result shape %s" here t));
       st := st');
    let mp = Array.of_list !st.privs in
    if Array.length mp <> Array.length cur then
      mismatch id (Printf.sprintf "%s: %d instances, model has %d" here (Array.length cur) (Array.length mp))
    else
      Array.iteri (fun k s ->
        if k >= Array.length !prev || s <> !prev.(k) || in_parts k then begin
        count "copy_states_compared";
        match parse_sx s with
        | L [A "p"; pt; pc; keys; ptick] ->
            let p = mp.(k) in
            let tree_ok = (match p.pp_td.tp_tree, int_of_sx pt with
              | None, -1 -> true
              | Some t, cid when cid > 0 -> (match find cid with Some cm -> cm.c_tree = t | None -> false)
              | _, _ -> false) in
            if not tree_ok then mismatch id (Printf.sprintf "%s instance %d: previous tree differs (implementation: tree of commit %s)" here k (str pt));
            if int_of_sx pc <> int_of_z p.pp_td.tp_commit then
              mismatch id (Printf.sprintf "%s instance %d: previous commit %s, model %d" here k (str pc) (int_of_z p.pp_td.tp_commit));
            if ints_of_sx keys <> List.map int_of_z p.pp_bc then
              mismatch id (Printf.sprintf "%s instance %d: blob cache %s, model %s" here k (str keys) (ints (List.map int_of_z p.pp_bc)));
            if !t0_set && int_of_sx ptick <> int_of_z p.pp_tk then
              mismatch id (Printf.sprintf "%s instance %d: previousTick %s, model %d" here k (str ptick) (int_of_z p.pp_tk))
        | _ -> mismatch id (Printf.sprintf "%s instance %d: snapshot shape %s" here k s)
        end) cur;
    if !t0_set then begin
      let sh = field "sh" ob in
      if (match args sh with [A "="] -> false | _ -> true) then begin
        let ms = Printf.sprintf "(sh %d (%s))" (int_of_z !st.shd.ts_tick0)
          (String.concat " " (List.map (fun (t, l) -> Printf.sprintf "(%d %s)" (int_of_z t) (ints (List.map int_of_z l))) !st.shd.ts_commits)) in
        if ms <> str sh then mismatch id (Printf.sprintf "%s shared tick0/registry: implementation %s model %s" here (str sh) ms)
      end
    end;
    List.iter (fun k ->
      mismatch id (Printf.sprintf "%s instance %s does not see the same tick0/registry as the origin" here (str k))) (args (field "shdiff" ob));
    prev := cur; prevm := curm; prevb := curb; logical := logb;
    if tag r = "err" || tag r = "panic" then stop := true
    end) obs;
  (* at the end every instance is read once more: whatever was not read in between must be as it was *)
  (match field_opt "final" o with
   | Some f when not !stop && args f <> [] ->
       let chk what prev l =
         List.iter (fun e -> match e with
           | L [k; s] ->
               let k = int_of_sx k in
               if k < Array.length prev && not (is_hib prev.(k)) && str s <> prev.(k) then
                 mismatch id (Printf.sprintf "at the end %s %d differs from what it last reported: before %s after %s" what k prev.(k) (str s))
           | _ -> ()) l in
       chk "instance" !prev (args (field "copies" f));
       chk "probe" !prevm (args (field "prs" f));
       chk "burndown instance" !prevb (args (field "bds" f));
       List.iter (fun k ->
         mismatch id (Printf.sprintf "at the end instance %s does not see the same tick0/registry as the origin" (str k))) (args (field "shdiff" f))
   | _ -> ());
  if status <> "ok" && !n_propfail = pf0 && !n_mismatch = mm0 then
    mismatch id (Printf.sprintf "Pipeline.Run ends with %s although every observed operation agrees with the private twins" status);
  if List.length obs <> List.length ops then mismatch id "operations and observations differ in number"

let () =
  iter_cases (fun id c ->
    let kind = atom (List.hd (args (field "kind" c))) in
    let pre n = String.length kind >= n in
    if pre 2 && String.sub kind 0 2 = "bd" then (count "bd_cases"; bd_case id c)
    else if pre 2 && String.sub kind 0 2 = "rb" then (count "rb_cases"; rb_case id c)
    else if pre 2 && String.sub kind 0 2 = "pl" then (count "pl_cases"; pl_case id c)
    else if pre 3 && String.sub kind 0 3 = "run" then (count "run_cases"; run_case id c)
    else failwith ("unknown kind " ^ kind))
