CONFIG = dict(
        level='proof',
        streams=[dict(harness='c05', driver='c05', shrink_field='ops')],
        rule='operation sequences on 1-3 rbtree.RBTree sharing one rbtree.Allocator',
        exhaustive_note='all sequences of 4 Insert/DeleteWithKey operations over 6 keys and of 5 over 4 keys (quick); of 5 over 6 keys and 7 over 3 keys (thorough)',
        assumptions=[],
        trusted_base=['hand-written Gallina model coq/theories/RBTree/Model.v of internal/rbtree/rbtree.go, tied to the code by the replay of every harness case'],
    )
