(* C15 - topological sort.  Only statements closed by [exact] and their assumptions. *)
From Coq Require Import List ZArith Permutation.
From Herc Require Import Toposort.Kahn Toposort.KahnProofs.
Import ListNotations.
Open Scope Z_scope.

Theorem C15_kahn_sound : forall g, wf g -> forall L, toposort g = (L, true) ->
  Permutation L (nodes g) /\ ordered g L.
Proof. exact toposort_sound. Qed.
Print Assumptions C15_kahn_sound.
