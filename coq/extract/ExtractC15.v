Require Extraction.
Require Import ExtrOcamlBasic.
From Herc Require Import Base.Conv Toposort.Model.
Extraction "c15_model.ml" conv_anchor empty run toposort cycle_ok has_edge wfb is_node nobody.
