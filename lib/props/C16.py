CONFIG = dict(
        level='proof',
        streams=[dict(harness='c16', driver='c16', shrink_field='commits'),
                 dict(harness='c16m', driver='c16', shrink_field='ids')],
        rule='stream c16: a commit list (Author.Name, Author.Email as byte strings) and the mode (ExactSignatures on/off) go through the real '
             'identity.Detector: GeneratePeopleDict on commits of an in-memory repository without .mailmap, then Consume for every commit of '
             'the list; recorded: PeopleDict (sorted by key), ReversedPeopleDict, the author indices. Kinds: exh1..3 (thorough ..4) = every list '
             'over 12 signatures {a,A,b} x {a,E,e,""} (a name equal to an e-mail, case variants, empty e-mail) in both modes; dense / mid / '
             'wide = random lists of 1..40 signatures over pools of 5..17 names and 5..14 e-mails with random ASCII case flips, empty fields, '
             'names that are e-mails of others, "<", ">" and non-ASCII letters; crossed = e-mails drawn from the names; bars = names/e-mails '
             'containing "|"; empty = the empty list (Go panics). Non-trivial = at least 2 commits and a lower-cased name or e-mail that '
             'occurs twice. Stream c16m: a pair of identity lists goes through the real MergeReversedDictsIdentities (3 runs, answers must '
             'agree) and MergeReversedDictsLiteral; recorded: the index map sorted by key and the merged list. Kinds: dom-exh4 = all 22 500 '
             'pairs of lists of pairwise disjoint entries over the parts {a, b, x@, ""}; all-exh / f7-all-exh = all 3 249 pairs of lists of <=2 '
             'entries over {a, b, x@} without the disjointness restriction (thorough also <=3 entries over {a, x@} and 150 000 sampled pairs '
             'over 5 parts); dom-rand, dom-same (identical / permuted / truncated copies), dom-chain (a-b-c chains alternating between the '
             'lists, broken or shuffled), dom-apart (nothing merges, one list empty), dom-namemail (sharing only a name / only an e-mail); '
             'f7-* = a part occurs in two entries of ONE list (finding F7), kept apart by name. Non-trivial = at least 2 identities and a part '
             'shared between the two lists. Distinct = distinct input fields.',
        exhaustive_note='every commit list of length <=3 (thorough <=4) over 12 signatures x both modes; every pair of lists of pairwise disjoint '
                        'entries over 4 parts (22 500 pairs); every pair of lists of <=2 arbitrary entries over 3 parts (3 249 pairs)',
        assumptions=[
            'strings.ToLower is modelled as an arbitrary function in every theorem (no hypothesis); the replay instantiates it with ASCII '
            'lower-casing, which equals strings.ToLower on the generated strings: ASCII plus valid UTF-8 of characters that are not the '
            'upper-case form of another character (a string such as "\\u00c9@x" would show up as a PeopleDict mismatch)',
            'the repository has no .mailmap (the mailmap branch of GeneratePeopleDict is not modelled); the commit list is not empty '
            '(Go panics on commits[len(commits)-1]; modelled as None and replayed)',
            'merge theorems C16_merge_total/_components/_union/C16_pointers assume merge_domb rd1 rd2 = true: no part occurs in two different '
            'entries of the same input list; C16_generated_lists_in_domain proves this for every ReversedPeopleDict produced by '
            'GeneratePeopleDict from names and e-mails without "|"; outside it the statements are false (C16_merge_refuted, '
            'C16_pointers_refuted = known finding F7)',
            'Go map iteration (dict when filling ReversedPeopleDict, the pop order of the walk) is an arbitrary permutation in the theorems; '
            'the replay uses the identity',
        ],
        trusted_base=[
            'hand-written Gallina models coq/theories/Plumbing/Identity.v (GeneratePeopleDict both modes, Consume) and IdentityMerge.v '
            '(MergeReversedDictsIdentities as written incl. the one-index-per-part vocabulary, MergeReversedDictsLiteral) of '
            'internal/plumbing/identity/identity.go, tied to the code by the replay of every harness case (dictionaries, descriptions, '
            'author indices, index maps and merged lists compared exactly)',
            'Go strings (==, <, strings.Split/Join/ToLower/ContainsRune), sort.Strings / sort.Slice and go-git object.Commit.File are '
            'modelled (IdStr.v), not verified',
            're-exports /repo/verifapi/c16/c16.go (build tag verif)',
        ],
        level_text='Coq theorems over all commit lists x both modes x all map orders for the Gallina model of GeneratePeopleDict + Consume: '
                   'C16_total (every author of the list resolves below the number of developers), C16_same_email / C16_same_signature '
                   '(+ C16_same_name_and_email), C16_dict_keys, C16_description_exact / C16_description_exact_signatures (each description = '
                   'sorted duplicate-free names | e-mails = exactly the keys attached to the developer), C16_developers_inhabited; and over all '
                   'pairs of identity lists and all pop orders for MergeReversedDictsIdentities: C16_merge_returns (all inputs), and, in the '
                   'domain "no part in two entries of one list", C16_merge_total, C16_merge_components (same Final <-> connected), '
                   'C16_merge_union, C16_pointers; C16_generated_lists_in_domain (outputs of GeneratePeopleDict are in that domain); '
                   'C16_merge_refuted / C16_pointers_refuted (the property is FALSE outside the domain: finding F7, confirmed on the Go code); '
                   'soundness of the replay oracles (C16_oracle_*). All closed under the global context.',
        level_note='Proved about the models, tied to the Go code by correspondence only. The merge half of the property as literally stated ("all pairs '
                   'of identity lists with arbitrary overlaps") is refuted for the current code (F7, known finding; candidate fix in '
                   'docs/C16-F7-candidate-fix.patch); it is proved on the sub-domain that GeneratePeopleDict guarantees. Modelled, not verified: Go '
                   'string primitives, sort, maps, go-git. Not modelled: the .mailmap branch, LoadPeopleDict, Configure. MergeReversedDictsLiteral is '
                   'modelled and replayed but has no theorem (it panics / mis-indexes when rd1 contains a duplicate string; observed, outside the '
                   'property). "Names and e-mails attached to a developer" is formalised as: the keys of PeopleDict that map to it, listed under '
                   'names if first seen as a name and under e-mails if first seen as an e-mail.',
        technique='machine-checked proof in Coq over Gallina models (loop invariants for the dictionary construction; reachability closure, '
                  'vocabulary correctness and component invariants for the merge) + refutation by vm_compute + model/implementation '
                  'correspondence replay with extracted, proved-sound oracles',
    )
