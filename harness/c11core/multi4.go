// Round 4 families of the stream c11multi (content of values, entry kinds, pairs of features):
//
//	multi-modes   every pair of entry modes (100644, 100755, 100664, 120000 symbolic link, 160000 submodule) on the two sides of a
//	              modification - a re-targeted link, chmod with an edit, file <-> link, a submodule bump (two different hashes,
//	              both dummy blobs empty), file <-> submodule -, alone and next to a regular file with the very same contents
//	multi-names   two files of one commit whose NAMES differ only in bytes a normalisation would unify (case, white space, byte
//	              order mark, invalid UTF-8 vs U+FFFD, NFC / NFD, doubled separators) or that are prefixes / suffixes of each
//	              other; a rename from one such name to its twin
//	multi-hashes  the colliding shapes of round 3 with blob hashes that agree in their first / last 1, 2, 4, 8, 16 bytes
//	multi-twins   several files of one commit whose CONTENTS are normalisation twins of each other (old sides twins and one new
//	              blob, one old blob and twin new sides)
//
// and, inside the random shapes of round 3 (genCommit): modes, twin names and hash prefixes drawn at random, so that they
// meet renames, insertions / deletions, re-Configure and re-Initialize.
package c11core

import (
	"math/rand"

	. "verifharness/lib"
)

var allModes = []int{100644, 100755, 100664, 120000, 160000}

func cfg4(k int) mcfg { return mcfg{cleanup: k&1 != 0, ws: k&2 != 0} }

func generateModes(c *Config) {
	contents := [][2]string{
		{"target", "dir/other target"}, // what a link holds: a path, no terminator
		{"a\nb\n", "a\nc\nb\n"},
		{"../x\n", "../x"},
		{"same", "same"}, // only the mode changes
	}
	for _, ma := range allModes {
		for _, mb := range allModes {
			for ci, ct := range contents {
				a, b := []byte(ct[0]), []byte(ct[1])
				if ma == 160000 {
					a = []byte{}
				}
				if mb == 160000 {
					b = []byte{}
				}
				for k := 0; k < 4; k++ {
					if !c.Thorough() && ci > 0 && k != 1 && k != 2 {
						continue
					}
					f := mfile{from: 0, to: 0, act: "mod", a: a, b: b, ma: ma, mb: mb}
					emitMulti(c, minput{kind: "multi-modes", cfgs: []mcfg{cfg4(k)}, files: []mfile{f}})
					// next to a regular file with the very same contents, and next to a second entry of the same kind
					g := mfile{from: 1, to: 1, act: "mod", a: []byte(ct[0]), b: []byte(ct[1])}
					emitMulti(c, minput{kind: "multi-modes", cfgs: []mcfg{cfg4(k)}, files: []mfile{f, g}})
					h := mfile{from: 2, to: 2, act: "mod", a: b, b: a, ma: ma, mb: mb}
					emitMulti(c, minput{kind: "multi-modes", cfgs: []mcfg{cfg4(k)}, files: []mfile{g, h, f}})
				}
			}
		}
	}
}

func generateNames(c *Config) {
	x1, y1 := []byte("a\nb\nc\n"), []byte("a\nc\n")
	x2, y2 := []byte("q\n"), []byte("q\nr\ns\nt")
	for _, grp := range nameGroups() {
		for _, n1 := range grp {
			for _, n2 := range grp {
				if n1 == n2 {
					continue
				}
				for k := 1; k <= 2; k++ {
					emitMulti(c, minput{kind: "multi-names", cfgs: []mcfg{cfg4(k)}, files: []mfile{
						{from: n1, to: n1, act: "mod", a: x1, b: y1}, {from: n2, to: n2, act: "mod", a: x2, b: y2}}})
					// a rename to the twin name with an edit, next to an unrelated file
					emitMulti(c, minput{kind: "multi-names", cfgs: []mcfg{cfg4(k)}, files: []mfile{
						{from: n1, to: n2, act: "mod", a: x1, b: y1}, {from: 0, to: 0, act: "mod", a: x2, b: y2}}})
					// the twin name is created / deleted in the same commit
					emitMulti(c, minput{kind: "multi-names", cfgs: []mcfg{cfg4(k)}, files: []mfile{
						{from: n2, to: n2, act: "ins", b: x2}, {from: n1, to: n1, act: "mod", a: x1, b: y1}}})
				}
			}
		}
	}
}

var hashPrefixes = []int{1, 2, 4, 8, 16, -1, -2, -4, -8, -16}

// twinTexts: versions of one text in which one line is replaced by its normalisation twins
func twinTexts(r *rand.Rand) [][]byte {
	cl := twinClasses[r.Intn(len(twinClasses))]
	pre, post := "", ""
	if r.Intn(2) == 0 {
		pre = "k\n"
	}
	switch r.Intn(3) {
	case 0:
		post = "\n"
	case 1:
		post = "\nm\n"
	}
	var res [][]byte
	for _, x := range cl {
		res = append(res, []byte(pre+x+post))
	}
	r.Shuffle(len(res), func(i, j int) { res[i], res[j] = res[j], res[i] })
	return res
}

func genTwins(r *rand.Rand) []mfile {
	vs := twinTexts(r)
	k := 2 + r.Intn(3)
	if k > len(vs)-1 {
		k = len(vs) - 1
	}
	var fs []mfile
	other := join(r, randLines(r, 4))
	for i := 0; i < k; i++ {
		switch {
		case r.Intn(3) == 0:
			fs = append(fs, mfile{from: i, to: i, act: "mod", a: vs[i+1], b: vs[0]})
		case r.Intn(2) == 0:
			fs = append(fs, mfile{from: i, to: i, act: "mod", a: vs[0], b: vs[i+1]})
		default:
			fs = append(fs, mfile{from: i, to: i, act: "mod", a: vs[i], b: other})
		}
	}
	return fs
}

// decorate draws round-4 attributes for a commit of the random shapes: entry modes, twin names
func decorate(r *rand.Rand, fs []mfile) {
	if r.Intn(4) == 0 {
		for i := range fs {
			if r.Intn(2) == 0 {
				continue
			}
			m := allModes[r.Intn(4)] // no submodules here: their blobs are empty
			switch r.Intn(3) {
			case 0:
				fs[i].ma, fs[i].mb = m, m
			case 1:
				fs[i].ma = m
			default:
				fs[i].mb = m
			}
		}
	}
	if r.Intn(6) == 0 {
		groups := nameGroups()
		grp := groups[r.Intn(len(groups))]
		perm := r.Perm(len(grp))
		for i := range fs {
			if i >= len(perm) || fs[i].act != "mod" {
				break
			}
			if fs[i].from == fs[i].to {
				fs[i].from, fs[i].to = grp[perm[i]], grp[perm[i]]
			}
		}
	}
}

func generateMulti4(c *Config) {
	r := c.Rng
	generateModes(c)
	generateNames(c)
	for i := c.Count(1500, 40000); i > 0; i-- {
		kind, fs := genCommit(r, r.Intn(7), 0)
		_ = kind
		emitMulti(c, minput{kind: "multi-hashes", hp: hashPrefixes[r.Intn(len(hashPrefixes))], cfgs: []mcfg{multiCfg(r)}, files: fs})
	}
	for i := c.Count(1500, 40000); i > 0; i-- {
		in := minput{kind: "multi-twins", cfgs: []mcfg{multiCfg(r)}, files: genTwins(r)}
		if r.Intn(4) == 0 {
			in.hp = hashPrefixes[r.Intn(len(hashPrefixes))]
		}
		decorate(r, in.files)
		emitMulti(c, in)
	}
}
