CONFIG = dict(
        level='proof',
        streams=[dict(harness='c10', driver='c10', shrink_field='items')],
        rule='(i) every subset of the 9 registered leaf analyses x uast feature on/off deployed with Pipeline.DeployItem and resolved by '
             'Pipeline.Initialize (dry run), every registered item deployed alone, random synthetic roots requiring registered keys / item names / '
             'unknown keys with random features; (ii) synthetic PipelineItem sets resolved by Initialize (dry run): all 2- and 3-item sets over 2 '
             'entities, layered acyclic sets, a second / third provider added, arbitrary relations (cycles, unsatisfied requirements), same-named '
             'items, more than 12 items, malformed sets (a key listed twice, names colliding with generated node names). Each case is run 4 times '
             '(Go randomises map iteration). Non-trivial = at least 2 items and at least one requirement; distinct = distinct input '
             '(item list, or feature list + deployment list).',
        exhaustive_note='all 512 subsets of the registered leaf analyses x {uast off, uast on} (thorough: in two deployment orders), every '
                        'registered item alone x {off, on}; all 256 ordered pairs and all 816 multisets of 3 items whose provides/requires '
                        'are subsets of {a,b} (thorough: also 2 items over 3 entities)',
        assumptions=['item names and entity keys enter the model as integer ranks of the strings under byte-wise order (what resolve uses of '
                     'them: equality and Go string order); the replay driver computes the ranks, the bracketed key names "[k]" and the '
                     'disambiguated names "n_i"',
                     'sort.Sort of the items is the stable insertion sort (Go: at most 12 elements) or sorts pairwise distinct names; '
                     'item sets with more than 12 items AND equal names are outside the fine comparison (counted)',
                     'FindParents / BreadthSort / FindCycle iterate Go maps: the model takes the orders as choice arguments, the theorems '
                     'quantify over them; the driver accepts an implementation outcome if some of a family of 49 (on a miss up to 60) orders reproduces it',
                     'registry: one registered item per name (checked per run by the extracted reg_okb on the registry table read from the implementation)'],
        trusted_base=['hand-written Gallina models coq/theories/Pipeline/Resolve.v (Pipeline.resolve) and Deploy.v (Pipeline.DeployItem, '
                      'Registry.Summon) on top of coq/theories/Toposort/Model.v, tied to the code by the replay of every harness case',
                      'C15 theorems about Toposort/Model.v (Refine.v, Reach.v, Main.v) used by C10_unambiguous / C10_errors'],
        level_text='C10_order_checker_sound (validator order_ok: accepted order => permutation of the items, every requirement provided strictly '
                   'before, every provider not before transitively requires an output of the consumer), C10_unambiguous and C10_errors (at most one '
                   'provider per entity, all map orders, all name formattings: outcome decided completely - Unsatisfied iff a requirement has no '
                   'provider, SortFailure iff a cyclic requirement, otherwise an order with every item strictly after all its providers, a permutation), '
                   'C10_deploy_closure + C10_deploy_total (DeployItem terminates and adds exactly the least set closed under enabled providers/namesakes of requirements). '
                   'The chained (two-provider) case is decided per run by the proved-sound validator: partial.',
        level_note='Partial: no general theorem for the chaining block; C10_chained_norequire_{order,lost_item,panic}_refuted and C10_chained_shared_panic_refuted prove that the full statement is '
                   'false of the current code in two input regions decided by the extracted region_of (tags [chained:no-provider-requires-entity], '
                   '[chained:item-provides-two-ambiguous-entities]: known findings C10-K1/K2); every other region, all leaf subsets and all one-provider sets are clean. Modelled, not verified: the Go code (tie = replay); '
                   'fuel of BreadthSort/Toposort in the chained case is not proved sufficient (an out-of-fuel model outcome is reported as a mismatch; the deploy fuel is: C10_deploy_total).',
        technique='Coq proof over an executable model + extracted validator on implementation outputs + exhaustive replay of the finite leaf x feature scope',
        search_seconds=120,
    )
