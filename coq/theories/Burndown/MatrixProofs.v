(* From "the global history is the sum of the contributions of all commits" to "every cell of the dense
   matrix is the ground-truth cell". *)
From Coq Require Import List ZArith Lia Bool Permutation.
From Herc Require Import Burndown.Base Burndown.Dense Burndown.DenseProofs Burndown.Lifetimes Burndown.LifetimesFacts
  Burndown.AncFacts Burndown.Analysis Burndown.SparseFacts Burndown.AnalysisFacts Burndown.Replay
  Burndown.LinearProofs Burndown.CommitProofs Burndown.PlanProofs Burndown.DagProofs.
Import ListNotations.
Open Scope Z_scope.

Section Matrix.
  Variable h : hist.
  Hypothesis Hcf : conflict_free h = true.

  Lemma killer_tick pl : In pl (all_lines h) -> has_killer (snd pl) = true ->
    birth_tick h (snd pl) <= death_tick h (snd pl).
  Proof.
    intros Hin Hk. pose proof (line_ok h Hcf pl Hin) as Hl. unfold line_okb, has_killer in *.
    apply andb_prop in Hl. destruct Hl as [_ Hl]. apply orb_prop in Hl. destruct Hl as [Hl|Hl]; [lia|].
    apply andb_prop in Hl. destruct Hl as [_ Hl]. unfold birth_tick, death_tick. lia.
  Qed.

  (* the contributions of all commits, regrouped by line *)
  Lemma contrib_sum P :
    sum_z (map (contrib h P) (zrange (ncommits h))) =
    count (fun pl => P (birth_tick h (snd pl)) (birth_tick h (snd pl))) (all_lines h) -
    count (fun pl => has_killer (snd pl) && P (death_tick h (snd pl)) (birth_tick h (snd pl))) (all_lines h).
  Proof.
    unfold contrib.
    assert (E : forall (f g : Z -> Z) l, sum_z (map (fun c => f c - g c) l) = sum_z (map f l) - sum_z (map g l)).
    { intros f g l. induction l as [|x l IH]; [reflexivity|]. cbn [map]. rewrite !sum_z_cons, IH. lia. }
    rewrite (E (fun c => if P (tick_of h c) (tick_of h c) then count (fun pl => l_born (snd pl) =? c) (all_lines h) else 0)
               (fun c => count (fun pl => (l_killer (snd pl) =? c) && P (tick_of h c) (birth_tick h (snd pl))) (all_lines h))).
    f_equal.
    - rewrite <- (sum_bands (fun pl => P (birth_tick h (snd pl)) (birth_tick h (snd pl))) (fun pl => l_born (snd pl))
                           (all_lines h) 0 (Z.to_nat (ncommits h))).
      + unfold zrange. f_equal. apply map_ext. intros c.
        destruct (P (tick_of h c) (tick_of h c)) eqn:EP.
        * apply count_ext_in. intros pl _. destruct (Z.eqb_spec (l_born (snd pl)) c) as [<-|]; [|rewrite andb_false_r; reflexivity].
          unfold birth_tick. rewrite EP. reflexivity.
        * symmetry. unfold count. rewrite (filter_ext_in _ (fun _ => false)).
          { clear. induction (all_lines h); cbn; auto. }
          intros pl _. destruct (Z.eqb_spec (l_born (snd pl)) c) as [<-|]; [|rewrite andb_false_r; reflexivity].
          unfold birth_tick. rewrite EP. reflexivity.
      + intros pl Hin _. pose proof (born_range h Hcf pl Hin). unfold ncommits in *. lia.
    - rewrite <- (sum_bands (fun pl => has_killer (snd pl) && P (death_tick h (snd pl)) (birth_tick h (snd pl)))
                           (fun pl => l_killer (snd pl)) (all_lines h) 0 (Z.to_nat (ncommits h))).
      + unfold zrange. f_equal. apply map_ext_in. intros c Hc. apply zrange_from_in in Hc.
        apply count_ext_in. intros pl _. destruct (Z.eqb_spec (l_killer (snd pl)) c) as [<-|]; [|rewrite andb_false_r; reflexivity].
        unfold has_killer, death_tick. destruct (Z.leb_spec 0 (l_killer (snd pl))); [|lia]. cbn [andb].
        rewrite andb_true_r. reflexivity.
      + intros pl Hin E0. apply andb_prop in E0. destruct E0 as [E0 _].
        pose proof (killer_range h Hcf pl Hin E0). unfold ncommits in *. lia.
  Qed.

  Lemma count_diff {X} (fa fb ft : X -> bool) l :
    (forall x, In x l -> (if fa x then 1 else 0) - (if fb x then 1 else 0) = (if ft x then 1 else 0)) ->
    count fa l - count fb l = count ft l.
  Proof.
    induction l as [|x l IH]; intros Hx; [reflexivity|]. rewrite !count_cons.
    specialize (IH (fun y Hy => Hx y (or_intror Hy))). specialize (Hx x (or_introl eq_refl)). lia.
  Qed.

  Lemma quot_le_sample S s t : 1 <= S -> 0 <= t -> (Z.quot t S <=? s) = (t <=? (s + 1) * S - 1).
  Proof.
    intros HS Ht. rewrite Z.quot_div_nonneg by lia.
    destruct (Z.leb_spec (t / S) s), (Z.leb_spec t ((s + 1) * S - 1)); auto; exfalso.
    - assert (s + 1 <= t / S) by (apply Z.div_le_lower_bound; lia). lia.
    - assert (t / S < s + 1) by (apply Z.div_lt_upper_bound; lia). lia.
  Qed.

  (* with the weight of a cell this is the ground-truth cell *)
  Lemma contrib_truth G S s b : 1 <= G -> 1 <= S ->
    sum_z (map (contrib h (fun t k => (Z.quot t S <=? s) && (Z.quot k G =? b))) (zrange (ncommits h))) =
    truth_cell h G S keep_all s b.
  Proof.
    intros HG HS. rewrite contrib_sum. unfold truth_cell. apply count_diff. intros pl Hin.
    pose proof (birth_le_last h Hcf pl Hin) as [Hb0 _].
    rewrite !(quot_le_sample S s _ HS Hb0). rewrite (Z.quot_div_nonneg (birth_tick h (snd pl)) G) by lia.
    unfold keep_all, alive_at. cbn [andb].
    destruct (has_killer (snd pl)) eqn:Ek; cbn [andb negb].
    - pose proof (killer_tick pl Hin Ek) as Hbd.
      rewrite (quot_le_sample S s (death_tick h (snd pl)) HS) by lia.
      destruct (Z.leb_spec (birth_tick h (snd pl)) ((s + 1) * S - 1)),
               (Z.leb_spec (death_tick h (snd pl)) ((s + 1) * S - 1)),
               (birth_tick h (snd pl) / G =? b); cbn [andb negb]; lia.
    - rewrite andb_true_r. destruct (birth_tick h (snd pl) <=? (s + 1) * S - 1), (birth_tick h (snd pl) / G =? b); cbn; lia.
  Qed.
End Matrix.

(* C01_matrix, plans without merges: every cell of the dense project matrix is the ground-truth cell *)
Theorem matrix_cells_merge_free h cf aidx plan w G S M last :
  conflict_free h = true -> (forall c, 0 <= c < ncommits h -> tick_of h c < mark) -> (forall c, 0 <= znth 0 aidx c) ->
  plan_okb h plan = true -> merge_freeb plan = true -> run_hist cf h aidx plan = Ok w ->
  1 <= G -> 1 <= S -> group_sparse_history G S (s_gh (w_shared w)) (-1) = Ok (M, last) ->
  forall s b, 0 <= s <= last / S -> 0 <= b <= last / G -> cell M s b = truth_cell h G S keep_all s b.
Proof.
  intros Hcf Hmark Haidx Hok Hmf Er HG HS Eg s b Hs Hb.
  destruct (global_sparse_merge_free h cf aidx Hcf Hmark Haidx plan w Hok (merge_freeb_no_merges plan Hmf) Er) as [Hsum Hgh].
  assert (Hne : s_gh (w_shared w) <> []) by (intros E0; rewrite E0 in Eg; discriminate).
  destruct (gh_ok_dense mark (s_gh (w_shared w)) G S Hgh Hne HS HG) as (M0 & last0 & E0 & Hcell & _).
  rewrite Eg in E0. injection E0 as <- <-.
  rewrite Hcell by auto. rewrite Hsum. apply contrib_truth; auto.
Qed.

Print Assumptions matrix_cells_merge_free.

(* C01_matrix, any validated plan (merges included) *)
Theorem matrix_cells h cf aidx plan w G S M last :
  conflict_free h = true -> (forall c, 0 <= c < ncommits h -> tick_of h c < mark) -> (forall c, 0 <= znth 0 aidx c) ->
  plan_okb h plan = true -> run_hist cf h aidx plan = Ok w ->
  1 <= G -> 1 <= S -> group_sparse_history G S (s_gh (w_shared w)) (-1) = Ok (M, last) ->
  forall s b, 0 <= s <= last / S -> 0 <= b <= last / G -> cell M s b = truth_cell h G S keep_all s b.
Proof.
  intros Hcf Hmark Haidx Hok Er HG HS Eg s b Hs Hb.
  destruct (global_sparse h cf aidx Hcf Hmark Haidx plan w Hok Er) as (Hsum & Hgh & _).
  assert (Hne : s_gh (w_shared w) <> []) by (intros E0; rewrite E0 in Eg; discriminate).
  destruct (gh_ok_dense mark (s_gh (w_shared w)) G S Hgh Hne HS HG) as (M0 & last0 & E0 & Hcell & _).
  rewrite Eg in E0. injection E0 as <- <-.
  rewrite Hcell by auto. rewrite Hsum. apply contrib_truth; auto.
Qed.

Print Assumptions matrix_cells.

(* ---------- the dimensions: the largest key of the sparse history is the last event tick ---------- *)
Lemma gh_ok_dense_full T H G S : gh_ok T H -> H <> [] -> 1 <= S -> 1 <= G ->
  exists M last, group_sparse_history G S H (-1) = Ok (M, last) /\
    length M = Z.to_nat (last / S + 1) /\ (forall row, In row M -> length row = Z.to_nat (last / G + 1)) /\
    (forall s b, 0 <= s <= last / S -> 0 <= b <= last / G ->
       cell M s b = wsum (fun t k => (Z.quot t S <=? s) && (Z.quot k G =? b)) H) /\
    (forall t, In t (keys H) -> 0 <= t <= last) /\ In last (keys H).
Proof.
  intros (K1 & K2 & K3) Hne HS HG.
  set (last := last_z (sort_z (map fst H)) 0).
  assert (Hmax : forall t, In t (keys H) -> 0 <= t <= last).
  { intros t Ht. split; [apply (K3 t Ht)|]. unfold last. apply last_z_max; [apply sort_z_sorted|].
    apply (Permutation_in _ (sort_z_perm _)). exact Ht. }
  assert (Hin : In last (keys H)).
  { unfold last, keys. apply (Permutation_in _ (Permutation_sym (sort_z_perm (map fst H)))). apply last_z_in.
    intros E. pose proof (sort_z_perm (map fst H)) as Hp. rewrite E in Hp. apply Permutation_sym, Permutation_nil in Hp.
    destruct H; [congruence|discriminate]. }
  assert (Hdl : dense_last H (-1) = last) by reflexivity.
  destruct (C01_dense G S H (-1) HS HG Hne) as (M & EM & D1 & D2 & Hcell).
  - apply NoDup_nodup_zb. exact K1.
  - rewrite Hdl. unfold sparse_wfb. apply forallb_forall. intros tr Hin'.
    assert (Hk : In (fst tr) (keys H)) by (unfold keys; apply in_map; auto).
    destruct (Hmax _ Hk). apply andb_true_intro. split; [apply andb_true_intro; split; lia|].
    apply forallb_forall. intros kd Hkd. pose proof (K2 tr Hin' kd Hkd). lia.
  - rewrite Hdl in *. exists M, last. split; auto. split; auto. split; auto. split; auto.
    intros s b Hs Hb. rewrite Hcell by auto. apply spec_cell_wsum.
Qed.

Lemma nth_error_zrange_from : forall n a i, (i < n)%nat -> nth_error (zrange_from a n) i = Some (a + Z.of_nat i).
Proof.
  induction n as [|n IH]; intros a i Hi; [lia|]. destruct i as [|i]; cbn [zrange_from nth_error].
  - f_equal. lia.
  - rewrite IH by lia. f_equal. lia.
Qed.

Lemma list_eq_nth_error {X} : forall (l1 l2 : list X), (forall i, nth_error l1 i = nth_error l2 i) -> l1 = l2.
Proof.
  induction l1 as [|x l1 IH]; intros [|y l2] H; auto.
  - specialize (H 0%nat). discriminate.
  - specialize (H 0%nat). discriminate.
  - pose proof (H 0%nat) as H0. cbn in H0. injection H0 as ->. f_equal. apply IH. intros i. apply (H (S i)).
Qed.

Lemma nth_error_map_zrange {X} (f : Z -> X) n i : nth_error (map f (zrange (Z.of_nat n))) i =
  if Nat.ltb i n then Some (f (Z.of_nat i)) else None.
Proof.
  rewrite nth_error_map. unfold zrange. rewrite Nat2Z.id. destruct (Nat.ltb_spec i n).
  - rewrite nth_error_zrange_from by lia. reflexivity.
  - assert (E : nth_error (zrange_from 0 n) i = None) by (apply nth_error_None; rewrite zrange_from_length; lia).
    rewrite E. reflexivity.
Qed.

Lemma nested_eq (M : list (list Z)) N K : length M = N -> (forall row, In row M -> length row = K) ->
  M = map (fun s => map (fun b => cell M s b) (zrange (Z.of_nat K))) (zrange (Z.of_nat N)).
Proof.
  intros HN HK. apply list_eq_nth_error. intros i. rewrite nth_error_map_zrange.
  destruct (Nat.ltb_spec i N) as [Hi|Hi]; [|apply nth_error_None; lia].
  destruct (nth_error M i) as [row|] eqn:Er; [|apply nth_error_None in Er; lia].
  f_equal. assert (Hrow : In row M) by (eapply nth_error_In; eauto).
  assert (Eg : get_at M (Z.of_nat i) = Some row).
  { unfold get_at. destruct (Z.ltb_spec (Z.of_nat i) 0); [lia|]. rewrite Nat2Z.id. exact Er. }
  apply list_eq_nth_error. intros j. rewrite nth_error_map_zrange.
  destruct (Nat.ltb_spec j K) as [Hj|Hj]; [|apply nth_error_None; rewrite (HK row Hrow); lia].
  unfold cell. rewrite Eg. unfold get_at. destruct (Z.ltb_spec (Z.of_nat j) 0); [lia|]. rewrite Nat2Z.id.
  destruct (nth_error row j) eqn:Ej; [reflexivity|]. apply nth_error_None in Ej. rewrite (HK row Hrow) in Ej. lia.
Qed.

Section Dims.
  Variable h : hist.
  Hypothesis Hcf : conflict_free h = true.

  Lemma event_tick_le c : 0 <= c < ncommits h -> event h c = true -> tick_of h c <= last_event h.
  Proof.
    intros Hc He. unfold event in He. apply existsb_exists in He. destruct He as (pl & Hin & E).
    apply orb_prop in E. destruct E as [E|E]; apply Z.eqb_eq in E.
    - pose proof (birth_le_last h Hcf pl Hin) as [_ Hb]. unfold birth_tick in Hb. rewrite E in Hb. exact Hb.
    - assert (Hk : has_killer (snd pl) = true) by (unfold has_killer; apply Z.leb_le; lia).
      pose proof (death_le_last h pl Hin Hk) as Hd. unfold death_tick in Hd. rewrite E in Hd. exact Hd.
  Qed.

  Lemma last_event_le B : 0 <= B ->
    (forall pl, In pl (all_lines h) -> birth_tick h (snd pl) <= B /\ (has_killer (snd pl) = true -> death_tick h (snd pl) <= B)) ->
    last_event h <= B.
  Proof.
    intros HB Hall. unfold last_event. induction (all_lines h) as [|pl l IH]; [cbn; lia|].
    cbn [fold_right]. destruct (Hall pl (or_introl eq_refl)) as [H1 H2].
    specialize (IH (fun x Hx => Hall x (or_intror Hx))).
    destruct (has_killer (snd pl)); [specialize (H2 eq_refl)|]; lia.
  Qed.
End Dims.

(* C01_matrix: the dense project matrix IS the ground-truth matrix *)
Theorem matrix_eq h cf aidx plan w G S M last :
  conflict_free h = true -> (forall c, 0 <= c < ncommits h -> tick_of h c < mark) -> (forall c, 0 <= znth 0 aidx c) ->
  plan_okb h plan = true -> run_hist cf h aidx plan = Ok w ->
  1 <= G -> 1 <= S -> group_sparse_history G S (s_gh (w_shared w)) (-1) = Ok (M, last) ->
  M = truth_project h G S /\ last = last_event h.
Proof.
  intros Hcf Hmark Haidx Hok Er HG HS Eg.
  destruct (global_sparse h cf aidx Hcf Hmark Haidx plan w Hok Er) as (Hsum & Hgh & Hkeys).
  assert (Hne : s_gh (w_shared w) <> []) by (intros E0; rewrite E0 in Eg; discriminate).
  destruct (gh_ok_dense_full mark (s_gh (w_shared w)) G S Hgh Hne HS HG) as (M0 & last0 & E0 & D1 & D2 & Hcell & Hk1 & Hk2).
  rewrite Eg in E0. injection E0 as <- <-.
  assert (Hlast : last = last_event h).
  { apply Z.le_antisymm.
    - apply Hkeys in Hk2. destruct Hk2 as (c & Hc & He & <-). apply event_tick_le; auto.
    - apply last_event_le; auto.
      + destruct (Hk1 _ Hk2). lia.
      + intros pl Hin. split.
        * assert (In (birth_tick h (snd pl)) (keys (s_gh (w_shared w)))).
          { apply Hkeys. exists (l_born (snd pl)). split; [apply (born_range h Hcf pl Hin)|]. split; [|reflexivity].
            unfold event. apply existsb_exists. exists pl. split; auto. rewrite Z.eqb_refl. reflexivity. }
          apply Hk1 in H. lia.
        * intros Hk. assert (In (death_tick h (snd pl)) (keys (s_gh (w_shared w)))).
          { apply Hkeys. exists (l_killer (snd pl)). split; [apply (killer_range h Hcf pl Hin Hk)|]. split; [|reflexivity].
            unfold event. apply existsb_exists. exists pl. split; auto. rewrite Z.eqb_refl. apply orb_true_r. }
          apply Hk1 in H. lia. }
  split; [|exact Hlast].
  assert (H0S : 0 <= last / S) by (apply Z.div_pos; [destruct (Hk1 _ Hk2)|]; lia).
  assert (H0G : 0 <= last / G) by (apply Z.div_pos; [destruct (Hk1 _ Hk2)|]; lia).
  rewrite (nested_eq M (Z.to_nat (last / S + 1)) (Z.to_nat (last / G + 1)) D1 D2).
  unfold truth_project, truth_matrix. rewrite <- Hlast. rewrite !Z2Nat.id by lia.
  apply map_ext_in. intros s Hs. apply zrange_in in Hs. apply map_ext_in. intros b Hb. apply zrange_in in Hb.
  rewrite Hcell by lia. rewrite Hsum. apply contrib_truth; auto.
Qed.

Print Assumptions matrix_eq.

(* corollary: with a single head the last row of the implementation's matrix sums to the lines at HEAD *)
Theorem last_row_is_head h cf aidx plan w G S M last :
  conflict_free h = true -> single_head h = true ->
  (forall c, 0 <= c < ncommits h -> tick_of h c < mark) -> (forall c, 0 <= znth 0 aidx c) ->
  plan_okb h plan = true -> run_hist cf h aidx plan = Ok w ->
  1 <= G -> 1 <= S -> group_sparse_history G S (s_gh (w_shared w)) (-1) = Ok (M, last) ->
  sum_z (nth (Z.to_nat (last / S)) M []) = lines_at_head h.
Proof.
  intros Hcf Hsh Hmark Haidx Hok Er HG HS Eg.
  destruct (matrix_eq h cf aidx plan w G S M last Hcf Hmark Haidx Hok Er HG HS Eg) as [-> ->].
  rewrite <- (truth_project_last_row h G S HG HS Hcf Hsh).
  unfold truth_project. rewrite (truth_matrix_rows h G S keep_all).
  pose proof (last_event_nonneg h) as H0. assert (0 <= last_event h / S) by (apply Z.div_pos; lia).
  assert (E : nth_error (map (truth_row h G S keep_all) (zrange (last_event h / S + 1))) (Z.to_nat (last_event h / S)) =
              Some (truth_row h G S keep_all (last_event h / S))).
  { rewrite nth_error_map. unfold zrange. rewrite nth_error_zrange_from by lia. cbn [option_map]. f_equal. f_equal. lia. }
  rewrite (nth_error_nth _ _ _ E). reflexivity.
Qed.
Print Assumptions last_row_is_head.
