(* C07 - File.Merge on node lists (lifting the line-level theorems through flatten / rebuild) and
   BurndownAnalysis.Merge: after the merge all branches hold the same lines for every touched file. *)
From Coq Require Import List ZArith Lia Bool Arith.
From Herc Require Import FileMerge.Model FileMerge.LineProofs FileMerge.RebuildProofs.
Import ListNotations.
Open Scope Z_scope.

(* ------------------------------------------------------------------ values are preserved *)
Lemma step_cases l ol : step l ol = l \/ step l ol = ol.
Proof. unfold step. destruct (mark ol); auto. destruct (mark l || (tick l >? tick ol)); auto. Qed.

Lemma merge_one_Forall (P : Z -> Prop) : forall a o, Forall P a -> Forall P o -> Forall P (merge_one a o).
Proof.
  induction a as [|x a IH]; intros o Ha Ho; destruct o as [|y o]; cbn [merge_one]; auto.
  inversion Ha; inversion Ho; subst. constructor; [|apply IH; assumption].
  destruct (step_cases x y) as [-> | ->]; assumption.
Qed.

Lemma lines_merge_Forall (P : Z -> Prop) : forall day self others m reps,
  Forall P self -> Forall (Forall P) others -> P day ->
  lines_merge day self (map Some others) = Ok (m, reps) -> Forall P m.
Proof.
  intros day self others m reps Hs Ho Hd H. unfold lines_merge in H.
  destruct (merge_others self (map Some others)) as [m0|c] eqn:E; [|discriminate].
  rewrite stamp_pass_spec in H. injection H as <- _.
  assert (H0 : Forall P m0).
  { clear -Hs Ho E. revert self m0 Hs E. induction others as [|o others IH]; intros self m0 Hs E; cbn [map merge_others] in E.
    - congruence.
    - inversion Ho; subst. destruct (Nat.eqb (length self) (length o)); [|discriminate].
      apply (IH H2 _ _ (merge_one_Forall P _ _ Hs H1) E). }
  apply Forall_forall. intros v Hv. apply in_map_iff in Hv. destruct Hv as (l & <- & Hl).
  unfold stamp. destruct (mark l); [exact Hd|]. rewrite Forall_forall in H0. auto.
Qed.

(* ------------------------------------------------------------------ File.Merge on node lists *)
Definition nodes_ok (ns : nodes) : Prop := Forall (fun n : Z * Z => in_u32 (snd n)) ns.

Lemma mark_TreeEnd : mark TreeEnd = true.
Proof. reflexivity. Qed.

Theorem file_merge_lines : forall day self others ns reps,
  nodes_ok self -> Forall nodes_ok others -> in_u32 day ->
  Z.of_nat (length (flatten self)) < 4294967296 ->
  file_merge day self (map Some others) = Ok (ns, reps) ->
  lines_merge day (flatten self) (map Some (map flatten others)) = Ok (flatten ns, reps) /\
  (mark day = false -> wf_nodes ns).
Proof.
  intros day self others ns reps Hs Ho Hd Hn H. unfold file_merge in H.
  rewrite map_map in H. cbn [option_map] in H. rewrite <- (map_map flatten Some) in H.
  destruct (lines_merge day (flatten self) (map Some (map flatten others))) as [[m r]|c] eqn:E; [|discriminate].
  injection H as <- <-.
  assert (Hm : Forall in_u32 m).
  { eapply (lines_merge_Forall in_u32); [apply flatten_in_u32; exact Hs| |exact Hd|exact E].
    apply Forall_forall. intros f Hf. apply in_map_iff in Hf. destruct Hf as (o & <- & Hin).
    apply flatten_in_u32. rewrite Forall_forall in Ho. apply Ho. exact Hin. }
  destruct (lines_merge_length_no_mark _ _ _ _ _ E) as [HL HM]. rewrite <- HL in Hn.
  rewrite flatten_rebuild by assumption. split; [reflexivity|].
  intros Hmd. apply wf_nodes_b_sound. apply rebuild_wf; auto.
  eapply Forall_impl; [|exact (HM Hmd)]. intros v Hv Ev. subst v. rewrite mark_TreeEnd in Hv. discriminate.
Qed.

Theorem file_merge_refuses : forall day self others,
  In None others \/ (exists o, In (Some o) others /\ length (flatten o) <> length (flatten self)) ->
  exists c, file_merge day self others = Panic c.
Proof.
  intros day self others H.
  destruct (lines_merge_refuses day (flatten self) (map (option_map flatten) others)) as (c & E).
  - destruct H as [H|(o & Ho & Hl)].
    + left. apply in_map_iff. exists None. auto.
    + right. exists (flatten o). split; [|exact Hl]. apply in_map_iff. exists (Some o). auto.
  - exists c. unfold file_merge. rewrite E. reflexivity.
Qed.

Theorem file_merge_accepts : forall day self others,
  Forall (fun o => length (flatten o) = length (flatten self)) others ->
  exists ns reps, file_merge day self (map Some others) = Ok (ns, reps).
Proof.
  intros day self others H. unfold file_merge. rewrite map_map. cbn [option_map]. rewrite <- (map_map flatten Some).
  destruct (lines_merge_accepts day (flatten self) (map flatten others)) as (m & reps & E).
  - apply Forall_forall. intros f Hf. apply in_map_iff in Hf. destruct Hf as (o & <- & Hin).
    rewrite Forall_forall in H. auto.
  - rewrite E. eauto.
Qed.

(* ------------------------------------------------------------------ finite maps as association lists *)
Lemma lookup_remove_same {A} k (m : list (Z * A)) : lookup k (remove k m) = None.
Proof.
  induction m as [|[k' a] m IH]; cbn [remove lookup]; [reflexivity|].
  destruct (Z.eqb_spec k k'); [exact IH|]. cbn [lookup]. destruct (Z.eqb_spec k k'); [contradiction|exact IH].
Qed.

Lemma lookup_remove_other {A} k k' (m : list (Z * A)) : k' <> k -> lookup k' (remove k m) = lookup k' m.
Proof.
  intros Hne. induction m as [|[k0 a] m IH]; cbn [remove lookup]; [reflexivity|].
  destruct (Z.eqb_spec k k0).
  - subst k0. destruct (Z.eqb_spec k' k); [contradiction|exact IH].
  - cbn [lookup]. destruct (Z.eqb_spec k' k0); [reflexivity|exact IH].
Qed.

Lemma lookup_set_same {A} k (a : A) m : lookup k (set k a m) = Some a.
Proof. unfold set. cbn [lookup]. rewrite Z.eqb_refl. reflexivity. Qed.

Lemma lookup_set_other {A} k k' (a : A) m : k' <> k -> lookup k' (set k a m) = lookup k' m.
Proof.
  intros Hne. unfold set. cbn [lookup]. destruct (Z.eqb_spec k' k); [contradiction|].
  apply lookup_remove_other. exact Hne.
Qed.

(* ------------------------------------------------------------------ one key *)
(* what every branch holds for path k, in branch order *)
Definition col (k : Z) (all : list branch) : list (option (list Z)) := map (fun b => lookup k (files b)) all.
Definition holders (k : Z) (all : list branch) : list (list Z) :=
  flat_map (fun o : option (list Z) => match o with Some f => [f] | None => [] end) (col k all).

Lemma holders_eq k all :
  flat_map (fun b => match lookup k (files b) with Some f => [f] | None => [] end) all = holders k all.
Proof. unfold holders, col. induction all as [|b all IH]; cbn [flat_map map]; [reflexivity|]. rewrite IH. reflexivity. Qed.

Lemma holders_nil k all : holders k all = [] -> col k all = repeat None (length all).
Proof.
  unfold holders. rewrite <- (map_length (fun b => lookup k (files b)) all). fold (col k all).
  induction (col k all) as [|o c IH]; cbn [flat_map repeat length]; [reflexivity|].
  destruct o as [f|]; [discriminate|]. cbn [app]. intros H. f_equal. apply IH. exact H.
Qed.

(* the effect of one key on the column of any path *)
Lemma merge_key_col : forall day all k v all' reps,
  merge_key day all (k, v) = Ok (all', reps) ->
  length all' = length all /\
  (forall k', k' <> k -> col k' all' = col k' all) /\
  (if v then
     match holders k all with
     | [] => col k all' = repeat None (length all) /\ reps = []
     | f0 :: rest => exists m, lines_merge day f0 (map Some rest) = Ok (m, reps) /\
                     col k all' = repeat (Some (flatten (rebuild m))) (length all)
     end
   else col k all' = repeat None (length all) /\ reps = []).
Proof.
  intros day all k v all' reps H. unfold merge_key in H. destruct v; cbn [negb] in H.
  - rewrite holders_eq in H. destruct (holders k all) as [|f0 rest] eqn:Eh.
    + injection H as <- <-. repeat split; auto. apply holders_nil. exact Eh.
    + destruct (lines_merge day f0 (map Some rest)) as [[m r]|c]; [|discriminate]. injection H as <- <-.
      repeat split.
      * apply map_length.
      * intros k' Hne. unfold col. rewrite map_map. apply map_ext. intros b. cbn [set_file files].
        apply lookup_set_other. exact Hne.
      * exists m. split; [reflexivity|]. unfold col. rewrite map_map. clear.
        induction all as [|b all IH]; cbn [map length repeat]; [reflexivity|].
        rewrite IH. cbn [set_file files]. rewrite lookup_set_same. reflexivity.
  - injection H as <- <-. repeat split.
    + apply map_length.
    + intros k' Hne. unfold col. rewrite map_map. apply map_ext. intros b. cbn [remove_file files].
      apply lookup_remove_other. exact Hne.
    + unfold col. rewrite map_map. clear. induction all as [|b all IH]; cbn [map length repeat]; [reflexivity|].
      rewrite IH. cbn [remove_file files]. rewrite lookup_remove_same. reflexivity.
Qed.

(* all branches agree on path k *)
Definition agree_on (k : Z) (all : list branch) : Prop :=
  forall b1 b2, In b1 all -> In b2 all -> lookup k (files b1) = lookup k (files b2).

Lemma agree_on_col k all : agree_on k all <-> exists x, col k all = repeat x (length all).
Proof.
  split.
  - intros H. destruct all as [|b0 all]; [exists None; reflexivity|].
    exists (lookup k (files b0)). unfold col.
    assert (Hall : forall b, In b (b0 :: all) -> lookup k (files b) = lookup k (files b0)).
    { intros b Hb. apply H; [exact Hb|left; reflexivity]. }
    clear H. induction (b0 :: all) as [|b l IH]; cbn [map length repeat]; [reflexivity|].
    rewrite (Hall b (or_introl eq_refl)). f_equal. apply IH. intros b' Hb'. apply Hall. right. exact Hb'.
  - intros (x & Hx) b1 b2 H1 H2.
    assert (Hall : forall b, In b all -> lookup k (files b) = x).
    { intros b Hb. apply (in_map (fun b => lookup k (files b))) in Hb. fold (col k all) in Hb.
      rewrite Hx in Hb. apply repeat_spec in Hb. exact Hb. }
    rewrite (Hall b1 H1), (Hall b2 H2). reflexivity.
Qed.

Lemma merge_key_agree : forall day all k v all' reps,
  merge_key day all (k, v) = Ok (all', reps) -> agree_on k all'.
Proof.
  intros day all k v all' reps H. destruct (merge_key_col _ _ _ _ _ _ H) as (HL & _ & HC).
  apply agree_on_col. rewrite HL. destruct v.
  - destruct (holders k all); [destruct HC; eauto|destruct HC as (m & _ & HC); eauto].
  - destruct HC; eauto.
Qed.

Lemma merge_key_keeps_agree : forall day all kv all' reps k,
  merge_key day all kv = Ok (all', reps) -> agree_on k all -> agree_on k all'.
Proof.
  intros day all [k0 v] all' reps k H Ha. destruct (Z.eq_dec k k0) as [->|Hne].
  - eapply merge_key_agree; eauto.
  - destruct (merge_key_col _ _ _ _ _ _ H) as (HL & HF & _).
    apply agree_on_col. apply agree_on_col in Ha. destruct Ha as (x & Hx). exists x.
    rewrite (HF k Hne), HL. exact Hx.
Qed.

(* ------------------------------------------------------------------ the loop over the keys *)
Lemma merge_keys_keeps_agree : forall day ks all all' reps k,
  merge_keys day ks all = Ok (all', reps) -> agree_on k all -> agree_on k all'.
Proof.
  intros day. induction ks as [|kv ks IH]; intros all all' reps k H Ha; cbn [merge_keys] in H.
  - injection H as <- _. exact Ha.
  - destruct (merge_key day all kv) as [[all1 r1]|c] eqn:E1; [|discriminate].
    destruct (merge_keys day ks all1) as [[all2 r2]|c] eqn:E2; [|discriminate].
    injection H as <- _. eapply IH; eauto. eapply merge_key_keeps_agree; eauto.
Qed.

Theorem merge_keys_agree : forall day ks all all' reps,
  merge_keys day ks all = Ok (all', reps) ->
  length all' = length all /\ forall k, In k (map fst ks) -> agree_on k all'.
Proof.
  intros day. induction ks as [|[k0 v0] ks IH]; intros all all' reps H; cbn [merge_keys] in H.
  - injection H as <- _. split; [reflexivity|intros k []].
  - destruct (merge_key day all (k0, v0)) as [[all1 r1]|c] eqn:E1; [|discriminate].
    destruct (merge_keys day ks all1) as [[all2 r2]|c] eqn:E2; [|discriminate].
    injection H as <- _. destruct (IH _ _ _ E2) as [HL HA]. split.
    + rewrite HL. apply (merge_key_col _ _ _ _ _ _ E1).
    + intros k [<-|Hk]; [|apply HA; exact Hk]. cbn [fst].
      eapply merge_keys_keeps_agree; eauto. eapply merge_key_agree; eauto.
Qed.

(* paths that the merge commit did not touch keep their content in every branch *)
Theorem merge_keys_frame : forall day ks all all' reps k,
  merge_keys day ks all = Ok (all', reps) -> ~ In k (map fst ks) -> col k all' = col k all.
Proof.
  intros day. induction ks as [|[k0 v0] ks IH]; intros all all' reps k H Hk; cbn [merge_keys] in H.
  - injection H as <- _. reflexivity.
  - destruct (merge_key day all (k0, v0)) as [[all1 r1]|c] eqn:E1; [|discriminate].
    destruct (merge_keys day ks all1) as [[all2 r2]|c] eqn:E2; [|discriminate].
    injection H as <- _. cbn [map fst In] in Hk.
    rewrite (IH _ _ _ _ E2) by tauto. apply (merge_key_col _ _ _ _ _ _ E1). intros ->. tauto.
Qed.

(* what the branches agree on: the line-rule merge of the non-nil copies, in branch order *)
Theorem merge_keys_content : forall day ks all all' reps k,
  NoDup (map fst ks) -> merge_keys day ks all = Ok (all', reps) -> In (k, true) ks ->
  match holders k all with
  | [] => col k all' = repeat None (length all')
  | f0 :: rest => exists m r, lines_merge day f0 (map Some rest) = Ok (m, r) /\
                  col k all' = repeat (Some (flatten (rebuild m))) (length all')
  end.
Proof.
  intros day. induction ks as [|[k0 v0] ks IH]; intros all all' reps k Hnd H Hin; [destruct Hin|].
  cbn [merge_keys] in H. cbn [map fst] in Hnd. inversion Hnd as [|? ? Hk0 Hnd']; subst.
  destruct (merge_key day all (k0, v0)) as [[all1 r1]|c] eqn:E1; [|discriminate].
  destruct (merge_keys day ks all1) as [[all2 r2]|c] eqn:E2; [|discriminate].
  injection H as <- _. destruct (merge_key_col _ _ _ _ _ _ E1) as (HL1 & HF1 & HC1).
  destruct (merge_keys_agree _ _ _ _ _ E2) as [HL2 _].
  destruct Hin as [Hin|Hin].
  - injection Hin as -> ->. rewrite (merge_keys_frame _ _ _ _ _ _ E2 Hk0). rewrite HL2.
    destruct (holders k all) as [|f0 rest]; [rewrite HL1; apply HC1|].
    destruct HC1 as (m & Hm & Hc). exists m, r1. rewrite HL1. auto.
  - assert (Hne : k <> k0).
    { intros ->. apply Hk0. apply (in_map fst) in Hin. exact Hin. }
    specialize (IH all1 all2 r2 k Hnd' E2 Hin). unfold holders in *. rewrite (HF1 k Hne) in IH. exact IH.
Qed.

(* ------------------------------------------------------------------ the key set *)
Lemma keys_or_fst ks k v :
  map fst (keys_or ks (k, v)) = match lookup k ks with None => map fst ks ++ [k] | Some _ => map fst ks end.
Proof.
  unfold keys_or. destruct (lookup k ks) as [old|].
  - rewrite map_map. apply map_ext_in. intros [k' v'] _. cbn [fst]. destruct (Z.eqb_spec k' k); cbn [fst]; congruence.
  - rewrite map_app. reflexivity.
Qed.

Lemma lookup_None_fst {A} k (m : list (Z * A)) : lookup k m = None <-> ~ In k (map fst m).
Proof.
  induction m as [|[k' a] m IH]; cbn [lookup map fst In]; [tauto|].
  destruct (Z.eqb_spec k k'); [split; [discriminate|intros H; exfalso; apply H; auto]|].
  rewrite IH. split; [intros H [E|E]; [congruence|tauto]|tauto].
Qed.

Lemma NoDup_snoc (l : list Z) k : NoDup l -> ~ In k l -> NoDup (l ++ [k]).
Proof.
  induction l as [|x l IH]; intros H E; cbn [app]; [constructor; [intros []|constructor]|].
  inversion H; subst. constructor.
  - rewrite in_app_iff. cbn [In] in *. intros [Hx|[Hx|[]]]; [tauto|]. subst. tauto.
  - apply IH; [assumption|]. cbn [In] in E. tauto.
Qed.

Lemma keys_or_NoDup ks kv : NoDup (map fst ks) -> NoDup (map fst (keys_or ks kv)).
Proof.
  destruct kv as [k v]. intros H. rewrite keys_or_fst. destruct (lookup k ks) eqn:E; [exact H|].
  apply lookup_None_fst in E. apply NoDup_snoc; assumption.
Qed.

Lemma keys_or_In ks kv k : In k (map fst (keys_or ks kv)) <-> In k (map fst ks) \/ k = fst kv.
Proof.
  destruct kv as [k0 v]. rewrite keys_or_fst. cbn [fst]. destruct (lookup k0 ks) eqn:E.
  - split; [auto|]. intros [H| ->]; [exact H|].
    destruct (in_dec Z.eq_dec k0 (map fst ks)) as [Hin|Hin]; [exact Hin|].
    apply lookup_None_fst in Hin. congruence.
  - rewrite in_app_iff. cbn [In]. split; [intros [H|[H|[]]]; auto|intros [H| ->]; auto].
Qed.

Lemma fold_keys_or_spec : forall entries ks,
  NoDup (map fst ks) ->
  NoDup (map fst (fold_left keys_or entries ks)) /\
  forall k, In k (map fst (fold_left keys_or entries ks)) <-> In k (map fst ks) \/ In k (map fst entries).
Proof.
  induction entries as [|e entries IH]; intros ks H; cbn [fold_left map In].
  - split; [exact H|tauto].
  - destruct (IH _ (keys_or_NoDup ks e H)) as [H1 H2]. split; [exact H1|].
    intros k. rewrite H2, keys_or_In. split; [intros [[A|A]|A]; auto|intros [A|[A|A]]; auto].
Qed.

Theorem collect_keys_spec : forall all,
  NoDup (map fst (collect_keys all)) /\
  forall k, In k (map fst (collect_keys all)) <-> exists b, In b all /\ In k (map fst (merged b)).
Proof.
  intros all. unfold collect_keys.
  assert (G : forall all ks, NoDup (map fst ks) ->
     NoDup (map fst (fold_left (fun ks b => fold_left keys_or (merged b) ks) all ks)) /\
     forall k, In k (map fst (fold_left (fun ks b => fold_left keys_or (merged b) ks) all ks)) <->
               In k (map fst ks) \/ exists b, In b all /\ In k (map fst (merged b))).
  { clear all. induction all as [|b all IH]; intros ks H; cbn [fold_left].
    - split; [exact H|]. intros k. split; [auto|]. intros [A|(b & [] & _)]. exact A.
    - destruct (fold_keys_or_spec (merged b) ks H) as [H1 H2]. destruct (IH _ H1) as [H3 H4].
      split; [exact H3|]. intros k. rewrite H4, H2. split.
      + intros [[A|A]|(b' & Hb' & A)]; auto; right; [exists b|exists b']; cbn [In]; auto.
      + intros [A|(b' & [<-|Hb'] & A)]; auto. right. exists b'. auto. }
  destruct (G all [] (NoDup_nil _)) as [G1 G2]. split; [exact G1|].
  intros k. rewrite G2. cbn [map In]. tauto.
Qed.

(* ------------------------------------------------------------------ BurndownAnalysis.Merge *)
Theorem analysis_merge_agree : forall people author tk all all' reps,
  analysis_merge people author tk all = Ok (all', reps) ->
  length all' = length all /\
  forall k, (exists b, In b all /\ In k (map fst (merged b))) -> agree_on k all'.
Proof.
  intros people author tk all all' reps H. unfold analysis_merge in H.
  destruct (merge_keys_agree _ _ _ _ _ H) as [HL HA]. split; [exact HL|].
  intros k Hk. apply HA. apply collect_keys_spec. exact Hk.
Qed.

Lemma fork_agree n b k : agree_on k (fork n b).
Proof. intros b1 b2 H1 H2. apply repeat_spec in H1. apply repeat_spec in H2. subst. reflexivity. Qed.
