(* C02: every plan the real planner produced is validated by the extracted, proved-sound [plan_ok]
   (theorem C02_checker_sound).  There is no Gallina mirror of the planner: a rejected plan is a
   property failure (translation validation), never a mere mismatch.

   Mode [run] (driver argument, stream c02run): the log of the Consume calls of the real Pipeline.Run
   (one log per recording item) is judged against the commit graph alone by the extracted,
   proved-sound [exec_ok] (theorem C02_exec_checker_sound).  A rejected log, a panic or an error of
   Run is a property failure. *)
open C02_model
open Conv

let action_of_sx (s : sx) : action =
  let k = match tag s with
    | "C" -> KCommit | "F" -> KFork | "M" -> KMerge | "E" -> KEmerge
    | "D" -> KDelete | "H" -> KHibernate | "B" -> KBoot
    | t -> failwith ("unknown action " ^ t) in
  match args s with
  | c :: its ->
      let c = int_of_sx c in
      { kind = k; commit = (if c >= 0 then Some (nat_of_int c) else None);
        items = List.map (fun x -> z_of_int (int_of_sx x)) its }
  | [] -> failwith "action without commit field"

let graph_of_case (c : sx) : nat list list =
  let n = int_of_sx (List.hd (args (field "n" c))) in
  let ps = Array.make n [] in
  List.iter (fun e -> match list_of_sx e with
    | [ch; p] -> let ch = int_of_sx ch and p = int_of_sx p in
        if p >= 0 then ps.(ch) <- p :: ps.(ch)
    | _ -> failwith "edge") (args (field "edges" c));
  Array.to_list (Array.map (fun l -> List.map nat_of_int (List.rev l)) ps)

let add k n = Hashtbl.replace counters k (n + try Hashtbl.find counters k with Not_found -> 0)

(* (r commit last seen...) ; last = -1: the instance had consumed nothing *)
let record_of_sx (s : sx) : consume_record =
  match args s with
  | c :: l :: seen ->
      let c = int_of_sx c and l = int_of_sx l in
      if c < 0 then failwith "record of a commit outside the analysed set";
      { rc_commit = nat_of_int c; rc_seen = List.map (fun x -> nat_of_int (int_of_sx x)) seen;
        rc_last = (if l >= 0 then Some (nat_of_int l) else None) }
  | _ -> failwith "record"

let show_log (l : sx) : string =
  let s = string_of_sx l in if String.length s > 600 then String.sub s 0 600 ^ "..." else s

let run_mode () =
  iter_cases (fun id c ->
    let g = graph_of_case c in
    let obs = field "obs" c in
    let status = atom (List.hd (args (field "run" obs))) in
    count "runs";
    (* roots of the analysed component = Consume calls on an instance that had consumed nothing *)
    let roots = List.length (List.filter (fun r -> int_of_sx (List.nth (args r) 1) < 0) (args (field "log0" obs))) in
    count (Printf.sprintf "runs_with_%s_fresh_starts" (if roots >= 5 then "5plus" else string_of_int roots));
    if status <> "ok" then
      propfail id ("Pipeline.Run did not complete on a commit graph: " ^ status)
    else
      List.iter (fun name ->
        let l = field name obs in
        count "logs_judged";
        add "consume_records" (List.length (args l));
        let foreign = List.exists (fun r -> int_of_sx (List.hd (args r)) < 0) (args l) in
        if foreign then propfail id ("a commit outside the given commit set was consumed: " ^ name ^ "=" ^ show_log l)
        else if exec_ok g (List.map record_of_sx (args l)) then count "logs_accepted"
        else propfail id (Printf.sprintf "the Consume log of the real Pipeline.Run is rejected by exec_ok: %s=%s" name (show_log l)))
        ["log0"; "log1"])

let plan_mode () =
  iter_cases (fun id c ->
    let g = graph_of_case c in
    let obs = args (field "obs" c) in
    let mult = match List.filter (fun x -> tag x = "mult") obs with
      | m :: _ -> int_of_sx (List.hd (args m)) | [] -> 1 in
    let plans = List.find (fun x -> tag x = "plans") obs in
    add "graph_orders_or_plannings" mult;
    (match args plans with
     | [p] when tag p = "panic" ->
         propfail id ("the planner panicked (" ^ string_of_sx p ^ ") on a commit graph")
     | ps ->
         List.iteri (fun i p ->
           add "plans_produced" mult;
           count "plans_validated";
           let plan = List.map action_of_sx (args p) in
           if plan_ok g plan then count "plans_accepted"
           else propfail id (Printf.sprintf "plan #%d of the real planner is rejected by plan_ok: %s" (i + 1) (string_of_sx p)))
           ps))

let () =
  if Array.length Sys.argv > 1 && Sys.argv.(1) = "run" then run_mode () else plan_mode ()
