(* The ancestor table [ancs h] (bit vectors built commit by commit) is reflexive, transitive, and only
   relates a commit to earlier-or-equal commits - whenever parents are earlier commits (commits_okb). *)
From Coq Require Import List ZArith Lia Bool.
From Herc Require Import Burndown.Base Burndown.Lifetimes Burndown.LifetimesFacts.
Import ListNotations.
Open Scope Z_scope.

Definition vget (v : list bool) (a : Z) : bool := znth false v a.

Lemma vget_nil a : vget [] a = false.
Proof. unfold vget, znth. destruct (a <? 0); auto. destruct (Z.to_nat a); reflexivity. Qed.

Lemma vget_cons x v a : vget (x :: v) a = if a =? 0 then x else if a <? 0 then false else vget v (a - 1).
Proof.
  unfold vget, znth. destruct (Z.ltb_spec a 0); [destruct (Z.eqb_spec a 0); [lia|]; reflexivity|].
  destruct (Z.eqb_spec a 0) as [->|Hne]; [reflexivity|].
  destruct (Z.ltb_spec (a - 1) 0); [lia|].
  replace (Z.to_nat a) with (S (Z.to_nat (a - 1))) by lia. reflexivity.
Qed.

Lemma vget_range v a : vget v a = true -> 0 <= a < Z.of_nat (length v).
Proof.
  unfold vget, znth. destruct (Z.ltb_spec a 0); [discriminate|]. intros E.
  destruct (Nat.ltb_spec (Z.to_nat a) (length v)); [lia|]. rewrite nth_overflow in E by lia. discriminate.
Qed.

Lemma orvec_length a b : length (orvec a b) = length a.
Proof. revert b; induction a as [|x a IH]; intros [|y b]; cbn; auto. Qed.

Lemma vget_orvec a b i : length a = length b -> vget (orvec a b) i = vget a i || vget b i.
Proof.
  revert b i. induction a as [|x a IH]; intros [|y b] i HL; cbn in HL; try lia.
  - cbn. rewrite vget_nil. reflexivity.
  - cbn [orvec]. rewrite !vget_cons. destruct (i =? 0); [reflexivity|]. destruct (i <? 0); [reflexivity|].
    apply IH. lia.
Qed.

Lemma setbit_length i v : length (setbit i v) = length v.
Proof. revert i; induction v as [|x v IH]; intros [|i]; cbn; auto. Qed.

Lemma vget_setbit i v a : vget (setbit i v) a = ((a =? Z.of_nat i) && (Z.of_nat i <? Z.of_nat (length v))) || vget v a.
Proof.
  revert i a. induction v as [|x v IH]; intros i a.
  - assert (E : (Z.of_nat i <? Z.of_nat (@length bool [])) = false) by (apply Z.ltb_ge; cbn; lia).
    rewrite E, andb_false_r. destruct i; cbn [setbit]; rewrite vget_nil; reflexivity.
  - destruct i as [|i]; cbn [setbit].
    + rewrite !vget_cons. cbn [length]. destruct (Z.eqb_spec a 0) as [->|Hne].
      * cbn. destruct (Z.ltb_spec 0 (Z.of_nat (S (length v)))); [reflexivity|lia].
      * destruct (Z.eqb_spec a (Z.of_nat 0)); [cbn in *; lia|]. reflexivity.
    + rewrite !vget_cons. cbn [length]. destruct (Z.eqb_spec a 0) as [->|Hne].
      * destruct (Z.eqb_spec 0 (Z.of_nat (S i))); [lia|]. reflexivity.
      * destruct (Z.ltb_spec a 0).
        { destruct (Z.eqb_spec a (Z.of_nat (S i))); [lia|]. reflexivity. }
        rewrite IH. f_equal. f_equal.
        { destruct (Z.eqb_spec (a - 1) (Z.of_nat i)), (Z.eqb_spec a (Z.of_nat (S i))); try lia; reflexivity. }
        { destruct (Z.ltb_spec (Z.of_nat i) (Z.of_nat (length v))), (Z.ltb_spec (Z.of_nat (S i)) (Z.of_nat (S (length v)))); try lia; reflexivity. }
Qed.

Section Anc.
  Variable n : nat.
  Notation row acc p := (znth (repeat false n) acc p).

  Lemma fold_or_length (acc : list (list bool)) ps v :
    (forall r, In r acc -> length r = n) -> length v = n ->
    length (fold_left (fun v p => orvec v (row acc p)) ps v) = n.
  Proof.
    intros Hacc. revert v. induction ps as [|p ps IH]; intros v Hv; cbn [fold_left]; auto.
    apply IH. rewrite orvec_length. exact Hv.
  Qed.

  Lemma row_length (acc : list (list bool)) p : (forall r, In r acc -> length r = n) -> length (row acc p) = n.
  Proof.
    intros Hacc. unfold znth. destruct (p <? 0); [apply repeat_length|].
    destruct (Nat.ltb_spec (Z.to_nat p) (length acc)).
    - apply Hacc. apply nth_In. lia.
    - rewrite nth_overflow by lia. apply repeat_length.
  Qed.

  Lemma vget_fold_or (acc : list (list bool)) ps : (forall r, In r acc -> length r = n) ->
    forall v a, length v = n ->
    vget (fold_left (fun v p => orvec v (row acc p)) ps v) a = vget v a || existsb (fun p => vget (row acc p) a) ps.
  Proof.
    intros Hacc. induction ps as [|p ps IH]; intros v a Hv; cbn [fold_left existsb].
    - rewrite orb_false_r. reflexivity.
    - rewrite IH by (rewrite orvec_length; exact Hv).
      rewrite vget_orvec by (rewrite row_length; auto). rewrite orb_assoc. reflexivity.
  Qed.

  Lemma vget_repeat_false m a : vget (repeat false m) a = false.
  Proof.
    destruct (vget (repeat false m) a) eqn:E; auto.
    unfold vget, znth in E. destruct (a <? 0); [discriminate|].
    destruct (Nat.ltb_spec (Z.to_nat a) m).
    - assert (In (nth (Z.to_nat a) (repeat false m) false) (repeat false m)) by (apply nth_In; rewrite repeat_length; lia).
      apply repeat_spec in H0. congruence.
    - rewrite nth_overflow in E by (rewrite repeat_length; lia). discriminate.
  Qed.

  (* the invariant of the table built so far *)
  Definition table_ok (acc : list (list bool)) : Prop :=
    (length acc <= n)%nat /\
    (forall r, In r acc -> length r = n) /\
    (forall c a, 0 <= c < Z.of_nat (length acc) -> vget (row acc c) a = true -> 0 <= a <= c) /\
    (forall c, 0 <= c < Z.of_nat (length acc) -> vget (row acc c) c = true) /\
    (forall c k a, 0 <= c < Z.of_nat (length acc) -> vget (row acc c) k = true -> vget (row acc k) a = true ->
                   vget (row acc c) a = true).

  Lemma row_app_old (acc : list (list bool)) r c : 0 <= c < Z.of_nat (length acc) -> row (acc ++ [r]) c = row acc c.
  Proof.
    intros Hc. unfold znth. destruct (Z.ltb_spec c 0); [lia|]. rewrite app_nth1 by lia. reflexivity.
  Qed.
  Lemma row_app_new (acc : list (list bool)) r : row (acc ++ [r]) (Z.of_nat (length acc)) = r.
  Proof.
    unfold znth. destruct (Z.ltb_spec (Z.of_nat (length acc)) 0); [lia|].
    rewrite Nat2Z.id, app_nth2 by lia. rewrite Nat.sub_diag. reflexivity.
  Qed.

  Lemma table_step acc ps : table_ok acc -> (length acc < n)%nat ->
    (forall p, In p ps -> 0 <= p < Z.of_nat (length acc)) ->
    table_ok (acc ++ [anc_row n acc ps]).
  Proof.
    intros (T0 & T1 & T2 & T3 & T4) Hlt Hps.
    set (m := Z.of_nat (length acc)).
    assert (Hrl : length (anc_row n acc ps) = n).
    { unfold anc_row. rewrite setbit_length. apply fold_or_length; auto. apply repeat_length. }
    assert (Hnew : forall a, vget (anc_row n acc ps) a = (a =? m) || existsb (fun p => vget (row acc p) a) ps).
    { intros a. unfold anc_row. rewrite vget_setbit. rewrite fold_or_length by (auto; apply repeat_length).
      rewrite vget_fold_or by (auto; apply repeat_length). rewrite vget_repeat_false. cbn [orb].
      fold m. destruct (Z.ltb_spec m (Z.of_nat n)); [|unfold m in *; lia]. rewrite andb_true_r. reflexivity. }
    assert (Hlen : length (acc ++ [anc_row n acc ps]) = S (length acc)) by (rewrite app_length; cbn; lia).
    split; [lia|]. split.
    { intros r Hr. apply in_app_or in Hr. destruct Hr as [Hr|[<-|[]]]; auto. }
    assert (Hrow : forall c, 0 <= c < Z.of_nat (S (length acc)) ->
              (c < m /\ row (acc ++ [anc_row n acc ps]) c = row acc c) \/
              (c = m /\ row (acc ++ [anc_row n acc ps]) c = anc_row n acc ps)).
    { intros c Hc. destruct (Z.lt_ge_cases c m).
      - left. split; auto. apply row_app_old. unfold m in *. lia.
      - right. assert (c = m) by (unfold m in *; lia). subst c. split; auto. apply row_app_new. }
    rewrite Hlen. split; [|split].
    - intros c a Hc Hv. destruct (Hrow c Hc) as [[Hlt' E]|[-> E]]; rewrite E in Hv.
      + apply (T2 c a); auto. unfold m in *. lia.
      + rewrite Hnew in Hv. apply orb_prop in Hv. destruct Hv as [Hv|Hv].
        * apply Z.eqb_eq in Hv. unfold m in *. lia.
        * apply existsb_exists in Hv. destruct Hv as (p & Hp & Hv). specialize (Hps p Hp).
          specialize (T2 p a Hps Hv). unfold m in *. lia.
    - intros c Hc. destruct (Hrow c Hc) as [[Hlt' E]|[-> E]]; rewrite E.
      + apply T3. unfold m in *. lia.
      + rewrite Hnew, Z.eqb_refl. reflexivity.
    - intros c k a Hc Hk Ha. destruct (Hrow c Hc) as [[Hlt' E]|[-> E]]; rewrite E in *.
      + assert (Hck : 0 <= k <= c) by (apply (T2 c k); auto; unfold m in *; lia).
        rewrite row_app_old in Ha by (unfold m in *; lia). apply (T4 c k a); auto. unfold m in *; lia.
      + rewrite Hnew in Hk. rewrite Hnew. apply orb_prop in Hk. destruct Hk as [Hk|Hk].
        * apply Z.eqb_eq in Hk. subst k. rewrite E in Ha. rewrite Hnew in Ha. exact Ha.
        * apply existsb_exists in Hk. destruct Hk as (p & Hp & Hk). pose proof (Hps p Hp) as Hpr.
          assert (Hkp : 0 <= k <= p) by (apply (T2 p k); auto).
          rewrite row_app_old in Ha by lia.
          apply orb_true_iff. right. apply existsb_exists. exists p. split; auto.
          apply (T4 p k a); auto.
  Qed.

  Lemma build_anc_ok : forall pss acc, table_ok acc -> (length acc + length pss <= n)%nat ->
    (forall i ps, nth_error pss i = Some ps -> forall p, In p ps -> 0 <= p < Z.of_nat (length acc + i)) ->
    table_ok (build_anc n pss acc) /\ length (build_anc n pss acc) = (length acc + length pss)%nat.
  Proof.
    induction pss as [|ps pss IH]; intros acc Hok Hlen Hps; cbn [build_anc].
    - split; [exact Hok|cbn; lia].
    - cbn [length] in Hlen.
      assert (Hstep : table_ok (acc ++ [anc_row n acc ps])).
      { apply table_step; auto; [lia|]. intros p Hp. specialize (Hps 0%nat ps eq_refl p Hp). lia. }
      destruct (IH (acc ++ [anc_row n acc ps]) Hstep) as [R1 R2].
      + rewrite app_length. cbn. lia.
      + intros i ps' Hi p Hp. specialize (Hps (S i) ps' Hi p Hp). rewrite app_length. cbn [length]. lia.
      + split; auto. rewrite R2, app_length. cbn [length]. lia.
  Qed.
End Anc.

(* the table of a well-formed history *)
Section Hist.
  Variable h : hist.
  Hypothesis Hok : commits_okb h = true.
  Let A := ancs h.
  Let n := ncommits h.

  Lemma parents_in_range c p : 0 <= c < n -> In p (parents_of h c) -> 0 <= p < c.
  Proof.
    intros Hc Hp. pose proof Hok as H0. unfold commits_okb in H0. apply andb_prop in H0. destruct H0 as [_ Hall].
    rewrite forallb_forall in Hall. specialize (Hall c (proj2 (LifetimesFacts.zrange_in _ _) Hc)).
    apply andb_prop in Hall. destruct Hall as [_ Hall]. rewrite forallb_forall in Hall.
    specialize (Hall p Hp). apply andb_prop in Hall. destruct Hall as [Hr _]. unfold in_range in Hr. lia.
  Qed.

  Lemma ancs_ok : table_ok (length (h_parents h)) A /\ length A = length (h_parents h).
  Proof.
    unfold A, ancs. destruct (build_anc_ok (length (h_parents h)) (h_parents h) []) as [R1 R2].
    - split; [cbn; lia|]. split; [intros r []|]. split; [cbn; intros; lia|]. split; cbn; intros; lia.
    - cbn. lia.
    - intros i ps Hi p Hp. cbn [length Nat.add].
      assert (Hil : (i < length (h_parents h))%nat) by (apply nth_error_Some; congruence).
      assert (Hc : 0 <= Z.of_nat i < n) by (unfold n, ncommits; lia).
      assert (Hps : parents_of h (Z.of_nat i) = ps).
      { unfold parents_of, znth. destruct (Z.ltb_spec (Z.of_nat i) 0); [lia|]. rewrite Nat2Z.id.
        apply nth_error_nth. exact Hi. }
      rewrite <- Hps in Hp. pose proof (parents_in_range _ _ Hc Hp). lia.
    - split; auto.
  Qed.

  Lemma ancb_row c a : 0 <= c < n -> ancb A c a = vget (znth (repeat false (length (h_parents h))) A c) a.
  Proof.
    intros Hc. unfold ancb, vget. f_equal. unfold znth. destruct (Z.ltb_spec c 0); [lia|].
    destruct ancs_ok as [_ HL]. apply nth_indep. unfold n, ncommits in Hc. lia.
  Qed.

  Lemma ancb_le c a : 0 <= c < n -> ancb A c a = true -> 0 <= a <= c.
  Proof.
    intros Hc E. rewrite ancb_row in E by auto. destruct ancs_ok as [(_ & _ & T2 & _) HL].
    apply (T2 c a); auto. unfold n, ncommits in Hc. lia.
  Qed.
  Lemma ancb_refl c : 0 <= c < n -> ancb A c c = true.
  Proof.
    intros Hc. rewrite ancb_row by auto. destruct ancs_ok as [(_ & _ & _ & T3 & _) HL].
    apply T3. unfold n, ncommits in Hc. lia.
  Qed.
  Lemma ancb_trans c k a : 0 <= c < n -> ancb A c k = true -> ancb A k a = true -> ancb A c a = true.
  Proof.
    intros Hc E1 E2. pose proof (ancb_le c k Hc E1) as Hk.
    rewrite ancb_row in * by lia. destruct ancs_ok as [(_ & _ & _ & _ & T4) HL].
    apply (T4 c k a); auto. unfold n, ncommits in Hc. lia.
  Qed.
  Lemma row_len c : 0 <= c < n -> length (znth [] A c) = length (h_parents h).
  Proof.
    intros Hc. destruct ancs_ok as [(_ & T1 & _) HL]. apply T1. unfold znth.
    destruct (Z.ltb_spec c 0); [lia|]. apply nth_In. unfold n, ncommits in Hc. lia.
  Qed.
End Hist.
