(* Concrete item sets: non-vacuity examples for the C10 theorems and the refutation witnesses for the
   chaining block of resolve (all evaluated by vm_compute on the executable model). *)
From Coq Require Import List ZArith Lia Bool Permutation.
From Herc Require Import Toposort.Model Pipeline.Resolve Pipeline.Deploy Pipeline.CheckerProofs Pipeline.ResolveProofs
  Pipeline.DeployProofs.
Import ListNotations.
Open Scope Z_scope.

Definition ch0 : choices := mkCh (fun _ l => l) (fun l => l) (fun _ l => l) (fun _ _ l => l).
Definition dis0 : Z -> Z -> Z := fun n k => 100 * n + k.

(* ---- the Burndown pipeline without rename detection (one provider per entity) ----
   names:  1 BlobCache  2 Burndown  3 FileDiff  4 IdentityDetector  5 TicksSinceStart  6 TreeDiff
   keys:  11 [author] 12 [blob_cache] 13 [changes] 14 [file_diff] 15 [tick] *)
Definition burndown_items : list item :=
  [ mkItem 0 2 [] [14; 13; 12; 15; 11];
    mkItem 1 3 [14] [13; 12];
    mkItem 2 6 [13] [];
    mkItem 3 1 [12] [13];
    mkItem 4 5 [15] [];
    mkItem 5 4 [11] [] ].

Example burndown_domain : domain_okb dis0 burndown_items = true.
Proof. vm_compute. reflexivity. Qed.
Example burndown_one_provider : forall e, (length (providers burndown_items e) <= 1)%nat.
Proof. apply max_providers_one. vm_compute. lia. Qed.
Example burndown_resolved : resolve ch0 dis0 burndown_items =
  Ok [ mkItem 5 4 [11] []; mkItem 4 5 [15] []; mkItem 2 6 [13] []; mkItem 3 1 [12] [13];
       mkItem 1 3 [14] [13; 12]; mkItem 0 2 [] [14; 13; 12; 15; 11] ].
Proof. vm_compute. reflexivity. Qed.

(* ---- with RenameAnalysis (7, provides and requires [changes], requires [blob_cache]): the chained case ---- *)
(* RenameAnalysis sorts between IdentityDetector and TicksSinceStart: names re-ranked
   1 BlobCache 2 Burndown 3 FileDiff 4 IdentityDetector 5 RenameAnalysis 6 TicksSinceStart 7 TreeDiff *)
Definition renames_items' : list item :=
  [ mkItem 0 2 [] [14; 13; 12; 15; 11];   (* Burndown *)
    mkItem 1 3 [14] [13; 12];             (* FileDiff *)
    mkItem 2 7 [13] [];                   (* TreeDiff *)
    mkItem 3 1 [12] [13];                 (* BlobCache *)
    mkItem 4 6 [15] [];                   (* TicksSinceStart *)
    mkItem 5 4 [11] [];                   (* IdentityDetector *)
    mkItem 6 5 [13] [12; 13] ].           (* RenameAnalysis *)
Example renames_resolved_ok :
  exists order, resolve ch0 dis0 renames_items' = Ok order /\ order_ok renames_items' order = true /\
    order = [ mkItem 5 4 [11] []; mkItem 4 6 [15] []; mkItem 2 7 [13] []; mkItem 3 1 [12] [13];
              mkItem 6 5 [13] [12; 13]; mkItem 1 3 [14] [13; 12]; mkItem 0 2 [] [14; 13; 12; 15; 11] ].
Proof. eexists. split; [vm_compute; reflexivity|]. split; vm_compute; reflexivity. Qed.

(* ---- error branches ---- *)
Definition unsat_items : list item := [ mkItem 0 1 [] [11]; mkItem 1 2 [12] [] ].
Example unsat_resolved : domain_okb dis0 unsat_items = true /\ resolve ch0 dis0 unsat_items = Err Unsatisfied.
Proof. split; vm_compute; reflexivity. Qed.

Definition cyclic_items : list item := [ mkItem 0 1 [11] [12]; mkItem 1 2 [12] [11] ].
Example cyclic_resolved : domain_okb dis0 cyclic_items = true /\ cyclicb cyclic_items = true /\
  resolve ch0 dis0 cyclic_items = Err SortFailure.
Proof. repeat split; vm_compute; reflexivity. Qed.

Definition three_items : list item := [ mkItem 0 1 [11] []; mkItem 1 2 [11] []; mkItem 2 3 [11] [] ].
Example three_resolved : resolve ch0 dis0 three_items = Err Ambiguous.
Proof. vm_compute. reflexivity. Qed.

(* same-named items: "B", "B" become B_1, B_2 (codes 201, 202 through dis0) *)
Definition samename_items : list item := [ mkItem 0 2 [] [11]; mkItem 1 2 [] [11]; mkItem 2 1 [11] [] ].
Example samename_resolved : domain_okb dis0 samename_items = true /\
  resolve ch0 dis0 samename_items = Ok [ mkItem 2 1 [11] []; mkItem 0 2 [] [11]; mkItem 1 2 [] [11] ].
Proof. split; vm_compute; reflexivity. Qed.

(* ================= refutation witnesses: the chaining block =================
   names 1 A  2 F  3 J ; keys 4 [b] 5 [f].
   F provides f, requires b;  A provides b, requires f;  J provides b.
   The only order that respects the requirements is J, F, A (A is the inheritor of b).
   resolve answers J, A, F: A runs before F, the only provider of the f it requires. *)
Definition w_order_items : list item := [ mkItem 0 2 [5] [4]; mkItem 1 1 [4] [5]; mkItem 2 3 [4] [] ].
Definition w_order_result : list item := [ mkItem 2 3 [4] []; mkItem 1 1 [4] [5]; mkItem 0 2 [5] [4] ].

Lemma w_order_resolved : domain_okb dis0 w_order_items = true /\ resolve ch0 dis0 w_order_items = Ok w_order_result.
Proof. split; vm_compute; reflexivity. Qed.

Lemma w_order_violates : ~ respects w_order_items w_order_result.
Proof.
  intros H. destruct (H [mkItem 2 3 [4] []] (mkItem 1 1 [4] [5]) [mkItem 0 2 [5] [4]] eq_refl 5) as [(p & Hp & Hf) _].
  - left. reflexivity.
  - destruct Hp as [<-|[]]. cbn in Hf. destruct Hf as [Hf|[]]. discriminate.
Qed.

Lemma w_order_valid_exists : order_ok w_order_items [ mkItem 2 3 [4] []; mkItem 0 2 [5] [4]; mkItem 1 1 [4] [5] ] = true.
Proof. vm_compute. reflexivity. Qed.

Theorem chained_order_refuted : exists ch dis items order,
  domain_okb dis items = true /\ region_of items = RNoRequire /\
  resolve ch dis items = Ok order /\ ~ respects items order /\
  exists good, order_ok items good = true.
Proof.
  exists ch0, dis0, w_order_items, w_order_result. destruct w_order_resolved as [A B].
  split; [exact A|]. split; [vm_compute; reflexivity|]. split; [exact B|]. split; [exact w_order_violates|].
  eexists. exact w_order_valid_exists.
Qed.

(* names 1 E 2 F 3 P 4 S ; keys 5 [b] 6 [c] 7 [d]:
   S provides d, requires c d b;  P provides d b, requires c;  F provides b c;  E nothing.
   resolve reports success with an order that lacks S. *)
Definition w_lost_items : list item :=
  [ mkItem 0 4 [7] [6; 7; 5]; mkItem 1 3 [7; 5] [6]; mkItem 2 2 [5; 6] []; mkItem 3 1 [] [] ].

Lemma w_lost_resolved : domain_okb dis0 w_lost_items = true /\
  resolve ch0 dis0 w_lost_items = Ok [ mkItem 3 1 [] []; mkItem 2 2 [5; 6] []; mkItem 1 3 [7; 5] [6] ].
Proof. split; vm_compute; reflexivity. Qed.

Theorem chained_lost_item_refuted : exists ch dis items order,
  domain_okb dis items = true /\ region_of items = RNoRequire /\
  resolve ch dis items = Ok order /\ ~ Permutation order items.
Proof.
  exists ch0, dis0, w_lost_items. eexists. destruct w_lost_resolved as [A B]. split; [exact A|].
  split; [vm_compute; reflexivity|]. split; [exact B|].
  intros H. apply Permutation_length in H. cbn in H. discriminate.
Qed.

(* names 1 A 2 B 3 C ; keys 4 [a] 5 [b]:  A and B both provide a and b, C requires a and b.
   The second chaining step adds the edge B -> C twice: rank 4 in a 3-element child table; Toposort panics. *)
Definition w_panic_items : list item := [ mkItem 0 1 [4; 5] []; mkItem 1 2 [4; 5] []; mkItem 2 3 [] [4; 5] ].

Theorem chained_panic_refuted : exists ch dis items,
  domain_okb dis items = true /\ region_of items = RNoRequire /\ resolve ch dis items = Panic.
Proof. exists ch0, dis0, w_panic_items. repeat split; vm_compute; reflexivity. Qed.

(* the same panic when every doubly provided entity is required by one of its providers:
   A provides a b;  B requires a b;  C provides a b and requires a b. *)
Definition w_shared_items : list item := [ mkItem 0 1 [4; 5] []; mkItem 1 2 [] [4; 5]; mkItem 2 3 [4; 5] [4; 5] ].

Theorem chained_shared_panic_refuted : exists ch dis items,
  domain_okb dis items = true /\ region_of items = RShared /\ resolve ch dis items = Panic.
Proof. exists ch0, dis0, w_shared_items. repeat split; vm_compute; reflexivity. Qed.

(* the shape that occurs among the built-in items lies in neither region *)
Example renames_region : region_of renames_items' = RRenames.
Proof. vm_compute. reflexivity. Qed.
Example burndown_region : region_of burndown_items = RUnchained.
Proof. vm_compute. reflexivity. Qed.

(* ---- deployment: a three-item registry with a feature-gated provider ----
   names 1 Leaf 2 Mid 3 Gated ; keys 11 x 12 y ; feature 21.
   Leaf requires x; Mid provides x, requires y; Gated provides y and needs feature 21; Plain (4) provides y. *)
Definition e_leaf := mkR 1 [] [11] [].
Definition e_mid := mkR 2 [11] [12] [].
Definition e_gated := mkR 3 [12] [] [21].
Definition e_plain := mkR 4 [12] [] [].
Definition reg0 : registry :=
  mkReg [ (11, [e_mid]); (12, [e_gated; e_plain]) ] [ (1, e_leaf); (2, e_mid); (3, e_gated); (4, e_plain) ].

Example deploy_without_feature : reg_okb reg0 = true /\
  deploy reg0 (mkP [] []) e_leaf = Some (mkP [e_leaf; e_mid; e_plain] []).
Proof. split; vm_compute; reflexivity. Qed.
Example deploy_with_feature :
  deploy reg0 (mkP [] [21]) e_leaf = Some (mkP [e_leaf; e_mid; e_gated; e_plain] [21]).
Proof. vm_compute. reflexivity. Qed.
Example deploy_closure_names : closure_names reg0 (mkP [] [21]) e_leaf = [1; 2; 3; 4].
Proof. vm_compute. reflexivity. Qed.
