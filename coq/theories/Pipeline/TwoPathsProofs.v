(* The refutation witness of the region [two_feeders_b] (TwoPaths.v), evaluated on the executable model. *)
From Coq Require Import List ZArith Lia Bool Permutation.
From Herc Require Import Toposort.Model Pipeline.Resolve Pipeline.Strict Pipeline.Witnesses Pipeline.TwoPaths.
Import ListNotations.
Open Scope Z_scope.

(* ---- the witness ----
   names 1 R 2 T 3 X 4 Y ; keys 11 [k] 12 [x] 13 [y]:
   T provides k;  X provides x, requires k;  Y provides y, requires k;  R provides k, requires k x y. *)
Definition w_two_paths : list item :=
  [ mkItem 0 2 [11] []; mkItem 1 3 [12] [11]; mkItem 2 4 [13] [11]; mkItem 3 1 [11] [11; 12; 13] ].

(* the same set with ONE intermediate consumer (the built-in shape): resolved *)
Definition w_one_path : list item :=
  [ mkItem 0 2 [11] []; mkItem 1 3 [12] [11]; mkItem 3 1 [11] [11; 12] ].

Lemma one_path_resolved : region_of w_one_path = RRenames /\ two_feeders_b w_one_path = false /\
  exists order, resolve ch0 dis0 w_one_path = Ok order /\ order_ok w_one_path order = true.
Proof. split; [vm_compute; reflexivity|]. split; [vm_compute; reflexivity|]. eexists. split; vm_compute; reflexivity. Qed.

(* the other map orders of the witness: FindParents / BreadthSort / FindCycle reversed *)
Definition ch_rev : choices := mkCh (fun _ l => rev l) (fun l => rev l) (fun _ l => rev l) (fun _ _ l => rev l).

Theorem chained_two_feeders_refuted : exists dis items good,
  domain_okb dis items = true /\ region_of items = RRenames /\ shallow_secondb items = false /\
  two_feeders_b items = true /\
  resolve ch0 dis items = Err SortFailure /\ resolve ch_rev dis items = Err SortFailure /\
  order_ok items good = true.
Proof.
  exists dis0, w_two_paths,
    [ mkItem 0 2 [11] []; mkItem 1 3 [12] [11]; mkItem 2 4 [13] [11]; mkItem 3 1 [11] [11; 12; 13] ].
  repeat split; vm_compute; reflexivity.
Qed.
