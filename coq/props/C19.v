(* C19 - ticks.  Only statements closed by [exact] and their assumptions. *)
From Coq Require Import List ZArith Sorted Znumtheory.
From Herc Require Import Plumbing.Ticks Plumbing.TicksArith Plumbing.TicksProofs.
Import ListNotations.
Open Scope Z_scope.

Theorem C19_floor : forall t d, 0 < d ->
  (d | floor_time t d) /\ floor_time t d <= t < floor_time t d + d /\
  (forall m, (d | m) -> m <= t -> m <= floor_time t d).
Proof. exact floor_time_spec. Qed.
Print Assumptions C19_floor.

Theorem C19_monotone : forall cfg ops s' outs, run (init_sys cfg) ops = (s', outs) ->
  forall l, In l (lineages ops outs [[]]) -> Sorted Z.le (0 :: ticks l).
Proof. exact ticks_monotone. Qed.
Print Assumptions C19_monotone.
