Require Extraction.
Require Import ExtrOcamlBasic.
From Herc Require Import Base.Conv Plan.RunLifecycle Plan.Syntax Plan.FastPlan.
Extraction "c04run_model.ml" conv_anchor run_okb rl_exec1 rl_check final_okb rinit fast_c04 mkFA.
