(* C01 - burndown matrices = line-lifetime ground truth.
   Only statements closed by [exact] and their assumptions; the models are in theories/Burndown:
   Dense.v (groupSparseHistory), Analysis.v (abstract BurndownAnalysis over arrays), Lifetimes.v (declarative
   history and the ground-truth oracle), Linear.v / LinearProofs.v (linear histories with arbitrary edits),
   Replay.v (canonical scripts, plan validator). *)
From Coq Require Import List ZArith Bool.
From Herc Require Import Burndown.Base Burndown.Dense Burndown.DenseProofs Burndown.Lifetimes
  Burndown.LifetimesFacts Burndown.Analysis Burndown.SparseFacts Burndown.AnalysisFacts Burndown.LinearProofs
  Burndown.Replay Burndown.CommitProofs Burndown.PlanProofs Burndown.DagProofs Burndown.MatrixProofs.
Import ListNotations.
Open Scope Z_scope.

(* ---- the dense matrix: every cell, for every sparse history, sampling <, =, > granularity ---- *)
Theorem C01_dense : forall G S H lastTick,
  1 <= S -> 1 <= G -> H <> [] -> nodup_zb (map fst H) = true ->
  sparse_wfb H (dense_last H lastTick) = true ->
  exists M, group_sparse_history G S H lastTick = Ok (M, dense_last H lastTick) /\
    length M = Z.to_nat (dense_last H lastTick / S + 1) /\
    (forall row, In row M -> length row = Z.to_nat (dense_last H lastTick / G + 1)) /\
    (forall s b, 0 <= s <= dense_last H lastTick / S -> 0 <= b <= dense_last H lastTick / G ->
                 cell M s b = spec_cell G S H s b).
Proof. exact DenseProofs.C01_dense. Qed.
Print Assumptions C01_dense.

Example C01_dense_nonvacuous :
  group_sparse_history 3 2 [(5, [(5, 2); (0, -1)]); (0, [(0, 4)]); (2, [(2, 1); (0, -1)])] 7
  = Ok ([[4; 0; 0]; [4; 0; 0]; [3; 2; 0]; [3; 2; 0]], 7).
Proof. exact DenseProofs.C01_dense_nonvacuous. Qed.

(* the empty history is a panic (F11), a last tick before the last key too *)
Theorem C01_dense_empty_panics : forall G S lastTick, group_sparse_history G S [] lastTick = Panic PEmptyHistory.
Proof. exact (gsh_empty alloc_fixed). Qed.
Print Assumptions C01_dense_empty_panics.

(* the row allocation before the repair (one row per band) panics as soon as sampling < granularity *)
Theorem C01_dense_refuted_before_fix : exists G S H, 1 <= S <= G /\ nodup_zb (map fst H) = true /\
  sparse_wfb H (last_z (sort_z (map fst H)) 0) = true /\ group_sparse_history_old G S H (-1) = Panic PIndex.
Proof. exact DenseProofs.C01_dense_refuted_before_fix. Qed.
Print Assumptions C01_dense_refuted_before_fix.

(* ---- the ground-truth oracle the real matrices are compared with ---- *)
Theorem C01_truth_nonneg : forall h G S keep row,
  In row (truth_matrix h G S keep) -> forall v, In v row -> 0 <= v.
Proof. exact truth_matrix_nonneg. Qed.
Print Assumptions C01_truth_nonneg.

Theorem C01_truth_row_sum : forall h G S, 1 <= G -> conflict_free h = true -> forall keep s,
  sum_z (truth_row h G S keep s) =
  count (fun pl => keep pl && alive_at h ((s + 1) * S - 1) (snd pl)) (all_lines h).
Proof. exact truth_row_sum. Qed.
Print Assumptions C01_truth_row_sum.

Theorem C01_truth_last_row_is_head : forall h G S, 1 <= G -> 1 <= S ->
  conflict_free h = true -> single_head h = true ->
  sum_z (truth_row h G S keep_all (last_event h / S)) = lines_at_head h.
Proof. exact truth_project_last_row. Qed.
Print Assumptions C01_truth_last_row_is_head.

(* ---- linear histories with arbitrary edit scripts: no negative cell, row sums = lines alive ---- *)
Theorem C01_linear : forall cf G S cs b s M last,
  1 <= S -> 1 <= G -> lin_wf 0 [] cs = true -> lin_run cf cs branch0 shared0 = Ok (b, s) ->
  group_sparse_history G S (s_gh s) (-1) = Ok (M, last) ->
  forall sidx, 0 <= sidx <= last / S ->
    (forall bidx, 0 <= bidx <= last / G -> 0 <= cell M sidx bidx) /\
    (forall pre suf, cs = pre ++ suf ->
       (forall c, In c pre -> lc_tick c <= sample_end S sidx) ->
       (forall c, In c suf -> sample_end S sidx < lc_tick c) ->
       sum_z (map (cell M sidx) (zrange (last / G + 1))) = stotal (snap_run pre [])).
Proof. exact LinearProofs.C01_linear. Qed.
Print Assumptions C01_linear.

(* non-vacuity: three commits (insert 3 lines; replace 1 and append 2 in one script; delete the file and add
   another) run without error, pass lin_wf, and give the expected matrix *)
Definition ex_lin : list lcommit :=
  [ mkLC 0 0 [CInsert 1 3];
    mkLC 0 2 [CModify 1 3 5 [(DEq, 1); (DDel, 1); (DIns, 1); (DEq, 1); (DIns, 2)]];
    mkLC 0 5 [CDelete 1 5; CInsert 2 4] ].
Example C01_linear_nonvacuous :
  lin_wf 0 [] ex_lin = true /\
  match lin_run (mkCfg 0 false) ex_lin branch0 shared0 with
  | Ok (_, s) => group_sparse_history 2 2 (s_gh s) (-1) = Ok ([[3; 0; 0]; [2; 3; 0]; [0; 0; 4]], 5)
  | _ => False
  end.
Proof. vm_compute. auto. Qed.

(* ---- conflict-free histories, plans without merge actions (linear histories and forks) ---- *)
(* the sparse global history: for every weight P, the weighted sum of its entries is the sum over all commits
   of (lines born by c, booked at (tick c, tick c)) - (lines killed by c, booked at (tick c, birth tick)) *)
Theorem C01_global_sparse_merge_free : forall h cf aidx plan w,
  conflict_free h = true -> (forall c, 0 <= c < ncommits h -> tick_of h c < mark) ->
  (forall c, 0 <= znth 0 aidx c) ->
  plan_okb h plan = true -> merge_freeb plan = true -> run_hist cf h aidx plan = Ok w ->
  forall P, wsum P (s_gh (w_shared w)) = sum_z (map (contrib h P) (zrange (ncommits h))).
Proof.
  intros h cf aidx plan w Hcf Hm Ha Hok Hmf Er.
  exact (proj1 (global_sparse_merge_free h cf aidx Hcf Hm Ha plan w Hok (merge_freeb_no_merges plan Hmf) Er)).
Qed.
Print Assumptions C01_global_sparse_merge_free.

(* every cell of the dense project matrix is the ground-truth cell *)
Theorem C01_matrix_merge_free : forall h cf aidx plan w G S M last,
  conflict_free h = true -> (forall c, 0 <= c < ncommits h -> tick_of h c < mark) ->
  (forall c, 0 <= znth 0 aidx c) ->
  plan_okb h plan = true -> merge_freeb plan = true -> run_hist cf h aidx plan = Ok w ->
  1 <= G -> 1 <= S -> group_sparse_history G S (s_gh (w_shared w)) (-1) = Ok (M, last) ->
  forall s b, 0 <= s <= last / S -> 0 <= b <= last / G -> cell M s b = truth_cell h G S keep_all s b.
Proof. exact matrix_cells_merge_free. Qed.
Print Assumptions C01_matrix_merge_free.

(* non-vacuity: three commits, two heads (a fork), two developers, one line killed on a branch *)
Definition ex_h : hist := mkHist [[]; [0]; [0]] [0; 1; 2] [0; 1; 0]
  [(0, [mkLine 0 0 1; mkLine 1 0 (-1); mkLine 2 1 (-1); mkLine 3 2 (-1)]); (1, [mkLine 4 2 (-1)])].
Definition ex_plan : list action := [AEmerge 1; ACommit 0 1; AFork 1 [2]; ACommit 1 1; ACommit 2 2].
Example C01_matrix_merge_free_nonvacuous :
  conflict_free ex_h = true /\ plan_okb ex_h ex_plan = true /\ merge_freeb ex_plan = true /\
  match run_hist (mkCfg 2 true) ex_h [0; 1; 0] ex_plan with
  | Ok w => group_sparse_history 2 1 (s_gh (w_shared w)) (-1) = Ok (truth_project ex_h 2 1, 2)
  | _ => False
  end.
Proof. vm_compute. auto. Qed.

(* ---- conflict-free histories, any validated plan: linear, forks, diamonds, criss-cross, octopus ... ---- *)
Theorem C01_global_sparse : forall h cf aidx plan w,
  conflict_free h = true -> (forall c, 0 <= c < ncommits h -> tick_of h c < mark) ->
  (forall c, 0 <= znth 0 aidx c) ->
  plan_okb h plan = true -> run_hist cf h aidx plan = Ok w ->
  forall P, wsum P (s_gh (w_shared w)) = sum_z (map (contrib h P) (zrange (ncommits h))).
Proof.
  intros h cf aidx plan w Hcf Hm Ha Hok Er.
  exact (proj1 (global_sparse h cf aidx Hcf Hm Ha plan w Hok Er)).
Qed.
Print Assumptions C01_global_sparse.

(* C01_matrix: the dense project matrix IS the ground-truth matrix (same rows, same bands, same cells) *)
Theorem C01_matrix : forall h cf aidx plan w G S M last,
  conflict_free h = true -> (forall c, 0 <= c < ncommits h -> tick_of h c < mark) ->
  (forall c, 0 <= znth 0 aidx c) ->
  plan_okb h plan = true -> run_hist cf h aidx plan = Ok w ->
  1 <= G -> 1 <= S -> group_sparse_history G S (s_gh (w_shared w)) (-1) = Ok (M, last) ->
  M = truth_project h G S /\ last = last_event h.
Proof. exact matrix_eq. Qed.
Print Assumptions C01_matrix.

Theorem C01_matrix_cells : forall h cf aidx plan w G S M last,
  conflict_free h = true -> (forall c, 0 <= c < ncommits h -> tick_of h c < mark) ->
  (forall c, 0 <= znth 0 aidx c) ->
  plan_okb h plan = true -> run_hist cf h aidx plan = Ok w ->
  1 <= G -> 1 <= S -> group_sparse_history G S (s_gh (w_shared w)) (-1) = Ok (M, last) ->
  forall s b, 0 <= s <= last / S -> 0 <= b <= last / G -> cell M s b = truth_cell h G S keep_all s b.
Proof. exact matrix_cells. Qed.
Print Assumptions C01_matrix_cells.

(* corollary: with a single head the last row sums to the number of lines at HEAD *)
Theorem C01_last_row_is_head : forall h cf aidx plan w G S M last,
  conflict_free h = true -> single_head h = true ->
  (forall c, 0 <= c < ncommits h -> tick_of h c < mark) -> (forall c, 0 <= znth 0 aidx c) ->
  plan_okb h plan = true -> run_hist cf h aidx plan = Ok w ->
  1 <= G -> 1 <= S -> group_sparse_history G S (s_gh (w_shared w)) (-1) = Ok (M, last) ->
  sum_z (nth (Z.to_nat (last / S)) M []) = lines_at_head h.
Proof. exact last_row_is_head. Qed.
Print Assumptions C01_last_row_is_head.

(* corollary: no negative cell *)
Theorem C01_no_negative_cell : forall h cf aidx plan w G S M last,
  conflict_free h = true -> (forall c, 0 <= c < ncommits h -> tick_of h c < mark) ->
  (forall c, 0 <= znth 0 aidx c) ->
  plan_okb h plan = true -> run_hist cf h aidx plan = Ok w ->
  1 <= G -> 1 <= S -> group_sparse_history G S (s_gh (w_shared w)) (-1) = Ok (M, last) ->
  forall s b, 0 <= s <= last / S -> 0 <= b <= last / G -> 0 <= cell M s b.
Proof.
  intros h cf aidx plan w G S M last Hcf Hm Ha Hok Er HG HS Eg s b Hs Hb.
  rewrite (matrix_cells h cf aidx plan w G S M last Hcf Hm Ha Hok Er HG HS Eg s b Hs Hb).
  apply truth_cell_nonneg.
Qed.
Print Assumptions C01_no_negative_cell.

(* non-vacuity: a diamond with a merge that adds a line, two developers; commit 1 kills a line of commit 0 *)
Definition ex_dag : hist := mkHist [[]; [0]; [0]; [1; 2]] [0; 1; 1; 3] [0; 1; 0; 1]
  [(0, [mkLine 0 0 1; mkLine 1 0 (-1); mkLine 2 1 (-1); mkLine 5 3 (-1); mkLine 3 2 (-1)]); (1, [mkLine 4 2 (-1)])].
Definition ex_dag_plan : list action :=
  [AEmerge 1; ACommit 0 1; AFork 1 [2]; ACommit 1 1; ACommit 2 2; ACommit 3 1; ACommit 3 2; AMerge [1; 2]; ADelete 2].
Example C01_matrix_nonvacuous :
  conflict_free ex_dag = true /\ plan_okb ex_dag ex_dag_plan = true /\
  match run_hist (mkCfg 2 true) ex_dag [0; 1; 0; 1] ex_dag_plan with
  | Ok w => group_sparse_history 2 1 (s_gh (w_shared w)) (-1) = Ok (truth_project ex_dag 2 1, 3)
  | _ => False
  end.
Proof. vm_compute. auto. Qed.
