(* Refinement: the executable state-machine model (Model.v, what the harness exercises) refines the
   abstract Kahn model (Kahn.v) on well-formed states; hence the state-level theorems of C15. *)
From Coq Require Import List ZArith Lia Bool Permutation.
From Herc Require Import Toposort.Model Toposort.Assoc Toposort.Paths.
From Herc Require Toposort.Kahn Toposort.KahnProofs.
Import ListNotations.
Open Scope Z_scope.

Module K := Herc.Toposort.Kahn.
Module KP := Herc.Toposort.KahnProofs.

(* ---------- Prop-level well-formedness, two levels ----------
   [D] lists the nodes whose ranks may be dirty (an edge was removed and ReindexNode has not run yet). *)
Definition ranks_ok (m : list (Z * Z)) : Prop :=
  NoDup (map snd m) /\ forall c r, In (c, r) m -> 1 <= r <= Z.of_nat (length m).

Record WFd (D : list Z) (s : st) : Prop := {
  wf_outs_nodup : NoDup (map fst (outs s));
  wf_ins_nodup : NoDup (map fst (ins s));
  wf_ins_nodes : forall n, In n (map fst (ins s)) -> In n (map fst (outs s));
  wf_child_nodup : forall n m, In (n, m) (outs s) -> NoDup (map fst m);
  wf_child_nodes : forall n m, In (n, m) (outs s) -> forall c, In c (map fst m) -> In c (map fst (outs s));
  wf_indeg : forall n, In n (map fst (outs s)) -> get_in s n = count_parents s n;
  wf_ranks : forall n m, In (n, m) (outs s) -> ~ In n D -> ranks_ok m
}.

Definition WF : st -> Prop := WFd [].

(* ---------- wfb reflects WF ---------- *)
Lemma ranks_ok_spec m : slots_det m && ranks_in_range m = true <-> ranks_ok m.
Proof.
  unfold slots_det, ranks_in_range, ranks_ok.
  rewrite andb_true_iff, nodupb_spec, forallb_forall. split.
  - intros [H1 H2]. split; [exact H1|]. intros c r Hin. specialize (H2 (c, r) Hin). cbn [snd] in H2.
    apply andb_true_iff in H2. destruct H2 as [Ha Hb]. apply Z.leb_le in Ha. apply Z.leb_le in Hb. lia.
  - intros [H1 H2]. split; [exact H1|]. intros [c r] Hin. cbn [snd]. specialize (H2 c r Hin).
    apply andb_true_iff. split; apply Z.leb_le; lia.
Qed.

Lemma forallb_is_node s (m : list (Z * Z)) :
  forallb (fun cr => is_node s (fst cr)) m = true <-> forall c, In c (map fst m) -> In c (map fst (outs s)).
Proof.
  rewrite forallb_forall. split.
  - intros H c Hc. apply in_map_iff in Hc. destruct Hc as ([c' r] & E & Hin). cbn [fst] in E. subst.
    apply is_node_spec. apply (H (c, r) Hin).
  - intros H [c r] Hin. cbn [fst]. apply is_node_spec. apply H. apply (in_map fst) in Hin. exact Hin.
Qed.

Theorem wfb_spec s : wfb s = true <-> WF s.
Proof.
  unfold wfb. rewrite !andb_true_iff, !nodupb_spec, !forallb_forall. split.
  - intros [[[H1 H2] H3] H4]. constructor.
    + exact H1.
    + exact H2.
    + intros n Hn. apply in_map_iff in Hn. destruct Hn as ([n' v] & E & Hin). cbn [fst] in E. subst.
      apply is_node_spec. apply (H3 (n, v) Hin).
    + intros n m Hin. specialize (H4 (n, m) Hin). cbn [fst snd] in H4.
      rewrite !andb_true_iff in H4. apply nodupb_spec. tauto.
    + intros n m Hin. specialize (H4 (n, m) Hin). cbn [fst snd] in H4.
      rewrite !andb_true_iff in H4. apply forallb_is_node. tauto.
    + intros n Hn. apply in_map_iff in Hn. destruct Hn as ([n' m] & E & Hin). cbn [fst] in E. subst.
      specialize (H4 (n, m) Hin). cbn [fst snd] in H4. rewrite !andb_true_iff in H4. apply Z.eqb_eq. tauto.
    + intros n m Hin _. specialize (H4 (n, m) Hin). cbn [fst snd] in H4.
      rewrite !andb_true_iff in H4. apply ranks_ok_spec. apply andb_true_iff. tauto.
  - intros [H1 H2 H3 H4 H5 H6 H7]. repeat split.
    + exact H1.
    + exact H2.
    + intros [n v] Hin. cbn [fst]. apply is_node_spec. apply H3. apply (in_map fst) in Hin. exact Hin.
    + intros [n m] Hin. cbn [fst snd].
      pose proof (proj2 (ranks_ok_spec m) (H7 n m Hin (fun F => F))) as Hr. apply andb_true_iff in Hr.
      rewrite !andb_true_iff. repeat split.
      * apply nodupb_spec. apply (H4 n m Hin).
      * tauto.
      * tauto.
      * apply forallb_is_node. apply (H5 n m Hin).
      * apply Z.eqb_eq. apply H6. apply (in_map fst) in Hin. exact Hin.
Qed.

(* ---------- the abstraction ---------- *)
Definition abs_children (m : list (Z * Z)) : list Z :=
  match slots m with Some ms => ms | None => [] end.

Definition abs (s : st) : list (Z * list Z) :=
  map (fun kv => (fst kv, abs_children (snd kv))) (outs s).

Lemma find_rank_In m c r : NoDup (map snd m) -> In (c, r) m -> find_rank m r = Some c.
Proof.
  induction m as [|[c' r'] m IH]; simpl; [tauto|]. intros Hnd [H|H].
  - inversion H; subst. rewrite Z.eqb_refl. reflexivity.
  - inversion Hnd as [|? ? Hni Hnd']; subst. destruct (Z.eqb_spec r' r) as [->|Hne].
    + exfalso. apply Hni. apply (in_map snd) in H. exact H.
    + auto.
Qed.

Lemma NoDup_map_inj_in {A B} (f : A -> B) (l : list A) :
  (forall x y, In x l -> In y l -> f x = f y -> x = y) -> NoDup l -> NoDup (map f l).
Proof.
  induction l as [|a l IH]; simpl; intros Hinj Hnd; [constructor|].
  inversion Hnd as [|? ? Hni Hnd']; subst. constructor.
  - intros Hin. apply in_map_iff in Hin. destruct Hin as (y & E & Hy).
    assert (y = a) by (apply Hinj; auto). subst. contradiction.
  - apply IH; auto.
Qed.

Lemma slots_perm m : ranks_ok m -> exists ms, slots m = Some ms /\ Permutation ms (map fst m).
Proof.
  intros Hok. pose proof (proj2 (ranks_ok_spec m) Hok) as Hb. apply andb_true_iff in Hb.
  destruct Hb as [_ Hrange]. destruct Hok as [Hnd Hr].
  unfold slots. rewrite Hrange. eexists. split; [reflexivity|].
  set (f := fun i : nat => match find_rank m (Z.of_nat i) with Some c => c | None => nobody end).
  assert (HP : Permutation (map (fun cr => Z.to_nat (snd cr)) m) (seq 1 (length m))).
  { apply NoDup_Permutation_bis.
    - rewrite <- (map_map snd Z.to_nat). apply NoDup_map_inj_in; [|exact Hnd].
      intros x y Hx Hy E. apply in_map_iff in Hx. destruct Hx as ([cx rx] & Ex & Hx).
      apply in_map_iff in Hy. destruct Hy as ([cy ry] & Ey & Hy). cbn [snd] in *. subst.
      pose proof (Hr _ _ Hx). pose proof (Hr _ _ Hy). lia.
    - rewrite seq_length, map_length. lia.
    - intros k Hk. apply in_map_iff in Hk. destruct Hk as ([c r] & E & Hin). cbn [snd] in E. subst.
      pose proof (Hr _ _ Hin). apply in_seq. lia. }
  apply (Permutation_map f) in HP. apply Permutation_sym in HP.
  eapply Permutation_trans; [exact HP|]. rewrite map_map.
  erewrite map_ext_in; [apply Permutation_refl|].
  intros [c r] Hin. cbn [snd fst]. unfold f. pose proof (Hr _ _ Hin).
  rewrite Z2Nat.id by lia. rewrite (find_rank_In m c r Hnd Hin). reflexivity.
Qed.

Lemma abs_children_perm m : ranks_ok m -> Permutation (abs_children m) (map fst m).
Proof. intros H. destruct (slots_perm m H) as (ms & E & P). unfold abs_children. rewrite E. exact P. Qed.

Lemma nodes_abs s : K.nodes (abs s) = map fst (outs s).
Proof. unfold K.nodes, abs. rewrite map_map. apply map_ext. reflexivity. Qed.

Lemma children_abs s n :
  K.children (abs s) n = match aget (outs s) n with Some m => abs_children m | None => [] end.
Proof.
  unfold abs. induction (outs s) as [|[k m] l IH]; simpl; [reflexivity|].
  destruct (k =? n); [reflexivity|exact IH].
Qed.

Section WithWF.
  Variable s0 : st.
  Hypothesis Hwf : WF s0.
  Let g := abs s0.

  Lemma aget_ranks_ok n m : aget (outs s0) n = Some m -> ranks_ok m.
  Proof. intros E. apply (wf_ranks [] s0 Hwf n m); [apply aget_In; exact E|tauto]. Qed.

  Lemma edge_abs a b : KP.edge g a b <-> has_edge s0 a b = true.
  Proof.
    unfold KP.edge, g. rewrite nodes_abs, children_abs, has_edge_spec. split.
    - intros [Ha Hb]. destruct (aget (outs s0) a) as [m|] eqn:E; [|destruct Hb].
      exists m. split; [reflexivity|]. pose proof (abs_children_perm m (aget_ranks_ok a m E)) as HP.
      eapply Permutation_in; [exact HP|exact Hb].
    - intros (m & E & Hb). split; [eapply aget_Some_key; eauto|]. rewrite E.
      pose proof (abs_children_perm m (aget_ranks_ok a m E)) as HP.
      eapply Permutation_in; [apply Permutation_sym; exact HP|exact Hb].
  Qed.

  Lemma abs_wf : KP.wf g.
  Proof.
    constructor.
    - unfold g. rewrite nodes_abs. apply (wf_outs_nodup [] s0 Hwf).
    - intros n. unfold g. rewrite children_abs. destruct (aget (outs s0) n) as [m|] eqn:E; [|constructor].
      pose proof (abs_children_perm m (aget_ranks_ok n m E)) as HP.
      eapply Permutation_NoDup; [apply Permutation_sym; exact HP|].
      apply (wf_child_nodup [] s0 Hwf n m). apply aget_In. exact E.
    - intros a b Hab. apply edge_abs in Hab. apply has_edge_spec in Hab. destruct Hab as (m & E & Hb).
      unfold g. rewrite nodes_abs. apply (wf_child_nodes [] s0 Hwf a m); [apply aget_In; exact E|exact Hb].
  Qed.

  (* in-degree table = in-degree of the abstract graph *)
  Lemma indeg_abs_list (l : list (Z * list (Z * Z))) i x :
    (forall n m, In (n, m) l -> NoDup (map fst m) /\ ranks_ok m) ->
    K.indeg (abs (mkSt l i)) x = count_parents (mkSt l i) x.
  Proof.
    unfold abs, count_parents. cbn [outs]. induction l as [|[k m] l IH]; intros H; [reflexivity|].
    cbn [map fold_right fst snd K.indeg]. unfold K.indeg in IH. rewrite IH by (intros n0 m0 Hin0; apply (H n0 m0); right; exact Hin0).
    destruct (H k m (or_introl eq_refl)) as [Hnd Hok].
    pose proof (abs_children_perm m Hok) as HP.
    rewrite KP.count_occ_occ by (eapply Permutation_NoDup; [apply Permutation_sym; exact HP|exact Hnd]).
    unfold KP.occ. destruct (in_dec Z.eq_dec x (abs_children m)) as [Hin|Hni].
    - replace (existsb (fun cr => fst cr =? x) m) with true; [lia|]. symmetry. apply existsb_fst_In.
      eapply Permutation_in; eauto.
    - replace (existsb (fun cr => fst cr =? x) m) with false; [lia|]. symmetry.
      destruct (existsb (fun cr => fst cr =? x) m) eqn:E; [|reflexivity]. apply existsb_fst_In in E.
      exfalso. apply Hni. eapply Permutation_in; [apply Permutation_sym; exact HP|exact E].
  Qed.

  Lemma indeg_abs x : K.indeg g x = count_parents s0 x.
  Proof.
    unfold g. destruct s0 as [l i] eqn:Es. apply indeg_abs_list. intros n m Hin. split.
    - apply (wf_child_nodup [] _ Hwf n m Hin).
    - apply (wf_ranks [] _ Hwf n m Hin). tauto.
  Qed.

  Lemma count_parents_zero s x :
    (forall n m, In (n, m) (outs s) -> ~ In x (map fst m)) -> count_parents s x = 0.
  Proof.
    unfold count_parents. induction (outs s) as [|[k m] l IH]; intros H; [reflexivity|].
    cbn [fold_right snd]. rewrite IH by (intros; eapply H; right; eassumption).
    destruct (existsb (fun cr => fst cr =? x) m) eqn:E; [|reflexivity].
    apply existsb_fst_In in E. exfalso. apply (H k m); [left; reflexivity|exact E].
  Qed.

  Lemma get_in_indeg x : get_in s0 x = K.indeg g x.
  Proof.
    rewrite indeg_abs. destruct (in_dec Z.eq_dec x (map fst (outs s0))) as [Hin|Hni].
    - apply (wf_indeg [] s0 Hwf x Hin).
    - rewrite count_parents_zero.
      + unfold get_in. destruct (aget (ins s0) x) eqn:E; [|reflexivity].
        exfalso. apply Hni. apply (wf_ins_nodes [] s0 Hwf). eapply aget_Some_key; eauto.
      + intros n m Hin Hx. apply Hni. apply (wf_child_nodes [] s0 Hwf n m Hin x Hx).
  Qed.

  (* ---------- simulation of the inner loop ---------- *)
  Lemma get_in_unsafe s a b x :
    get_in (unsafe_remove_edge s a b) x = if x =? b then get_in s b - 1 else get_in s x.
  Proof.
    unfold get_in at 1. unfold unsafe_remove_edge. cbn [ins].
    destruct (Z.eqb_spec x b) as [->|Hne].
    - rewrite aget_aset_same. reflexivity.
    - rewrite aget_aset_other by exact Hne. reflexivity.
  Qed.

  Lemma relax_sim : forall ms s S insf n, (forall x, get_in s x = insf x) ->
    snd (relax s S n ms) = snd (K.relax insf S ms) /\
    forall x, get_in (fst (relax s S n ms)) x = fst (K.relax insf S ms) x.
  Proof.
    induction ms as [|m ms IH]; intros s S insf n Hins.
    - simpl. auto.
    - cbn [relax K.relax].
      assert (Hins' : forall x, get_in (unsafe_remove_edge s n m) x = K.dec insf m x).
      { intros x. rewrite get_in_unsafe. unfold K.dec. rewrite !Hins. destruct (Z.eqb_spec x m); [subst|]; reflexivity. }
      rewrite (Hins' m). destruct (K.dec insf m m =? 0); apply IH; exact Hins'.
  Qed.

  Record Frame (n : Z) (ms : list Z) (s s' : st) : Prop := {
    fr_keys : map fst (outs s') = map fst (outs s);
    fr_outs : forall x, x <> n -> aget (outs s') x = aget (outs s) x;
    fr_ins_nodup : NoDup (map fst (ins s'));
    fr_ins_keys : forall x, In x (map fst (ins s')) -> In x (map fst (ins s)) \/ In x ms
  }.

  Lemma unsafe_frame s n m : NoDup (map fst (ins s)) -> Frame n [m] s (unsafe_remove_edge s n m).
  Proof.
    intros Hnd. unfold unsafe_remove_edge. constructor; cbn [outs ins].
    - destruct (aget (outs s) n) eqn:E; [|reflexivity]. apply keys_aset_in. eapply aget_Some_key; eauto.
    - intros x Hx. destruct (aget (outs s) n) eqn:E; [|reflexivity]. apply aget_aset_other. exact Hx.
    - apply NoDup_keys_aset. exact Hnd.
    - intros x Hx. apply in_keys_aset in Hx. destruct Hx as [->|Hx]; [right; left; reflexivity|left; exact Hx].
  Qed.

  Lemma relax_frame : forall ms s S n, NoDup (map fst (ins s)) -> Frame n ms s (fst (relax s S n ms)).
  Proof.
    induction ms as [|m ms IH]; intros s S n Hnd.
    - simpl. constructor; auto.
    - cbn [relax]. pose proof (unsafe_frame s n m Hnd) as [F1 F2 F3 F4].
      set (s1 := unsafe_remove_edge s n m) in *.
      assert (HF : forall S1, Frame n (m :: ms) s (fst (relax s1 S1 n ms))).
      { intros S1. destruct (IH s1 S1 n F3) as [G1 G2 G3 G4]. constructor.
        - rewrite G1. exact F1.
        - intros x Hx. rewrite G2 by exact Hx. apply F2. exact Hx.
        - exact G3.
        - intros x Hx. destruct (G4 x Hx) as [H|H].
          + destruct (F4 x H) as [H'|[H'|[]]]; [left; exact H'|right; left; exact H'].
          + right. right. exact H. }
      destruct (get_in s1 m =? 0); apply HF.
  Qed.

  (* ---------- simulation of the main loop ---------- *)
  Record Rel (s : st) (L : list Z) (insf : Z -> Z) : Prop := {
    rel_keys : map fst (outs s) = map fst (outs s0);
    rel_outs : forall n, ~ In n L -> aget (outs s) n = aget (outs s0) n;
    rel_ins_nodup : NoDup (map fst (ins s));
    rel_ins_nodes : forall n, In n (map fst (ins s)) -> In n (map fst (outs s0));
    rel_ins : forall x, get_in s x = insf x
  }.

  Lemma insf_nonneg insf L : NoDup L -> incl L (K.nodes g) ->
    (forall x, insf x = K.indeg g x - KP.cnt g L x) -> forall x, 0 <= insf x.
  Proof.
    intros HL Hi Hins x.
    rewrite Hins, (KP.indeg_cnt g x abs_wf), (KP.split_cnt g L x (KP.wf_nodup g abs_wf) HL Hi).
    pose proof (KP.cnt_nonneg g (filter (fun n => negb (KP.inb L n)) (K.nodes g)) x). lia.
  Qed.

  Lemma sum_zero_iff (l : list (Z * Z)) : (forall k v, In (k, v) l -> 0 <= v) ->
    (fold_right (fun kv acc => snd kv + acc) 0 l <= 0 <-> forall k v, In (k, v) l -> v = 0).
  Proof.
    induction l as [|[k v] l IH]; intros Hpos.
    - simpl. split; [intros _ ? ? []|lia].
    - cbn [fold_right snd].
      assert (Hv : 0 <= v) by (apply (Hpos k v); left; reflexivity).
      assert (Hpos' : forall k v, In (k, v) l -> 0 <= v) by (intros; eapply Hpos; right; eassumption).
      assert (Hs : 0 <= fold_right (fun kv acc => snd kv + acc) 0 l).
      { clear IH Hpos. induction l as [|[k' v'] l IHl]; cbn [fold_right snd]; [lia|].
        assert (0 <= v') by (apply (Hpos' k' v'); left; reflexivity).
        assert (0 <= fold_right (fun kv acc => snd kv + acc) 0 l) by (apply IHl; intros; eapply Hpos'; right; eassumption).
        lia. }
      specialize (IH Hpos'). split.
      + intros Hle k' v' [H|H]; [inversion H; subst; lia|]. apply (proj1 IH ltac:(lia) k' v' H).
      + intros H0. assert (v = 0) by (apply (H0 k v); left; reflexivity).
        assert (fold_right (fun kv acc => snd kv + acc) 0 l <= 0) by (apply IH; intros; eapply H0; right; eassumption).
        lia.
  Qed.

  Lemma final_ok s L insf : Rel s L insf -> KP.Inv g insf [] L ->
    negb (0 <? fold_right (fun kv acc => snd kv + acc) 0 (ins s)) = forallb (fun n => insf n =? 0) (K.nodes g).
  Proof.
    intros [R1 R2 R3 R4 R5] [Hnd Hincl Hins _ _]. rewrite app_nil_r in *.
    pose proof (insf_nonneg insf L Hnd Hincl Hins) as Hnn.
    assert (Hval : forall k v, In (k, v) (ins s) -> insf k = v).
    { intros k v Hin. rewrite <- R5. unfold get_in. rewrite (In_aget _ _ _ R3 Hin). reflexivity. }
    assert (Hpos : forall k v, In (k, v) (ins s) -> 0 <= v).
    { intros k v Hin. rewrite <- (Hval k v Hin). apply Hnn. }
    apply eq_true_iff_eq. rewrite negb_true_iff, Z.ltb_ge, (sum_zero_iff _ Hpos), forallb_forall.
    unfold g. rewrite nodes_abs. split.
    - intros H0 n Hn. apply Z.eqb_eq. rewrite <- R5. unfold get_in.
      destruct (aget (ins s) n) as [v|] eqn:E; [|reflexivity]. apply (H0 n v). apply aget_In. exact E.
    - intros H0 k v Hin. rewrite <- (Hval k v Hin). apply Z.eqb_eq. apply H0. apply R4.
      apply (in_map fst) in Hin. exact Hin.
  Qed.

  Lemma kahn_sim : forall fuel s S L insf,
    Rel s L insf -> KP.Inv g insf S L -> (length (K.nodes g) < length L + fuel)%nat ->
    snd (kahn fuel s S L) =
      SortOk (snd (K.kahn fuel g insf S L))
             (forallb (fun n => fst (K.kahn fuel g insf S L) n =? 0) (K.nodes g)).
  Proof.
    induction fuel as [|fuel IH]; intros s S L insf HR HI Hf.
    - exfalso. destruct HI as [Hnd Hincl _ _ _].
      assert (Hnd' : NoDup L) by (eapply KP.NoDup_app_l; eauto).
      assert (Hincl' : incl L (K.nodes g)) by (intros a Ha; apply Hincl; apply in_or_app; auto).
      pose proof (NoDup_incl_length Hnd' Hincl'). lia.
    - destruct S as [|n S'].
      + cbn [kahn K.kahn snd fst]. f_equal. apply (final_ok s L insf HR HI).
      + cbn [kahn K.kahn].
        assert (HnN : In n (K.nodes g)).
        { destruct HI as [_ Hincl _ _ _]. apply Hincl. apply in_or_app. right. left. reflexivity. }
        assert (HnL : ~ In n L).
        { destruct HI as [Hnd _ _ _ _]. intros H. apply NoDup_remove_2 in Hnd. apply Hnd. apply in_or_app. auto. }
        unfold g in HnN. rewrite nodes_abs in HnN.
        destruct (aget_key_Some _ _ HnN) as (m0 & Em0).
        rewrite (rel_outs _ _ _ HR n HnL), Em0.
        pose proof (aget_ranks_ok n m0 Em0) as Hok.
        pose proof (proj2 (ranks_ok_spec m0) Hok) as Hb. apply andb_true_iff in Hb. destruct Hb as [Hdet _].
        rewrite Hdet. cbn [negb].
        destruct (slots_perm m0 Hok) as (ms & Ems & HPms). rewrite Ems.
        assert (Hch : K.children g n = ms).
        { unfold g. rewrite children_abs, Em0. unfold abs_children. rewrite Ems. reflexivity. }
        rewrite Hch.
        pose proof (KP.step g abs_wf insf n S' L HI) as HI'. rewrite Hch in HI'.
        destruct (relax_sim ms s S' insf n (rel_ins _ _ _ HR)) as [HS Hg].
        pose proof (relax_frame ms s S' n (rel_ins_nodup _ _ _ HR)) as [F1 F2 F3 F4].
        destruct (relax s S' n ms) as [s' S''] eqn:ER.
        destruct (K.relax insf S' ms) as [insf' SK] eqn:EK.
        cbn [fst snd] in *. subst SK.
        apply IH.
        * constructor.
          -- rewrite F1. apply (rel_keys _ _ _ HR).
          -- intros x Hx. rewrite F2.
             ++ apply (rel_outs _ _ _ HR). intros H. apply Hx. apply in_or_app. auto.
             ++ intros ->. apply Hx. apply in_or_app. right. left. reflexivity.
          -- exact F3.
          -- intros x Hx. destruct (F4 x Hx) as [H|H].
             ++ apply (rel_ins_nodes _ _ _ HR). exact H.
             ++ apply (wf_child_nodes [] s0 Hwf n m0); [apply aget_In; exact Em0|].
                eapply Permutation_in; eauto.
          -- exact Hg.
        * exact HI'.
        * rewrite app_length. simpl. lia.
  Qed.

  (* the abstract loop does not depend on the fuel once it is large enough *)
  Lemma kahn_fuel : forall f1 f2 insf S L, KP.Inv g insf S L ->
    (length (K.nodes g) < length L + f1)%nat -> (length (K.nodes g) < length L + f2)%nat ->
    K.kahn f1 g insf S L = K.kahn f2 g insf S L.
  Proof.
    induction f1 as [|f1 IH]; intros f2 insf S L HI H1 H2.
    - exfalso. destruct HI as [Hnd Hincl _ _ _].
      assert (Hnd' : NoDup L) by (eapply KP.NoDup_app_l; eauto).
      assert (Hincl' : incl L (K.nodes g)) by (intros a Ha; apply Hincl; apply in_or_app; auto).
      pose proof (NoDup_incl_length Hnd' Hincl'). lia.
    - destruct f2 as [|f2].
      + exfalso. destruct HI as [Hnd Hincl _ _ _].
        assert (Hnd' : NoDup L) by (eapply KP.NoDup_app_l; eauto).
        assert (Hincl' : incl L (K.nodes g)) by (intros a Ha; apply Hincl; apply in_or_app; auto).
        pose proof (NoDup_incl_length Hnd' Hincl'). lia.
      + destruct S as [|n S']; [reflexivity|]. cbn [K.kahn].
        pose proof (KP.step g abs_wf insf n S' L HI) as HI'.
        destruct (K.relax insf S' (K.children g n)) as [insf' S''] eqn:ER. cbn [fst snd] in HI'.
        apply IH; [exact HI'| |]; rewrite app_length; simpl; lia.
  Qed.

  Lemma sortZ_same l : sortZ l = K.sortZ l.
  Proof. reflexivity. Qed.

  Theorem toposort_refines_wf :
    snd (toposort s0) = SortOk (fst (K.toposort g)) (snd (K.toposort g)).
  Proof.
    rewrite (KP.toposort_unfold g). cbn [fst snd]. unfold KP.final, toposort.
    set (fuel := Datatypes.S (length (outs s0) + edge_count s0)).
    assert (HS0 : sortZ (filter (fun n => get_in s0 n =? 0) (map fst (outs s0)))
                  = K.sortZ (filter (fun n => K.indeg g n =? 0) (K.nodes g))).
    { rewrite sortZ_same. f_equal. unfold g at 2. rewrite nodes_abs. apply filter_ext.
      intros a. rewrite get_in_indeg. reflexivity. }
    rewrite HS0.
    pose proof (KP.init_inv g abs_wf) as HI.
    assert (Hlen : length (K.nodes g) = length (outs s0)).
    { unfold g. rewrite nodes_abs. apply map_length. }
    assert (Hlen' : length g = length (outs s0)) by (unfold g, abs; apply map_length).
    rewrite (kahn_fuel (Datatypes.S (length g)) fuel _ _ _ HI) by (unfold fuel; simpl; lia).
    apply kahn_sim.
    - constructor; auto.
      + apply (wf_ins_nodup [] s0 Hwf).
      + apply (wf_ins_nodes [] s0 Hwf).
      + apply get_in_indeg.
    - exact HI.
    - unfold fuel. simpl. lia.
  Qed.

  (* ---------- paths ---------- *)
  Lemma path_spath a b : KP.path g a b <-> spath s0 a b.
  Proof.
    split.
    - induction 1 as [a b Hab|a b c Hab _ IH].
      + apply spath_one. apply edge_abs. exact Hab.
      + eapply spath_cons; [apply edge_abs; exact Hab|exact IH].
    - induction 1 as [a b Hab|a b c Hab _ IH].
      + apply KP.path_one. apply edge_abs. exact Hab.
      + eapply KP.path_cons; [apply edge_abs; exact Hab|exact IH].
  Qed.

  Lemma acyclic_abs : KP.acyclic g <-> acyclic s0.
  Proof. unfold KP.acyclic, acyclic. split; intros H n Hp; apply (H n); apply path_spath; exact Hp. Qed.
End WithWF.

(* ---------- the state-level theorems ---------- *)
Theorem toposort_refines s : wfb s = true ->
  snd (toposort s) = SortOk (fst (K.toposort (abs s))) (snd (K.toposort (abs s))).
Proof. intros H. apply toposort_refines_wf. apply wfb_spec. exact H. Qed.

Theorem state_sort_total s : wfb s = true -> exists L ok, snd (toposort s) = SortOk L ok.
Proof. intros H. rewrite (toposort_refines s H). eauto. Qed.

Theorem state_sort_sound s : wfb s = true -> forall L, snd (toposort s) = SortOk L true ->
  Permutation L (map fst (outs s)) /\ (forall a b, has_edge s a b = true -> before a b L).
Proof.
  intros H L E. pose proof (proj1 (wfb_spec s) H) as Hwf.
  rewrite (toposort_refines s H) in E. injection E as EL Eok.
  assert (ET : K.toposort (abs s) = (L, true)).
  { rewrite (surjective_pairing (K.toposort (abs s))). rewrite EL, Eok. reflexivity. }
  destruct (KP.toposort_sound (abs s) (abs_wf s Hwf) L ET) as [HP Hord].
  rewrite nodes_abs in HP. split; [exact HP|].
  intros a b Hab. apply (edge_abs s Hwf) in Hab.
  assert (Hb : In b L).
  { apply (Permutation_in _ (Permutation_sym HP)). rewrite <- nodes_abs.
    apply (KP.wf_closed _ (abs_wf s Hwf) a b Hab). }
  apply in_split in Hb. destruct Hb as (L1 & L2 & EL').
  pose proof (Hord L1 b L2 EL' a Hab) as Ha.
  apply in_split in Ha. destruct Ha as (L1a & L1b & ->).
  exists L1a, L1b, L2. rewrite EL', <- app_assoc. reflexivity.
Qed.

Theorem state_sort_complete s : wfb s = true -> acyclic s -> exists L, snd (toposort s) = SortOk L true.
Proof.
  intros H Hac. pose proof (proj1 (wfb_spec s) H) as Hwf.
  rewrite (toposort_refines s H).
  rewrite (KP.toposort_complete (abs s) (abs_wf s Hwf) (proj2 (acyclic_abs s Hwf) Hac)). eauto.
Qed.

Theorem state_sort_success_acyclic s : wfb s = true -> forall L, snd (toposort s) = SortOk L true -> acyclic s.
Proof.
  intros H L E. pose proof (proj1 (wfb_spec s) H) as Hwf.
  rewrite (toposort_refines s H) in E. injection E as EL Eok.
  assert (ET : K.toposort (abs s) = (L, true)).
  { rewrite (surjective_pairing (K.toposort (abs s))). rewrite EL, Eok. reflexivity. }
  apply (acyclic_abs s Hwf). exact (KP.toposort_true_acyclic (abs s) (abs_wf s Hwf) L ET).
Qed.

Theorem state_sort_cyclic s : wfb s = true -> ~ acyclic s -> exists L, snd (toposort s) = SortOk L false.
Proof.
  intros H Hcyc. destruct (state_sort_total s H) as (L & ok & E). destruct ok.
  - exfalso. apply Hcyc. exact (state_sort_success_acyclic s H L E).
  - eauto.
Qed.

Print Assumptions toposort_refines.
Print Assumptions state_sort_sound.
Print Assumptions state_sort_complete.
Print Assumptions state_sort_cyclic.
