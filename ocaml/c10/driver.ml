(* C10: replay the harness trace through the extracted Gallina models of Pipeline.resolve and
   Pipeline.DeployItem, and judge the implementation's outputs with the extracted validators. *)
open C10_model
open Conv

(* ---------- strings -> integer codes ----------
   resolve uses strings through equality and Go's string order (byte-wise, = OCaml's compare on
   strings).  Every string that can become a graph node is ranked. *)
type spec = { sid : int; sname : string; sprov : string list; sreq : string list }

let strings_of_sx s = List.map atom (args s)

let spec_of_sx (s : sx) : spec =
  match args s with
  | [i; n; p; r] -> { sid = int_of_sx i; sname = atom n; sprov = strings_of_sx p; sreq = strings_of_sx r }
  | _ -> failwith "item shape"

let node_table (items : spec list) : (string, int) Hashtbl.t * string array =
  let names = List.map (fun s -> s.sname) items in
  let usage n = List.length (List.filter (fun m -> m = n) names) in
  let dis = List.concat_map (fun n -> let u = usage n in
      if u > 1 then List.init u (fun k -> Printf.sprintf "%s_%d" n (k + 1)) else []) names in
  let ents = List.concat_map (fun s -> List.map (fun e -> "[" ^ e ^ "]") (s.sprov @ s.sreq)) items in
  let all = List.sort_uniq compare (names @ dis @ ents) in
  let tbl = Hashtbl.create 64 in
  List.iteri (fun i s -> Hashtbl.replace tbl s (i + 1)) all;
  (tbl, Array.of_list all)

let show_ints l = "[" ^ String.concat " " (List.map string_of_int l) ^ "]"

(* ---------- map-iteration choices ---------- *)
let by_hash (f : int -> int) (l : z list) : z list =
  List.map snd (List.sort compare (List.map (fun x -> (f (int_of_z x), x)) l))

let id_choices : choices =
  { ch_parents = (fun _ l -> l); ch_roots = (fun l -> l); ch_bfs = (fun _ l -> l); ch_cycle = (fun _ _ l -> l) }

let seeded_choices (seed : int) : choices =
  { ch_parents = (fun k l -> by_hash (fun x -> Hashtbl.hash (seed, 1, int_of_z k, x)) l);
    ch_roots = (fun l -> by_hash (fun x -> Hashtbl.hash (seed, 2, x)) l);
    ch_bfs = (fun n l -> by_hash (fun x -> Hashtbl.hash (seed, 3, int_of_z n, x)) l);
    ch_cycle = (fun k n l -> by_hash (fun x -> Hashtbl.hash (seed, 4, int_of_z k, int_of_z n, x)) l) }

let show_res (r : item list res) : string =
  match r with
  | Ok l -> "(ok" ^ String.concat "" (List.map (fun it -> " " ^ string_of_int (int_of_z it.iid)) l) ^ ")"
  | Err Ambiguous -> "(err ambig)"
  | Err Unsatisfied -> "(err unsat)"
  | Err SortFailure -> "(err sort)"
  | Panic -> "(panic index)"
  | Unspec -> "(unspec)"
  | Fuel -> "(fuel)"

(* ---------- the resolve part of a case ---------- *)
let check_resolve (id : int) (kind : string) (specs : spec list) (outs : sx list) (must_succeed : bool) =
  let (tbl, _) = node_table specs in
  let code s = try z_of_int (Hashtbl.find tbl s) with Not_found -> failwith ("no code for " ^ s) in
  let name_of = Hashtbl.create 64 in
  Hashtbl.iter (fun s c -> Hashtbl.replace name_of c s) tbl;
  let dis n k = code (Printf.sprintf "%s_%d" (Hashtbl.find name_of (int_of_z n)) (int_of_z k)) in
  let ent e = code ("[" ^ e ^ "]") in
  let items = List.map (fun s -> { iid = z_of_int s.sid; iname = code s.sname;
                                   iprov = List.map ent s.sprov; ireq = List.map ent s.sreq }) specs in
  let by_id = Hashtbl.create 32 in
  List.iter (fun it -> Hashtbl.replace by_id (int_of_z it.iid) it) items;
  let in_domain = domain_okb dis items in
  let n_items = List.length items in
  let names = List.map (fun s -> s.sname) specs in
  let dup_names = List.length (List.sort_uniq compare names) < n_items in
  let amb = ambiguous_keys id_choices dis items in
  let maxp = int_of_nat (max_providers items) in
  (* every property failure names the region of the input space it lies in *)
  let region = match region_of items with
    | RUnchained -> "[unchained]"
    | RThree -> "[three-providers]"
    | RNoRequire -> "[chained:no-provider-requires-entity]"
    | RShared -> "[chained:item-provides-two-ambiguous-entities]"
    | RSeveral -> "[chained:unclassified:several-ambiguous-entities]"
    | RRenames -> "[chained:unclassified:renames-shape]" in
  count ("region_" ^ (match region_of items with RUnchained -> "unchained" | RThree -> "three" | RNoRequire -> "norequire"
                      | RShared -> "shared" | RSeveral -> "several" | RRenames -> "renames"));
  let propfail id text = propfail id (region ^ " " ^ text) in
  count "resolve_cases";
  if not in_domain then count "resolve_outside_domain";
  if amb <> [] then count "resolve_chained";
  (* model outcomes: one when no map order is involved, else the set over a family of orders *)
  let model = Hashtbl.create 8 in
  let add_model ch = Hashtbl.replace model (show_res (resolve ch dis items)) () in
  add_model id_choices;
  if amb <> [] then for seed = 1 to 48 do add_model (seeded_choices seed) done;
  let real = List.map (fun o -> match args o with [x] -> x | _ -> failwith "outcome shape") outs in
  if List.length real > 1 then count "resolve_nondeterministic";
  let unstable_sort = dup_names && n_items > 12 in
  List.iter (fun o ->
    let so = string_of_sx o in
    (* fine correspondence *)
    if Hashtbl.mem model "(fuel)" then mismatch id "resolve: model out of fuel"
    else if unstable_sort then count "resolve_unstable_sort_region"
    else if not (Hashtbl.mem model so) then begin
      if amb <> [] then begin
        (* more map orders before giving up *)
        let seed = ref 49 in
        while not (Hashtbl.mem model so) && !seed < 60 do add_model (seeded_choices !seed); incr seed done
      end;
      if Hashtbl.mem model so then ()
      else if Hashtbl.mem model "(unspec)" then count "resolve_model_unspecified"
      else mismatch id (Printf.sprintf "resolve (%s): implementation %s, model %s" kind so
             (String.concat " | " (Hashtbl.fold (fun k () acc -> k :: acc) model [])))
    end;
    (* property *)
    if in_domain then begin
      match tag o, args o with
      | "ok", ids ->
          count "resolve_ok";
          let ids = List.map int_of_sx ids in
          if List.exists (fun i -> not (Hashtbl.mem by_id i)) ids then
            propfail id ("resolve: the resolved order contains an item that was not deployed: " ^ show_ints ids)
          else begin
            let order = List.map (Hashtbl.find by_id) ids in
            if not (perm_b order items) then
              propfail id ("resolve: the resolved order loses or duplicates an item: " ^ show_ints ids)
            else if not (order_ok items order) then
              propfail id ("resolve: success reported but the order violates a requirement (an item runs before a provider that does not depend on it, or sees no provider at all): " ^ show_ints ids)
            else if maxp <= 1 && not (positions_strict [] order) then
              propfail id ("resolve: one provider per entity, but an item does not run after its provider: " ^ show_ints ids)
          end
      | "err", [A "unsat"] ->
          count "resolve_err_unsat";
          if not (unsatisfiedb items) then propfail id "resolve: 'unsatisfied dependency' although every requirement has a provider"
      | "err", [A "ambig"] ->
          count "resolve_err_ambig";
          if maxp < 3 then propfail id "resolve: 'ambiguous graph' although no entity has three providers"
      | "err", [A "sort"] ->
          count "resolve_err_sort";
          if maxp <= 1 then begin
            if not (cyclicb items) && not (unsatisfiedb items) then
              propfail id "resolve: 'topological sort failure' although the requirements are acyclic, satisfied and unambiguous"
          end else begin
            count "resolve_err_sort_chained";
            (* statistic only: a chained 'topological sort failure' although some order passes the validator *)
            if n_items <= 6 then begin
              let rec perms = function
                | [] -> [[]]
                | l -> List.concat_map (fun x -> List.map (fun p -> x :: p) (perms (List.filter (fun y -> y != x) l))) l in
              if List.exists (fun o -> order_ok items o) (perms items) then count "resolve_err_sort_chained_valid_order_exists"
            end
          end
      | "err", _ -> propfail id ("resolve: unexpected error " ^ so)
      | "panic", _ -> propfail id ("resolve panics instead of returning an order or an error: " ^ so)
      | _ -> failwith ("outcome " ^ so)
    end;
    if must_succeed && tag o <> "ok" then
      propfail id ("initialization fails for a subset of the built-in analyses with the optional features enabled: " ^ so)
  ) real

(* ---------- the deployment part ---------- *)
let check_deploy (id : int) (kind : string) (c : sx) : spec list * sx list =
  let codes : (string, int) Hashtbl.t = Hashtbl.create 64 in
  let code s = match Hashtbl.find_opt codes s with
    | Some i -> z_of_int i
    | None -> let i = Hashtbl.length codes + 1 in Hashtbl.replace codes s i; z_of_int i in
  let reg = field "reg" c in
  let entry name p r f = { rname = code name; rprov = List.map code p; rreq = List.map code r; rfeat = List.map code f } in
  let ents = List.map (fun e -> match args e with
      | [p; r; f] -> (tag e, entry (tag e) (strings_of_sx p) (strings_of_sx r) (strings_of_sx f))
      | _ -> failwith "ent shape") (args (field "ent" reg)) in
  let find_ent n = try List.assoc n ents with Not_found -> failwith ("unknown registered item " ^ n) in
  let registry = {
    provided = List.map (fun p -> (code (tag p), List.map (fun n -> find_ent (atom n)) (args p))) (args (field "prov" reg));
    registered = List.map (fun (n, e) -> (code n, e)) ents } in
  let feats = List.map code (strings_of_sx (field "feats" c)) in
  let roots = List.map (fun d -> match args d with
      | [A "real"; A n] -> find_ent n
      | [A "synth"; A n; p; r; f; _] -> entry n (strings_of_sx p) (strings_of_sx r) (strings_of_sx f)
      | _ -> failwith "deploy shape") (args (field "deploys" c)) in
  let obs = field "obs" c in
  (match field_opt "nondet" obs with
   | Some _ -> propfail id "DeployItem deploys different item sets on equal inputs"
   | None -> ());
  let added = args (field "added" obs) in
  let in_domain = reg_okb registry in
  if not in_domain then count "deploy_registry_outside_domain";
  let p = ref { p_items = []; p_feats = feats } in
  let ok = ref true in
  List.iteri (fun i root ->
    if !ok && i < List.length added then begin
      count "deployments";
      let a = List.nth added i in
      if tag a = "panic" then (propfail id "DeployItem panics"; ok := false)
      else begin
        let real_names = List.map (fun x -> int_of_z (code (atom x))) (args a) in
        (match deploy registry !p root with
         | None -> mismatch id "deploy: model out of fuel"; ok := false
         | Some p' ->
             let before = List.length !p.p_items in
             let model_names = List.filteri (fun k _ -> k >= before) (List.map (fun e -> int_of_z e.rname) p'.p_items) in
             if model_names <> real_names then begin
               mismatch id (Printf.sprintf "deploy #%d (%s): implementation added %s, model %s" i kind
                              (string_of_sx a) (show_ints model_names));
               ok := false
             end;
             (* property: the added set is the closure of the root under enabled providers of requirements *)
             if in_domain then begin
               let want = List.map int_of_z (closure_names registry !p root) in
               if List.sort compare real_names <> want then
                 propfail id (Printf.sprintf "deploy #%d: the deployed set %s is not the closure of the item under the enabled providers of its requirements" i (string_of_sx a))
             end;
             p := p')
      end
    end) roots;
  let items = List.map spec_of_sx (args (field "items" obs)) in
  (* the pipeline content seen by resolve must be the model's *)
  if !ok then begin
    let model_items = List.map (fun e -> int_of_z e.rname) !p.p_items in
    let real_items = List.map (fun s -> int_of_z (code s.sname)) items in
    if model_items <> real_items then mismatch id "deploy: pipeline items differ from the model's"
    else List.iter2 (fun e s ->
        if List.map int_of_z e.rprov <> List.map (fun x -> int_of_z (code x)) s.sprov
        || List.map int_of_z e.rreq <> List.map (fun x -> int_of_z (code x)) s.sreq then
          mismatch id ("deploy: provides/requires of deployed item differ from the registry table: " ^ s.sname))
        !p.p_items items
  end;
  (items, args (field "outs" obs))

let () =
  iter_cases (fun id c ->
    let kind = atom (List.hd (args (field "kind" c))) in
    count ("kind_" ^ kind);
    match field_opt "deploys" c with
    | Some _ ->
        let (items, outs) = check_deploy id kind c in
        let uast_on = List.mem "uast" (strings_of_sx (field "feats" c)) in
        let must = uast_on && (kind = "leaves" || kind = "leaves-rev" || kind = "single") in
        check_resolve id kind items outs must
    | None ->
        let items = List.map spec_of_sx (args (field "items" c)) in
        check_resolve id kind items (args (field "obs" c)) false)
