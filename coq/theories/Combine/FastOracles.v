(* C18 - fast versions of the specification oracles of Spec.v for LARGE results (10^3 .. 10^4 files /
   developers / ticks), with soundness towards the oracles of Spec.v:

     cp_sum_fast_b ... = true  ->  cp_sum_b ... = true
     dv_conserve_fast_b ... = true  ->  dv_conserve_b ... = true

   Spec.v states "every cell of the output is the sum of the input cells that are re-indexed to it" by a double
   loop over all index pairs, re-scanning both inputs for each pair (cubic and worse): fine for the small cases,
   hopeless for a 2000 x 2000 coupling matrix.  Here both sides are flattened into lists of ((row, column), value),
   brought into a canonical form (sorted by key, equal keys added up, zero sums dropped) and compared; the
   re-indexing functions (position of a name in a list of names, lookup in the identity table) are tabulated once.
   Soundness needs no sortedness argument: the canonical form preserves the sum under every key. *)
From Coq Require Import List ZArith Bool Lia.
From Herc Require Import Combine.Model Combine.Spec Combine.Facts.
Import ListNotations.
Open Scope Z_scope.

(* ---------- keyed sums and their canonical form ---------- *)
Notation key := (Z * Z)%type (only parsing).
Definition key_eqb (a b : key) : bool := (fst a =? fst b) && (snd a =? snd b).
Definition key_ltb (a b : key) : bool := (fst a <? fst b) || ((fst a =? fst b) && (snd a <? snd b)).

Fixpoint tsum (k : key) (l : list (key * Z)) : Z :=
  match l with
  | [] => 0
  | (k', v) :: r => (if key_eqb k k' then v else 0) + tsum k r
  end.

(* sorted insert; an equal key takes the sum *)
Fixpoint tins (k : key) (v : Z) (m : list (key * Z)) : list (key * Z) :=
  match m with
  | [] => [(k, v)]
  | (k', v') :: r =>
      if key_ltb k k' then (k, v) :: m
      else if key_eqb k k' then (k', v' + v) :: r
      else (k', v') :: tins k v r
  end.

Definition tsorted (l : list (key * Z)) : list (key * Z) :=
  fold_right (fun e m => tins (fst e) (snd e) m) [] l.
Definition canon (l : list (key * Z)) : list (key * Z) :=
  filter (fun e => negb (snd e =? 0)) (tsorted l).

Fixpoint teqb (a b : list (key * Z)) : bool :=
  match a, b with
  | [], [] => true
  | (k, v) :: a', (k', v') :: b' => key_eqb k k' && (v =? v') && teqb a' b'
  | _, _ => false
  end.

Lemma key_eqb_eq a b : key_eqb a b = true <-> a = b.
Proof.
  destruct a as [a1 a2], b as [b1 b2]; unfold key_eqb; simpl.
  rewrite andb_true_iff, !Z.eqb_eq. split; [intros [-> ->]; reflexivity | intros H; inversion H; auto].
Qed.

Lemma teqb_eq a b : teqb a b = true -> a = b.
Proof.
  revert b; induction a as [|[k v] a IH]; intros [|[k' v'] b]; simpl; try discriminate; [reflexivity|].
  intros H. apply andb_true_iff in H. destruct H as [H H3]. apply andb_true_iff in H. destruct H as [H1 H2].
  apply key_eqb_eq in H1. apply Z.eqb_eq in H2. subst. f_equal. apply IH; assumption.
Qed.

Lemma tsum_app k a b : tsum k (a ++ b) = tsum k a + tsum k b.
Proof. induction a as [|[k' v] a IH]; simpl; [reflexivity|]. rewrite IH. lia. Qed.

Lemma tsum_tins k k' v m : tsum k (tins k' v m) = (if key_eqb k k' then v else 0) + tsum k m.
Proof.
  induction m as [|[k0 v0] r IH]; simpl.
  - reflexivity.
  - destruct (key_ltb k' k0); simpl; [reflexivity|].
    destruct (key_eqb k' k0) eqn:E; simpl.
    + apply key_eqb_eq in E; subst k0. destruct (key_eqb k k'); lia.
    + rewrite IH. lia.
Qed.

Lemma tsum_tsorted k l : tsum k (tsorted l) = tsum k l.
Proof.
  induction l as [|[k' v] l IH]; simpl; [reflexivity|]. rewrite tsum_tins, IH. reflexivity.
Qed.

Lemma tsum_filter_nz k l : tsum k (filter (fun e => negb (snd e =? 0)) l) = tsum k l.
Proof.
  induction l as [|[k' v] l IH]; simpl; [reflexivity|].
  destruct (v =? 0) eqn:E; simpl.
  - apply Z.eqb_eq in E; subst v. rewrite IH. destruct (key_eqb k k'); lia.
  - rewrite IH. reflexivity.
Qed.

Lemma tsum_canon k l : tsum k (canon l) = tsum k l.
Proof. unfold canon. rewrite tsum_filter_nz. apply tsum_tsorted. Qed.

Lemma canon_eq_tsum a b : teqb (canon a) (canon b) = true -> forall k, tsum k a = tsum k b.
Proof. intros H k. apply teqb_eq in H. rewrite <- (tsum_canon k a), <- (tsum_canon k b), H. reflexivity. Qed.

(* ---------- a function on indices, tabulated on [0, n) ---------- *)
Definition tabf (tab : list Z) (n : Z) (dflt : Z -> Z) (i : Z) : Z :=
  if (0 <=? i) && (i <? n) then nthZ tab i 0 else dflt i.
Definition mktab (f : Z -> Z) (n : nat) : list Z := map f (seqZ 0 n).

Lemma nth_seqZ s n k d : (k < n)%nat -> nth k (seqZ s n) d = s + Z.of_nat k.
Proof.
  revert s k; induction n as [|n IH]; intros s k Hk; [lia|].
  destruct k as [|k]; simpl; [lia|]. rewrite IH by lia. lia.
Qed.

Lemma length_seqZ s n : length (seqZ s n) = n.
Proof. revert s; induction n as [|n IH]; intros s; simpl; [reflexivity|]. rewrite IH. reflexivity. Qed.

Lemma tabf_mktab f n i : tabf (mktab f n) (Z.of_nat n) f i = f i.
Proof.
  unfold tabf, mktab. destruct ((0 <=? i) && (i <? Z.of_nat n)) eqn:E; [|reflexivity].
  apply andb_true_iff in E. destruct E as [E1 E2]. apply Z.leb_le in E1. apply Z.ltb_lt in E2.
  unfold nthZ. destruct (i <? 0) eqn:E3; [apply Z.ltb_lt in E3; lia|].
  assert (Hk : (Z.to_nat i < n)%nat) by lia.
  rewrite (nth_indep _ 0 (f 0)) by (rewrite map_length, length_seqZ; exact Hk).
  rewrite map_nth. rewrite nth_seqZ by exact Hk. f_equal. lia.
Qed.

(* ---------- coupling matrices ---------- *)
Fixpoint row_triples (ri : Z -> Z) (a : Z) (r : row) : list (key * Z) :=
  match r with
  | [] => []
  | (c, v) :: rest => ((a, ri c), v) :: row_triples ri a rest
  end.
Fixpoint triples (ri : Z -> Z) (rows : list row) (i : Z) : list (key * Z) :=
  match rows with
  | [] => []
  | r :: rest => row_triples ri (ri i) r ++ triples ri rest (i + 1)
  end.

Lemma tsum_row_triples ri a' a b r :
  tsum (a, b) (row_triples ri a' r) = if a' =? a then row_sum_to ri b r else 0.
Proof.
  induction r as [|[c v] r IH]; simpl.
  - destruct (a' =? a); reflexivity.
  - rewrite IH. unfold key_eqb; simpl. rewrite (Z.eqb_sym a a'), (Z.eqb_sym b (ri c)).
    destruct (a' =? a); simpl; [|reflexivity]. destruct (ri c =? b); lia.
Qed.

Lemma tsum_triples ri a b rows i : tsum (a, b) (triples ri rows i) = rows_sum ri a b rows i.
Proof.
  revert i; induction rows as [|r rows IH]; intros i; simpl; [reflexivity|].
  rewrite tsum_app, tsum_row_triples, IH. reflexivity.
Qed.

Lemma row_sum_to_id b r : row_sum_to (fun x => x) b r = asum Z.eqb idZ b r.
Proof.
  induction r as [|[c v] r IH]; simpl; [reflexivity|]. rewrite IH, (Z.eqb_sym c b). reflexivity.
Qed.

Lemma rows_sum_id a b rows i :
  rows_sum (fun x => x) a b rows i =
  if a <? i then 0 else asum Z.eqb idZ b (nth (Z.to_nat (a - i)) rows []).
Proof.
  revert i; induction rows as [|r rows IH]; intros i; simpl.
  - destruct (a <? i); [reflexivity|]. destruct (Z.to_nat (a - i)); reflexivity.
  - rewrite IH, row_sum_to_id.
    destruct (a <? i) eqn:E1.
    + apply Z.ltb_lt in E1. assert (i =? a = false) as -> by (apply Z.eqb_neq; lia).
      assert (a <? i + 1 = true) as -> by (apply Z.ltb_lt; lia). reflexivity.
    + apply Z.ltb_ge in E1. destruct (i =? a) eqn:E2.
      * apply Z.eqb_eq in E2; subst i. assert (a <? a + 1 = true) as -> by (apply Z.ltb_lt; lia).
        replace (a - a) with 0 by lia. simpl. lia.
      * apply Z.eqb_neq in E2. assert (a <? i + 1 = false) as -> by (apply Z.ltb_ge; lia).
        replace (Z.to_nat (a - i)) with (S (Z.to_nat (a - (i + 1)))) by lia. reflexivity.
Qed.

Lemma out_get_rows_sum out a b : out_get out a b = rows_sum (fun x => x) a b out 0.
Proof.
  rewrite rows_sum_id. unfold out_get, nthZ. rewrite Z.sub_0_r. destruct (a <? 0); reflexivity.
Qed.

Lemma row_sum_to_ext ri ri' b r : (forall i, ri i = ri' i) -> row_sum_to ri b r = row_sum_to ri' b r.
Proof. intros H; induction r as [|[c v] r IH]; simpl; [reflexivity|]. rewrite IH, H. reflexivity. Qed.

Lemma rows_sum_ext ri ri' a b rows i : (forall i, ri i = ri' i) -> rows_sum ri a b rows i = rows_sum ri' a b rows i.
Proof.
  intros H; revert i; induction rows as [|r rows IH]; intros i; simpl; [reflexivity|].
  rewrite IH, H, (row_sum_to_ext ri ri' b r H). reflexivity.
Qed.

Definition matrix_fast_b (ri1 ri2 : Z -> Z) (rows1 rows2 out : list row) : bool :=
  teqb (canon (triples (fun x => x) out 0)) (canon (triples ri1 rows1 0 ++ triples ri2 rows2 0)).

Lemma matrix_fast_sound ri1 ri2 rows1 rows2 out :
  matrix_fast_b ri1 ri2 rows1 rows2 out = true ->
  forall a b, out_get out a b = rows_sum ri1 a b rows1 0 + rows_sum ri2 a b rows2 0.
Proof.
  intros H a b. unfold matrix_fast_b in H. pose proof (canon_eq_tsum _ _ H (a, b)) as E.
  rewrite tsum_app, !tsum_triples in E. rewrite out_get_rows_sum. exact E.
Qed.

(* ---------- people files: the developer index of every row, computed once ---------- *)
Fixpoint pf_members_l (pis : list Z) (fi : Z -> Z) (w : Z) (pf : list (list Z)) : list Z :=
  match pis, pf with
  | p :: pis', fs :: rest => (if p =? w then map fi fs else []) ++ pf_members_l pis' fi w rest
  | _, _ => []
  end.

Lemma pf_members_l_spec pi fi w pf i :
  pf_members_l (map pi (seqZ i (length pf))) fi w pf = pf_members pi fi w pf i.
Proof.
  revert i; induction pf as [|fs pf IH]; intros i; simpl; [reflexivity|]. rewrite IH. reflexivity.
Qed.

Lemma pf_members_ext pi fi fi' w pf i : (forall x, fi x = fi' x) -> pf_members pi fi w pf i = pf_members pi fi' w pf i.
Proof.
  intros H; revert i; induction pf as [|fs pf IH]; intros i; simpl; [reflexivity|].
  rewrite IH. f_equal. destruct (pi i =? w); [|reflexivity]. apply map_ext; exact H.
Qed.

Lemma pf_members_tab pi f n w pf i :
  pf_members pi (tabf (mktab f n) (Z.of_nat n) f) w pf i = pf_members pi f w pf i.
Proof. apply pf_members_ext. intros x. apply tabf_mktab. Qed.

(* ---------- the fast oracle for couples ---------- *)
Definition cp_sum_fast_b (people : table) (merged : list name) (r1 r2 out : CouplesResult) : bool :=
  let mfiles := cr_files out in
  let fi1 := name_index mfiles (cr_files r1) in
  let fi2 := name_index mfiles (cr_files r2) in
  let pi1 := pidx0 people (cr_people r1) merged in
  let pi2 := pidx0 people (cr_people r2) merged in
  let nf1 := length (cr_files r1) in
  let nf2 := length (cr_files r2) in
  let np1 := length (cr_people r1) in
  let np2 := length (cr_people r2) in
  let tf1 := mktab fi1 nf1 in
  let tf2 := mktab fi2 nf2 in
  let tp1 := mktab pi1 np1 in
  let tp2 := mktab pi2 np2 in
  let fi1' := tabf tf1 (Z.of_nat nf1) fi1 in
  let fi2' := tabf tf2 (Z.of_nat nf2) fi2 in
  let pi1' := tabf tp1 (Z.of_nat np1) pi1 in
  let pi2' := tabf tp2 (Z.of_nat np2) pi2 in
  let pfis1 := map (pfidx0 people (cr_people r1)) (seqZ 0 (length (cr_pf r1))) in
  let pfis2 := map (pfidx0 people (cr_people r2)) (seqZ 0 (length (cr_pf r2))) in
  let nf := lenZ mfiles in
  let np := lenZ merged in
  str_nodup mfiles && str_subset (cr_files r1) mfiles && str_subset (cr_files r2) mfiles &&
  str_subset mfiles (cr_files r1 ++ cr_files r2) &&
  (lenZ (cr_fl out) =? nf) &&
  forallb (fun name => lines_of mfiles (cr_fl out) name =?
                       lines_of (cr_files r1) (cr_fl r1) name + lines_of (cr_files r2) (cr_fl r2) name) mfiles &&
  (lenZ (cr_fm out) =? nf) && forallb (keys_nodup Z.eqb) (cr_fm out) &&
  forallb (fun c => (0 <=? c) && (c <? nf)) (row_keys (cr_fm out)) &&
  matrix_fast_b fi1' fi2' (cr_fm r1) (cr_fm r2) (cr_fm out) &&
  (lenZ (cr_pm out) =? np + 1) && forallb (keys_nodup Z.eqb) (cr_pm out) &&
  forallb (fun c => (0 <=? c) && (c <=? np)) (row_keys (cr_pm out)) &&
  matrix_fast_b pi1' pi2' (cr_pm r1) (cr_pm r2) (cr_pm out) &&
  (lenZ (cr_pf out) =? np) &&
  forallb (fun w =>
     let got := nthZ (cr_pf out) w [] in
     strictly_sorted got &&
     same_set got (pf_members_l pfis1 fi1' w (cr_pf r1) ++ pf_members_l pfis2 fi2' w (cr_pf r2)))
          (seqZ 0 (length merged)).

Lemma forallb2_of_all {A} (P : A -> A -> bool) (l : list A) :
  (forall a b, P a b = true) -> forallb (fun a => forallb (fun b => P a b) l) l = true.
Proof. intros H. apply forallb_forall; intros a _. apply forallb_forall; intros b _. apply H. Qed.

Ltac split_left :=
  lazymatch goal with
  | |- andb _ _ = true => apply andb_true_iff; split; [split_left|]
  | _ => idtac
  end.

Theorem cp_sum_fast_sound people merged r1 r2 out :
  cp_sum_fast_b people merged r1 r2 out = true -> cp_sum_b people merged r1 r2 out = true.
Proof.
  unfold cp_sum_fast_b, cp_sum_b. cbv zeta. intros H.
  repeat (apply andb_true_iff in H; let H' := fresh "C" in destruct H as [H H']).
  split_left; try assumption.
  - (* files matrix *)
    apply forallb2_of_all. intros a b. apply Z.eqb_eq.
    rewrite (matrix_fast_sound _ _ _ _ _ C5 a b).
    f_equal; apply rows_sum_ext; intros i; apply tabf_mktab.
  - (* people matrix *)
    apply forallb2_of_all. intros a b. apply Z.eqb_eq.
    rewrite (matrix_fast_sound _ _ _ _ _ C1 a b).
    f_equal; apply rows_sum_ext; intros i; apply tabf_mktab.
  - (* people files *)
    rewrite forallb_forall in C |- *. intros w Hw. specialize (C w Hw). cbv zeta in C.
    rewrite !pf_members_l_spec in C.
    rewrite !pf_members_tab in C. exact C.
Qed.

(* ---------- developer statistics ---------- *)
Fixpoint dd_triples (f : field) (nd : Z -> Z) (t : Z) (dd : devmap) : list (key * Z) :=
  match dd with
  | [] => []
  | (d, s) :: r => ((t, nd d), msum f s) :: dd_triples f nd t r
  end.
Fixpoint tm_triples (f : field) (nd : Z -> Z) (off : Z) (tm : tickmap) : list (key * Z) :=
  match tm with
  | [] => []
  | (t', dd) :: r => dd_triples f nd (t' + off) dd ++ tm_triples f nd off r
  end.

Lemma tsum_dd_triples f nd t' t k dd :
  tsum (t, k) (dd_triples f nd t' dd) =
  if t' =? t then (fix go (dd : devmap) : Z :=
                     match dd with [] => 0 | (d, s) :: r => (if nd d =? k then msum f s else 0) + go r end) dd
  else 0.
Proof.
  induction dd as [|[d s] dd IH]; simpl.
  - destruct (t' =? t); reflexivity.
  - rewrite IH. unfold key_eqb; simpl. rewrite (Z.eqb_sym t t'), (Z.eqb_sym k (nd d)).
    destruct (t' =? t); simpl; [|reflexivity]. destruct (nd d =? k); lia.
Qed.

Lemma dd_go_in people rd k f dd :
  (fix go (dd : devmap) : Z :=
     match dd with [] => 0 | (d, s) :: r => (if newdev0 people rd d =? k then msum f s else 0) + go r end) dd
  = dd_sum_to f people rd k dd.
Proof. induction dd as [|[d s] dd IH]; simpl; [reflexivity|]. rewrite IH. reflexivity. Qed.

Lemma dd_go_ext nd nd' k f dd : (forall d, nd d = nd' d) ->
  (fix go (dd : devmap) : Z :=
     match dd with [] => 0 | (d, s) :: r => (if nd d =? k then msum f s else 0) + go r end) dd
  = (fix go (dd : devmap) : Z :=
     match dd with [] => 0 | (d, s) :: r => (if nd' d =? k then msum f s else 0) + go r end) dd.
Proof. intros H. induction dd as [|[d s] dd IH]; simpl; [reflexivity|]. rewrite IH, H. reflexivity. Qed.

Lemma tsum_tm_in f people rd nd off t k tm : (forall d, nd d = newdev0 people rd d) ->
  tsum (t, k) (tm_triples f nd off tm) = in_sum f people rd off t k tm.
Proof.
  intros H. induction tm as [|[t' dd] tm IH]; simpl; [reflexivity|].
  rewrite tsum_app, tsum_dd_triples, IH. f_equal.
  destruct (t' + off =? t); [|reflexivity].
  rewrite (dd_go_ext nd (newdev0 people rd) k f dd H). apply dd_go_in.
Qed.

Lemma dd_go_out k f dd :
  (fix go (dd : devmap) : Z :=
     match dd with [] => 0 | (d, s) :: r => (if d =? k then msum f s else 0) + go r end) dd
  = asum Z.eqb (msum f) k dd.
Proof. induction dd as [|[d s] dd IH]; simpl; [reflexivity|]. rewrite IH, (Z.eqb_sym d k). reflexivity. Qed.

Lemma tsum_tm_out f t k tm : tsum (t, k) (tm_triples f (fun d => d) 0 tm) = out_cell f t k tm.
Proof.
  unfold out_cell. induction tm as [|[t' dd] tm IH]; simpl; [reflexivity|].
  rewrite tsum_app, tsum_dd_triples, IH, Z.add_0_r, (Z.eqb_sym t t'). f_equal.
  destruct (t' =? t); [|reflexivity]. apply dd_go_out.
Qed.

(* every language once: Spec.all_fields lists a language once per occurrence in the three results *)
Fixpoint dedup (l : list name) : list name :=
  match l with
  | [] => []
  | x :: r => if existsb (name_eqb x) r then dedup r else x :: dedup r
  end.

Lemma dedup_In x l : In x l -> In x (dedup l).
Proof.
  induction l as [|y l IH]; simpl; [tauto|]. intros [->|H].
  - destruct (existsb (name_eqb x) l) eqn:E; [|left; reflexivity].
    apply existsb_exists in E. destruct E as (z & Hz & E). apply name_eqb_eq in E. subst z. apply IH; exact Hz.
  - destruct (existsb (name_eqb y) l); [|right]; apply IH; exact H.
Qed.

Lemma all_fields_dedup f langs : In f (all_fields langs) -> In f (all_fields (dedup langs)).
Proof.
  unfold all_fields. rewrite !in_app_iff, !in_flat_map. intros [H|(l & Hl & H)]; [left; exact H|].
  right. exists l. split; [apply dedup_In; exact Hl | exact H].
Qed.

Definition dv_conserve_fast_b (people : table) (merged : list name) (r1 r2 : DevsResult) (o1 o2 : Z)
           (out : DevsResult) : bool :=
  let fields := all_fields (dedup (tm_langs (dr_ticks r1) ++ tm_langs (dr_ticks r2) ++ tm_langs (dr_ticks out))) in
  let n1 := length (dr_people r1) in
  let n2 := length (dr_people r2) in
  let nd1 := newdev0 people (dr_people r1) in
  let nd2 := newdev0 people (dr_people r2) in
  let t1 := mktab nd1 n1 in
  let t2 := mktab nd2 n2 in
  let nd1' := tabf t1 (Z.of_nat n1) nd1 in
  let nd2' := tabf t2 (Z.of_nat n2) nd2 in
  dv_maps_ok (dr_ticks out) &&
  forallb (fun f => dv_total f (dr_ticks out) =? dv_total f (dr_ticks r1) + dv_total f (dr_ticks r2)) fields &&
  forallb (fun f => teqb (canon (tm_triples f (fun d => d) 0 (dr_ticks out)))
                         (canon (tm_triples f nd1' o1 (dr_ticks r1) ++ tm_triples f nd2' o2 (dr_ticks r2)))) fields.

Theorem dv_conserve_fast_sound people merged r1 r2 o1 o2 out :
  dv_conserve_fast_b people merged r1 r2 o1 o2 out = true -> dv_conserve_b people merged r1 r2 o1 o2 out = true.
Proof.
  unfold dv_conserve_fast_b, dv_conserve_b. cbv zeta. intros H.
  apply andb_true_iff in H. destruct H as [H C3]. apply andb_true_iff in H. destruct H as [C1 C2].
  split_left; try assumption.
  - rewrite forallb_forall in C2. apply forallb_forall. intros f Hf. apply C2, all_fields_dedup, Hf.
  - rewrite forallb_forall in C3. apply forallb_forall. intros f Hf. specialize (C3 f (all_fields_dedup _ _ Hf)).
  apply forallb_forall. intros tk _. apply Z.eqb_eq.
  pose proof (canon_eq_tsum _ _ C3 (fst tk, snd tk)) as E.
  rewrite tsum_app, tsum_tm_out in E.
  rewrite (tsum_tm_in f people (dr_people r1)) in E by (intros d; apply tabf_mktab).
    rewrite (tsum_tm_in f people (dr_people r2)) in E by (intros d; apply tabf_mktab).
    exact E.
Qed.
