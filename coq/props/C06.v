(* C06 - node allocator: no aliasing, hibernation lossless.  Statements closed by [exact]. *)
From Coq Require Import List NArith ZArith.
From Herc Require Import Alloc.Varint Alloc.Model Alloc.Serialize.
Import ListNotations.

Theorem C06_varint_roundtrip : forall n rest, (n < 2 ^ 63)%N ->
  read_varint (write_varint n ++ rest) = VOk n rest.
Proof. exact varint_roundtrip. Qed.
Print Assumptions C06_varint_roundtrip.
