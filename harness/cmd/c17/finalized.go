package main

// Results that come out of the real BurndownAnalysis.Finalize (not hand-made): the round trip must hold
// for what the analysis actually produces, in particular on histories with several heads, where a tracked
// file may live only on a branch other than the one the result is taken from.

import (
	"io/ioutil"
	"log"

	hercules "gopkg.in/src-d/hercules.v10"
	"gopkg.in/src-d/hercules.v10/leaves"
	. "verifharness/lib"
	"verifharness/synth"
)

func finalized(c *Config, n int) {
	log.SetOutput(ioutil.Discard)
	for i := 0; i < n; i++ {
		h := synth.GenHist(c.Rng, synth.GenOpts{MaxCommits: 8, SingleHead: i%2 == 0, MergeAddsPr: 3})
		G := 1 + c.Rng.Intn(3)
		S := 1 + c.Rng.Intn(G)
		var res *leaves.BurndownResult
		Catch(func() {
			repo, commits := h.Build()
			p := hercules.NewPipeline(repo)
			b := p.DeployItem(&leaves.BurndownAnalysis{}).(hercules.LeafPipelineItem)
			facts := map[string]interface{}{
				hercules.ConfigPipelineCommits:   commits,
				leaves.ConfigBurndownGranularity: G,
				leaves.ConfigBurndownSampling:    S,
				leaves.ConfigBurndownTrackFiles:  true,
				leaves.ConfigBurndownTrackPeople: true,
			}
			if err := p.Initialize(facts); err != nil {
				return
			}
			out, err := p.Run(commits)
			if err != nil {
				return
			}
			r := out[b].(leaves.BurndownResult)
			res = &r
		})
		if res != nil {
			emitBd(c, "bd-finalized", bdFrom(*res))
		}
	}
}
