// Conflict-free DAG histories WITH path events: a commit on a branch deletes a file (killing all its lines), a later
// commit re-creates the path, a commit renames a file.  Kinds with the suffix -pathdel; every other DAG kind of this
// harness never removes or renames a path (in synth.Hist a path exists from the first birth of one of its lines on).
//
// The line sequences of the history are keyed by FILE IDENTITY ("a", "b", ..., "r0", ...); the path under which an identity
// appears in the tree of commit c is  where(id, c):  absent until a line of it is born in the ancestry of c, then its
// initial name, then what the LATEST event of that identity in the ancestry of c says (a new name, or "-" = deleted).
// A re-created path is a new identity with the same name.  The ground truth stays the line-lifetime matrix: the commit
// that deletes a file is the killer of all the lines the file had.
//
// Inside the domain of C01 ("each line introduced by one commit, removed by at most one commit, every merge the clean union
// of its parents") the generator keeps, and the driver re-checks (pd_ok):
//
//	D1  a deleting commit has exactly one parent, the file is present there and all its lines alive there are killed by
//	    the deleting commit (and by nobody else);
//	D2  the events of one identity are totally ordered by ancestry, and every commit that gives birth to or kills a line
//	    of an identity is an ancestor or a descendant of every event of that identity: no merge ever sees "changed on one
//	    side, deleted / renamed on the other";
//	D3  in every commit the present identities have pairwise different names.
package main

import (
	"fmt"
	"math/rand"
	"sort"
	"time"

	git "gopkg.in/src-d/go-git.v4"
	"gopkg.in/src-d/go-git.v4/plumbing/object"

	. "verifharness/lib"
	"verifharness/synth"
)

type pdEvent struct {
	Commit int
	File   string
	Name   string // "" = the path is deleted
}

type pdInfo struct {
	Name0  map[string]string // identity -> initial path name
	Events []pdEvent
}

func (pd *pdInfo) where(h *synth.Hist, id string, c int) string {
	anc := h.Anc()[c]
	born := false
	for _, l := range h.Seqs[id] {
		if anc[l.Born] {
			born = true
			break
		}
	}
	if !born {
		return ""
	}
	name := pd.Name0[id]
	best := -1
	for _, e := range pd.Events {
		if e.File == id && anc[e.Commit] && e.Commit > best {
			best, name = e.Commit, e.Name
		}
	}
	return name
}

func (pd *pdInfo) sx(tag string, h *synth.Hist) Sx {
	var names, evs []Sx
	for _, id := range h.Paths {
		names = append(names, L(A(id), A(pd.Name0[id])))
	}
	for _, e := range pd.Events {
		n := e.Name
		if n == "" {
			n = "-"
		}
		evs = append(evs, L(I(e.Commit), A(e.File), A(n)))
	}
	return T(tag, T("names", names...), T("events", evs...))
}

func pdFromSx(s Sx) *pdInfo {
	pd := &pdInfo{Name0: map[string]string{}}
	if f, ok := s.Field("names"); ok {
		for _, x := range f.Args() {
			pd.Name0[x.List[0].Atom] = x.List[1].Atom
		}
	}
	if f, ok := s.Field("events"); ok {
		for _, x := range f.Args() {
			n := x.List[2].Atom
			if n == "-" {
				n = ""
			}
			pd.Events = append(pd.Events, pdEvent{x.List[0].Int(), x.List[1].Atom, n})
		}
	}
	return pd
}

// restrict keeps the events of the kept commits (old numbering -> new numbering)
func (pd *pdInfo) restrict(keep []int, n int) *pdInfo {
	newIdx := make([]int, n)
	for i := range newIdx {
		newIdx[i] = -1
	}
	sorted := append([]int{}, keep...)
	sort.Ints(sorted)
	for k, c := range sorted {
		newIdx[c] = k
	}
	r := &pdInfo{Name0: pd.Name0}
	for _, e := range pd.Events {
		if e.Commit >= 0 && e.Commit < n && newIdx[e.Commit] >= 0 {
			r.Events = append(r.Events, pdEvent{newIdx[e.Commit], e.File, e.Name})
		}
	}
	return r
}

func pdBuild(h *synth.Hist, pd *pdInfo) (*git.Repository, []*object.Commit) {
	var cs []synth.CommitSpec
	for c := 0; c < h.N; c++ {
		var files []synth.FileSpec
		for _, id := range h.Paths {
			if name := pd.where(h, id, c); name != "" {
				txt, _ := h.Content(c, id)
				files = append(files, synth.FileSpec{Path: name, Data: []byte(txt)})
			}
		}
		au := fmt.Sprintf("dev%d", h.Author[c])
		when := time.Unix(synth.BaseTime+int64(h.Tick[c])*86400+int64(c), 0)
		cs = append(cs, synth.CommitSpec{Parents: h.Parents[c], AuthorName: au, AuthorEmail: au + "@x", AuthorWhen: when, Files: files})
	}
	return synth.BuildRepo(cs)
}

// ---------------------------------------------------------------------------------------------
// generator

type pdGen struct {
	rng       *rand.Rand
	h         *synth.Hist
	pd        *pdInfo
	nextID    int
	nextFile  int
	tick      int
	authors   int
	touch     map[string][]int // identity -> commits that gave birth to / killed one of its lines
	events    map[string][]int // identity -> commits with an event of it
	nameTouch map[string][]int // path name -> commits that touched a file of that name or took / gave up the name
	renames   bool
}

func newPdGen(rng *rand.Rand, renames bool) *pdGen {
	g := &pdGen{rng: rng, h: &synth.Hist{Seqs: map[string][]*synth.Line{}}, pd: &pdInfo{Name0: map[string]string{}},
		authors: 1 + rng.Intn(3), touch: map[string][]int{}, events: map[string][]int{}, nameTouch: map[string][]int{}, renames: renames}
	for _, id := range []string{"a", "b", "c"} {
		g.h.Paths = append(g.h.Paths, id)
		g.pd.Name0[id] = id
	}
	return g
}

func (g *pdGen) allAnc(c int, l []int) bool {
	a := g.h.Anc()[c]
	for _, x := range l {
		if !a[x] {
			return false
		}
	}
	return true
}

// begin appends commit c with its parents, tick and author; the edits follow
func (g *pdGen) begin(ps []int) int {
	h := g.h
	c := h.N
	h.N++
	h.Parents = append(h.Parents, append([]int{}, ps...))
	h.Anc() // extends the memo lazily: reset below
	if c > 0 && g.rng.Intn(3) > 0 {
		g.tick += g.rng.Intn(3)
	}
	h.Tick = append(h.Tick, g.tick)
	h.Author = append(h.Author, g.rng.Intn(g.authors))
	return c
}

func (g *pdGen) insert(c int, id string, run int) {
	s := g.h.Seqs[id]
	pos := g.rng.Intn(len(s) + 1)
	var ins []*synth.Line
	for j := 0; j < run; j++ {
		ins = append(ins, &synth.Line{ID: g.nextID, Born: c, Killer: -1})
		g.nextID++
	}
	r := append([]*synth.Line{}, s[:pos]...)
	r = append(r, ins...)
	r = append(r, s[pos:]...)
	g.h.Seqs[id] = r
	g.touch[id] = append(g.touch[id], c)
}

// name of the identity in the tree the commit starts from (its single parent; for a root "")
func (g *pdGen) nameAtParent(id string, c int) string {
	ps := g.h.Parents[c]
	if len(ps) == 0 {
		return ""
	}
	return g.pd.where(g.h, id, ps[0])
}

func (g *pdGen) nameFreeAt(c int, n string) bool {
	if !g.allAnc(c, g.nameTouch[n]) {
		return false
	}
	for _, id := range g.h.Paths {
		for _, p := range g.h.Parents[c] {
			if g.pd.where(g.h, id, p) == n {
				return false
			}
		}
	}
	return true
}

// plain edit of an identity by commit c: kills (non-merge commits only) and an insertion.  Allowed when every event of
// the identity is an ancestor of c (D2) and the identity is present in the tree c starts from, or has no line yet (its
// first lines: the initial name must be free)
func (g *pdGen) edit(c int, id string, merge bool) bool {
	h := g.h
	if !g.allAnc(c, g.events[id]) {
		return false
	}
	name := g.pd.where(h, id, c)
	if name == "" {
		if len(g.touch[id]) > 0 || merge {
			return false // deleted, or living on another branch only
		}
		name = g.pd.Name0[id]
		if !g.nameFreeAt(c, name) {
			return false
		}
	}
	if !merge {
		for _, l := range h.Seqs[id] {
			if l.Killer < 0 && l.Born != c && h.Alive(c, l) && g.rng.Intn(5) == 0 {
				l.Killer = c
			}
		}
	}
	g.insert(c, id, 1+g.rng.Intn(3))
	g.nameTouch[name] = append(g.nameTouch[name], c)
	return true
}

// del: commit c (one parent) deletes the identity
func (g *pdGen) del(c int, id string) bool {
	h := g.h
	if len(h.Parents[c]) != 1 || !g.allAnc(c, g.touch[id]) || !g.allAnc(c, g.events[id]) {
		return false
	}
	name := g.nameAtParent(id, c)
	if name == "" {
		return false
	}
	for _, l := range h.Seqs[id] {
		if l.Born == c {
			return false
		}
	}
	for _, l := range h.Seqs[id] {
		if l.Killer < 0 && h.Alive(c, l) {
			l.Killer = c
		}
	}
	g.touch[id] = append(g.touch[id], c)
	g.events[id] = append(g.events[id], c)
	g.pd.Events = append(g.pd.Events, pdEvent{c, id, ""})
	g.nameTouch[name] = append(g.nameTouch[name], c)
	return true
}

// recreate: commit c creates a new identity on a path name that is free in its tree (typically one deleted before)
func (g *pdGen) recreate(c int, name string) bool {
	if len(g.h.Parents[c]) != 1 || !g.nameFreeAt(c, name) {
		return false
	}
	id := fmt.Sprintf("r%d", g.nextFile)
	g.nextFile++
	g.h.Paths = append(g.h.Paths, id)
	g.pd.Name0[id] = name
	g.insert(c, id, 1+g.rng.Intn(4))
	g.nameTouch[name] = append(g.nameTouch[name], c)
	return true
}

// rename: commit c (one parent) moves the identity to a free name, content unchanged (the blobs are paired by hash)
func (g *pdGen) rename(c int, id, to string) bool {
	h := g.h
	if len(h.Parents[c]) != 1 || !g.allAnc(c, g.touch[id]) || !g.allAnc(c, g.events[id]) {
		return false
	}
	from := g.nameAtParent(id, c)
	if from == "" || from == to || !g.nameFreeAt(c, to) {
		return false
	}
	for _, l := range h.Seqs[id] {
		if l.Born == c || l.Killer == c {
			return false
		}
	}
	if txt, _ := h.Content(h.Parents[c][0], id); txt == "" {
		return false // an empty file cannot be followed
	}
	g.events[id] = append(g.events[id], c)
	g.touch[id] = append(g.touch[id], c)
	g.pd.Events = append(g.pd.Events, pdEvent{c, id, to})
	g.nameTouch[from] = append(g.nameTouch[from], c)
	g.nameTouch[to] = append(g.nameTouch[to], c)
	return true
}

func (g *pdGen) presentAtParent(c int) []string {
	var r []string
	for _, id := range g.h.Paths {
		if g.nameAtParent(id, c) != "" {
			r = append(r, id)
		}
	}
	return r
}

func (g *pdGen) deletedNames(c int) []string {
	// names some identity had when it was deleted in the ancestry of c
	seen := map[string]bool{}
	var r []string
	a := g.h.Anc()[c]
	for _, e := range g.pd.Events {
		if e.Name == "" && a[e.Commit] && e.Commit != c {
			n := g.pd.where(g.h, e.File, g.h.Parents[e.Commit][0])
			if n != "" && !seen[n] {
				seen[n] = true
				r = append(r, n)
			}
		}
	}
	return r
}

// freedNames: names some identity gave up by a rename in the ancestry of c (the intermediate names of a rename chain)
func (g *pdGen) freedNames(c int) []string {
	seen := map[string]bool{}
	var r []string
	a := g.h.Anc()[c]
	for _, e := range g.pd.Events {
		if e.Name != "" && a[e.Commit] && e.Commit != c {
			n := g.pd.where(g.h, e.File, g.h.Parents[e.Commit][0])
			if n != "" && !seen[n] {
				seen[n] = true
				r = append(r, n)
			}
		}
	}
	return r
}

// commit draws the content of commit c (already begun)
func (g *pdGen) commit(c int, evPr int) {
	rng, h := g.rng, g.h
	merge := len(h.Parents[c]) > 1
	if merge {
		if rng.Intn(3) == 0 {
			ids := []string{"a", "b", "c"}
			g.edit(c, ids[rng.Intn(3)], true)
		}
		return
	}
	did := false
	if c > 0 && rng.Intn(evPr) == 0 {
		pres := g.presentAtParent(c)
		dn := g.deletedNames(c)
		if g.renames {
			dn = append(dn, g.freedNames(c)...) // a new file on a name that a rename gave up (round 4)
		}
		var renamed []string
		for _, id := range pres {
			if g.nameAtParent(id, c) != g.pd.Name0[id] {
				renamed = append(renamed, id)
			}
		}
		switch {
		case len(dn) > 0 && rng.Intn(2) == 0:
			did = g.recreate(c, dn[rng.Intn(len(dn))])
		case len(renamed) > 0 && rng.Intn(2) == 0:
			did = g.del(c, renamed[rng.Intn(len(renamed))])
		case g.renames && len(pres) > 0 && rng.Intn(2) == 0:
			did = g.rename(c, pres[rng.Intn(len(pres))], []string{"x", "y", "z", "w", "a", "b"}[rng.Intn(6)])
		case len(pres) > 1:
			did = g.del(c, pres[rng.Intn(len(pres))])
		}
	}
	n := 1 + rng.Intn(2)
	if c == 0 {
		n = 3
	}
	if did && rng.Intn(2) == 0 {
		n = 0
	}
	for i := 0; i < n; i++ {
		id := h.Paths[rng.Intn(len(h.Paths))]
		if g.pd.where(h, id, c) == "" && len(h.Seqs[id]) > 0 && len(g.events[id]) > 0 {
			continue
		}
		evHere := false
		for _, e := range g.pd.Events {
			if e.Commit == c && e.File == id {
				evHere = true
			}
		}
		if evHere || (did && g.pd.where(h, id, c) == "") {
			continue // next to an event no file is born (RenameAnalysis must not pair a deleted blob with a new one)
		}
		g.edit(c, id, false)
	}
}

// genPathDel: a random DAG (the shape rules of synth.GenHist), closed to a single head
func genPathDel(rng *rand.Rand, maxCommits int, renames bool) (*synth.Hist, *pdInfo) {
	g := newPdGen(rng, renames)
	h := g.h
	n := 3 + rng.Intn(maxCommits-2)
	for c := 0; c < n; c++ {
		var ps []int
		if c > 0 {
			k := 1
			if r := rng.Intn(10); r < 3 && c >= 2 {
				k = 2
			} else if r == 3 && c >= 3 {
				k = 3
			}
			seen := map[int]bool{}
			for len(ps) < k {
				w := c
				if w > 4 {
					w = 4
				}
				p := c - 1 - rng.Intn(w)
				if !seen[p] {
					seen[p] = true
					ps = append(ps, p)
				}
			}
		}
		g.commit(g.begin(ps), 2)
	}
	for {
		heads := h.Heads()
		if len(heads) <= 1 {
			break
		}
		k := 2
		if len(heads) > 2 && rng.Intn(3) == 0 {
			k = 3
		}
		rng.Shuffle(len(heads), func(i, j int) { heads[i], heads[j] = heads[j], heads[i] })
		g.commit(g.begin(heads[:k]), 2)
	}
	return h, g.pd
}

// The two reported shapes, content drawn at random.
//
//	(a) R(f, h) -> A deletes f -> A2 re-creates f;  R -> B edits h;  M = merge(A, B);  M2 = merge(M, A2)
//	(b) R(f, h) -> A renames f to g -> A2 deletes g;  R -> B edits h;  M = merge(A2, B)
func genPathDelShape(rng *rand.Rand, which int) (*synth.Hist, *pdInfo) {
	g := newPdGen(rng, true)
	root := g.begin(nil)
	g.insert(root, "a", 2+rng.Intn(5))
	g.nameTouch["a"] = append(g.nameTouch["a"], root)
	g.insert(root, "b", 1+rng.Intn(4))
	g.nameTouch["b"] = append(g.nameTouch["b"], root)
	switch which {
	case 0:
		a := g.begin([]int{root})
		g.del(a, "a")
		b := g.begin([]int{root})
		g.edit(b, "b", false)
		a2 := g.begin([]int{a})
		g.recreate(a2, "a")
		m := g.begin([]int{a, b})
		g.begin([]int{m, a2})
	default:
		a := g.begin([]int{root})
		g.rename(a, "a", "g")
		b := g.begin([]int{root})
		g.edit(b, "b", false)
		a2 := g.begin([]int{a})
		g.del(a2, "a")
		g.begin([]int{a2, b})
	}
	if rng.Intn(2) == 0 {
		t := g.begin([]int{g.h.N - 1})
		g.edit(t, "b", false)
	}
	return g.h, g.pd
}

// Rename chains (round 4, two and three features at once: per-file tracking x a chain of renames x a NEW file on a name the
// chain gave up x a branch that still knows the file under an older name):
//
//	R(a, b[, c]) -> X1 renames a to x -> X2 renames x to y [-> X3 renames y to z], between them plain edits of the file;
//	then (variant) a new file is created on one of the intermediate names; a second branch Y forks at R, in the middle of
//	the chain or after it, edits the bystanders and is merged; [a third branch forks at R and is merged later;] tail commits
//	edit the renamed file, the new file and the bystanders.
//
// D4 (checked by the driver, pd_takes_ok): when a file takes a name (creation, rename) no commit CONCURRENT with that commit has
// another file under that name.  Nobody touches the file concurrently with its renames, so every merge is the clean union of its parents and every replay
// of a merge commit sees the file MOVED with its content unchanged.
func genRenChain(rng *rand.Rand) (*synth.Hist, *pdInfo) {
	g := newPdGen(rng, true)
	root := g.begin(nil)
	g.insert(root, "a", 2+rng.Intn(5))
	g.nameTouch["a"] = append(g.nameTouch["a"], root)
	g.insert(root, "b", 1+rng.Intn(4))
	g.nameTouch["b"] = append(g.nameTouch["b"], root)
	if rng.Intn(2) == 0 {
		g.insert(root, "c", 1+rng.Intn(3))
		g.nameTouch["c"] = append(g.nameTouch["c"], root)
	}
	bystander := func(c int) {
		if !g.edit(c, []string{"b", "c"}[rng.Intn(2)], false) {
			g.edit(c, "b", false)
		}
	}
	chain := []string{"x", "y", "z"}[:2+rng.Intn(2)]
	forkStep := rng.Intn(4) // after how many commits of X the branch Y forks: 0 = at the root (mostly)
	if forkStep == 3 {
		forkStep = 0
	}
	late := rng.Intn(5) == 0 // control: Y forks after everything
	var ytips []int
	third := rng.Intn(3) == 0
	tip := root
	steps := 0
	yfork := func() {
		y := g.begin([]int{tip})
		bystander(y)
		if rng.Intn(2) == 0 {
			y2 := g.begin([]int{y})
			bystander(y2)
			y = y2
		}
		ytips = append(ytips, y)
	}
	forkName := ""
	maybeFork := func() {
		if !late && steps == forkStep && len(ytips) == 0 {
			forkName = g.pd.where(g.h, "a", tip) // the name under which the branch Y keeps the file
			yfork()
			if third {
				yfork()
			}
		}
		steps++
	}
	maybeFork()
	for i, to := range chain {
		x := g.begin([]int{tip})
		g.rename(x, "a", to)
		if rng.Intn(3) == 0 {
			bystander(x)
		}
		tip = x
		maybeFork()
		if i+1 < len(chain) && rng.Intn(3) == 0 && (late || len(ytips) == 0) {
			// a plain edit of the file between two renames - only while no other branch is open: a branch that forked earlier
			// would see the file moved AND changed when the merge commit is replayed (not followed: known finding F22, form d)
			e := g.begin([]int{tip})
			g.edit(e, "a", false)
			tip = e
		}
	}
	newFile := ""
	if rng.Intn(5) > 0 { // else control: the intermediate names stay unused
		n := g.begin([]int{tip})
		free := g.freedNames(n)
		if rng.Intn(6) > 0 {
			// D4: not the name under which the branch Y still has the file (there the merge replay sees "modified", not "moved",
			// and hercules books the later lines of the new file in the history of the old one); a sixth of the cases keep it:
			// their per-file tables are then judged for the plain files only
			var f2 []string
			for _, x := range free {
				if x != forkName {
					f2 = append(f2, x)
				}
			}
			free = f2
		}
		if len(free) > 0 && g.recreate(n, free[rng.Intn(len(free))]) {
			newFile = g.h.Paths[len(g.h.Paths)-1]
		} else {
			bystander(n)
		}
		tip = n
	}
	if len(ytips) == 0 {
		yfork()
	}
	m := g.begin([]int{tip, ytips[0]})
	if rng.Intn(3) == 0 {
		g.edit(m, "b", true)
	}
	tip = m
	for k := 1 + rng.Intn(2); k > 0; k-- {
		d := g.begin([]int{tip})
		if len(ytips) == 1 {
			g.edit(d, "a", false)
		}
		if newFile != "" && rng.Intn(2) == 0 {
			g.edit(d, newFile, false)
		}
		if rng.Intn(2) == 0 {
			bystander(d)
		}
		tip = d
	}
	for _, y := range ytips[1:] {
		if rng.Intn(2) == 0 { // one more rename before the late branch comes in
			x := g.begin([]int{tip})
			g.rename(x, "a", "w")
			tip = x
		}
		m2 := g.begin([]int{tip, y})
		tip = m2
		d := g.begin([]int{tip})
		g.edit(d, "a", false)
		tip = d
	}
	return g.h, g.pd
}

func pathDelFamily(c *Config) {
	rng := c.Rng
	one := func(kind string, h *synth.Hist, pd *pdInfo) {
		in := &input{kind: kind, h: h, pd: pd, keep: allIdx(h.N)}
		params(rng, in, true)
		// the line renderings of content.go make a deleted file and a new file SIMILAR (RenameAnalysis would pair them as a
		// rename with an edit, which leaves the domain): the path-event kinds keep the plain "L<id>" lines
		in.enc = 0
		emit(c, in)
	}
	for i := c.Count(60, 1000); i > 0; i-- {
		h, pd := genRenChain(rng)
		in := &input{kind: "shape-renchain-pathdel", h: h, pd: pd, keep: allIdx(h.N)}
		params(rng, in, true)
		in.enc = 0
		in.files = i%4 != 0
		emit(c, in)
	}
	for i := c.Count(40, 400); i > 0; i-- {
		h, pd := genPathDelShape(rng, i%2)
		one([]string{"shape-recreate-pathdel", "shape-rename-pathdel"}[i%2], h, pd)
	}
	for i := c.Count(300, 5000); i > 0; i-- {
		h, pd := genPathDel(rng, 12, false)
		one("dag-pathdel", h, pd)
	}
	for i := c.Count(150, 2500); i > 0; i-- {
		h, pd := genPathDel(rng, 12, true)
		one("dagren-pathdel", h, pd)
	}
}
