// Harness for C09: runs the real pipeline with leaves.BurndownAnalysis (files and people tracked) on
// synthetic histories with merges, once without hibernation (baseline) and then with every
// hibernation distance / threshold / disk setting and with injected faults (unusable directory, temp
// file removed or truncated between a Hibernate and the later Boot).  Records the complete result
// (as a digest of its canonical text), the error / panic of Run, every Hibernate / Boot call (through
// a delegating wrapper item), the listing of the hibernation directory before every plan step and
// after Run, and the real run plan.
package main

import (
	"crypto/sha1"
	"encoding/hex"
	"fmt"
	"io"
	"io/ioutil"
	"log"
	"os"
	"path/filepath"
	"sort"
	"strings"

	git "gopkg.in/src-d/go-git.v4"
	"gopkg.in/src-d/go-git.v4/plumbing/object"
	hercules "gopkg.in/src-d/hercules.v10"
	"gopkg.in/src-d/hercules.v10/leaves"
	"gopkg.in/src-d/hercules.v10/verifapi"
	vc09 "gopkg.in/src-d/hercules.v10/verifapi/c09"

	. "verifharness/lib"
	"verifharness/synth"
)

// ---------------------------------------------------------------------------------------------
// recording

type fileInfo struct {
	name string
	size int
}

type recorder struct {
	dir      string
	step     int // index of the plan step being executed (from OnProgress), -1 before the first
	nextID   int
	events   []Sx           // wrapper and tamper events, each tagged with the step
	listings [][]fileInfo   // directory listing before every step
	texts    []string       // step.String() of every step as announced by Run
	names    map[string]int // temp-file name -> small number, in order of first appearance
	tamper   *tamperSpec
	opps     int // tamper opportunities seen so far
	fired    bool
}

func (r *recorder) nameID(path string) int {
	b := filepath.Base(path)
	if id, ok := r.names[b]; ok {
		return id
	}
	id := len(r.names) + 1
	r.names[b] = id
	return id
}

func (r *recorder) list() []fileInfo {
	if r.dir == "" {
		return nil
	}
	ents, err := ioutil.ReadDir(r.dir)
	if err != nil {
		return nil
	}
	var res []fileInfo
	for _, e := range ents {
		res = append(res, fileInfo{e.Name(), int(e.Size())})
	}
	sort.Slice(res, func(i, j int) bool { return res[i].name < res[j].name })
	return res
}

func (r *recorder) listSx(l []fileInfo) Sx {
	// numbered names, sorted by number
	type ent struct{ id, size int }
	var es []ent
	for _, f := range l {
		es = append(es, ent{r.nameID(f.name), f.size})
	}
	sort.Slice(es, func(i, j int) bool { return es[i].id < es[j].id })
	items := make([]Sx, len(es))
	for i, e := range es {
		items[i] = L(I(e.id), I(e.size))
	}
	return L(items...)
}

// ---------------------------------------------------------------------------------------------
// the delegating wrapper around the real BurndownAnalysis

type wrap struct {
	inner *leaves.BurndownAnalysis
	rec   *recorder
	id    int
}

func (w *wrap) Name() string       { return w.inner.Name() }
func (w *wrap) Provides() []string { return w.inner.Provides() }
func (w *wrap) Requires() []string { return w.inner.Requires() }
func (w *wrap) ListConfigurationOptions() []hercules.ConfigurationOption {
	return w.inner.ListConfigurationOptions()
}
func (w *wrap) Configure(facts map[string]interface{}) error { return w.inner.Configure(facts) }
func (w *wrap) Initialize(r *git.Repository) error           { return w.inner.Initialize(r) }
func (w *wrap) Flag() string                                 { return w.inner.Flag() }
func (w *wrap) Description() string                          { return w.inner.Description() }
func (w *wrap) Consume(deps map[string]interface{}) (map[string]interface{}, error) {
	return w.inner.Consume(deps)
}
func (w *wrap) Finalize() interface{} { return w.inner.Finalize() }
func (w *wrap) Serialize(result interface{}, binary bool, writer io.Writer) error {
	return w.inner.Serialize(result, binary, writer)
}

func (w *wrap) Fork(n int) []hercules.PipelineItem {
	clones := w.inner.Fork(n)
	res := make([]hercules.PipelineItem, n)
	for i, c := range clones {
		w.rec.nextID++
		res[i] = &wrap{inner: c.(*leaves.BurndownAnalysis), rec: w.rec, id: w.rec.nextID}
	}
	return res
}

func (w *wrap) Merge(branches []hercules.PipelineItem) {
	inner := make([]hercules.PipelineItem, len(branches))
	for i, b := range branches {
		inner[i] = b.(*wrap).inner
	}
	w.inner.Merge(inner)
}

func errClassHibernate(err error) string {
	if pe, ok := err.(*os.PathError); ok && pe.Op == "open" {
		return "create"
	}
	return "write"
}

func errClassBoot(err error) string {
	if pe, ok := err.(*os.PathError); ok {
		switch pe.Op {
		case "open":
			return "open"
		case "remove":
			return "remove"
		}
	}
	return "read"
}

func (w *wrap) Hibernate() error {
	before := w.inner.VerifC09ArenaSize()
	err := w.inner.Hibernate()
	after := w.inner.VerifC09ArenaSize()
	fn := w.inner.VerifC09HibernatedFileName()
	ev := []Sx{I(w.rec.step), I(w.id), I(before), I(after)}
	if fn != "" {
		sz := -1
		if st, e := os.Stat(fn); e == nil {
			sz = int(st.Size())
		}
		ev = append(ev, T("file", I(w.rec.nameID(fn)), I(sz)))
	} else {
		ev = append(ev, T("nofile"))
	}
	if err != nil {
		ev = append(ev, T("err", A(errClassHibernate(err))))
	} else {
		ev = append(ev, T("ok"))
	}
	w.rec.events = append(w.rec.events, T("hib", ev...))
	return err
}

func (w *wrap) Boot() error {
	fn := w.inner.VerifC09HibernatedFileName()
	before := w.inner.VerifC09ArenaSize()
	err := w.inner.Boot()
	after := w.inner.VerifC09ArenaSize()
	ev := []Sx{I(w.rec.step), I(w.id), I(before), I(after)}
	if fn != "" {
		ev = append(ev, T("file", I(w.rec.nameID(fn))))
	} else {
		ev = append(ev, T("nofile"))
	}
	if err != nil {
		ev = append(ev, T("err", A(errClassBoot(err))))
	} else {
		ev = append(ev, T("ok"))
	}
	w.rec.events = append(w.rec.events, T("boot", ev...))
	return err
}

// ---------------------------------------------------------------------------------------------
// the adversary: an ordinary pipeline item without dependencies; when its Consume is called and the
// hibernation directory holds temp files (so some branch sleeps on disk) it removes / truncates them

type tamperSpec struct {
	mode string // remove | trunc0 | trunc1 | quarter | half | minus9 | minus4 | minus2 | minus1 | same
	skip int    // number of opportunities to let pass
}

type tamperItem struct {
	hercules.NoopMerger
	rec *recorder
}

func (t *tamperItem) Name() string       { return "C09Tamper" }
func (t *tamperItem) Provides() []string { return []string{} }
func (t *tamperItem) Requires() []string { return []string{} }
func (t *tamperItem) ListConfigurationOptions() []hercules.ConfigurationOption {
	return nil
}
func (t *tamperItem) Configure(facts map[string]interface{}) error { return nil }
func (t *tamperItem) Initialize(r *git.Repository) error           { return nil }
func (t *tamperItem) Fork(n int) []hercules.PipelineItem {
	res := make([]hercules.PipelineItem, n)
	for i := range res {
		res[i] = &tamperItem{rec: t.rec}
	}
	return res
}

func (t *tamperItem) Consume(deps map[string]interface{}) (map[string]interface{}, error) {
	r := t.rec
	if r.tamper == nil || r.fired || r.dir == "" {
		return map[string]interface{}{}, nil
	}
	files, _ := filepath.Glob(filepath.Join(r.dir, "*-hercules.bin"))
	if len(files) == 0 {
		return map[string]interface{}{}, nil
	}
	r.opps++
	if r.opps <= r.tamper.skip {
		return map[string]interface{}{}, nil
	}
	r.fired = true
	sort.Strings(files)
	var done []Sx
	for _, f := range files {
		st, err := os.Stat(f)
		if err != nil {
			continue
		}
		size := int(st.Size())
		id := r.nameID(f)
		switch r.tamper.mode {
		case "remove":
			os.Remove(f)
			done = append(done, T("rm", I(id)))
		default:
			nl := size
			switch r.tamper.mode {
			case "trunc0":
				nl = 0
			case "trunc1":
				nl = 1
			case "half":
				nl = size / 2
			case "minus1":
				nl = size - 1
			case "minus2":
				nl = size - 2
			case "minus4":
				nl = size - 4
			case "minus9":
				nl = size - 9
			case "quarter":
				nl = size / 4
			case "same":
				nl = size
			}
			if nl < 0 {
				nl = 0
			}
			os.Truncate(f, int64(nl))
			done = append(done, T("trunc", I(id), I(nl)))
		}
	}
	sort.Slice(done, func(i, j int) bool { return done[i].String() < done[j].String() })
	r.events = append(r.events, T("tamper", append([]Sx{I(r.step)}, done...)...))
	return map[string]interface{}{}, nil
}

// ---------------------------------------------------------------------------------------------
// one run of the pipeline

type runCfg struct {
	dist   int
	thr    int
	disk   bool
	fault  string // none | nodir | filedir | rodir | tamper
	tamper *tamperSpec
	wrap   bool // use the recording wrapper (otherwise the bare BurndownAnalysis)
}

type outcome struct {
	kind   string // ok | err | panic
	digest string // ok: digest of the canonical result text; err/panic: class
	text   string
}

func (o outcome) sx() Sx { return T(o.kind, A(o.digest)) }

func panicClass(msg string) string {
	switch {
	case strings.Contains(msg, "serialization requires the hibernated state"):
		return "serialize-awake"
	case strings.Contains(msg, "hibernated instance"):
		return "consume-hibernated"
	case strings.Contains(msg, "already hibernated"):
		return "double-hibernate"
	case strings.Contains(msg, "hibernated allocators cannot be used"), strings.Contains(msg, "cannot clone a hibernated"):
		return "use-hibernated"
	case strings.Contains(msg, "cannot boot a serialized"):
		return "boot-serialized"
	case strings.Contains(msg, "index out of range"), strings.Contains(msg, "nil pointer"):
		return "runtime"
	}
	return "other"
}

func canonical(res leaves.BurndownResult, people []string) string {
	// fmt prints maps in key order, so this text is canonical
	return fmt.Sprint("G", res.GlobalHistory, "F", res.FileHistories, "O", res.FileOwnership,
		"P", res.PeopleHistories, "M", res.PeopleMatrix, "D", people)
}

type runObs struct {
	out      outcome
	rec      *recorder
	final    []fileInfo
	denies   bool // the directory really refuses file creation (rodir)
	plan     []verifapi.VerifAction
	commits  []*object.Commit
	planSame bool
}

var baseDir string
var runCounter int

func doRun(h *synth.Hist, G, S int, cfg runCfg) (ro runObs) {
	repo, commits := h.Build()
	ro.commits = commits
	rec := &recorder{step: -1, names: map[string]int{}}
	ro.rec = rec
	facts := map[string]interface{}{
		hercules.ConfigPipelineCommits:            commits,
		leaves.ConfigBurndownGranularity:          G,
		leaves.ConfigBurndownSampling:             S,
		leaves.ConfigBurndownTrackFiles:           true,
		leaves.ConfigBurndownTrackPeople:          true,
		"Pipeline.HibernationDistance":            cfg.dist,
		leaves.ConfigBurndownHibernationThreshold: cfg.thr,
	}
	runCounter++
	var cleanup string
	if cfg.disk {
		dir := filepath.Join(baseDir, fmt.Sprintf("r%d", runCounter))
		cleanup = dir
		switch cfg.fault {
		case "nodir":
			dir = filepath.Join(dir, "missing") // never created
		case "filedir":
			os.MkdirAll(dir, 0755)
			ioutil.WriteFile(filepath.Join(dir, "plain"), []byte("x"), 0644)
			dir = filepath.Join(dir, "plain", "sub")
		case "rodir":
			os.MkdirAll(dir, 0755)
			os.Chmod(dir, 0555)
			if f, err := os.Create(filepath.Join(dir, "probe")); err == nil {
				f.Close()
				os.Remove(filepath.Join(dir, "probe"))
			} else {
				ro.denies = true
			}
		default:
			os.MkdirAll(dir, 0755)
		}
		rec.dir = dir
		facts[leaves.ConfigBurndownHibernationToDisk] = true
		facts[leaves.ConfigBurndownHibernationDirectory] = dir
	}
	rec.tamper = cfg.tamper
	defer func() {
		if cleanup != "" {
			os.Chmod(cleanup, 0755)
			os.RemoveAll(cleanup)
		}
	}()
	// Run prints the plan it executes through the plan printer (Pipeline.DumpPlan)
	facts[vc09.ConfigPipelineDumpPlan] = true
	facts[hercules.ConfigLogger] = quietLogger{}
	var dump []dumped
	old := vc09.SetPlanPrinter(func(args ...interface{}) {
		d := dumped{tag: args[0].(string)}
		switch d.tag {
		case "C":
			d.items = []int{args[1].(int)}
			d.hash = args[2].(string)
		case "H", "B":
			d.items = []int{args[1].(int)}
		default:
			d.items = append([]int{}, args[1].([]int)...)
		}
		dump = append(dump, d)
	})
	defer vc09.SetPlanPrinter(old)
	p := hercules.NewPipeline(repo)
	var leaf hercules.LeafPipelineItem
	if cfg.wrap {
		leaf = p.DeployItem(&wrap{inner: &leaves.BurndownAnalysis{}, rec: rec}).(hercules.LeafPipelineItem)
	} else {
		leaf = p.DeployItem(&leaves.BurndownAnalysis{}).(hercules.LeafPipelineItem)
	}
	if cfg.tamper != nil {
		p.DeployItem(&tamperItem{rec: rec})
	}
	p.OnProgress = func(step, total int, text string) {
		if step <= total-2 {
			rec.step = step - 1
			rec.texts = append(rec.texts, text)
			rec.listings = append(rec.listings, rec.list())
		}
	}
	msg, panicked := Catch(func() {
		if e := p.Initialize(facts); e != nil {
			ro.out = outcome{"err", "initialize", e.Error()}
			return
		}
		out, e := p.Run(commits)
		if e != nil {
			ro.out = outcome{"err", "run", e.Error()}
			return
		}
		res := out[leaf].(leaves.BurndownResult)
		people, _ := facts[hercules.FactIdentityDetectorReversedPeopleDict].([]string)
		txt := canonical(res, people)
		sum := sha1.Sum([]byte(txt))
		ro.out = outcome{"ok", hex.EncodeToString(sum[:8]), txt}
	})
	if panicked {
		ro.out = outcome{"panic", panicClass(msg), msg}
	}
	ro.final = rec.list()
	// the executed plan: the dump gives every action except the 2nd.. items of hibernate / boot actions;
	// those are recomputed by the real insertHibernateBoot (deterministic) from the dumped base plan and
	// the result must agree with the dump and with the actions announced through OnProgress
	byHash := map[string]*object.Commit{}
	for _, cm := range commits {
		byHash[cm.Hash.String()] = cm
	}
	var basePlan []verifapi.VerifAction
	for _, d := range dump {
		a := verifapi.VerifAction{Items: d.items}
		switch d.tag {
		case "C":
			a.Action, a.Commit = verifapi.ActionCommit, byHash[d.hash]
		case "F":
			a.Action = verifapi.ActionFork
		case "M":
			a.Action = verifapi.ActionMerge
		case "E":
			a.Action = verifapi.ActionEmerge
		case "D":
			a.Action = verifapi.ActionDelete
		default:
			continue
		}
		basePlan = append(basePlan, a)
	}
	ro.plan = basePlan
	if cfg.dist > 0 {
		ro.plan = verifapi.InsertHibernateBoot(basePlan, cfg.dist)
	}
	ro.planSame = len(ro.plan) == len(dump)
	for i, d := range dump {
		if i >= len(ro.plan) || dumpTag(ro.plan[i]) != d.tag || ro.plan[i].Items[0] != d.items[0] {
			ro.planSame = false
		}
	}
	for i, t := range rec.texts {
		if i >= len(ro.plan) || t != actionText(ro.plan[i]) {
			ro.planSame = false
		}
	}
	return
}

type dumped struct {
	tag   string
	items []int
	hash  string
}

func dumpTag(a verifapi.VerifAction) string {
	switch a.Action {
	case verifapi.ActionCommit:
		return "C"
	case verifapi.ActionFork:
		return "F"
	case verifapi.ActionMerge:
		return "M"
	case verifapi.ActionEmerge:
		return "E"
	case verifapi.ActionDelete:
		return "D"
	case verifapi.ActionHibernate:
		return "H"
	case verifapi.ActionBoot:
		return "B"
	}
	return "?"
}

type quietLogger struct{}

func (quietLogger) Info(...interface{})              {}
func (quietLogger) Infof(string, ...interface{})     {}
func (quietLogger) Warn(...interface{})              {}
func (quietLogger) Warnf(string, ...interface{})     {}
func (quietLogger) Error(...interface{})             {}
func (quietLogger) Errorf(string, ...interface{})    {}
func (quietLogger) Critical(...interface{})          {}
func (quietLogger) Criticalf(string, ...interface{}) {}

func actionText(a verifapi.VerifAction) string {
	switch a.Action {
	case verifapi.ActionCommit:
		return a.Commit.Hash.String()[:7]
	case verifapi.ActionFork:
		return fmt.Sprintf("fork^%d", len(a.Items))
	case verifapi.ActionMerge:
		return fmt.Sprintf("merge^%d", len(a.Items))
	case verifapi.ActionEmerge:
		return "emerge"
	case verifapi.ActionDelete:
		return "delete"
	case verifapi.ActionHibernate:
		return "hibernate"
	case verifapi.ActionBoot:
		return "boot"
	}
	return ""
}

func planSx(plan []verifapi.VerifAction, commits []*object.Commit) Sx {
	idx := map[string]int{}
	for i, c := range commits {
		idx[c.Hash.String()] = i
	}
	items := make([]Sx, len(plan))
	for i, a := range plan {
		switch a.Action {
		case verifapi.ActionCommit:
			items[i] = T("c", I(idx[a.Commit.Hash.String()]), Ints(a.Items))
		case verifapi.ActionFork:
			items[i] = T("f", Ints(a.Items))
		case verifapi.ActionMerge:
			items[i] = T("m", Ints(a.Items))
		case verifapi.ActionEmerge:
			items[i] = T("e", Ints(a.Items))
		case verifapi.ActionDelete:
			items[i] = T("d", Ints(a.Items))
		case verifapi.ActionHibernate:
			items[i] = T("h", Ints(a.Items))
		case verifapi.ActionBoot:
			items[i] = T("b", Ints(a.Items))
		default:
			items[i] = T("unknown", I(a.Action))
		}
	}
	return L(items...)
}

// ---------------------------------------------------------------------------------------------
// cases

type caseIn struct {
	kind string
	h    *synth.Hist
	G, S int
	cfg  runCfg
}

func faultSx(cfg runCfg) Sx {
	if cfg.fault == "tamper" {
		return T("fault", A("tamper"), A(cfg.tamper.mode), I(cfg.tamper.skip))
	}
	return T("fault", A(cfg.fault))
}

var baseCache = map[string]runObs{}

func emitCase(c *Config, in caseIn) {
	key := in.h.Sx().String() + fmt.Sprint(in.G, in.S)
	base, ok := baseCache[key]
	if !ok {
		base = doRun(in.h, in.G, in.S, runCfg{wrap: false})
		if len(baseCache) > 4 {
			baseCache = map[string]runObs{}
		}
		baseCache[key] = base
	}
	ro := doRun(in.h, in.G, in.S, in.cfg)
	rec := ro.rec
	listings := make([]Sx, len(rec.listings))
	for i, l := range rec.listings {
		listings[i] = rec.listSx(l)
	}
	nt := 0
	for _, a := range ro.plan {
		if a.Action == verifapi.ActionHibernate {
			nt = 1
		}
	}
	c.Emit(T("kind", A(in.kind)), T("nt", I(nt)),
		in.h.Sx(), T("G", I(in.G)), T("S", I(in.S)),
		T("dist", I(in.cfg.dist)), T("thr", I(in.cfg.thr)), T("disk", B(in.cfg.disk)), T("wrap", B(in.cfg.wrap)),
		faultSx(in.cfg),
		T("obs",
			T("base", base.out.sx()),
			T("res", ro.out.sx()),
			T("denies", B(ro.denies)),
			T("plansame", B(ro.planSame)),
			T("plan0", planSx(base.plan, base.commits)),
			T("plan", planSx(ro.plan, ro.commits)),
			T("events", rec.events...),
			T("listings", listings...),
			T("final", rec.listSx(ro.final)),
		))
}

func parseCase(s Sx) caseIn {
	in := caseIn{}
	get := func(tag string) Sx {
		f, ok := s.Field(tag)
		if !ok {
			panic("replay: missing field " + tag)
		}
		return f
	}
	in.kind = get("kind").Args()[0].Atom
	in.h = synth.HistFromSx(get("hist"))
	in.G = get("G").Args()[0].Int()
	in.S = get("S").Args()[0].Int()
	in.cfg.dist = get("dist").Args()[0].Int()
	in.cfg.thr = get("thr").Args()[0].Int()
	in.cfg.disk = get("disk").Args()[0].Int() != 0
	in.cfg.wrap = get("wrap").Args()[0].Int() != 0
	f := get("fault").Args()
	in.cfg.fault = f[0].Atom
	if in.cfg.fault == "tamper" {
		in.cfg.tamper = &tamperSpec{mode: f[1].Atom, skip: f[2].Int()}
	}
	return in
}

// sizesSeen runs once with threshold 0 in memory and returns the arena sizes met at Hibernate calls.
func sizesSeen(h *synth.Hist, G, S, dist int) []int {
	ro := doRun(h, G, S, runCfg{dist: dist, thr: 0, wrap: true})
	var res []int
	for _, e := range ro.rec.events {
		if e.Tag() == "hib" {
			res = append(res, e.Args()[2].Int())
		}
	}
	sort.Ints(res)
	return res
}

func genHist(c *Config, maxCommits int) (*synth.Hist, int, int) {
	for {
		h := synth.GenHist(c.Rng, synth.GenOpts{MaxCommits: maxCommits, SingleHead: true, MergeAddsPr: 3})
		if !h.HasMerge() {
			if c.Rng.Intn(8) != 0 {
				continue
			}
		}
		G := 1 + c.Rng.Intn(3)
		S := 1 + c.Rng.Intn(G)
		return h, G, S
	}
}

func main() {
	log.SetOutput(ioutil.Discard)
	c := Setup()
	defer c.Close()
	var err error
	baseDir, err = ioutil.TempDir("", "c09-")
	if err != nil {
		fmt.Fprintln(os.Stderr, err)
		os.Exit(2)
	}
	defer os.RemoveAll(baseDir)

	if c.Replay != "" {
		for _, s := range c.ReplayCases() {
			emitCase(c, parseCase(s))
		}
		return
	}

	nh := c.Count(20, 300)
	for i := 0; i < nh; i++ {
		maxCommits := 6 + c.Rng.Intn(9)
		h, G, S := genHist(c, maxCommits)
		// thresholds: 0, 1, around the arena sizes met, huge
		seen := sizesSeen(h, G, S, 1)
		// (the sizes met depend on the plan, which the planner does not choose deterministically; the
		// number of random draws and of cases does not depend on them)
		pick := c.Rng.Intn(1 << 20)
		s, m := 2, 3
		if len(seen) > 0 {
			s = seen[pick%len(seen)]
			m = seen[len(seen)-1]
		}
		thrs := []int{0, 1, s, s + 1, m, 1 << 30}
		for dist := 1; dist <= 6; dist++ {
			for _, thr := range thrs {
				for _, disk := range []bool{false, true} {
					// the wrapper records the calls; every fourth configuration runs the bare item
					wrapIt := c.Rng.Intn(4) != 0
					emitCase(c, caseIn{"sweep", h, G, S, runCfg{dist: dist, thr: thr, disk: disk, fault: "none", wrap: wrapIt}})
				}
			}
		}
		// faults
		for _, f := range []string{"nodir", "filedir", "rodir"} {
			dist := 1 + c.Rng.Intn(6)
			thr := []int{0, 1, s, thrs[c.Rng.Intn(len(thrs))]}[c.Rng.Intn(4)]
			emitCase(c, caseIn{"dirfault", h, G, S, runCfg{dist: dist, thr: thr, disk: true, fault: f, wrap: c.Rng.Intn(3) != 0}})
		}
		for _, mode := range []string{"remove", "trunc0", "trunc1", "quarter", "half", "minus9", "minus4", "minus2", "minus1", "same"} {
			for k := 0; k < 2; k++ {
				dist := 1 + c.Rng.Intn(4)
				thr := []int{0, 0, 1, s, thrs[c.Rng.Intn(len(thrs))]}[c.Rng.Intn(5)]
				emitCase(c, caseIn{"tamper", h, G, S, runCfg{dist: dist, thr: thr, disk: true, fault: "tamper",
					tamper: &tamperSpec{mode: mode, skip: k * c.Rng.Intn(4)}, wrap: c.Rng.Intn(3) != 0}})
			}
		}
	}
	// wide octopus merges under hibernation (harness/synth.GenOctopusHib): an octopus of at least d+3 parents makes
	// insertHibernateBoot emit ONE boot action that covers several branches, so several sleeping BurndownAnalysis
	// clones are booted by one action and merged right afterwards.  1-2 octopus merges of 4..7 parents per
	// history, arms of different lengths, a chain after the merge, 1-2 roots, single head; distances 1..4 (always
	// including parents-3 and parents-4), thresholds {0, 1, an arena size met}, memory and disk, some tampering.
	no := c.Count(9, 200)
	for i := 0; i < no; i++ {
		k := 4 + c.Rng.Intn(4)
		oo := synth.OctoOpts{Roots: 1 + c.Rng.Intn(2), Merges: 1 + c.Rng.Intn(2), MinPar: k, MaxPar: k,
			MaxArm: 1 + c.Rng.Intn(3), MaxTail: 1 + c.Rng.Intn(2)}
		if i%3 == 2 {
			oo.MinPar = 3
		}
		h := synth.GenOctopusHib(c.Rng, synth.GenOpts{MergeAddsPr: 3}, oo)
		G := 1 + c.Rng.Intn(3)
		S := 1 + c.Rng.Intn(G)
		d0 := k - 3
		if d0 > 4 {
			d0 = 4
		}
		seen := sizesSeen(h, G, S, d0)
		pick := c.Rng.Intn(1 << 20)
		s := 2
		if len(seen) > 0 {
			s = seen[pick%len(seen)]
		}
		for dist := 1; dist <= 4; dist++ {
			for _, thr := range []int{0, 1, s} {
				for _, disk := range []bool{false, true} {
					emitCase(c, caseIn{"octo", h, G, S, runCfg{dist: dist, thr: thr, disk: disk, fault: "none", wrap: c.Rng.Intn(4) != 0}})
				}
			}
		}
		for _, mode := range []string{"remove", "trunc0", "half", "minus1"} {
			dist := 1 + c.Rng.Intn(d0)
			emitCase(c, caseIn{"octotamper", h, G, S, runCfg{dist: dist, thr: []int{0, 1, s}[c.Rng.Intn(3)], disk: true, fault: "tamper",
				tamper: &tamperSpec{mode: mode, skip: c.Rng.Intn(3)}, wrap: c.Rng.Intn(3) != 0}})
		}
	}
}
