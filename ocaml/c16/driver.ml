(* C16: replay the harness traces (cmd/c16: GeneratePeopleDict + Consume; cmd/c16m: the two merge
   functions) through the extracted Gallina model of identity.go and judge the implementation's outputs
   with the extracted executable statements of the property. *)
open C16_model
open Conv

let zstr (s : sx) : z list = zs_of_sx s
let ints (l : z list) = List.map int_of_z l
let show_str (l : z list) =
  "\"" ^ String.concat "" (List.map (fun z -> let c = int_of_z z in
     if c >= 33 && c < 127 && c <> 34 && c <> 40 && c <> 41 then String.make 1 (Char.chr c) else Printf.sprintf "\\x%02x" c) l) ^ "\""
let show_strs l = "[" ^ String.concat "," (List.map show_str l) ^ "]"

(* ---------- GeneratePeopleDict / Consume ---------- *)
let gen_case id c =
  let exact = bool_of_sx (List.hd (args (field "exact" c))) in
  let cs = List.map (fun x -> match list_of_sx x with [n; e] -> (zstr n, zstr e) | _ -> failwith "commit") (args (field "commits" c)) in
  let obs = field "obs" c in
  let m = gen_ascii exact cs in
  count (if exact then "gen_exact" else "gen_loose");
  match field_opt "panic" obs, m with
  | Some _, None -> count "gen_panic_empty_list"
  | Some _, Some _ -> propfail id "GeneratePeopleDict/Consume panics on a non-empty commit list"
  | None, None -> mismatch id "model panics (empty commit list), implementation does not"
  | None, Some (mdict, mrev) ->
      let gdict = List.map (fun x -> match list_of_sx x with [k; v] -> (zstr k, nat_of_int (int_of_sx v)) | _ -> failwith "dict")
                    (args (field "dict" obs)) in
      let grev = List.map zstr (args (field "rev" obs)) in
      let gauth = zs_of_sx (List.hd (args (field "authors" obs))) in
      (* coarse: the property, judged on the implementation's outputs *)
      let ok = ref true in
      if not (total_ok_ascii grev gauth) then begin ok := false;
        propfail id ("total: an author of the list does not resolve to an index below the number of developers: authors=["
                     ^ String.concat ";" (List.map string_of_int (ints gauth)) ^ "] developers=" ^ string_of_int (List.length grev)) end
      else if not (same_email_ok_ascii exact cs gauth) then begin ok := false;
        propfail id ("same-email: two commits with the same " ^ (if exact then "signature" else "e-mail") ^ " (case-insensitively) resolve to different developers: authors=["
                     ^ String.concat ";" (List.map string_of_int (ints gauth)) ^ "]") end
      else if not (description_ok_ascii exact cs gdict grev) then begin ok := false;
        propfail id ("description: a developer's description does not list exactly the names and e-mails attached to it: " ^ show_strs grev) end;
      (* fine: the dictionaries and the authors are the model's *)
      if !ok then begin
        let norm d = List.sort compare (List.map (fun (k, v) -> (ints k, int_of_nat v)) d) in
        if norm gdict <> norm mdict then mismatch id "PeopleDict differs from the model"
        else if List.map ints grev <> List.map ints mrev then mismatch id ("ReversedPeopleDict differs: impl=" ^ show_strs grev ^ " model=" ^ show_strs mrev)
        else if not (consume_ok_ascii exact cs gdict gauth) then mismatch id "Consume differs from the model's lookup"
        else if List.length grev >= 2 then count "gen_two_or_more_developers"
      end

(* ---------- merges ---------- *)
type mres = MPanic | MOk of (z list * ((z * z) * z)) list * z list list

let mres_of_sx (s : sx) : mres =
  match field_opt "panic" s with
  | Some _ -> MPanic
  | None ->
      let ok = field "ok" s in
      let idx = List.map (fun x -> match list_of_sx x with
          | [k; f; a; b] -> (zstr k, ((z_of_int (int_of_sx f), z_of_int (int_of_sx a)), z_of_int (int_of_sx b)))
          | _ -> failwith "idx") (args (field "idx" ok)) in
      MOk (idx, List.map zstr (args (field "merged" ok)))

let norm_idx idx = List.sort compare (List.map (fun (k, ((f, a), b)) -> (ints k, int_of_z f, int_of_z a, int_of_z b)) idx)
let show_idx idx = String.concat " " (List.map (fun (k, ((f, a), b)) ->
  Printf.sprintf "%s->(%d,%d,%d)" (show_str k) (int_of_z f) (int_of_z a) (int_of_z b)) idx)

let rec nodup = function [] -> true | x :: r -> not (List.mem x r) && nodup r

let merge_case id c =
  let ids = args (field "ids" c) in
  let pick t = List.filter_map (fun x -> if tag x = t then Some (zstr (List.hd (args x))) else None) ids in
  let rd1 = pick "a" and rd2 = pick "b" in
  let obs = field "obs" c in
  let dom = merge_domb rd1 rd2 in
  count (if dom then "merge_in_domain" else "merge_f7_domain");
  let sfx = if dom then "" else " [F7-domain: a part occurs in two entries of one input list]" in
  (* MergeReversedDictsIdentities *)
  let g = mres_of_sx (field "ident" obs) in
  let m = merge_identities rd1 rd2 in
  (match g, m with
   | _, None -> mismatch id "model out of fuel"
   | MPanic, Some _ -> propfail id ("MergeReversedDictsIdentities panics" ^ sfx)
   | MOk (gidx, gmerged), Some (midx, mmerged) ->
       let ok = ref true in
       let fail what = if !ok then begin ok := false; propfail id (what ^ sfx) end in
       if not (bool_of_sx (List.hd (args (field "agree" obs)))) then fail "merge: answers differ between runs on equal inputs";
       if not (mtotal_okb rd1 rd2 gidx gmerged) then
         fail ("merge-total: an input identity has no merged index (or one out of range), or a key is not an input identity: " ^ show_idx gidx);
       if not (mpointers_okb rd1 rd2 gidx) then
         fail ("merge-pointers: First/Second do not point to the original positions (-1 when absent): " ^ show_idx gidx);
       if not (mcomponents_okb rd1 rd2 gidx) then
         fail ("merge-components: same merged index is not equivalent to being connected: " ^ show_idx gidx);
       if not (munion_okb rd1 rd2 gidx gmerged) then
         fail ("merge-union: a merged description is not the union of its component's parts: " ^ show_strs gmerged);
       if !ok && List.length gmerged < List.length rd1 + List.length rd2 then count "merge_really_merging";
       (* fine *)
       if norm_idx gidx <> norm_idx midx then mismatch id ("merged index differs: impl=" ^ show_idx gidx ^ " model=" ^ show_idx midx)
       else if List.map ints gmerged <> List.map ints mmerged then
         mismatch id ("merged list differs: impl=" ^ show_strs gmerged ^ " model=" ^ show_strs mmerged));
  (* MergeReversedDictsLiteral *)
  let gl = mres_of_sx (field "lit" obs) in
  let ml = merge_literal rd1 rd2 in
  let ldom = nodup (List.map ints rd1) && nodup (List.map ints rd2) in
  (match gl, ml with
   | MPanic, None -> count "literal_panic_duplicates"
   | MPanic, Some _ -> if ldom then propfail id "MergeReversedDictsLiteral panics on duplicate-free lists" else mismatch id "literal: implementation panics, model does not"
   | MOk _, None -> mismatch id "literal: model panics (index out of range), implementation does not"
   | MOk (gidx, gmerged), Some (midx, mmerged) ->
       if ldom then begin
         count "literal_in_domain";
         let str_of k = try List.nth gmerged (int_of_z (fst (fst (List.assoc k gidx)))) with _ -> [] in
         if not (mtotal_okb rd1 rd2 gidx gmerged && mpointers_okb rd1 rd2 gidx
                 && List.for_all (fun s -> ints (str_of s) = ints s) (rd1 @ rd2)
                 && List.length gmerged = List.length gidx) then
           propfail id ("literal: index/pointers/merged list wrong on duplicate-free lists: " ^ show_idx gidx)
       end;
       if norm_idx gidx <> norm_idx midx then mismatch id ("literal index differs: impl=" ^ show_idx gidx ^ " model=" ^ show_idx midx)
       else begin
         let finals = List.map (fun (_, ((f, _), _)) -> int_of_z f) gidx in
         if nodup finals then begin
           if List.map ints gmerged <> List.map ints mmerged then mismatch id "literal merged list differs"
         end else count "literal_order_dependent"
       end)

let () =
  iter_cases (fun id c ->
    match field_opt "commits" c with
    | Some _ -> gen_case id c
    | None -> merge_case id c)
