CONFIG = dict(
        level='proof',
        streams=[dict(harness='c01', driver='c01', shrink_field='keep', timeout=7200)],
        rule='one case = one synthetic git history run through the real pipeline (TreeDiff, BlobCache, FileDiff, TicksSinceStart, '
             'IdentityDetector, BurndownAnalysis; hercules.NewPipeline/DeployItem/Initialize/Run) with granularity G >= sampling S >= 1 '
             '(S < G in a third of the cases), file / people tracking on or off, hibernation off or distance 1..3 (memory, disk, threshold). '
             'Kinds: conflict-free histories from the declarative generator of DESIGN.md appendix D (linear-cf, dag1 = random DAGs closed to a '
             'single head, dag1-addm = every merge adds lines, multi = several heads, shape-* = diamond, criss-cross, nested and chained '
             'merges, octopus, all commits in one tick, two roots), lin = linear histories with arbitrary edits (repeated lines, replacements, '
             'deletions, renames, binary flips, missing final newline), notext = only empty/binary files (F11). '
             'Strengthening families: opt / opt-octo = conflict-free histories of 8..57 commits with 1..4 root commits merged together, 1 / 2 / 50 authors '
             '(the author of a merge commit drawn like any other), octopus fans of 3..6 parents under hibernation distance 0..4, G and S from {1, 7, 30, 365}, '
             'ticks spanning 20..9 000 days (last tick forced to 16382 or to a value next to 7, 30, 365, 730, 4096, 8192 in a sixth), commit times inside a day '
             'equal or non-monotone; scale-dag / -octo / -roots / -wide / -linear = the same generator on 1 000 commits (thorough 10 000) with 80..180 merges '
             '(thorough about 1 000), up to 16 live branches, a 10^4-line file (thorough 10^5) edited at head and tail, matrices of hundreds to 1 800 rows, '
             'hibernation distance 0 / 1 / 2 / 3..4; linscale / linopt = linear arbitrary-edit histories in delta form, 1 000 steps (thorough 10 000) resp. 5..44 steps: '
             'files that become binary and text again, renames, deletions, a 10^4-line file of repeated lines, commit times going backwards (tick = running maximum). '
             'Round-3 streams: lincombo = EVERY pair (op1 in commit 1, op2 in commit 2) of compound operations on one file of a linear history that starts as text, binary or empty - '
             'a commit may at once rename the file, edit it (lightly: RenameAnalysis still pairs the blobs; heavily: it does not), and flip it text -> binary, binary -> text, -> empty, empty -> text, '
             'or delete it, or re-create a deleted path as text / binary / empty - followed by 1..2 probing commits (558 histories); lincombo-rnd = 300 (thorough 6 000) random linear histories of 4..14 commits '
             'over five names with several such operations per commit, name swaps, a new file on the name a renamed / deleted file had in the same commit, copies of an existing blob (two changes of one '
             'commit meeting in one hash) and commits that remove every file; linscale / linopt also rename + flip + edit in one step and create empty files; '
             'reuse (a sixth of ALL cases): the BurndownAnalysis instance has first analysed another repository (rename, deletion and re-creation on a branch, a binary flip, three authors, other options) in another pipeline, '
             'in half of them a repository on which that earlier analysis panics (only a binary file), so the instance is re-used after a failure. '
             '*-pathdel kinds (the only DAG kinds in which a path is deleted, re-created or renamed; 490 quick / 7 900 thorough): conflict-free DAG histories over file identities with path events '
             '(a one-parent commit deletes a file killing all its lines, a later commit re-creates the path as a new file, a commit renames a file without changing it; nobody touches a file concurrently with '
             'one of its events, so every merge is still the clean union of its parents) - shape-recreate / shape-rename / shape-control (the two reported shapes and the plain deletion) and random DAGs '
             'dag-pathdel (deletions, re-creations) and dagren-pathdel (also renames); judged by the same line-lifetime ground truth (project matrix, developer matrices, last row, per-file tables of the files without events); '
             'the Gallina analysis model is stepped on every case without a rename (Burndown/PathDel.v run_hist_pd) and must agree with the implementation. '
             'A PROPFAIL of such a case carries the marker [path-deleted-on-a-branch] exactly when the EXECUTED plan replays, in merge mode, the deletion of a path whose flag deletions[name] is not set at that moment '
             '(known finding F22; the driver simulates the flag along the plan) - any other failure of a pathdel case is reported without the marker. '
             'Round-4 streams (content of values): every DAG case draws how its line identities and path names are WRITTEN - (enc 1..5), a third of the cases: lines that are not well-formed UTF-8 and differ only inside the ill-formed runs '
             '(lone continuation / lead bytes, 0xC0 0xC1 0xF5 0xF8 0xFE 0xFF, Latin-1 letters, U+FFFD as real content), lines that differ only in case, only in leading / inner / trailing blanks (space, tab, CR, VT, NBSP, U+3000, U+2028, BOM), '
             'decimal numbers in the spellings 7 / 007 / +7 across the widths 9-10-11, 99-100-101, lines of blanks only (blobs of white space or of a BOM); the *-pathdel kinds keep L<id> (similar blobs would be paired by RenameAnalysis); '
             '(nenc 1..4), a third: path names that differ only in case, only in blanks / dots / BOM / combining characters, names that are not UTF-8, common prefixes with decimal suffixes f9 f10 f11 f99 f100 f101 ..; '
             '(modes 1), a quarter: regular / executable entries alternating, also with the blob unchanged; the observation is mapped back to the plain names, the judgement is that of the plain twin. '
             'shape-renchain-pathdel (60 quick / 1 000 thorough): a chain of two or three renames of one file on a branch, in four of five cases a NEW file on a name the chain gave up, a second (and third) branch that forked at the root, inside the chain or after it '
             'and still has the file under an older name, tail edits of both files, hibernation / tracking / G / S drawn as everywhere; dagren-pathdel also creates files on names given up by renames. '
             'Files that are only renamed and new files on names given up by a rename are judged under their name at HEAD (per-file matrix, ownership) when the history satisfies three structural conditions computed by the driver '
             '(D4: no concurrent commit has another file under a name at the moment a file takes it). Findings F27 (known) and F28 (fixed in /repo cb7e5ac; its tag is kept, a tagged failure is a violation again): a PROPFAIL about a file that is renamed back to an earlier name starts with [renamed-back-to-earlier-name], one about a renamed file '
             'for which a commit concurrent with the rename (or a parent of it) does not have the file yet starts with [rename-consumed-before-merge-replay]; every other failure is untagged. '
             'Large cases (field scale) are judged by the ground truth computed natively by the driver (difference arrays; the same definitions as Lifetimes.v / Linear.v), '
             'which every small case of the run checks against the extracted oracle; the analysis model is stepped on the opt family but not on the 10^3-commit cases. '
             'Non-trivial = at least 3 commits and (conflict-free kinds) at least one killed line; distinct = distinct '
             '(history, G, S, flags, hibernation setting).',
        exhaustive_note='',
        assumptions=[
            'C03 (tracker = array): internal/burndown.File behaves as the plain array of per-line values and reports per (current, previous) value '
            'the same sums as the array update arr_update of Burndown/Analysis.v',
            'C07 (file merge): File.Merge computes the per-line rule transcribed in Analysis.v merge_lines/resolve_marks',
            'C02 (run plan): the plan executed by Pipeline.Run passes plan_okb of Burndown/Replay.v (every commit replayed on exactly its '
            'ancestry); evaluated on the executed plan of every case by the driver, so it is also checked case by case',
            'C11/C20 (diff scripts, tree changes): on a conflict-free history (all lines distinct) the file diff between two versions deletes '
            'exactly the lines absent from the new version and inserts exactly those absent from the old one (canonical script '
            'Replay.v hunks); per case the resulting sparse histories of the model and of the implementation are compared',
            'C09 (hibernation transparent): Hibernate/Boot are the identity on the model; a quarter of the cases run with hibernation on',
            'C19 (ticks) and C16 (identities): the tick of a commit is its day offset from the first commit, the author index is the '
            'people-dictionary index; both are read from the generated history (ticks) and the recorded dictionary (authors)',
            'ticks < 16383 (TreeMergeMark) and at most 2^18 - 3 developers: the packed (author, tick) value of burndown.go is injective there',
            'no path deletion and no rename on a DAG: in a conflict_free history (Burndown/Lifetimes.v) a path that exists in a commit exists in every descendant '
            '(C01_domain_paths_never_disappear); with path deletions admitted the matrix statement is refuted (C01_matrix_refuted_with_path_deletion, known finding F22)',
        ],
        trusted_base=[
            'hand-written Gallina models coq/theories/Burndown/{Dense,Analysis,Replay}.v of leaves/burndown.go (groupSparseHistory, Consume, '
            'handleInsertion/Deletion/Modification, Merge, Fork, updaters, packPersonWithTick, Finalize) and of the part of '
            'core/pipeline.go Run that drives one item along a plan (incl. isMerge); tied to the code by replaying every case: '
            'sparse global/file/people histories, interaction matrix, dense matrices and final files of the root branch must be equal',
            'the declarative history model and ground truth coq/theories/Burndown/Lifetimes.v and Linear.v (extracted: the oracle)',
            'go-git in-memory repositories built by harness/synth (blobs "L<id>\\n" per line identity)',
            'large cases (10^3..10^4 commits, matrices of hundreds of rows, 10^3..10^4-step linear histories): conflict_free, single_head, last_event, truth_project/file/dev, lines_at_head, ownership and the '
            'linear row-sum law are evaluated by native OCaml code on arrays in the driver (the extracted oracle is cubic); on every small case both are computed and a difference is reported as a driver failure',
            'kinds *-pathdel: the domain conditions D1-D3 (harness/cmd/c01/pathdel.go) are checked natively by the driver (npd_ok) and, for histories without renames, by the extracted conflict_free_pd; '
            'the marker of F22 is decided by a native simulation of the deletions flag along the executed plan (nflag_unset_hit); renames are not in the Gallina model: rename cases are judged by the ground truth only',
            'round 4: the renderings of line identities and path names (harness/cmd/c01/content.go) are injective by construction (fixed-width / prefix-free digit alphabets) and the harness maps reported names back through the table of the case; '
            'which renamed files are judged is decided by native driver code (judged_name: takes_ok; ftag: renames_seen_by_all, repeated name = the tags of F27 / F28) on the declarative history',
            'linear scale histories: the tick of a commit is computed by the harness as the running maximum of the day offset from the first commit (the formula of TicksSinceStart; property C19)',
        ],
        level_text='Proved in Coq (all closed under the global context): C01_dense (groupSparseHistory: every cell of the dense matrix = sum of '
                   'the sparse entries of samples <= s and band b, for every sparse history and sampling <, =, > granularity; the pre-fix row '
                   'allocation is refuted); the ground-truth oracle has no negative cell, every row sums to the lines alive at the sample and '
                   'the last row to the lines at HEAD; C01_linear (arbitrary edit scripts on a linear history: no negative cell, row sums = '
                   'tracked lines at the sample); for conflict-free histories executed along any validated plan (linear, forks, diamonds, '
                   'criss-cross, octopus): C01_global_sparse and C01_matrix (the dense project matrix equals the ground-truth matrix), '
                   'C01_files (the dense matrix of every file history, rows up to the project\'s last tick, equals the ground truth of the '
                   'lines of that path), C01_people (the same per developer: births of the commits he authored, deaths booked against the '
                   'line\'s author), C01_ownership (per developer the lines of the file alive at HEAD, single head), C01_finalize (all of it '
                   'for what Finalize returns; Finalize succeeds on the domain and returns exactly one per-file matrix / ownership table per '
                   'path with a line and one matrix per developer), and the corollaries (no negative cell, last row = lines at HEAD) for the '
                   'project, every file and every developer. DOMAIN: conflict_free histories cannot delete or rename a path (C01_domain_paths_never_disappear: a path that '
                   'exists in a commit exists in every descendant), so all of the above covers DAG histories WITHOUT path deletion or rename on a branch. With path deletions '
                   'admitted (conflict_free_pd of Burndown/PathDel.v: a file is deleted by a one-parent commit that kills all its lines, nobody touches it concurrently, the path may be '
                   're-created; every merge still the clean union of its parents) the statement of C01_matrix is REFUTED of the model and of the code: C01_matrix_refuted_with_path_deletion '
                   '(witness R {f: 3 lines, h: 1}; A deletes f; B edits h; A2 re-creates f; M = merge(A, B); M2 = merge(M, A2): rows [1 0 0] [-2 1 0] [-2 1 2] instead of [4 0 0] [1 1 0] [1 1 2]; known finding F22).',
        level_note='Closed (no axioms): C01_dense (+ refutation of the pre-fix row allocation); oracle facts; C01_linear; C01_global_sparse '
                   '(conflict-free history + any plan accepted by plan_okb, merges included: the sparse global history is births minus deaths '
                   'at the right (tick, birth tick), merge commits counted once); C01_matrix (the dense project matrix equals the ground-truth '
                   'matrix: rows, bands and every cell), C01_no_negative_cell, C01_last_row_is_head; C01_files_sparse / C01_people_sparse and '
                   'C01_files / C01_people (every per-file and per-developer matrix that Finalize produces equals truth_file / truth_dev: rows '
                   'to the project\'s last tick, bands, every cell; an empty developer history = zero ground truth), C01_ownership, '
                   'C01_master_holds_all, C01_finalize, C01_files/people_no_negative_cell, C01_files/people_last_row_is_head. '
                   'C01_files_cover / C01_finalize_cover / C01_finalize_succeeds (a path has a file matrix iff it has a line; Finalize '
                   'succeeds whenever the history has a line, i.e. outside F11). '
                   'NOT PROVED, evaluated per case: that the validated plan leaves every commit on the master branch of a single-head '
                   'history (master_all; the ownership clause and C01_finalize start from a branch that holds every commit). '
                   'The theorems are about the abstract analysis over arrays: the tracker, '
                   'File.Merge, the planner, tree/file diffs, hibernation, ticks and identities enter as the hypotheses listed under '
                   'assumptions (C03, C07, C02, C11/C20, C09, C19/C16); the model is tied to burndown.go by replay, not by proof. '
                   'conflict_free contains two redundant executable conjuncts (ticks monotone along ancestry, killer tick >= birth tick) '
                   'that are checked instead of derived. Known finding F11 (empty-history panic when no text line is ever analysed). '
                   'DOMAIN OF THE DAG THEOREMS: conflict_free implies that paths never disappear (C01_domain_paths_never_disappear) and the model has no rename; C01_global_sparse, C01_matrix, C01_files, '
                   'C01_people, C01_ownership, C01_finalize and their corollaries therefore say nothing about histories in which a branch deletes, re-creates or renames a path (handle_deletion is never executed '
                   'in their proofs). For exactly those histories the statement is refuted: C01_matrix_refuted_with_path_deletion (closed by vm_compute on the same model, extended by the replay of '
                   'Burndown/PathDel.v; the Go code returns the same matrix: known finding F22, handleDeletion books a merge-mode deletion a second time at tick 0 when deletions[name] is not set). '
                   'Linear histories with renames, deletions, re-creations and binary flips are covered by C01_linear (row sums, non-negativity).',
        technique='machine-checked proof in Coq over a Gallina model of BurndownAnalysis + replay of the real pipeline on synthetic '
                  'repositories: every matrix cell against the extracted ground truth (PROPFAIL), sparse histories / dense result / final '
                  'files against the extracted model run along the executed plan (MISMATCH)',
    )
