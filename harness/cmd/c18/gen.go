package main

import (
	"math/rand"
	"sort"
	"strings"

	"gopkg.in/src-d/hercules.v10/leaves"
	. "verifharness/lib"
)

// ---------------------------------------------------------------------------------------------
// developer identities

var nameParts = []string{"ann", "bob", "cy", "dee", "eve", "fay", "gus"}
var mailParts = []string{"a@x.io", "b@x.io", "c@y.org", "d@y.org", "e@z.net", "f@z.net", "g@w.de"}

// canon joins identity parts the way GeneratePeopleDict and MergeReversedDictsIdentities do:
// names sorted, then e-mails sorted.
func canon(parts []string) string {
	var ns, es []string
	for _, p := range parts {
		if strings.Contains(p, "@") {
			es = append(es, p)
		} else {
			ns = append(ns, p)
		}
	}
	sort.Strings(ns)
	sort.Strings(es)
	return strings.Join(append(ns, es...), "|")
}

// partition makes up to maxIds identities out of a random subset of the given parts; every part is
// used by at most one identity of the list (what a Detector produces).
func partition(r *rand.Rand, parts []string, maxIds int) []string {
	n := r.Intn(maxIds + 1)
	if n == 0 {
		return []string{}
	}
	groups := make([][]string, n)
	perm := r.Perm(len(parts))
	// every identity gets one part, the rest is distributed or dropped
	for i, pi := range perm {
		if i < n {
			groups[i] = append(groups[i], parts[pi])
		} else if r.Intn(3) != 0 {
			g := r.Intn(n)
			if len(groups[g]) < 4 {
				groups[g] = append(groups[g], parts[pi])
			}
		}
	}
	res := make([]string, 0, n)
	for _, g := range groups {
		if len(g) > 0 {
			res = append(res, canon(g))
		}
	}
	return res
}

func allParts(k int) []string {
	return append(append([]string{}, nameParts[:k]...), mailParts[:k]...)
}

// peoplePair generates the two identity lists.  mode 0: literal (identities either identical strings
// or without common part); mode 1: independent partitions (sharing, bridging); mode 2: identities of
// the second list are sub/supersets of single identities of the first (share only a name / an e-mail).
func peoplePair(r *rand.Rand, mode, maxIds int) ([]string, []string) {
	k := 2 + r.Intn(4)
	parts := allParts(k)
	rd1 := partition(r, parts, maxIds)
	used := map[string]bool{}
	for _, s := range rd1 {
		for _, p := range strings.Split(s, "|") {
			used[p] = true
		}
	}
	var free []string
	for _, p := range append(append([]string{}, nameParts[k:]...), mailParts[k:]...) {
		free = append(free, p)
	}
	for _, p := range parts {
		if !used[p] {
			free = append(free, p)
		}
	}
	switch mode {
	case 0:
		rd2 := []string{}
		for _, s := range rd1 {
			if r.Intn(2) == 0 {
				rd2 = append(rd2, s)
			}
		}
		for _, s := range partition(r, free, 3) {
			rd2 = append(rd2, s)
		}
		r.Shuffle(len(rd2), func(i, j int) { rd2[i], rd2[j] = rd2[j], rd2[i] })
		if len(rd2) > maxIds {
			rd2 = rd2[:maxIds]
		}
		return rd1, rd2
	case 1:
		return rd1, partition(r, allParts(k+1), maxIds)
	default:
		rd2 := []string{}
		fi := 0
		for _, s := range rd1 {
			ps := strings.Split(s, "|")
			switch r.Intn(6) {
			case 0:
				rd2 = append(rd2, s)
			case 1: // one part only
				rd2 = append(rd2, ps[r.Intn(len(ps))])
			case 2: // only the names or only the e-mails
				var sub []string
				wantMail := r.Intn(2) == 0
				for _, p := range ps {
					if strings.Contains(p, "@") == wantMail {
						sub = append(sub, p)
					}
				}
				if len(sub) > 0 {
					rd2 = append(rd2, canon(sub))
				}
			case 3: // one shared part and a new one
				if fi < len(free) {
					rd2 = append(rd2, canon([]string{ps[r.Intn(len(ps))], free[fi]}))
					fi++
				}
			case 4: // a new identity
				if fi < len(free) {
					rd2 = append(rd2, free[fi])
					fi++
				}
			}
		}
		r.Shuffle(len(rd2), func(i, j int) { rd2[i], rd2[j] = rd2[j], rd2[i] })
		if r.Intn(2) == 0 {
			return rd2, rd1
		}
		return rd1, rd2
	}
}

// classify: lit = every identity is spelled like its merged identity; bridge = some merged identity has two
// members in one list; idmerge = identities merge, at most one per list.
func classify(rd1, rd2 []string) string {
	tab, merged := leaves.VerifC18MergeIdentities(rd1, rd2)
	look := map[string]leaves.VerifC18MergedIndex{}
	for _, e := range tab {
		look[e.Key] = e
	}
	lit := true
	bridge := false
	for _, rd := range [][]string{rd1, rd2} {
		cnt := map[int]int{}
		for _, s := range rd {
			e, ok := look[s]
			if !ok || e.Final >= len(merged) || merged[e.Final] != s {
				lit = false
			}
			if ok {
				cnt[e.Final]++
				if cnt[e.Final] > 1 {
					bridge = true
				}
			}
		}
	}
	switch {
	case lit:
		return "lit"
	case bridge:
		return "bridge"
	default:
		return "idmerge"
	}
}

// ---------------------------------------------------------------------------------------------
// common summaries

const day = int64(86400)

func genCommonPair(r *rand.Rand) (Common, Common) {
	base := int64(1500000000) + int64(r.Intn(1000))*day
	mk := func() Common {
		b := base + int64(r.Intn(40))*day + int64(r.Intn(int(day)))
		if r.Intn(6) == 0 {
			b = base + int64(r.Intn(3))*day // same or close days
		}
		e := b + 2*day + int64(r.Intn(30))*day + int64(r.Intn(int(day)))
		return Common{Begin: b, End: e, Commits: r.Intn(1000), Runtime: int64(r.Intn(1000000)) * 1000000,
			Items: []string{}}
	}
	return mk(), mk()
}

var tickSizes = []int64{24 * 3600e9, 24 * 3600e9, 24 * 3600e9, 3600e9, 7 * 24 * 3600e9, 1e9, 90061e9, 12 * 3600e9, 1, 1234567}

// ---------------------------------------------------------------------------------------------
// developer statistics

var langPool = []string{"Go", "Python", "C", "", "Java"}

func genLS(r *rand.Rand) LS {
	if r.Intn(5) == 0 {
		return LS{}
	}
	return LS{r.Intn(50), r.Intn(50), r.Intn(20)}
}

func genDevs(r *rand.Rand, people []string, ts int64, malformed bool) Devs {
	d := Devs{People: people, TickSize: ts, Ticks: []TickEntry{}}
	nt := r.Intn(5)
	tickSet := r.Perm(7)[:nt]
	sort.Ints(tickSet)
	for _, t := range tickSet {
		te := TickEntry{Tick: t}
		cands := []int{}
		for i := range people {
			cands = append(cands, i)
		}
		cands = append(cands, 262142)
		if malformed && r.Intn(3) == 0 {
			cands = append(cands, len(people), -1)
		}
		for _, dv := range cands {
			if r.Intn(2) == 0 {
				continue
			}
			e := DevEntry{Dev: dv, Commits: r.Intn(10), LS: genLS(r)}
			for _, l := range langPool {
				if r.Intn(3) == 0 {
					e.Langs = append(e.Langs, Lang{l, genLS(r)})
				}
			}
			sort.Slice(e.Langs, func(i, j int) bool { return e.Langs[i].Name < e.Langs[j].Name })
			te.Devs = append(te.Devs, e)
		}
		sort.Slice(te.Devs, func(i, j int) bool { return te.Devs[i].Dev < te.Devs[j].Dev })
		d.Ticks = append(d.Ticks, te)
	}
	return d
}

func genDevsCase(r *rand.Rand, mode int, malformed bool) (string, input) {
	rd1, rd2 := peoplePair(r, mode, 4)
	in := input{an: "devs"}
	in.c1, in.c2 = genCommonPair(r)
	ts1 := tickSizes[r.Intn(len(tickSizes))]
	ts2 := ts1
	if r.Intn(12) == 0 {
		ts2 = tickSizes[r.Intn(len(tickSizes))]
	}
	if malformed {
		switch r.Intn(4) {
		case 0:
			ts1, ts2 = 0, 0
		case 1:
			ts1 = -tickSizes[r.Intn(len(tickSizes))]
			ts2 = ts1
		}
	}
	in.dv[0] = genDevs(r, rd1, ts1, malformed)
	in.dv[1] = genDevs(r, rd2, ts2, malformed)
	if malformed {
		return "dv-malformed", in
	}
	return "dv-" + classify(rd1, rd2), in
}

// ---------------------------------------------------------------------------------------------
// couples

var filePool = []string{"main.go", "cmd/run.go", "README.md", "lib/a.py", "lib/b.py", "doc/x.txt", "Makefile", "src/z.c"}

func genKVRows(r *rand.Rand, rows, cols int, extra []int) [][]KV {
	res := make([][]KV, rows)
	for i := range res {
		res[i] = []KV{}
		ks := []int{}
		for c := 0; c < cols; c++ {
			ks = append(ks, c)
		}
		ks = append(ks, extra...)
		for _, c := range ks {
			if r.Intn(2) == 0 {
				v := int64(r.Intn(30))
				if r.Intn(8) == 0 {
					v = 0
				}
				res[i] = append(res[i], KV{c, v})
			}
		}
		sort.Slice(res[i], func(a, b int) bool { return res[i][a].K < res[i][b].K })
	}
	return res
}

func genCouples(r *rand.Rand, people []string, files []string, malformed bool) Couples {
	c := Couples{People: people, Files: files, Lines: []int{}, PF: [][]int{}}
	nf, np := len(files), len(people)
	for range files {
		c.Lines = append(c.Lines, r.Intn(500))
	}
	for i := 0; i < np; i++ {
		fs := []int{}
		for f := 0; f < nf; f++ {
			if r.Intn(2) == 0 {
				fs = append(fs, f)
			}
		}
		c.PF = append(c.PF, fs)
	}
	pmRows := np + 1
	if r.Intn(8) == 0 {
		pmRows = np
	}
	c.PM = genKVRows(r, pmRows, np+1, nil)
	c.FM = genKVRows(r, nf, nf, nil)
	if malformed {
		switch r.Intn(7) {
		case 0:
			if len(c.Lines) > 0 {
				c.Lines = c.Lines[:len(c.Lines)-1]
			}
		case 1:
			c.PF = append(c.PF, []int{0})
		case 2:
			if np > 0 {
				c.PF[r.Intn(np)] = []int{nf}
			}
		case 3:
			c.PM = genKVRows(r, np+3, np+1, []int{-1, np + 5})
		case 4:
			c.FM = genKVRows(r, nf+1, nf, nil)
		case 5:
			c.FM = genKVRows(r, nf, nf, []int{nf, -1})
		case 6:
			c.PM = genKVRows(r, np+1, np+1, []int{np + 7})
		}
	}
	return c
}

func genFiles(r *rand.Rand) ([]string, []string) {
	pick := func() []string {
		n := r.Intn(5)
		perm := r.Perm(len(filePool))[:n]
		res := []string{}
		for _, i := range perm {
			res = append(res, filePool[i])
		}
		return res
	}
	f1 := pick()
	if r.Intn(5) == 0 {
		f2 := append([]string{}, f1...)
		r.Shuffle(len(f2), func(i, j int) { f2[i], f2[j] = f2[j], f2[i] })
		return f1, f2
	}
	return f1, pick()
}

func genCouplesCase(r *rand.Rand, mode int, malformed bool) (string, input) {
	rd1, rd2 := peoplePair(r, mode, 4)
	in := input{an: "couples"}
	in.c1, in.c2 = genCommonPair(r)
	f1, f2 := genFiles(r)
	in.cp[0] = genCouples(r, rd1, f1, malformed)
	in.cp[1] = genCouples(r, rd2, f2, malformed && r.Intn(2) == 0)
	if malformed {
		return "cp-malformed", in
	}
	return "cp-" + classify(rd1, rd2), in
}

// ---------------------------------------------------------------------------------------------
// burndown

func genPM(r *rand.Rand, n int) [][]int64 {
	pm := make([][]int64, n)
	for i := range pm {
		pm[i] = make([]int64, n+2)
		for j := range pm[i] {
			if r.Intn(3) != 0 {
				pm[i][j] = int64(r.Intn(100))
			}
		}
	}
	return pm
}

func genBurndown(r *rand.Rand, people []string, ts int64, side int, hist, ph, pm bool) Burndown {
	b := Burndown{People: people, TickSize: ts, Sampling: 1, Granularity: 1, Global: [][]int64{}, PM: [][]int64{}}
	if hist {
		b.Global = [][]int64{{int64(1) << uint(20+side)}}
	}
	if ph {
		for i := range people {
			b.PH = append(b.PH, [][]int64{{int64(1) << uint(10*side+i)}})
		}
	}
	if pm {
		b.PM = genPM(r, len(people))
	}
	return b
}

func genBurndownCase(r *rand.Rand, mode int, malformed bool) (string, input) {
	rd1, rd2 := peoplePair(r, mode, 5)
	in := input{an: "burndown"}
	in.c1, in.c2 = genCommonPair(r)
	ts := tickSizes[r.Intn(3)]
	ts2 := ts
	if r.Intn(15) == 0 {
		ts2 = 3600e9
	}
	if r.Intn(15) == 0 {
		ts, ts2 = 0, 0 // "backwards compatibility": the default tick size
	}
	hist := r.Intn(5) != 0 && ts > 0
	ph1, ph2 := hist, hist
	pm1, pm2 := true, true
	switch r.Intn(50) {
	case 0, 1:
		pm1, pm2 = false, false
	case 2, 3:
		pm2 = false // the "extend" branch of the people matrix
	case 4:
		pm1 = false // index out of range in a worker goroutine
	}
	if hist && r.Intn(10) == 0 {
		ph1, ph2 = false, false
	}
	in.bd[0] = genBurndown(r, rd1, ts, 0, hist && r.Intn(10) != 0, ph1, pm1)
	in.bd[1] = genBurndown(r, rd2, ts2, 1, hist && r.Intn(10) != 0, ph2, pm2)
	if !hist {
		in.bd[0].Sampling, in.bd[0].Granularity = 1+r.Intn(30), 1+r.Intn(30)
		in.bd[1].Sampling, in.bd[1].Granularity = 1+r.Intn(30), 1+r.Intn(30)
	}
	if malformed {
		b := &in.bd[r.Intn(2)]
		switch r.Intn(6) {
		case 0:
			if len(b.PH) > 0 {
				b.PH = b.PH[:len(b.PH)-1]
			}
		case 1:
			if len(b.PM) > 0 {
				b.PM = b.PM[:len(b.PM)-1]
			}
		case 2:
			if len(b.PM) > 0 {
				i := r.Intn(len(b.PM))
				b.PM[i] = b.PM[i][:r.Intn(2)]
			}
		case 3:
			if len(b.PM) > 0 {
				i := r.Intn(len(b.PM))
				b.PM[i] = append(b.PM[i], 7)
			}
		case 4:
			in.bd[0].PH = nil
		case 5:
			in.bd[1].PH = nil
		}
		return "bd-malformed", in
	}
	return "bd-" + classify(rd1, rd2), in
}

// ---------------------------------------------------------------------------------------------
// common

var itemPool = []string{"Burndown", "Devs", "Couples", "TreeDiff"}

func genCommonCase(r *rand.Rand) (string, input) {
	in := input{an: "common"}
	in.c1, in.c2 = genCommonPair(r)
	keys := itemPool
	for _, c := range []*Common{&in.c1, &in.c2} {
		c.Items = []string{}
		for _, k := range keys {
			if r.Intn(2) == 0 {
				c.Items = append(c.Items, k)
			}
		}
		switch r.Intn(12) {
		case 0:
			c.Begin = 0
		case 1:
			c.End = 0
		case 2:
			c.ItemsNil = true
			c.Items = nil
		case 3:
			c.Begin, c.End = c.End, c.Begin
		case 4:
			c.Begin = -c.Begin
		}
	}
	if r.Intn(10) == 0 {
		in.c2 = in.c1
	}
	return "cm", in
}

// ---------------------------------------------------------------------------------------------
// exhaustive small scope: all pairs of identity lists over the parts {ann, bob, a@x.io}

func partialPartitions(parts []string) [][]string {
	// every way to put each part into "unused" or one of the groups (canonical numbering)
	var res [][]string
	var rec func(i int, groups [][]string)
	rec = func(i int, groups [][]string) {
		if i == len(parts) {
			l := []string{}
			for _, g := range groups {
				l = append(l, canon(g))
			}
			res = append(res, l)
			return
		}
		rec(i+1, groups) // unused
		for g := range groups {
			ng := make([][]string, len(groups))
			for k := range groups {
				ng[k] = append([]string{}, groups[k]...)
			}
			ng[g] = append(ng[g], parts[i])
			rec(i+1, ng)
		}
		ng := make([][]string, len(groups), len(groups)+1)
		for k := range groups {
			ng[k] = append([]string{}, groups[k]...)
		}
		rec(i+1, append(ng, []string{parts[i]}))
	}
	rec(0, nil)
	return res
}

func exhaustive(c *Config) {
	r := c.Rng
	lists := partialPartitions([]string{"ann", "bob", "a@x.io"})
	for _, l1 := range lists {
		for _, l2 := range lists {
			for rev := 0; rev < 2; rev++ {
				rd1 := append([]string{}, l1...)
				rd2 := append([]string{}, l2...)
				if rev == 1 {
					if len(rd2) < 2 {
						continue
					}
					for i, j := 0, len(rd2)-1; i < j; i, j = i+1, j-1 {
						rd2[i], rd2[j] = rd2[j], rd2[i]
					}
				}
				cls := classify(rd1, rd2)
				{
					in := input{an: "devs"}
					in.c1, in.c2 = genCommonPair(r)
					in.dv[0] = genDevs(r, rd1, 24*3600e9, false)
					in.dv[1] = genDevs(r, rd2, 24*3600e9, false)
					emit(c, "dv-"+cls, in)
				}
				{
					in := input{an: "couples"}
					in.c1, in.c2 = genCommonPair(r)
					f1, f2 := genFiles(r)
					in.cp[0] = genCouples(r, rd1, f1, false)
					in.cp[1] = genCouples(r, rd2, f2, false)
					emit(c, "cp-"+cls, in)
				}
				{
					in := input{an: "burndown"}
					in.c1, in.c2 = genCommonPair(r)
					in.bd[0] = genBurndown(r, rd1, 24*3600e9, 0, true, true, true)
					in.bd[1] = genBurndown(r, rd2, 24*3600e9, 1, true, true, true)
					emit(c, "bd-"+cls, in)
				}
			}
		}
	}
}

func generate(c *Config) {
	r := c.Rng
	if only == "chain" {
		chainFamily(c)
		return
	}
	if only == "r4" {
		contentFamily(c)
		return
	}
	exhaustive(c)
	scaleFamily(c)
	chainFamily(c)
	contentFamily(c)
	for i := c.Count(4000, 120000); i > 0; i-- {
		k, in := genDevsCase(r, i%3, false)
		emit(c, k, in)
	}
	for i := c.Count(600, 20000); i > 0; i-- {
		k, in := genDevsCase(r, 0, true)
		emit(c, k, in)
	}
	for i := c.Count(4000, 120000); i > 0; i-- {
		k, in := genCouplesCase(r, i%3, false)
		emit(c, k, in)
	}
	for i := c.Count(600, 20000); i > 0; i-- {
		k, in := genCouplesCase(r, 0, true)
		emit(c, k, in)
	}
	for i := c.Count(4000, 120000); i > 0; i-- {
		k, in := genBurndownCase(r, i%3, false)
		emit(c, k, in)
	}
	for i := c.Count(150, 2000); i > 0; i-- {
		k, in := genBurndownCase(r, 0, true)
		emit(c, k, in)
	}
	for i := c.Count(1500, 50000); i > 0; i-- {
		k, in := genCommonCase(r)
		emit(c, k, in)
	}
}
