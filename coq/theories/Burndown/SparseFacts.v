(* Weighted sums over sparse histories: the bridge between the updaters (sp_add), the dense matrix
   (spec_cell of Dense.v) and counting arguments. *)
From Coq Require Import List ZArith Lia Bool.
From Herc Require Import Burndown.Base Burndown.Dense Burndown.DenseProofs Burndown.Analysis.
Import ListNotations.
Open Scope Z_scope.

Definition rsum (P : Z -> bool) (row : list (Z * Z)) : Z :=
  sum_z (map (fun kd => if P (fst kd) then snd kd else 0) row).
Definition wsum (P : Z -> Z -> bool) (H : list (Z * list (Z * Z))) : Z :=
  sum_z (map (fun tr => rsum (P (fst tr)) (snd tr)) H).

Lemma sum_z_cons x l : sum_z (x :: l) = x + sum_z l.
Proof. reflexivity. Qed.

Lemma rsum_inner_add P row k d : rsum P (inner_add row k d) = rsum P row + (if P k then d else 0).
Proof.
  unfold rsum. induction row as [|[k' v] r IH]; cbn [inner_add map fst snd].
  - rewrite !sum_z_cons. cbn. lia.
  - destruct (Z.eqb_spec k' k) as [->|Hne]; cbn [map fst snd]; rewrite !sum_z_cons.
    + cbn [fst snd]. destruct (P k); lia.
    + rewrite IH. cbn [fst snd]. lia.
Qed.

Lemma wsum_sp_add P H t k d : wsum P (sp_add H t k d) = wsum P H + (if P t k then d else 0).
Proof.
  unfold wsum. induction H as [|[t' row] r IH]; cbn [sp_add map fst snd].
  - rewrite !sum_z_cons. unfold rsum. cbn. lia.
  - destruct (Z.eqb_spec t' t) as [->|Hne]; cbn [map fst snd]; rewrite !sum_z_cons.
    + rewrite rsum_inner_add. lia.
    + rewrite IH. lia.
Qed.

Lemma wsum_nil P : wsum P [] = 0.
Proof. reflexivity. Qed.

(* the dense specification is a weighted sum *)
Lemma spec_cell_wsum G S H s b :
  spec_cell G S H s b = wsum (fun t k => (Z.quot t S <=? s) && (Z.quot k G =? b)) H.
Proof.
  unfold spec_cell, wsum. f_equal. apply map_ext. intros [t row]. cbn [fst snd].
  unfold row_band_sum, rsum. destruct (Z.quot t S <=? s); cbn [andb].
  - reflexivity.
  - induction row as [|x r IH]; [reflexivity|]. cbn [map]. rewrite sum_z_cons. lia.
Qed.

Lemma wsum_ext P Q H : (forall t k, P t k = Q t k) -> wsum P H = wsum Q H.
Proof.
  intros E. unfold wsum, rsum. f_equal. apply map_ext. intros [t row]. cbn [fst snd].
  f_equal. apply map_ext. intros [k d]. cbn [fst snd]. rewrite E. reflexivity.
Qed.

(* keys *)
Definition keys (H : list (Z * list (Z * Z))) : list Z := map fst H.

Lemma keys_sp_add H t k d x : In x (keys (sp_add H t k d)) <-> x = t \/ In x (keys H).
Proof.
  unfold keys. induction H as [|[t' row] r IH]; cbn [sp_add map fst].
  - cbn. intuition.
  - destruct (Z.eqb_spec t' t) as [->|Hne]; cbn [map fst In].
    + intuition.
    + rewrite IH. intuition.
Qed.

Lemma nodup_keys_sp_add H t k d : NoDup (keys H) -> NoDup (keys (sp_add H t k d)).
Proof.
  unfold keys. induction H as [|[t' row] r IH]; cbn [sp_add map fst]; intros Hnd.
  - constructor; [cbn; tauto|constructor].
  - destruct (Z.eqb_spec t' t) as [->|Hne]; cbn [map fst]; auto.
    inversion Hnd; subst. constructor; auto.
    intros Hin. apply (keys_sp_add r t k d t') in Hin. destruct Hin; [congruence|tauto].
Qed.

(* inner keys stay within a bound *)
Definition inner_le (H : list (Z * list (Z * Z))) : Prop :=
  forall tr, In tr H -> forall kd, In kd (snd tr) -> 0 <= fst kd <= fst tr.

Lemma inner_add_in row k d kd : In kd (inner_add row k d) -> fst kd = k \/ exists kd', In kd' row /\ fst kd' = fst kd.
Proof.
  induction row as [|[k' v] r IH]; cbn [inner_add In].
  - intros [<-|[]]. left; reflexivity.
  - destruct (Z.eqb_spec k' k) as [->|Hne]; cbn [In].
    + intros [<-|Hin]; [left; reflexivity|right; eauto].
    + intros [<-|Hin]; [right; exists (k', v); auto|].
      destruct (IH Hin) as [E|(kd' & ? & ?)]; [auto|right; eauto].
Qed.

Lemma inner_le_sp_add H t k d : inner_le H -> 0 <= k <= t -> inner_le (sp_add H t k d).
Proof.
  unfold inner_le. induction H as [|[t' row] r IH]; cbn [sp_add]; intros HI Hk tr Hin kd Hkd.
  - destruct Hin as [<-|[]]. cbn in Hkd. destruct Hkd as [<-|[]]. cbn. lia.
  - destruct (Z.eqb_spec t' t) as [->|Hne].
    + destruct Hin as [<-|Hin].
      * cbn [snd fst] in *. apply inner_add_in in Hkd. destruct Hkd as [->|(kd' & Hin' & <-)]; [lia|].
        apply (HI (t, row)); [left; auto|auto].
      * apply (HI tr); [right; auto|auto].
    + destruct Hin as [<-|Hin].
      * apply (HI (t', row)); [left; auto|auto].
      * apply (IH (fun tr' Hin' => HI tr' (or_intror Hin')) Hk tr Hin kd Hkd).
Qed.
